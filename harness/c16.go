package main

// C16 correspondence: a REAL plugin subprocess (this binary re-executed as
// `gpv plugin kit`) started with exec directly — not through plugin.Client —
// under every cookie-environment class × serve configuration.  Observed: exit
// status, the raw first stdout line, anything else on the real stdout in the
// following 300 ms, the listing of the private socket directory, and an
// immediate connect to the announced address the moment the line is read.

import (
	"bytes"
	"crypto/x509"
	"encoding/base64"
	"encoding/json"
	"fmt"
	"io"
	"net"
	"os"
	"os/exec"
	"path/filepath"
	"sort"
	"strconv"
	"strings"
	"sync"
	"time"

	plugin "github.com/hashicorp/go-plugin"
)

func init() { register("C16", hostC16) }

const c16MuxVar = "PLUGIN_MULTIPLEX_GRPC"

// c16Case is one launch.
type c16Case struct {
	cookie string // class name (documentation; the behaviour is determined by key/val/env below)
	key    string // ServeConfig.MagicCookieKey
	val    string // ServeConfig.MagicCookieValue
	// cookie part of the child's environment ("K=V" entries)
	cenv []string
	// serve configuration
	sets     map[int]string // version -> netrpc|grpc
	legacy   int            // >0: ServeConfig.ProtocolVersion + Plugins (netrpc) instead of sets
	versions string         // PLUGIN_PROTOCOL_VERSIONS ("" with versSet=false: unset)
	versSet  bool
	mux      string // PLUGIN_MULTIPLEX_GRPC
	muxSet   bool
	cert     bool // PLUGIN_CLIENT_CERT = a real PEM certificate
	static   bool // plugin has a TLSProvider (static TLS): no AutoMTLS certificate is generated
	sockEnv  bool // PLUGIN_UNIX_SOCKET_DIR set (else the private dir is given as TMPDIR)
}

// getenv is what os.Getenv(k) yields in the child (exec.Cmd de-duplicates keeping the last entry).
func c16Getenv(env []string, k string) string {
	if k == "" {
		return ""
	}
	v := ""
	for _, e := range env {
		if strings.HasPrefix(e, k+"=") {
			v = e[len(k)+1:]
		}
	}
	return v
}

func (c *c16Case) setsString() string {
	var ks []int
	for k := range c.sets {
		ks = append(ks, k)
	}
	sort.Ints(ks)
	var ss []string
	for _, k := range ks {
		ss = append(ss, fmt.Sprintf("%d:%s", k, c.sets[k]))
	}
	if len(ss) == 0 {
		return "_"
	}
	return strings.Join(ss, ",")
}

// expected negotiation, computed here independently of go-plugin: the highest
// plugin version the host listed, else the lowest plugin version.
func (c *c16Case) expected() (ver int, proto string) {
	sets := c.sets
	if c.legacy > 0 {
		sets = map[int]string{c.legacy: "netrpc"}
	}
	var pv []int
	for v := range sets {
		pv = append(pv, v)
	}
	sort.Ints(pv)
	var cv = map[int]bool{}
	if c.versSet {
		for _, s := range strings.Split(c.versions, ",") {
			if v, err := strconv.Atoi(s); err == nil {
				cv[v] = true
			}
		}
	}
	ver = pv[0]
	for i := len(pv) - 1; i >= 0; i-- {
		if cv[pv[i]] {
			ver = pv[i]
			break
		}
	}
	return ver, sets[ver]
}

// envCookie / line: the case line carries everything needed to re-run the launch.
func (c *c16Case) line(addr, cert string) string {
	ver, proto := c.expected()
	envset := "unset"
	for _, e := range c.cenv {
		if strings.HasPrefix(e, c.key+"=") && c.key != "" {
			envset = "set"
		}
	}
	return fmt.Sprintf("C16 cookie=%s key=%s val=%s cenv=%s envval=%s envset=%s sets=%s legacy=%d versions=%s mux=%s muxset=%s ccert=%s static=%s sockenv=%s ver=%d net=%s proto=%s addr=%s cert=%s",
		c.cookie, hxs(c.key), hxs(c.val), joinHex(c.cenv), hxs(c16Getenv(c.cenv, c.key)), envset, c.setsString(), c.legacy,
		map[bool]string{true: hxs(c.versions), false: "unset"}[c.versSet],
		hxs(map[bool]string{true: c.mux, false: ""}[c.muxSet]), b01(c.muxSet), b01(c.cert), b01(c.static), b01(c.sockEnv),
		ver, hxs("unix"), hxs(proto), hxs(addr), hxs(cert))
}

func c16FromLine(m map[string]string) *c16Case {
	c := &c16Case{cookie: m["cookie"], key: string(unhx(m["key"])), val: string(unhx(m["val"])),
		muxSet: m["muxset"] == "1", cert: m["ccert"] == "1", static: m["static"] == "1", sockEnv: m["sockenv"] == "1"}
	for _, e := range splitComma(m["cenv"]) {
		c.cenv = append(c.cenv, string(unhx(e)))
	}
	if c.muxSet {
		c.mux = string(unhx(m["mux"]))
	}
	if m["versions"] != "unset" {
		c.versSet = true
		c.versions = string(unhx(m["versions"]))
	}
	c.legacy, _ = strconv.Atoi(m["legacy"])
	c.sets = map[int]string{}
	for _, s := range splitComma(m["sets"]) {
		p := strings.SplitN(s, ":", 2)
		v, _ := strconv.Atoi(p[0])
		c.sets[v] = p[1]
	}
	return c
}

var (
	c16CertOnce                 sync.Once
	c16ClientPEM                string
	c16StaticCert, c16StaticKey string
)

func c16Certs() {
	c16CertOnce.Do(func() {
		certPEM, _, err := plugin.VerifGenerateCert()
		if err != nil {
			panic(err)
		}
		c16ClientPEM = string(certPEM)
		c16StaticCert, c16StaticKey = genStaticCert()
	})
}

// c16Obs is what one launch showed.
type c16Obs struct {
	hang      bool
	gotLine   bool
	line      []byte // first stdout line without '\n'
	rest      []byte // everything else seen on stdout
	exited    bool   // the process ended by itself
	exitCode  int
	dialOK    bool
	dialErr   string
	dirBefore []string // socket dir listing when the line was read / the process ended
	stderrLen int
}

func c16Run(c *c16Case, idx int) c16Obs {
	c16Certs()
	var o c16Obs
	work := os.Getenv("VERIF_WORK")
	if work == "" {
		work = os.TempDir()
	}
	dir, err := os.MkdirTemp(work, fmt.Sprintf("s%d-", idx))
	if err != nil {
		panic(err)
	}
	defer os.RemoveAll(dir)

	cfg := kitServeCfg{CookieKey: c.key, CookieVal: c.val}
	if c.legacy > 0 {
		cfg.LegacyVersion, cfg.LegacyProto = c.legacy, "netrpc"
	} else {
		cfg.Sets = map[string]string{}
		for v, p := range c.sets {
			cfg.Sets[strconv.Itoa(v)] = p
			if p == "grpc" {
				cfg.GRPCServer = true
			}
		}
	}
	if c.static {
		cfg.TLS, cfg.CertPEM, cfg.KeyPEM = "static", c16StaticCert, c16StaticKey
	}
	env := append([]string{}, c.cenv...)
	if c.sockEnv {
		env = append(env, plugin.EnvUnixSocketDir+"="+dir)
	} else {
		env = append(env, "TMPDIR="+dir)
	}
	if c.versSet {
		env = append(env, "PLUGIN_PROTOCOL_VERSIONS="+c.versions)
	}
	if c.muxSet {
		env = append(env, c16MuxVar+"="+c.mux)
	}
	if c.cert {
		env = append(env, "PLUGIN_CLIENT_CERT="+c16ClientPEM)
	}
	// kitCmd substitutes the default cookie when both key and value are empty, so the
	// command is built here (same shape) to keep the configured cookie exactly as given.
	js, _ := json.Marshal(cfg)
	cmd := exec.Command(selfExe(), "plugin", "kit")
	cmd.Env = append([]string{"GPV_PLUGIN_CFG=" + string(js)}, env...)
	cmd.Dir = dir

	pr, pw, err := os.Pipe()
	if err != nil {
		panic(err)
	}
	var stderr bytes.Buffer
	cmd.Stdout = pw
	cmd.Stderr = &stderr
	if err := cmd.Start(); err != nil {
		pw.Close()
		pr.Close()
		panic(err)
	}
	pw.Close()
	defer pr.Close()

	waitCh := make(chan error, 1)
	go func() { waitCh <- cmd.Wait() }()
	kill := func() {
		cmd.Process.Kill()
		select {
		case <-waitCh:
		case <-time.After(10 * time.Second):
		}
	}

	type chunk struct {
		b   []byte
		eof bool
	}
	chunks := make(chan chunk, 64)
	go func() {
		buf := make([]byte, 4096)
		for {
			n, err := pr.Read(buf)
			if n > 0 {
				chunks <- chunk{b: append([]byte{}, buf[:n]...)}
			}
			if err != nil {
				chunks <- chunk{eof: true}
				return
			}
		}
	}()

	var acc []byte
	eof := false
	deadline := time.After(20 * time.Second)
	// phase 1: up to the first '\n', EOF, or the watchdog
	for !eof && bytes.IndexByte(acc, '\n') < 0 {
		select {
		case ch := <-chunks:
			if ch.eof {
				eof = true
			} else {
				acc = append(acc, ch.b...)
			}
		case <-deadline:
			o.hang = true
			o.dirBefore = listDir(dir)
			kill()
			o.rest = acc
			return o
		}
	}
	if i := bytes.IndexByte(acc, '\n'); i >= 0 {
		// the line has just appeared: connect at once
		o.gotLine = true
		o.line = append([]byte{}, acc[:i]...)
		parts := strings.Split(string(o.line), "|")
		if len(parts) >= 4 {
			conn, err := net.DialTimeout(parts[2], parts[3], 2*time.Second)
			if err == nil {
				o.dialOK = true
				// held open until the process is killed: a connection that is closed at once makes a
				// multiplexing gRPC plugin's accept loop fail and the plugin exit (not C16's subject)
				defer conn.Close()
			} else {
				o.dialErr = err.Error()
			}
		}
		o.dirBefore = listDir(dir)
		acc = acc[i+1:]
		// phase 2: anything else on the real stdout in the next 300 ms?
		quiet := time.After(300 * time.Millisecond)
	loop:
		for !eof {
			select {
			case ch := <-chunks:
				if ch.eof {
					eof = true
				} else {
					acc = append(acc, ch.b...)
				}
			case <-quiet:
				break loop
			}
		}
		o.rest = acc
		select {
		case err := <-waitCh:
			o.exited = true
			o.exitCode = exitCodeOf(err)
		default:
			kill()
		}
		o.stderrLen = stderr.Len()
		return o
	}
	// stdout closed without a line: the process is ending by itself
	o.rest = acc
	select {
	case err := <-waitCh:
		o.exited = true
		o.exitCode = exitCodeOf(err)
	case <-time.After(10 * time.Second):
		o.hang = true
		kill()
	}
	o.dirBefore = listDir(dir)
	o.stderrLen = stderr.Len()
	return o
}

// c16Chatty: a serving plugin whose implementation prints to os.Stdout / os.Stderr inside an RPC (go-plugin has swapped
// those for its pipes by then): the plugin's REAL stdout must still carry nothing but the handshake line.
func c16Chatty(proto string, idx int) (impl, pred string) {
	work := os.Getenv("VERIF_WORK")
	if work == "" {
		work = os.TempDir()
	}
	dir, err := os.MkdirTemp(work, fmt.Sprintf("chatty%d-", idx))
	if err != nil {
		return "setup-error", "FAIL:setup"
	}
	defer os.RemoveAll(dir)
	cmd := kitCmd(kitServeCfg{Sets: map[string]string{"3": proto}, GRPCServer: proto == "grpc"}, "TMPDIR="+dir,
		kitCookieKey+"="+kitCookieVal, "PLUGIN_PROTOCOL_VERSIONS=3")
	pr, pw, err := os.Pipe()
	if err != nil {
		return "setup-error", "FAIL:setup"
	}
	defer pr.Close()
	cmd.Stdout = pw
	cmd.Stderr = io.Discard
	if err := cmd.Start(); err != nil {
		pw.Close()
		return "setup-error", "FAIL:setup"
	}
	pw.Close()
	defer func() { cmd.Process.Kill(); cmd.Wait() }()
	var mu sync.Mutex
	var acc []byte
	go func() {
		buf := make([]byte, 4096)
		for {
			n, err := pr.Read(buf)
			mu.Lock()
			acc = append(acc, buf[:n]...)
			mu.Unlock()
			if err != nil {
				return
			}
		}
	}()
	line := ""
	for dl := time.Now().Add(10 * time.Second); time.Now().Before(dl); time.Sleep(10 * time.Millisecond) {
		mu.Lock()
		i := bytes.IndexByte(acc, '\n')
		if i >= 0 {
			line = string(acc[:i])
		}
		mu.Unlock()
		if line != "" {
			break
		}
	}
	parts := strings.Split(line, "|")
	if len(parts) < 5 {
		return fmt.Sprintf("noline:%s", hxs(line)), "FAIL:no-handshake-line"
	}
	var addr net.Addr
	if parts[2] == "unix" {
		addr = &net.UnixAddr{Name: parts[3], Net: "unix"}
	} else {
		addr, _ = net.ResolveTCPAddr("tcp", parts[3])
	}
	client := plugin.NewClient(&plugin.ClientConfig{
		HandshakeConfig: kitHandshake(), Plugins: kitHostSets(map[int]string{3: proto}, nil, nil)[3],
		AllowedProtocols: []plugin.Protocol{plugin.ProtocolNetRPC, plugin.ProtocolGRPC}, Logger: nullLogger(),
		Reattach:   &plugin.ReattachConfig{Protocol: plugin.Protocol(proto), ProtocolVersion: 3, Addr: addr, Pid: cmd.Process.Pid},
		SyncStdout: io.Discard, SyncStderr: io.Discard,
	})
	called := false
	withTimeout(10*time.Second, func() error {
		cp, err := client.Client()
		if err != nil {
			return err
		}
		raw, err := cp.Dispense("kit")
		if err != nil {
			return err
		}
		if err := raw.(Kit).Emit([]byte("hello-from-the-plugin-implementation\n"), []byte("and-on-stderr\n")); err != nil {
			return err
		}
		called = true
		return nil
	})
	time.Sleep(400 * time.Millisecond)
	mu.Lock()
	rest := string(acc[len(line)+1:])
	mu.Unlock()
	impl = fmt.Sprintf("called=%s rest=%d", b01(called), len(rest))
	switch {
	case !called:
		return impl, "FAIL:setup-call"
	case rest != "":
		return impl, "FAIL:further-output-on-real-stdout"
	}
	return impl, "ok"
}

func exitCodeOf(err error) int {
	if err == nil {
		return 0
	}
	if ee, ok := err.(*exec.ExitError); ok {
		return ee.ExitCode() // -1 when killed by a signal
	}
	return -2
}

func listDir(dir string) []string {
	ents, err := os.ReadDir(dir)
	if err != nil {
		return nil
	}
	var out []string
	for _, e := range ents {
		out = append(out, e.Name())
	}
	sort.Strings(out)
	return out
}

func c16FieldHex(fs []string, i int) string {
	if i < len(fs) {
		return hxs(fs[i])
	}
	return "none"
}

// c16Eval turns an observation into (case line, impl, pred).
func c16Eval(c *c16Case, o c16Obs) (string, string, string) {
	addr, cert := "", ""
	fs := strings.Split(string(o.line), "|")
	if o.gotLine {
		if len(fs) > 3 {
			addr = fs[3]
		}
		if len(fs) > 5 {
			cert = fs[5]
		}
	}
	caseLine := c.line(addr, cert)
	shouldServe := c.key != "" && c.val != "" && c16Getenv(c.cenv, c.key) == c.val
	hasSock := len(o.dirBefore) > 0

	var impl string
	switch {
	case o.hang:
		impl = "hang"
	case !o.gotLine:
		ex := "none"
		if o.exited {
			ex = strconv.Itoa(o.exitCode)
		}
		impl = fmt.Sprintf("refused exit=%s out=%s listen=%s", ex, b01(len(o.rest) > 0), b01(hasSock))
	default:
		impl = fmt.Sprintf("served n=%d core=%s ver=%s net=%s proto=%s cert=%s f7=%s nl=1 line=%s extra=%s listenfirst=%s",
			len(fs), c16FieldHex(fs, 0), c16FieldHex(fs, 1), c16FieldHex(fs, 2), c16FieldHex(fs, 4),
			b01(len(fs) > 5 && fs[5] != ""), c16FieldHex(fs, 6), hx(o.line), b01(len(o.rest) > 0), b01(o.dialOK))
	}

	// the property's own predicate, on what the process did
	pred := "ok"
	fail := func(r string) {
		if pred == "ok" {
			pred = "FAIL:" + r
		}
	}
	ver, proto := c.expected()
	switch {
	case o.hang:
		fail("hang")
	case !shouldServe:
		if o.gotLine {
			fail("served-without-cookie")
		}
		if len(o.rest) > 0 {
			fail("stdout-on-refusal")
		}
		if hasSock {
			fail("listener-on-refusal")
		}
		if !o.exited || o.exitCode != 1 {
			fail("exit-status")
		}
	default:
		if !o.gotLine {
			fail("no-line")
			break
		}
		want := 6
		if c.muxSet && c.mux != "" {
			want = 7
		}
		if len(fs) != want {
			fail("field-count")
		}
		if want == 7 && len(fs) == 7 && fs[6] != "true" {
			fail("seventh-field")
		}
		if len(o.rest) > 0 {
			fail("extra-stdout")
		}
		if !o.dialOK {
			fail("not-listening")
		}
		if o.exited {
			fail("exited-after-line")
		}
		if len(fs) >= 6 {
			if fs[0] != "1" {
				fail("core-version")
			}
			if fs[1] != strconv.Itoa(ver) {
				fail("app-version")
			}
			if fs[2] != "unix" {
				fail("network")
			}
			if fs[4] != proto {
				fail("protocol")
			}
			// the socket is the single entry of the private directory
			if len(o.dirBefore) != 1 || filepath.Join(filepath.Dir(fs[3]), o.dirBefore[0]) != fs[3] {
				fail("socket-dir")
			}
			wantCert := c.cert && !c.static
			if wantCert != (fs[5] != "") {
				fail("cert-presence")
			}
			if fs[5] != "" {
				if !c16IsRawB64(fs[5]) {
					fail("cert-alphabet")
				}
				der, err := base64.RawStdEncoding.DecodeString(fs[5])
				if err != nil {
					fail("cert-base64")
				} else if _, err := x509.ParseCertificate(der); err != nil {
					fail("cert-x509")
				}
			}
			if strings.ContainsAny(string(o.line), "\r\n") || strings.TrimSpace(string(o.line)) != string(o.line) {
				fail("line-whitespace")
			}
		}
	}
	return caseLine, impl, pred
}

func c16IsRawB64(s string) bool {
	for i := 0; i < len(s); i++ {
		ch := s[i]
		if !(ch >= 'A' && ch <= 'Z' || ch >= 'a' && ch <= 'z' || ch >= '0' && ch <= '9' || ch == '+' || ch == '/') {
			return false
		}
	}
	return true
}

// ---------------------------------------------------------------- generation

type c16Cookie struct {
	name     string
	key, val string
	env      []string
}

func c16Cookies() []c16Cookie {
	k, v := kitCookieKey, kitCookieVal
	return []c16Cookie{
		{"correct", k, v, []string{k + "=" + v}},
		{"unset", k, v, nil},
		{"different", k, v, []string{k + "=some-other-value"}},
		{"prefix", k, v, []string{k + "=" + v[:len(v)-1]}},
		{"prefix1", k, v, []string{k + "=" + v[:1]}},
		{"suffix", k, v, []string{k + "=" + v[1:]}},
		{"extended", k, v, []string{k + "=" + v + "x"}},
		{"prepended", k, v, []string{k + "=x" + v}},
		{"upper", k, v, []string{k + "=" + strings.ToUpper(v)}},
		{"onecase", k, v, []string{k + "=G" + v[1:]}},
		{"trailing-space", k, v, []string{k + "=" + v + " "}},
		{"trailing-nl", k, v, []string{k + "=" + v + "\n"}},
		{"empty-env", k, v, []string{k + "="}},
		{"key-case", k, v, []string{strings.ToLower(k) + "=" + v}},
		{"key-prefix", k, v, []string{k + "X=" + v}},
		{"cfg-empty-key", "", v, []string{k + "=" + v}},
		{"cfg-empty-key-eqenv", "", v, []string{"=" + v}},
		{"cfg-empty-val-unset", k, "", nil},
		{"cfg-empty-val-emptyenv", k, "", []string{k + "="}},
		{"cfg-empty-val-set", k, "", []string{k + "=" + v}},
		{"cfg-both-empty", "", "", []string{k + "=" + v}},
		{"cfg-both-empty-unset", "", "", nil},
	}
}

type c16Mux struct {
	set bool
	val string
}

func c16Muxes() []c16Mux {
	return []c16Mux{{false, ""}, {true, "true"}, {true, "false"}, {true, "1"}, {true, "x"}, {true, ""}}
}

func c16Generate(r *rng) []*c16Case {
	var cs []*c16Case
	cookies := c16Cookies()
	muxes := c16Muxes()
	mk := func(ck c16Cookie, proto string, mx c16Mux, cert bool) *c16Case {
		return &c16Case{cookie: ck.name, key: ck.key, val: ck.val, cenv: ck.env,
			sets: map[int]string{3: proto}, mux: mx.val, muxSet: mx.set, cert: cert, sockEnv: true,
			versions: "3", versSet: true}
	}
	thorough := tier() == "thorough"
	// (a) serving matrix with the correct cookie: protocol × certificate × multiplexing variable
	for _, proto := range []string{"netrpc", "grpc"} {
		for _, cert := range []bool{false, true} {
			for _, mx := range muxes {
				cs = append(cs, mk(cookies[0], proto, mx, cert))
			}
		}
	}
	// (b) every refusing cookie class under both protocols; the other dimensions vary with the class
	for i, ck := range cookies[1:] {
		for j, proto := range []string{"netrpc", "grpc"} {
			if thorough {
				for _, cert := range []bool{false, true} {
					for _, mx := range muxes {
						cs = append(cs, mk(ck, proto, mx, cert))
					}
				}
			} else {
				cs = append(cs, mk(ck, proto, muxes[(i+3*j)%len(muxes)], (i+j)%2 == 0))
			}
		}
	}
	// (c) version negotiation variants, static TLS, socket dir through TMPDIR (correct cookie, and one refusing class)
	type vv struct {
		sets     map[int]string
		legacy   int
		versions string
		versSet  bool
	}
	variants := []vv{
		{map[int]string{3: "grpc"}, 0, "", false},
		{map[int]string{2: "netrpc", 3: "grpc"}, 0, "2,3", true},
		{map[int]string{2: "netrpc", 3: "grpc"}, 0, "2", true},
		{map[int]string{2: "grpc", 3: "netrpc"}, 0, "1,2,3,4", true},
		{map[int]string{2: "netrpc", 3: "grpc"}, 0, "7", true},
		{map[int]string{2: "netrpc", 3: "grpc"}, 0, "x,3", true},
		{map[int]string{2: "netrpc", 3: "grpc"}, 0, "", true},
		{map[int]string{-3: "grpc", 2: "netrpc"}, 0, "-3", true},
		{map[int]string{0: "netrpc"}, 0, "0", true},
		{map[int]string{1234567890123: "grpc"}, 0, "1234567890123", true},
		{nil, 5, "5", true},
		{nil, 5, "", false},
	}
	for i, v := range variants {
		for _, ck := range []c16Cookie{cookies[0], cookies[1+i%(len(cookies)-1)]} {
			mx := muxes[i%len(muxes)]
			c := &c16Case{cookie: ck.name, key: ck.key, val: ck.val, cenv: ck.env, sets: v.sets, legacy: v.legacy,
				versions: v.versions, versSet: v.versSet, mux: mx.val, muxSet: mx.set, cert: i%3 == 0, sockEnv: i%4 != 1}
			cs = append(cs, c)
		}
	}
	for _, proto := range []string{"netrpc", "grpc"} {
		for _, cert := range []bool{false, true} {
			c := mk(cookies[0], proto, muxes[1], cert)
			c.static = true
			cs = append(cs, c)
		}
	}
	// (d) thorough: seeded random combinations of everything
	if thorough {
		for i := 0; i < 300; i++ {
			q := r.fork(uint64(i))
			ck := cookies[0]
			if q.intn(3) == 0 {
				ck = pick(q, cookies)
			}
			v := pick(q, variants)
			mx := pick(q, muxes)
			cs = append(cs, &c16Case{cookie: ck.name, key: ck.key, val: ck.val, cenv: ck.env, sets: v.sets, legacy: v.legacy,
				versions: v.versions, versSet: v.versSet, mux: mx.val, muxSet: mx.set, cert: q.bool(), static: q.intn(5) == 0,
				sockEnv: q.intn(4) != 0})
		}
	}
	return cs
}

func hostC16(o *out, replay string) {
	if replay != "" {
		_, m := kvLine(replay)
		c := c16FromLine(m)
		obs := c16Run(c, 0)
		cl, impl, pred := c16Eval(c, obs)
		o.emit(cl, impl, pred)
		o.note("replay: line=%q rest=%q exited=%v code=%d dial=%v %s dir=%v stderr=%dB", obs.line, obs.rest, obs.exited,
			obs.exitCode, obs.dialOK, obs.dialErr, obs.dirBefore, obs.stderrLen)
		return
	}
	cases := c16Generate(newRng(seedFromEnv()))
	type res struct{ cl, impl, pred string }
	results := make([]res, len(cases))
	parallel(len(cases), 16, func(i int) {
		defer func() {
			if p := recover(); p != nil {
				results[i] = res{cases[i].line("", ""), fmt.Sprint("panic ", p), "FAIL:harness-panic"}
			}
		}()
		obs := c16Run(cases[i], i)
		cl, impl, pred := c16Eval(cases[i], obs)
		results[i] = res{cl, impl, pred}
	})
	byCookie := map[string]int{}
	byOutcome := map[string]int{}
	served7, served6, withCert := 0, 0, 0
	for i, r := range results {
		o.emit(r.cl, r.impl, r.pred)
		byCookie[cases[i].cookie]++
		byOutcome[strings.SplitN(r.impl, " ", 2)[0]]++
		if strings.HasPrefix(r.impl, "served n=7") {
			served7++
		}
		if strings.HasPrefix(r.impl, "served n=6") {
			served6++
		}
		if strings.Contains(r.impl, " cert=1 ") {
			withCert++
		}
	}
	for i, proto := range []string{"netrpc", "grpc"} {
		impl, pred := c16Chatty(proto, i)
		o.emit("!C16.chatty proto="+proto, impl, pred)
	}
	// a long socket directory: the address on the line is the address the socket lives at
	for _, n := range []int{60, 80, 88} { // (88 + "/plugin" + ten digits = 105: just inside the 107 bytes a Unix socket address holds)
		impl, pred := runDeepSocketDir(n)
		o.emit(fmt.Sprintf("!C16.deep-socket-dir len=%d", n), impl, pred)
	}
	// the refusal when even the warning cannot be written
	for _, ce := range [][]string{{}, {kitCookieKey + "=" + kitCookieVal + "x"}, {kitCookieKey + "="}} {
		impl, pred := runRefusalWithFullStderr(ce)
		o.emit("!C16.refusal-stderr-full cookie="+hxs(strings.Join(ce, " ")), impl, pred)
	}
	// a binary built on ServeMux, started by hand (no cookie / a wrong one), with every kind of command line
	for _, args := range [][]string{{}, {"kit"}, {"nosuch"}, {"--help"}, {"kit", "extra"}} {
		for _, ce := range [][]string{{}, {kitCookieKey + "=" + kitCookieVal + "x"}, {kitCookieKey + "="}} {
			impl, pred := runServeMuxRefusal(args, ce)
			o.emit(fmt.Sprintf("!C16.servemux args=%s cookie=%s", hxs(strings.Join(args, " ")), hxs(strings.Join(ce, " "))), impl, pred)
		}
	}
	o.note("C16 launches=%d (real plugin subprocesses, exec directly) outcomes=%v six-field=%d seven-field=%d with-certificate=%d",
		len(cases), byOutcome, served6, served7, withCert)
	o.note("C16 cookie classes: %v", byCookie)
	o.note("C16 dimensions: protocol netrpc/grpc; PLUGIN_CLIENT_CERT unset/real PEM; static TLSProvider; PLUGIN_MULTIPLEX_GRPC unset/true/false/1/x/empty; " +
		"PLUGIN_PROTOCOL_VERSIONS unset/match/no-match/garbage/empty, negative, zero and 13-digit versions, legacy ProtocolVersion; socket dir via PLUGIN_UNIX_SOCKET_DIR or TMPDIR")
}
