package main

// A plugin that is NOT a child of the host that reattaches to it (the normal reason to reattach: the host that launched
// the plugin is another process).  `gpv plugin relaunch` launches the kit plugin as ITS child through a real
// plugin.Client, prints the reattach configuration, and keeps it alive until its stdin is closed.

import (
	"bufio"
	"encoding/json"
	"fmt"
	"io"
	"net"
	"os"
	"os/exec"
	"strings"
	"time"

	plugin "github.com/hashicorp/go-plugin"
)

func init() { registerPlugin("relaunch", pluginRelaunch) }

func pluginRelaunch(args []string) {
	proto := os.Getenv("GPV_RELAUNCH_PROTO")
	cmd := exec.Command(selfExe(), "plugin", "kit")
	cmd.Env = os.Environ() // carries GPV_PLUGIN_CFG, TMPDIR …
	c := plugin.NewClient(&plugin.ClientConfig{
		HandshakeConfig:  kitHandshake(),
		VersionedPlugins: kitHostSets(map[int]string{3: proto}, nil, nil),
		AllowedProtocols: []plugin.Protocol{plugin.ProtocolNetRPC, plugin.ProtocolGRPC},
		Cmd:              cmd,
		Logger:           nullLogger(),
		StartTimeout:     10 * time.Second,
		SkipHostEnv:      true,
	})
	if _, err := c.Start(); err != nil {
		fmt.Printf("ERR %v\n", err)
		os.Exit(3)
	}
	rc := c.ReattachConfig()
	b, _ := json.Marshal(testServeWire{string(rc.Protocol), rc.ProtocolVersion, rc.Addr.Network(), rc.Addr.String(), rc.Pid, rc.Test})
	fmt.Printf("CFG %s\n", b)
	io.Copy(io.Discard, os.Stdin) // until the harness closes our stdin
	if cmd.Process != nil {
		cmd.Process.Kill()
	}
	os.Exit(0)
}

type detachedPlugin struct {
	cmd   *exec.Cmd
	stdin io.WriteCloser
	rc    *plugin.ReattachConfig
}

// startDetachedPlugin: the kit plugin configured by kc, launched by an intermediate process; rc.Pid is a grandchild of the harness.
func startDetachedPlugin(kc kitServeCfg, proto string, extraEnv ...string) (*detachedPlugin, error) {
	inner := kitCmd(kc, extraEnv...)
	cmd := exec.Command(selfExe(), "plugin", "relaunch")
	cmd.Env = append(inner.Env, "GPV_RELAUNCH_PROTO="+proto)
	stdin, err := cmd.StdinPipe()
	if err != nil {
		return nil, err
	}
	stdout, err := cmd.StdoutPipe()
	if err != nil {
		return nil, err
	}
	if err := cmd.Start(); err != nil {
		return nil, err
	}
	d := &detachedPlugin{cmd: cmd, stdin: stdin}
	lineCh := make(chan string, 1)
	go func() {
		sc := bufio.NewScanner(stdout)
		sent := false
		for sc.Scan() {
			if !sent {
				lineCh <- sc.Text()
				sent = true
			}
		}
		if !sent {
			lineCh <- "ERR no output"
		}
		cmd.Wait()
	}()
	select {
	case l := <-lineCh:
		if !strings.HasPrefix(l, "CFG ") {
			d.stop()
			return nil, fmt.Errorf("relaunch: %s", l)
		}
		var w testServeWire
		if json.Unmarshal([]byte(l[4:]), &w) != nil {
			d.stop()
			return nil, fmt.Errorf("relaunch: bad config line")
		}
		var addr net.Addr
		if w.Network == "unix" {
			addr, err = net.ResolveUnixAddr("unix", w.Address)
		} else {
			addr, err = net.ResolveTCPAddr("tcp", w.Address)
		}
		if err != nil {
			d.stop()
			return nil, err
		}
		d.rc = &plugin.ReattachConfig{Protocol: plugin.Protocol(w.Protocol), ProtocolVersion: w.ProtocolVersion, Addr: addr, Pid: w.Pid, Test: w.Test}
		return d, nil
	case <-time.After(15 * time.Second):
		d.stop()
		return nil, fmt.Errorf("relaunch: no reattach config in 15 s")
	}
}

func (d *detachedPlugin) stop() {
	d.stdin.Close()
	if d.rc != nil && d.rc.Pid > 0 {
		if p, err := os.FindProcess(d.rc.Pid); err == nil {
			p.Kill()
		}
	}
	done := make(chan struct{})
	go func() { d.cmd.Wait(); close(done) }()
	select {
	case <-done:
	case <-time.After(3 * time.Second):
		d.cmd.Process.Kill()
	}
}

// runReattachAged (C03): a host reattaches to a plugin launched by another process, the plugin keeps running for `age`,
// then crashes (SIGKILL).  The client must report it as exited — and Kill must return — within a poll interval.
func runReattachAged(proto string, age time.Duration) (impl, pred string) {
	base := fmt.Sprintf("%s/c03-aged-%d-%s", os.Getenv("VERIF_WORK"), os.Getpid(), proto)
	os.MkdirAll(base, 0o755)
	defer os.RemoveAll(base)
	det, err := startDetachedPlugin(kitServeCfg{Sets: map[string]string{"3": proto}, GRPCServer: proto == "grpc"}, proto, "TMPDIR="+base)
	if err != nil {
		return "setup-error", "FAIL:setup-detached"
	}
	defer det.stop()
	client := plugin.NewClient(&plugin.ClientConfig{
		HandshakeConfig:  kitHandshake(),
		Plugins:          kitHostSets(map[int]string{3: proto}, nil, nil)[3],
		AllowedProtocols: []plugin.Protocol{plugin.ProtocolNetRPC, plugin.ProtocolGRPC},
		Reattach:         det.rc,
		Logger:           nullLogger(),
	})
	defer func() { withTimeout(8*time.Second, func() error { client.Kill(); return nil }) }()
	cp, err := client.Client()
	if err != nil {
		return "setup-error", "FAIL:setup-reattach"
	}
	raw, err := cp.Dispense("kit")
	if err != nil {
		return "setup-error", "FAIL:setup-dispense"
	}
	kit := raw.(Kit)
	deadline := time.Now().Add(age)
	for time.Now().Before(deadline) {
		if v, err := kit.Double(2); err != nil || v != 7 {
			return "setup-error", "FAIL:setup-double"
		}
		if client.Exited() {
			return "exited-while-running", "FAIL:reattached-plugin-reported-exited-while-running"
		}
		time.Sleep(500 * time.Millisecond)
	}
	if p, err := os.FindProcess(det.rc.Pid); err == nil {
		p.Kill()
	}
	t0 := time.Now()
	for !client.Exited() && time.Since(t0) < 6*time.Second {
		time.Sleep(50 * time.Millisecond)
	}
	seen := time.Since(t0)
	_, khung, kpp := withTimeout(6*time.Second, func() error { client.Kill(); return nil })
	impl = fmt.Sprintf("exited=%s seen_ms=%d kill=%s", b01(client.Exited()), seen.Milliseconds(), map[bool]string{true: "hang", false: "ok"}[khung])
	switch {
	case !client.Exited() || seen > 2500*time.Millisecond:
		return impl, "FAIL:crash-of-reattached-plugin-not-reported-in-time"
	case khung:
		return impl, "FAIL:kill-hung-after-crash"
	case kpp != nil:
		return impl, "FAIL:kill-panic"
	}
	return impl, "ok"
}

// runTestModeProcDies (C03): a plugin served in TEST mode by a separate process (one run under a debugger, say); the host
// attaches with the test-mode reattach configuration; the process dies: the client reports it as exited, the context
// handed to gRPC plugin clients is cancelled.
func runTestModeProcDies(proto string) (impl, pred string) {
	base := fmt.Sprintf("%s/c03-tm-%d-%s", os.Getenv("VERIF_WORK"), os.Getpid(), proto)
	os.MkdirAll(base, 0o755)
	defer os.RemoveAll(base)
	tp, err := startTestServerProc(proto, base)
	if err != nil {
		return "setup-error", "FAIL:setup-testserver"
	}
	defer tp.stop()
	client := plugin.NewClient(&plugin.ClientConfig{
		HandshakeConfig:  kitHandshake(),
		Plugins:          kitHostSets(map[int]string{3: proto}, nil, nil)[3],
		AllowedProtocols: []plugin.Protocol{plugin.ProtocolNetRPC, plugin.ProtocolGRPC},
		Reattach:         tp.rc,
		Logger:           nullLogger(),
	})
	defer func() { withTimeout(8*time.Second, func() error { client.Kill(); return nil }) }()
	cp, err := client.Client()
	if err != nil {
		return "setup-error", "FAIL:setup-reattach"
	}
	raw, err := cp.Dispense("kit")
	if err != nil {
		return "setup-error", "FAIL:setup-dispense"
	}
	kit := raw.(Kit)
	if _, err := kit.Double(2); err != nil {
		return "setup-error", "FAIL:setup-double"
	}
	if client.Exited() {
		return "exited-while-running", "FAIL:reported-exited-while-running"
	}
	tp.cmd.Process.Kill()
	t0 := time.Now()
	for !client.Exited() && time.Since(t0) < 6*time.Second {
		time.Sleep(50 * time.Millisecond)
	}
	seen := time.Since(t0)
	ctx := "-"
	if gk, ok := kit.(*kitGRPCClient); ok {
		select {
		case <-gk.ctx.Done():
			ctx = "1"
		case <-time.After(3 * time.Second):
			ctx = "0"
		}
	}
	impl = fmt.Sprintf("exited=%s seen_ms=%d ctx=%s", b01(client.Exited()), seen.Milliseconds(), ctx)
	switch {
	case !client.Exited() || seen > 2500*time.Millisecond:
		return impl, "FAIL:death-of-test-mode-plugin-process-not-reported"
	case ctx == "0":
		return impl, "FAIL:ctx-not-cancelled"
	}
	return impl, "ok"
}

// runTestModeAfterStop (C15): a test-mode plugin served by a separate process has STOPPED (the process is gone); reattaching
// with its (test-mode) reattach configuration fails with the process-not-found error, like any other reattach to nothing.
func runTestModeAfterStop(proto string) (impl, pred string) {
	base := fmt.Sprintf("%s/c15-tm-%d-%s", os.Getenv("VERIF_WORK"), os.Getpid(), proto)
	os.MkdirAll(base, 0o755)
	defer os.RemoveAll(base)
	tp, err := startTestServerProc(proto, base)
	if err != nil {
		return "setup-error", "FAIL:setup-testserver"
	}
	rc := tp.rc
	mk := func() *plugin.Client {
		return plugin.NewClient(&plugin.ClientConfig{
			HandshakeConfig:  kitHandshake(),
			Plugins:          kitHostSets(map[int]string{3: proto}, nil, nil)[3],
			AllowedProtocols: []plugin.Protocol{plugin.ProtocolNetRPC, plugin.ProtocolGRPC},
			Reattach:         rc,
			Logger:           nullLogger(),
		})
	}
	// while it is up, reattaching works (and Kill leaves it running)
	c1 := mk()
	if _, err := c1.Start(); err != nil {
		tp.stop()
		return "setup-error", "FAIL:setup-live-reattach"
	}
	// "with the same protocol": the plugin serves the plugin set of version 3 (its handshake configuration carries no
	// version of its own), so that is the version its reattach configuration names and the reattached client reports
	if rc.ProtocolVersion != 3 || c1.NegotiatedVersion() != 3 || string(rc.Protocol) != proto {
		impl = fmt.Sprintf("cfgversion=%d negotiated=%d cfgproto=%s", rc.ProtocolVersion, c1.NegotiatedVersion(), rc.Protocol)
		withTimeout(6*time.Second, func() error { c1.Kill(); return nil })
		tp.stop()
		return impl, "FAIL:test-mode-reattach-config-names-another-protocol-version"
	}
	withTimeout(6*time.Second, func() error { c1.Kill(); return nil })
	tp.stop()
	waitDead(rc.Pid, 3*time.Second)
	// (the main thread of a killed multi-threaded process can be a zombie while its other threads, and with them its
	// descriptors, are still going away: wait until nothing accepts on the address any more)
	for dl := time.Now().Add(3 * time.Second); time.Now().Before(dl); time.Sleep(20 * time.Millisecond) {
		cn, derr := net.Dial(rc.Addr.Network(), rc.Addr.String())
		if derr != nil {
			break
		}
		cn.Close()
	}
	c2 := mk()
	var serr error
	_, hung, pp := withTimeout(10*time.Second, func() error { _, serr = c2.Start(); return nil })
	defer withTimeout(6*time.Second, func() error { c2.Kill(); return nil })
	switch {
	case hung || pp != nil:
		return "start-hung", "FAIL:start-hung"
	case serr == nil:
		return "start=ok", "FAIL:reattached-to-a-stopped-test-mode-plugin"
	case serr.Error() != "Reattachment process not found":
		return "start=err:" + strings.ReplaceAll(serr.Error(), " ", "_"), "FAIL:wrong-error-for-dead-target"
	}
	return "start=notfound", "ok"
}
