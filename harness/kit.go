package main

// The "kit" plugin: one small service implemented over both wire protocols
// (net/rpc with MuxBroker, gRPC with GRPCBroker using the repository's own
// test/grpc proto), used by every scenario that needs a real plugin.
//
//	Double(n)       -> 2n + tag      (tag identifies the plugin set / instance; n = -7777 reads the state cell)
//	Cmd(key, val)   -> side effects in the plugin process (set state, exit, kill, sleep, …)
//	Emit(out, err)  -> writes to the plugin's os.Stdout / os.Stderr
//	Callback()      -> brokered round trip in both directions

import (
	"context"
	"errors"
	"fmt"
	"io"
	"net/rpc"
	"os"
	"strings"
	"sync"
	"sync/atomic"
	"syscall"
	"time"

	"github.com/golang/protobuf/ptypes/empty"
	plugin "github.com/hashicorp/go-plugin"
	grpctest "github.com/hashicorp/go-plugin/test/grpc"
	"google.golang.org/grpc"
)

type Kit interface {
	Double(n int) (int, error)
	Cmd(key string, val int) error
	Emit(stdout, stderr []byte) error
	Callback() error
}

const kitReadState = -7777

// ---------------------------------------------------------------- implementation (plugin side)

type kitImpl struct {
	tag int
	mu  sync.Mutex
}

// kitState is the plugin process's state cell (process-wide: net/rpc creates one
// implementation object per Dispense, gRPC one per process; the cell identifies the instance).
var kitState int64

func (k *kitImpl) Double(n int) (int, error) {
	if n == kitReadState {
		return int(atomic.LoadInt64(&kitState)), nil
	}
	return 2*n + k.tag, nil
}

func (k *kitImpl) Cmd(key string, val int) error {
	switch key {
	case "set":
		atomic.StoreInt64(&kitState, int64(val))
	case "exit":
		os.Exit(val)
	case "kill":
		syscall.Kill(os.Getpid(), syscall.SIGKILL)
		time.Sleep(time.Hour)
	case "stop":
		syscall.Kill(os.Getpid(), syscall.SIGSTOP)
	case "sleep":
		time.Sleep(time.Duration(val) * time.Millisecond)
	case "exit-later":
		go func() { time.Sleep(time.Duration(val) * time.Millisecond); os.Exit(3) }()
	case "kill-later":
		go func() {
			time.Sleep(time.Duration(val) * time.Millisecond)
			syscall.Kill(os.Getpid(), syscall.SIGKILL)
		}()
	case "rawout":
		// lines on the REAL stdout (fd 1; Serve has replaced os.Stdout by its own pipe), after the handshake line
		for i := 0; i < val; i++ {
			syscall.Write(1, []byte(fmt.Sprintf("extra stdout line %d\n", i)))
		}
	case "lastwords":
		// val numbered lines on the REAL stderr (fd 2), then the process ends: its last words
		for i := 0; i < val; i++ {
			syscall.Write(2, []byte(fmt.Sprintf("last words %06d %s\n", i, strings.Repeat("w", 70))))
		}
		os.Exit(0)
	case "noop":
	default:
		return fmt.Errorf("unknown kit command %q", key)
	}
	return nil
}

func (k *kitImpl) Emit(stdout, stderr []byte) error {
	k.mu.Lock()
	defer k.mu.Unlock()
	if len(stdout) > 0 {
		if _, err := os.Stdout.Write(stdout); err != nil {
			return err
		}
	}
	if len(stderr) > 0 {
		if _, err := os.Stderr.Write(stderr); err != nil {
			return err
		}
	}
	return nil
}

func (k *kitImpl) Callback() error { return errors.New("callback is driven from the host side") }

// ---------------------------------------------------------------- plugin.Plugin for both protocols

// kitPlugin serves/consumes the kit over net/rpc; kitGRPCPlugin over gRPC.
type kitPlugin struct {
	tag int
	// onClient is called on the host with the broker handed to Client/GRPCClient.
	onMuxBroker  func(*plugin.MuxBroker)
	onGRPCBroker func(*plugin.GRPCBroker)
}

var _ plugin.Plugin = (*kitPlugin)(nil)

func (p *kitPlugin) Server(b *plugin.MuxBroker) (interface{}, error) {
	return &kitRPCServer{impl: &kitImpl{tag: p.tag}, broker: b}, nil
}

func (p *kitPlugin) Client(b *plugin.MuxBroker, c *rpc.Client) (interface{}, error) {
	if p.onMuxBroker != nil {
		p.onMuxBroker(b)
	}
	return &kitRPCClient{c: c, broker: b}, nil
}

type kitGRPCPlugin struct {
	kitPlugin
}

var _ plugin.GRPCPlugin = (*kitGRPCPlugin)(nil)

// kitEarlyAccept: brokered IDs the plugin accepts (and serves ping-pong on) while its gRPC server is being INITIALISED,
// i.e. before any host has connected, let alone opened the broker stream (GPV_EARLY_ACCEPT=1,2,3)
func kitEarlyAccept(b *plugin.GRPCBroker) {
	for _, f := range strings.Split(os.Getenv("GPV_EARLY_ACCEPT"), ",") {
		var id uint32
		if _, err := fmt.Sscanf(f, "%d", &id); err == nil && id != 0 {
			go servePingPong(b, id)
		}
	}
}

func (p *kitGRPCPlugin) GRPCServer(b *plugin.GRPCBroker, s *grpc.Server) error {
	grpctest.RegisterTestServer(s, &kitGRPCServer{impl: &kitImpl{tag: p.tag}, broker: b})
	kitEarlyAccept(b)
	return nil
}

// kitGRPCPluginOnly: a second gRPC plugin name on the plugin side that registers no service of its own
type kitGRPCPluginOnly struct{ plugin.NetRPCUnsupportedPlugin }

func (p *kitGRPCPluginOnly) GRPCServer(b *plugin.GRPCBroker, s *grpc.Server) error { return nil }
func (p *kitGRPCPluginOnly) GRPCClient(ctx context.Context, b *plugin.GRPCBroker, c *grpc.ClientConn) (interface{}, error) {
	return nil, errors.New("plugin-only has no client")
}

func (p *kitGRPCPlugin) GRPCClient(ctx context.Context, b *plugin.GRPCBroker, c *grpc.ClientConn) (interface{}, error) {
	if p.onGRPCBroker != nil {
		p.onGRPCBroker(b)
	}
	return &kitGRPCClient{c: grpctest.NewTestClient(c), broker: b, ctx: ctx}, nil
}

// ---------------------------------------------------------------- net/rpc wire

type KitCmdArgs struct {
	Key string
	Val int
}
type KitEmitArgs struct{ Stdout, Stderr []byte }

type kitRPCServer struct {
	impl   *kitImpl
	broker *plugin.MuxBroker
}

func (s *kitRPCServer) Double(n int, resp *int) error {
	v, err := s.impl.Double(n)
	*resp = v
	return err
}
func (s *kitRPCServer) Cmd(a KitCmdArgs, _ *struct{}) error {
	if a.Key == "dial-same" {
		// a.Val dials of ONE id that the host never accepts (each waits for its ack in the background)
		for i := 0; i < a.Val; i++ {
			go func() {
				if c, err := s.broker.Dial(77001); err == nil {
					c.Close()
				}
			}()
		}
		return nil
	}
	return s.impl.Cmd(a.Key, a.Val)
}
func (s *kitRPCServer) Emit(a KitEmitArgs, _ *struct{}) error { return s.impl.Emit(a.Stdout, a.Stderr) }

// Callback: the host accepted `id`; dial it, read a 4-byte nonce and echo it +1;
// then accept a fresh id (returned) on which the plugin echoes what it reads.
func (s *kitRPCServer) Callback(id uint32, resp *uint32) error {
	conn, err := s.broker.Dial(id)
	if err != nil {
		return fmt.Errorf("plugin dial %d: %w", id, err)
	}
	var buf [4]byte
	if _, err := io.ReadFull(conn, buf[:]); err != nil {
		conn.Close()
		return err
	}
	buf[0]++
	if _, err := conn.Write(buf[:]); err != nil {
		conn.Close()
		return err
	}
	conn.Close()
	next := s.broker.NextId()
	*resp = next
	go func() {
		c, err := s.broker.Accept(next)
		if err != nil {
			return
		}
		defer c.Close()
		var b [4]byte
		if _, err := io.ReadFull(c, b[:]); err == nil {
			b[0] += 2
			c.Write(b[:])
		}
	}()
	return nil
}

type kitRPCClient struct {
	c      *rpc.Client
	broker *plugin.MuxBroker
}

func (k *kitRPCClient) Double(n int) (int, error) {
	var r int
	err := k.c.Call("Plugin.Double", n, &r)
	return r, err
}
func (k *kitRPCClient) Cmd(key string, val int) error {
	return k.c.Call("Plugin.Cmd", KitCmdArgs{key, val}, &struct{}{})
}
func (k *kitRPCClient) Emit(o, e []byte) error {
	return k.c.Call("Plugin.Emit", KitEmitArgs{o, e}, &struct{}{})
}
func (k *kitRPCClient) Callback() error {
	id := k.broker.NextId()
	errCh := make(chan error, 1)
	go func() {
		conn, err := k.broker.Accept(id)
		if err != nil {
			errCh <- err
			return
		}
		defer conn.Close()
		if _, err := conn.Write([]byte{10, 20, 30, 40}); err != nil {
			errCh <- err
			return
		}
		var b [4]byte
		if _, err := io.ReadFull(conn, b[:]); err != nil {
			errCh <- err
			return
		}
		if b != [4]byte{11, 20, 30, 40} {
			errCh <- fmt.Errorf("bad echo %v", b)
			return
		}
		errCh <- nil
	}()
	var next uint32
	if err := k.c.Call("Plugin.Callback", id, &next); err != nil {
		return err
	}
	if err := <-errCh; err != nil {
		return err
	}
	conn, err := k.broker.Dial(next)
	if err != nil {
		return fmt.Errorf("host dial %d: %w", next, err)
	}
	defer conn.Close()
	if _, err := conn.Write([]byte{1, 2, 3, 4}); err != nil {
		return err
	}
	var b [4]byte
	if _, err := io.ReadFull(conn, b[:]); err != nil {
		return err
	}
	if b != [4]byte{3, 2, 3, 4} {
		return fmt.Errorf("bad echo on plugin-accepted stream %v", b)
	}
	return nil
}

// ---------------------------------------------------------------- gRPC wire (test/grpc proto)

type kitGRPCServer struct {
	grpctest.UnimplementedTestServer
	impl   *kitImpl
	broker *plugin.GRPCBroker
}

func (s *kitGRPCServer) Double(ctx context.Context, r *grpctest.TestRequest) (*grpctest.TestResponse, error) {
	v, err := s.impl.Double(int(r.Input))
	return &grpctest.TestResponse{Output: int32(v)}, err
}

func (s *kitGRPCServer) PrintKV(ctx context.Context, r *grpctest.PrintKVRequest) (*grpctest.PrintKVResponse, error) {
	v := 0
	if iv, ok := r.Value.(*grpctest.PrintKVRequest_ValueInt); ok {
		v = int(iv.ValueInt)
	}
	if r.Key == "listen-same" {
		// v brokered listeners for ONE id that the host never dials
		for i := 0; i < v; i++ {
			if _, err := s.broker.Accept(77001); err != nil {
				return nil, err
			}
		}
		return &grpctest.PrintKVResponse{}, nil
	}
	if r.Key == "listen" {
		// v brokered listeners of the plugin's own, left open and unserved
		for i := 0; i < v; i++ {
			if _, err := s.broker.Accept(s.broker.NextId()); err != nil {
				return nil, err
			}
		}
		return &grpctest.PrintKVResponse{}, nil
	}
	return &grpctest.PrintKVResponse{}, s.impl.Cmd(r.Key, v)
}

func (s *kitGRPCServer) PrintStdio(ctx context.Context, r *grpctest.PrintStdioRequest) (*empty.Empty, error) {
	return &empty.Empty{}, s.impl.Emit(r.Stdout, r.Stderr)
}

func (s *kitGRPCServer) Stream(stream grpctest.Test_StreamServer) error {
	for {
		req, err := stream.Recv()
		if err != nil {
			if err != io.EOF {
				return err
			}
			return nil
		}
		if err := stream.Send(&grpctest.TestResponse{Output: req.Input}); err != nil {
			return err
		}
	}
}

// pingPong answers with its own id so that the dialler can tell who served it.
type pingPong struct {
	grpctest.UnimplementedPingPongServer
	id  uint32
	pad int // extra bytes appended to the answer ("pong-<id>/xxxx…"): large responses over a brokered connection
}

func (p *pingPong) Ping(ctx context.Context, _ *grpctest.PingRequest) (*grpctest.PongResponse, error) {
	msg := fmt.Sprintf("pong-%d", p.id)
	if p.pad > 0 {
		msg += "/" + strings.Repeat("x", p.pad)
	}
	return &grpctest.PongResponse{Msg: msg}, nil
}

func servePingPong(b *plugin.GRPCBroker, id uint32) {
	b.AcceptAndServe(id, func(opts []grpc.ServerOption) *grpc.Server {
		s := grpc.NewServer(opts...)
		grpctest.RegisterPingPongServer(s, &pingPong{id: id})
		return s
	})
}

// servePingPongLater: broker.Accept(id) now, start serving the returned listener only `wait` later (set-up work between
// the two, a slow scheduler): a stream announced for id in between finds the listener registered but not yet in Accept().
func servePingPongLater(b *plugin.GRPCBroker, id uint32, wait time.Duration) {
	ln, err := b.Accept(id)
	if err != nil {
		return
	}
	defer ln.Close()
	time.Sleep(wait)
	s := grpc.NewServer()
	grpctest.RegisterPingPongServer(s, &pingPong{id: id})
	s.Serve(ln)
}

func pingVia(ctx context.Context, b *plugin.GRPCBroker, id uint32) error {
	conn, err := b.Dial(id)
	if err != nil {
		return fmt.Errorf("dial %d: %w", id, err)
	}
	defer conn.Close()
	cctx, cancel := context.WithTimeout(ctx, 10*time.Second)
	defer cancel()
	resp, err := grpctest.NewPingPongClient(conn).Ping(cctx, &grpctest.PingRequest{})
	if err != nil {
		return fmt.Errorf("ping via %d: %w", id, err)
	}
	if resp.Msg != fmt.Sprintf("pong-%d", id) {
		return fmt.Errorf("dialled %d but was answered by %q", id, resp.Msg)
	}
	return nil
}

func (s *kitGRPCServer) Bidirectional(ctx context.Context, r *grpctest.BidirectionalRequest) (*grpctest.BidirectionalResponse, error) {
	if err := pingVia(ctx, s.broker, r.Id); err != nil {
		return nil, fmt.Errorf("plugin: %w", err)
	}
	next := s.broker.NextId()
	go servePingPong(s.broker, next)
	return &grpctest.BidirectionalResponse{Id: next}, nil
}

type kitGRPCClient struct {
	c      grpctest.TestClient
	broker *plugin.GRPCBroker
	ctx    context.Context
}

func (k *kitGRPCClient) callCtx() (context.Context, context.CancelFunc) {
	return context.WithTimeout(context.Background(), 30*time.Second)
}

func (k *kitGRPCClient) Double(n int) (int, error) {
	ctx, cancel := k.callCtx()
	defer cancel()
	r, err := k.c.Double(ctx, &grpctest.TestRequest{Input: int32(n)})
	if err != nil {
		return 0, err
	}
	return int(r.Output), nil
}

func (k *kitGRPCClient) Cmd(key string, val int) error {
	ctx, cancel := k.callCtx()
	defer cancel()
	_, err := k.c.PrintKV(ctx, &grpctest.PrintKVRequest{Key: key, Value: &grpctest.PrintKVRequest_ValueInt{ValueInt: int32(val)}})
	return err
}

func (k *kitGRPCClient) Emit(o, e []byte) error {
	ctx, cancel := k.callCtx()
	defer cancel()
	_, err := k.c.PrintStdio(ctx, &grpctest.PrintStdioRequest{Stdout: o, Stderr: e})
	return err
}

// DialOnce: a host-side broker Dial of an id nobody accepts, in the calling goroutine.
func (k *kitGRPCClient) DialOnce() error {
	conn, err := k.broker.Dial(k.broker.NextId())
	if err == nil {
		conn.Close()
	}
	return err
}

func (k *kitRPCClient) DialOnce() error {
	conn, err := k.broker.Dial(k.broker.NextId())
	if err == nil {
		conn.Close()
	}
	return err
}

func (k *kitRPCClient) AcceptOnce() error {
	conn, err := k.broker.Accept(k.broker.NextId())
	if err == nil {
		conn.Close()
	}
	return err
}

// AcceptOnce: a host-side broker Accept on a fresh id, in the calling goroutine (so that a hang is the caller's hang).
func (k *kitGRPCClient) AcceptOnce() error {
	ln, err := k.broker.Accept(k.broker.NextId())
	if err == nil {
		ln.Close()
	}
	return err
}

// FlashListeners: n brokered listeners on the host side, each closed at once (accepted for an id and given up again
// before anything else happens).
func (k *kitGRPCClient) FlashListeners(n int) error {
	for i := 0; i < n; i++ {
		ln, err := k.broker.Accept(k.broker.NextId())
		if err != nil {
			return err
		}
		ln.Close()
	}
	return nil
}

// DupAdvert: the plugin advertises one brokered id twice; the host never asks for it.
func (k *kitGRPCClient) DupAdvert() error { return k.Cmd("listen-same", 2) }
func (k *kitRPCClient) DupAdvert() error  { return k.Cmd("dial-same", 2) }

// Listeners: n brokered listeners on the host side and n on the plugin side, all left open and unserved.
func (k *kitGRPCClient) Listeners(n int) error {
	for i := 0; i < n; i++ {
		if _, err := k.broker.Accept(k.broker.NextId()); err != nil {
			return err
		}
	}
	return k.Cmd("listen", n)
}

func (k *kitGRPCClient) Callback() error {
	id := k.broker.NextId()
	go servePingPong(k.broker, id)
	ctx, cancel := k.callCtx()
	defer cancel()
	resp, err := k.c.Bidirectional(ctx, &grpctest.BidirectionalRequest{Id: id})
	if err != nil {
		return err
	}
	return pingVia(ctx, k.broker, resp.Id)
}
