package main

// C11 correspondence: real plugin subprocesses (net/rpc, gRPC, gRPC+mux, each
// with and without AutoMTLS) write scripted byte sequences to their os.Stdout /
// os.Stderr — before the host attaches (burst) and afterwards (Emit RPC) — and
// the host compares what ClientConfig.SyncStdout / SyncStderr received, per
// stream, with what was written (predicate) and with the model (oracle).

import (
	"bytes"
	"fmt"
	"hash/fnv"
	"os"
	"path/filepath"
	"sort"
	"strconv"
	"strings"
	"sync"
	"sync/atomic"
	"time"

	plugin "github.com/hashicorp/go-plugin"
)

func init() {
	register("C11", hostC11)
	registerPlugin("kit-burst", pluginKitBurst)
}

// ---------------------------------------------------------------- payloads (mirrored by lean/GoPlugin/Oracle/C11.lean)

// c11Write is one write of n bytes: kind 0 rng bytes, 1 NUL, 2 invalid UTF-8
// pattern, 3 counter from seed, 4 rng choice of \n \r | 1.
type c11Write struct {
	kind int
	seed uint64
	n    int
}

var c11Pat2 = [4]byte{0xff, 0xfe, 0xc0, 0x80}
var c11Pat4 = [4]byte{10, 13, 124, 49}

func (w c11Write) bytes() []byte {
	b := make([]byte, w.n)
	r := newRng(w.seed)
	for i := range b {
		v := r.next()
		switch w.kind {
		case 0:
			b[i] = byte(v)
		case 1:
			b[i] = 0
		case 2:
			b[i] = c11Pat2[i%4]
		case 3:
			b[i] = byte(w.seed + uint64(i))
		default:
			b[i] = c11Pat4[v%4]
		}
	}
	return b
}

func (w c11Write) spec() string { return fmt.Sprintf("%d:%d:%d", w.kind, w.seed, w.n) }

func c11ParseWrite(s string) (c11Write, bool) {
	p := strings.Split(s, ":")
	if len(p) != 3 {
		return c11Write{}, false
	}
	k, e1 := strconv.Atoi(p[0])
	sd, e2 := strconv.ParseUint(p[1], 10, 64)
	n, e3 := strconv.Atoi(p[2])
	if e1 != nil || e2 != nil || e3 != nil || n < 0 {
		return c11Write{}, false
	}
	return c11Write{k, sd, n}, true
}

func c11Specs(ws []c11Write) string {
	if len(ws) == 0 {
		return "_"
	}
	ss := make([]string, len(ws))
	for i, w := range ws {
		ss[i] = w.spec()
	}
	return strings.Join(ss, ",")
}

func c11Digest(b []byte) string {
	h := fnv.New64a()
	h.Write(b)
	return fmt.Sprintf("%d:%016x", len(b), h.Sum64())
}

// ---------------------------------------------------------------- plugin role: kit + pre-attach burst

// pluginKitBurst is the kit plugin that additionally writes GPV_BURST_OUT /
// GPV_BURST_ERR (write specs) to os.Stdout / os.Stderr as soon as Serve has
// re-pointed them to the sync pipes, i.e. before any host can have attached.
// Marker files <GPV_BURST_MARK>.<out|err>.<started|done> tell the host how far it got.
func pluginKitBurst(args []string) {
	mark := os.Getenv("GPV_BURST_MARK")
	for _, s := range []struct {
		env, name string
		cur       func() *os.File
	}{
		{"GPV_BURST_OUT", "out", func() *os.File { return os.Stdout }},
		{"GPV_BURST_ERR", "err", func() *os.File { return os.Stderr }},
	} {
		w, ok := c11ParseWrite(os.Getenv(s.env))
		if !ok {
			continue
		}
		s := s
		orig := s.cur()
		data := w.bytes()
		go func() {
			for s.cur() == orig {
				time.Sleep(100 * time.Microsecond)
			}
			f := s.cur()
			os.WriteFile(mark+"."+s.name+".started", nil, 0o644)
			if len(data) > 0 {
				f.Write(data)
			}
			os.WriteFile(mark+"."+s.name+".done", nil, 0o644)
		}()
	}
	pluginKit(args)
}

// ---------------------------------------------------------------- cases

type c11Case struct {
	proto     string // netrpc | grpc
	mux, auto bool
	hasBout   bool
	hasBerr   bool
	bout      c11Write
	berr      c11Write
	out, err  []c11Write
	// steps: b = Emit(next out, next err) in one call; o / e = Emit on one stream;
	// p = the next out and the next err write issued concurrently from two goroutines;
	// d = a Double call; w = the plugin is idle for `idle` ms (the connection stays up, nothing is
	// written).  "I" = two goroutines, one per stream, each issuing its writes in order.
	steps   string
	idle    int    // ms, the length of each 'w' step
	cattach bool   // the host attaches from four goroutines at once (Client() called concurrently)
	adelay  int    // ms between Start returning (the plugin serving, its pre-attach bursts written) and the host's Client()
	bg      bool   // a background goroutine keeps calling Double during the script
	cseed   uint64 // seed of the model's (unobservable) read cuts and select order
}

func (c *c11Case) line() string {
	bo, be := "-", "-"
	if c.hasBout {
		bo = c.bout.spec()
	}
	if c.hasBerr {
		be = c.berr.spec()
	}
	return fmt.Sprintf("C11 proto=%s mux=%s auto=%s bout=%s berr=%s out=%s err=%s steps=%s bg=%s cseed=%d idle=%d",
		c.proto, b01(c.mux), b01(c.auto), bo, be, c11Specs(c.out), c11Specs(c.err), c.steps, b01(c.bg), c.cseed, c.idle) + func() string {
		x := ""
		if c.adelay > 0 {
			x += fmt.Sprintf(" adelay=%d", c.adelay)
		}
		if c.cattach {
			x += " cattach=1"
		}
		return x
	}()
}

func c11FromLine(m map[string]string) (*c11Case, error) {
	c := &c11Case{proto: m["proto"], mux: m["mux"] == "1", auto: m["auto"] == "1", steps: m["steps"], bg: m["bg"] == "1"}
	c.cseed, _ = strconv.ParseUint(m["cseed"], 10, 64)
	c.adelay, _ = strconv.Atoi(m["adelay"])
	c.cattach = m["cattach"] == "1"
	c.idle, _ = strconv.Atoi(m["idle"])
	if c.idle < 0 || c.idle > 120000 {
		return nil, fmt.Errorf("bad idle")
	}
	var ok bool
	if m["bout"] != "-" && m["bout"] != "" {
		if c.bout, ok = c11ParseWrite(m["bout"]); !ok {
			return nil, fmt.Errorf("bad bout")
		}
		c.hasBout = true
	}
	if m["berr"] != "-" && m["berr"] != "" {
		if c.berr, ok = c11ParseWrite(m["berr"]); !ok {
			return nil, fmt.Errorf("bad berr")
		}
		c.hasBerr = true
	}
	for _, s := range splitComma(m["out"]) {
		w, ok := c11ParseWrite(s)
		if !ok {
			return nil, fmt.Errorf("bad out write %q", s)
		}
		c.out = append(c.out, w)
	}
	for _, s := range splitComma(m["err"]) {
		w, ok := c11ParseWrite(s)
		if !ok {
			return nil, fmt.Errorf("bad err write %q", s)
		}
		c.err = append(c.err, w)
	}
	if c.proto != "netrpc" && c.proto != "grpc" {
		return nil, fmt.Errorf("bad proto")
	}
	no, ne := c11Counts(c.steps)
	if c.steps != "I" && (no != len(c.out) || ne != len(c.err)) {
		return nil, fmt.Errorf("steps need %d/%d writes, case has %d/%d", no, ne, len(c.out), len(c.err))
	}
	return c, nil
}

func c11Counts(steps string) (no, ne int) {
	for _, s := range steps {
		switch s {
		case 'b', 'p':
			no++
			ne++
		case 'o':
			no++
		case 'e':
			ne++
		}
	}
	return
}

var c11Sizes = []int{0, 1, 1023, 1024, 1025, 4095, 4096, 4097, 10000, 70000}

func c11Size(r *rng) int {
	for {
		n := pick(r, c11Sizes)
		if n == 70000 && r.intn(4) != 0 {
			continue
		}
		return n
	}
}

// every fourth burst is 70000 bytes: larger than the pipe, so the write blocks until the host attaches
func c11BurstSize(r *rng) int {
	if r.intn(4) == 0 {
		return 70000
	}
	return pick(r, c11Sizes)
}

func c11GenWrite(r *rng) c11Write {
	k := 0
	if r.intn(3) == 0 {
		k = 1 + r.intn(4)
	}
	return c11Write{kind: k, seed: r.next() >> 12, n: c11Size(r)}
}

var c11Configs = []struct {
	proto     string
	mux, auto bool
}{{"netrpc", false, false}, {"grpc", false, false}, {"grpc", true, false}, {"netrpc", false, true}, {"grpc", false, true}, {"grpc", true, true}}

func c11Generate(r *rng, i int) *c11Case {
	cf := c11Configs[i%len(c11Configs)]
	c := &c11Case{proto: cf.proto, mux: cf.mux, auto: cf.auto, cseed: r.next() >> 12, bg: r.intn(3) == 0}
	if r.bool() {
		c.hasBout, c.bout = true, c11GenWrite(r)
		c.bout.n = c11BurstSize(r)
	}
	if r.bool() {
		c.hasBerr, c.berr = true, c11GenWrite(r)
		c.berr.n = c11BurstSize(r)
	}
	if r.intn(5) == 0 {
		c.steps = "I"
		no, ne := r.intn(16), r.intn(16)
		if no+ne == 0 {
			no = 1
		}
		for j := 0; j < no; j++ {
			c.out = append(c.out, c11GenWrite(r))
		}
		for j := 0; j < ne; j++ {
			c.err = append(c.err, c11GenWrite(r))
		}
		return c
	}
	calls := 1 + r.intn(30)
	var sb strings.Builder
	for calls > 0 {
		if r.intn(10) < 3 {
			sb.WriteByte('d')
		}
		switch x := r.intn(10); {
		case x < 4:
			sb.WriteByte('b')
			calls--
		case x < 5:
			sb.WriteByte('o')
			calls--
		case x < 6:
			sb.WriteByte('e')
			calls--
		default:
			sb.WriteByte('p')
			calls -= 2
		}
	}
	c.steps = sb.String()
	no, ne := c11Counts(c.steps)
	for j := 0; j < no; j++ {
		c.out = append(c.out, c11GenWrite(r))
	}
	for j := 0; j < ne; j++ {
		c.err = append(c.err, c11GenWrite(r))
	}
	return c
}

// c11Ladder: every size once on each stream (stdout ascending, stderr descending), one configuration.
func c11Ladder(i int) *c11Case {
	cf := c11Configs[i%len(c11Configs)]
	c := &c11Case{proto: cf.proto, mux: cf.mux, auto: cf.auto, cseed: uint64(i), hasBout: true, hasBerr: true,
		bout: c11Write{0, uint64(100 + i), 1023}, berr: c11Write{2, uint64(200 + i), 4097}}
	for j, n := range c11Sizes {
		c.out = append(c.out, c11Write{0, uint64(1000 + 10*i + j), n})
		c.err = append(c.err, c11Write{j % 5, uint64(2000 + 10*i + j), c11Sizes[len(c11Sizes)-1-j]})
		c.steps += "b"
	}
	c.out = append(c.out, c11Write{3, 7, 3})
	c.steps += "o"
	return c
}

// c11Late: output after an idle period.  The plugin writes on both streams right
// after the host attached, then nothing at all for idleMs (the connection
// stays up: no RPC, no output), then it writes again, on both streams, in
// several calls.  Everything is small, so a plugin whose stdio stream is gone
// still completes its writes (they stay in the pipe) and the case ends with
// "short" instead of hanging.  The stream that carries the output must live as
// long as the connection, not for some fixed time after the attach.
func c11Late(i int, idleMs int) *c11Case {
	cf := c11Configs[i%len(c11Configs)]
	c := &c11Case{proto: cf.proto, mux: cf.mux, auto: cf.auto, cseed: uint64(900 + i), idle: idleMs,
		hasBout: i%2 == 0, bout: c11Write{3, uint64(50 + i), 100}}
	early := []int{1025, 1, 300}
	late := []int{1, 4097, 1024, 2}
	c.steps = "bod" + "w" + "dbpe"
	c.out = []c11Write{{0, uint64(3000 + i), early[0]}, {4, uint64(3001 + i), early[1]},
		{0, uint64(3002 + i), late[0]}, {2, uint64(3003 + i), late[1]}}
	c.err = []c11Write{{1, uint64(3100 + i), early[2]},
		{0, uint64(3101 + i), late[2]}, {3, uint64(3102 + i), late[3]}, {0, uint64(3103 + i), 700}}
	return c
}

// ---------------------------------------------------------------- execution

type lockedBuf struct {
	mu sync.Mutex
	b  bytes.Buffer
}

func (l *lockedBuf) Write(p []byte) (int, error) {
	l.mu.Lock()
	defer l.mu.Unlock()
	return l.b.Write(p)
}
func (l *lockedBuf) Len() int {
	l.mu.Lock()
	defer l.mu.Unlock()
	return l.b.Len()
}
func (l *lockedBuf) snapshot() []byte {
	l.mu.Lock()
	defer l.mu.Unlock()
	return append([]byte(nil), l.b.Bytes()...)
}

func c11WaitFile(path string, d time.Duration) bool {
	dl := time.Now().Add(d)
	for {
		if _, err := os.Stat(path); err == nil {
			return true
		}
		if time.Now().After(dl) {
			return false
		}
		time.Sleep(time.Millisecond)
	}
}

func c11WaitLen(b *lockedBuf, n int, d time.Duration) bool {
	dl := time.Now().Add(d)
	for b.Len() < n {
		if time.Now().After(dl) {
			return false
		}
		time.Sleep(time.Millisecond)
	}
	return true
}

// what a pipe holds without a reader (Linux default 64 KiB); bursts up to half
// of that must complete before the host attaches, larger ones block in write(2).
const c11SmallBurst = 32768

var c11Seq int64

// c11Compare classifies got against want: "" | short | extra | mismatch.
func c11Compare(got, want []byte) string {
	switch {
	case bytes.Equal(got, want):
		return ""
	case len(got) < len(want) && bytes.Equal(got, want[:len(got)]):
		return "short"
	case len(got) > len(want) && bytes.Equal(got[:len(want)], want):
		return "extra"
	}
	return "mismatch"
}

func firstDiff(a, b []byte) int {
	n := len(a)
	if len(b) < n {
		n = len(b)
	}
	for i := 0; i < n; i++ {
		if a[i] != b[i] {
			return i
		}
	}
	return n
}

type c11Stats struct {
	doubles int64
}

func runC11(c *c11Case, st *c11Stats) (impl, pred, detail string) {
	var wantOut, wantErr []byte
	var boutB, berrB []byte
	if c.hasBout {
		boutB = c.bout.bytes()
		wantOut = append(wantOut, boutB...)
	}
	if c.hasBerr {
		berrB = c.berr.bytes()
		wantErr = append(wantErr, berrB...)
	}
	outB := make([][]byte, len(c.out))
	for i, w := range c.out {
		outB[i] = w.bytes()
		wantOut = append(wantOut, outB[i]...)
	}
	errB := make([][]byte, len(c.err))
	for i, w := range c.err {
		errB[i] = w.bytes()
		wantErr = append(wantErr, errB[i]...)
	}

	work := os.Getenv("VERIF_WORK")
	if work == "" {
		work = os.TempDir()
	}
	mark := filepath.Join(work, fmt.Sprintf("c11-%d-%d", os.Getpid(), atomic.AddInt64(&c11Seq, 1)))
	defer func() {
		for _, s := range []string{".out.started", ".out.done", ".err.started", ".err.done"} {
			os.Remove(mark + s)
		}
	}()
	env := []string{"GPV_BURST_MARK=" + mark}
	if c.hasBout {
		env = append(env, "GPV_BURST_OUT="+c.bout.spec())
	}
	if c.hasBerr {
		env = append(env, "GPV_BURST_ERR="+c.berr.spec())
	}
	cmd := kitCmd(kitServeCfg{Sets: map[string]string{"3": c.proto}, GRPCServer: c.proto == "grpc"}, env...)
	cmd.Args[2] = "kit-burst"

	var bo, be lockedBuf
	client := plugin.NewClient(&plugin.ClientConfig{
		HandshakeConfig:     kitHandshake(),
		VersionedPlugins:    kitHostSets(map[int]string{3: c.proto}, nil, nil),
		Cmd:                 cmd,
		AllowedProtocols:    []plugin.Protocol{plugin.ProtocolNetRPC, plugin.ProtocolGRPC},
		GRPCBrokerMultiplex: c.mux,
		AutoMTLS:            c.auto,
		Logger:              nullLogger(),
		StartTimeout:        30 * time.Second,
		SyncStdout:          &bo,
		SyncStderr:          &be,
	})
	defer client.Kill()

	var stageMu sync.Mutex
	stage := ""
	fail := func(s string, err error) error {
		stageMu.Lock()
		if stage == "" {
			stage = s
		}
		stageMu.Unlock()
		return fmt.Errorf("%s: %w", s, err)
	}
	err, hung, pan := withTimeout(150*time.Second, func() error {
		if _, err := client.Start(); err != nil {
			return fail("start", err)
		}
		// ---- the burst happens now, before the host attaches
		for _, b := range []struct {
			has  bool
			n    int
			name string
		}{{c.hasBout, c.bout.n, "out"}, {c.hasBerr, c.berr.n, "err"}} {
			if !b.has {
				continue
			}
			which := ".done"
			if b.n > c11SmallBurst {
				which = ".started"
			}
			if !c11WaitFile(mark+"."+b.name+which, 20*time.Second) {
				return fail("burst-marker", fmt.Errorf("no %s%s marker", b.name, which))
			}
		}
		if (c.hasBout && c.bout.n > c11SmallBurst) || (c.hasBerr && c.berr.n > c11SmallBurst) {
			time.Sleep(30 * time.Millisecond) // let the large write block in the pipe
		}
		// ---- attach (possibly long after the plugin began serving: what it wrote meanwhile must still be delivered)
		if c.adelay > 0 {
			time.Sleep(time.Duration(c.adelay) * time.Millisecond)
		}
		if c.cattach {
			// several goroutines of the host ask for the protocol client at the same moment: there must still be ONE
			// client, hence one copy of every byte
			var wg sync.WaitGroup
			for g := 0; g < 3; g++ {
				wg.Add(1)
				go func() { defer wg.Done(); client.Client() }()
			}
			defer wg.Wait()
		}
		cp, err := client.Client()
		if err != nil {
			return fail("client", err)
		}
		raw, err := cp.Dispense("kit")
		if err != nil {
			return fail("dispense", err)
		}
		k := raw.(Kit)
		// a burst larger than the pipe is still being written when the host attaches: let it
		// arrive in full before the first Emit, so that the per-stream write order stays defined
		if c.hasBout && c.bout.n > c11SmallBurst && !c11WaitLen(&bo, c.bout.n, 10*time.Second) {
			return nil // reported as stdout-short below
		}
		if c.hasBerr && c.berr.n > c11SmallBurst && !c11WaitLen(&be, c.berr.n, 10*time.Second) {
			return nil
		}
		double := func(n int) error {
			v, err := k.Double(n)
			if err != nil {
				return fail("double", err)
			}
			if v != 2*n+3 {
				return fail("double-value", fmt.Errorf("Double(%d)=%d", n, v))
			}
			atomic.AddInt64(&st.doubles, 1)
			return nil
		}
		stop := make(chan struct{})
		bgDone := make(chan error, 1)
		if c.bg {
			go func() {
				n := 0
				for {
					select {
					case <-stop:
						bgDone <- nil
						return
					default:
					}
					if err := double(n); err != nil {
						bgDone <- err
						return
					}
					n++
				}
			}()
		}
		emit := func(o, e []byte) error {
			if err := k.Emit(o, e); err != nil {
				return fail("emit", err)
			}
			return nil
		}
		pair := func(f, g func() error) error {
			ch := make(chan error, 1)
			go func() { ch <- f() }()
			e2 := g()
			if e1 := <-ch; e1 != nil {
				return e1
			}
			return e2
		}
		var serr error
		if c.steps == "I" {
			serr = pair(func() error {
				for _, b := range outB {
					if err := emit(b, nil); err != nil {
						return err
					}
				}
				return nil
			}, func() error {
				for _, b := range errB {
					if err := emit(nil, b); err != nil {
						return err
					}
				}
				return nil
			})
		} else {
			oi, ei := 0, 0
			for n, s := range c.steps {
				switch s {
				case 'b':
					serr = emit(outB[oi], errB[ei])
					oi++
					ei++
				case 'o':
					serr = emit(outB[oi], nil)
					oi++
				case 'e':
					serr = emit(nil, errB[ei])
					ei++
				case 'p':
					o, e := outB[oi], errB[ei]
					serr = pair(func() error { return emit(o, nil) }, func() error { return emit(nil, e) })
					oi++
					ei++
				case 'd':
					serr = double(n)
				case 'w':
					time.Sleep(time.Duration(c.idle) * time.Millisecond)
				}
				if serr != nil {
					break
				}
			}
		}
		if c.bg {
			close(stop)
			if e := <-bgDone; e != nil && serr == nil {
				serr = e
			}
		}
		if serr != nil {
			return serr
		}
		// ---- wait for delivery: the expected byte counts, or 10 s; then a moment for anything extra
		c11WaitLen(&bo, len(wantOut), 10*time.Second)
		c11WaitLen(&be, len(wantErr), 10*time.Second)
		time.Sleep(40 * time.Millisecond)
		return nil
	})
	gotOut, gotErr := bo.snapshot(), be.snapshot()
	switch {
	case hung:
		return "hang", "FAIL:hang", "watchdog"
	case pan != nil:
		return "panic", "FAIL:panic", fmt.Sprint(pan)
	case err != nil:
		stageMu.Lock()
		defer stageMu.Unlock()
		return "err " + stage, "FAIL:" + stage, err.Error()
	}
	impl = fmt.Sprintf("ok out=%s err=%s", c11Digest(gotOut), c11Digest(gotErr))
	var reasons, details []string
	if len(wantOut) > 0 && len(wantErr) > 0 && bytes.Equal(gotOut, wantErr) && bytes.Equal(gotErr, wantOut) {
		reasons = append(reasons, "streams-swapped")
	} else {
		for _, s := range []struct {
			name      string
			got, want []byte
		}{{"stdout", gotOut, wantOut}, {"stderr", gotErr, wantErr}} {
			if r := c11Compare(s.got, s.want); r != "" {
				reasons = append(reasons, s.name+"-"+r)
				details = append(details, fmt.Sprintf("%s got=%d want=%d firstdiff=%d", s.name, len(s.got), len(s.want), firstDiff(s.got, s.want)))
			}
		}
	}
	if len(reasons) > 0 {
		return impl, "FAIL:" + strings.Join(reasons, "+"), strings.Join(details, "; ")
	}
	return impl, "ok", ""
}

// ---------------------------------------------------------------- scenario

func hostC11(o *out, replay string) {
	st := &c11Stats{}
	if replay != "" {
		_, m := kvLine(replay)
		c, err := c11FromLine(m)
		if err != nil {
			o.emit(replay, "bad-case", "FAIL:bad-replay-line")
			return
		}
		impl, pred, detail := runC11(c, st)
		if detail != "" {
			o.note("C11 replay detail: %s", detail)
		}
		o.emit(c.line(), impl, pred)
		return
	}
	nRandom := 60
	if tier() == "thorough" {
		nRandom = 600
	}
	r := newRng(seedFromEnv())
	var cases []*c11Case
	// output after an idle period: these sleep, so they go first and run concurrently with the rest
	// (quick: 6.5 s idle on gRPC plain / mux / mTLS / mux+mTLS and on net/rpc; thorough: also 31 s and 61 s)
	nLate := 0
	for _, i := range []int{1, 2, 4, 5, 0} {
		cases = append(cases, c11Late(i, 6500))
		nLate++
	}
	// a host that attaches late: pre-attach bursts on both streams, Client() 6.5 s after the plugin began serving
	// (not with multiplexing: there the plugin's muxer gives up — and the plugin exits — when no host has connected
	// within 5 s of its start, which is a connection matter outside this property)
	for _, i := range []int{1, 0, 4} {
		c := c11Late(i, 10)
		c.hasBout, c.bout = true, c11Write{3, uint64(70 + i), 2500}
		c.hasBerr, c.berr = true, c11Write{2, uint64(80 + i), 2500}
		c.adelay = 6500
		c.cseed = uint64(950 + i)
		cases = append(cases, c)
		nLate++
	}
	if tier() == "thorough" {
		for _, i := range []int{1, 2, 4, 0} {
			cases = append(cases, c11Late(i, 31000), c11Late(i, 61000))
			nLate += 2
		}
	}
	for i := range c11Configs {
		cases = append(cases, c11Ladder(i))
	}
	for i := 0; i < nRandom; i++ {
		c := c11Generate(r.fork(uint64(i)), i)
		c.cattach = i%3 == 0
		cases = append(cases, c)
	}
	type res struct{ impl, pred, detail string }
	results := make([]res, len(cases))
	t0 := time.Now()
	parallel(len(cases), 16, func(i int) {
		impl, pred, detail := runC11(cases[i], st)
		results[i] = res{impl, pred, detail}
	})
	// input distribution
	cfgCount := map[string]int{}
	sizeCount := map[int]int{}
	kindCount := map[int]int{}
	stepCount := map[string]int{}
	var bytesOut, bytesErr, writes, bursts, bigBursts, bg, indep int
	for _, c := range cases {
		cfgCount[fmt.Sprintf("%s/mux=%s/mtls=%s", c.proto, b01(c.mux), b01(c.auto))]++
		ws := append(append([]c11Write{}, c.out...), c.err...)
		if c.hasBout {
			ws = append(ws, c.bout)
			bursts++
			if c.bout.n > c11SmallBurst {
				bigBursts++
			}
		}
		if c.hasBerr {
			ws = append(ws, c.berr)
			bursts++
			if c.berr.n > c11SmallBurst {
				bigBursts++
			}
		}
		for _, w := range ws {
			sizeCount[w.n]++
			kindCount[w.kind]++
			writes++
		}
		for _, w := range c.out {
			bytesOut += w.n
		}
		for _, w := range c.err {
			bytesErr += w.n
		}
		if c.steps == "I" {
			indep++
		} else {
			for _, s := range c.steps {
				stepCount[string(s)]++
			}
		}
		if c.bg {
			bg++
		}
	}
	// one sync writer refuses a write: the OTHER stream is not affected
	for _, proto := range []string{"netrpc", "grpc"} {
		impl, pred := runSinkFaultOtherStream(proto)
		o.emit("!C11.sink-fault proto="+proto+" stream=stdout at=2", impl, pred)
	}
	// a second host connection (after a first one that came and went, and without one)
	for _, proto := range []string{"netrpc", "grpc"} {
		for _, first := range []bool{false, true} {
			impl, pred := runSecondConn(proto, first)
			o.emit(fmt.Sprintf("!C11.second-conn proto=%s first=%s", proto, b01(first)), impl, pred)
		}
	}
	o.note("C11 scripts=%d (late-output-after-idle=%d ladder=%d random=%d) per configuration: %s", len(cases), nLate, len(c11Configs), nRandom, c11Map(cfgCount))
	o.note("C11 writes=%d by size: %s; by payload kind (0 rng,1 NUL,2 invalid-utf8,3 counter,4 newline/pipe): %s", writes, c11IntMap(sizeCount), c11IntMap(kindCount))
	o.note("C11 steps: %s (b=Emit both, o/e=one stream, p=two concurrent Emits on different streams, d=Double); independent-goroutine scripts=%d; background-Double scripts=%d; Double calls made=%d",
		c11Map(stepCount), indep, bg, atomic.LoadInt64(&st.doubles))
	o.note("C11 pre-attach bursts=%d (blocking, larger than half a pipe: %d); Emit bytes stdout=%d stderr=%d; run took %.1fs",
		bursts, bigBursts, bytesOut, bytesErr, time.Since(t0).Seconds())
	fails := 0
	for i, c := range cases {
		if results[i].pred != "ok" {
			fails++
			if fails <= 10 {
				o.note("C11 case %d %s: %s", i, results[i].pred, results[i].detail)
			}
		}
		o.emit(c.line(), results[i].impl, results[i].pred)
	}
}

func c11Map(m map[string]int) string {
	var ks []string
	for k := range m {
		ks = append(ks, k)
	}
	sort.Strings(ks)
	var ss []string
	for _, k := range ks {
		ss = append(ss, fmt.Sprintf("%s=%d", k, m[k]))
	}
	return strings.Join(ss, " ")
}

func c11IntMap(m map[int]int) string {
	var ks []int
	for k := range m {
		ks = append(ks, k)
	}
	sort.Ints(ks)
	var ss []string
	for _, k := range ks {
		ss = append(ss, fmt.Sprintf("%d=%d", k, m[k]))
	}
	return strings.Join(ss, " ")
}
