package main

// C20 — concurrent use of clients and brokers: race-detector workload (model
// validation and failing-schedule search; the proof is in Lean).
//
// Scenario "C20" (the normal harness binary, started by bin/check): builds the
// harness again with `-race` into $VERIF_WORK/gpv-race, runs `gpv-race host
// C20race` with GORACE logging to files, forwards that run's result rows and
// turns every race report whose access stacks contain go-plugin frames into a
// predicate row  `!C20.race sig=race:<Type>.<field>:<M1>/<M2>`  FAIL:<sig>.
//
// Scenario "C20race" (the -race binary; plugin subprocesses are the same -race
// binary): n goroutines hammer ONE Client (Start/Client/Protocol/
// NegotiatedVersion/ID/Exited/ReattachConfig/Ping/Dispense+Double/Callback, then
// Kill from several goroutines while operations are in flight) over netrpc, grpc
// and grpc+mux; concurrent Accept/Dial/NextId with distinct ids on one MuxBroker
// pair and on one in-process GRPCBroker pair, followed by concurrent Close; 64
// goroutines x 1000 NextId calls (duplicate check, compared with the model).

import (
	"bufio"
	"bytes"
	"context"
	"fmt"
	"io"
	"os"
	"os/exec"
	"path/filepath"
	"regexp"
	"sort"
	"strconv"
	"strings"
	"sync"
	"sync/atomic"
	"syscall"
	"testing"
	"time"

	plugin "github.com/hashicorp/go-plugin"
)

func init() {
	register("C20", hostC20)
	register("C20race", hostC20Race)
}

// ---------------------------------------------------------------- orchestration (non-race binary)

func c20HarnessDir() (string, error) {
	gpv := os.Getenv("VERIF_GPV")
	if gpv != "" {
		d := filepath.Join(filepath.Dir(filepath.Dir(gpv)), "harness")
		if _, err := os.Stat(filepath.Join(d, "go.mod")); err == nil {
			return d, nil
		}
	}
	// fallbacks: relative to the executable (…/.work/gpv) and to the working directory
	if exe, err := os.Executable(); err == nil {
		d := filepath.Join(filepath.Dir(filepath.Dir(exe)), "harness")
		if _, err := os.Stat(filepath.Join(d, "go.mod")); err == nil {
			return d, nil
		}
	}
	return "", fmt.Errorf("cannot locate the harness sources (VERIF_GPV=%q)", gpv)
}

func c20BuildRace(work string) (string, string, error) {
	hdir, err := c20HarnessDir()
	if err != nil {
		return "", "", err
	}
	repo := os.Getenv("VERIF_REPO")
	if repo == "" {
		repo = "/repo"
	}
	args := []string{"build", "-race", "-tags", "verif"}
	if repo != "/repo" {
		mod, err := os.ReadFile(filepath.Join(hdir, "go.mod"))
		if err != nil {
			return "", "", err
		}
		alt := filepath.Join(work, "go.race.mod")
		if err := os.WriteFile(alt, []byte(strings.ReplaceAll(string(mod), "=> /repo", "=> "+repo)), 0o644); err != nil {
			return "", "", err
		}
		sum, _ := os.ReadFile(filepath.Join(repo, "go.sum"))
		os.WriteFile(filepath.Join(work, "go.race.sum"), sum, 0o644)
		args = append(args, "-modfile="+alt)
	}
	bin := filepath.Join(work, "gpv-race")
	args = append(args, "-o", bin, ".")
	cmd := exec.Command("go", args...)
	cmd.Dir = hdir
	env := []string{}
	for _, kv := range os.Environ() {
		if strings.HasPrefix(kv, "GOFLAGS=") || strings.HasPrefix(kv, "GOPROXY=") || strings.HasPrefix(kv, "TMPDIR=") {
			continue
		}
		env = append(env, kv)
	}
	cmd.Env = append(env, "GOFLAGS=-mod=mod", "GOPROXY=off")
	outb, err := cmd.CombinedOutput()
	if err != nil {
		return "", "", fmt.Errorf("go build -race failed: %v\n%s", err, tailStr(string(outb), 1500))
	}
	return bin, repo, nil
}

func tailStr(s string, n int) string {
	if len(s) > n {
		return s[len(s)-n:]
	}
	return s
}

func hostC20(o *out, replay string) {
	work := os.Getenv("VERIF_WORK")
	if work == "" {
		work, _ = os.MkdirTemp("", "c20")
		defer os.RemoveAll(work)
	}
	t0 := time.Now()
	bin, _, err := c20BuildRace(work)
	if err != nil {
		o.note("race build failed: %v", err)
		o.emit("!C20.racebuild", "err", "FAIL:race-build")
		return
	}
	o.note("race build %.0fs", time.Since(t0).Seconds())

	seeds := []uint64{seedFromEnv()}
	extra := 1
	if tier() == "thorough" {
		extra = 11
	}
	base := newRng(seedFromEnv())
	for i := 0; i < extra; i++ {
		seeds = append(seeds, base.next()%1000000)
	}
	closeOnly, closeReplay := false, ""
	if replay != "" {
		tag, kv := kvLine(replay)
		if s, err := strconv.ParseUint(kv["seed"], 10, 64); err == nil {
			seeds = []uint64{s}
		}
		if strings.TrimPrefix(tag, "!") == "C20.close" {
			closeOnly, closeReplay = true, replay
		}
	}
	sigCount := map[string]int{}
	sigSample := map[string]string{}
	sigSeed := map[string]uint64{}
	totalReports, foreign := 0, 0
	// race detector reports of one process tree (the host process and every plugin subprocess log to <prefix>.<pid>)
	collect := func(logPrefix string, seed uint64) {
		files, _ := filepath.Glob(logPrefix + ".*")
		for _, f := range files {
			data, err := os.ReadFile(f)
			if err != nil {
				continue
			}
			for _, rep := range splitRaceReports(string(data)) {
				totalReports++
				sig, ok := raceSignature(rep)
				if !ok {
					foreign++
					o.note("race report without go-plugin frames (harness or dependency): %s", strings.ReplaceAll(tailStr(headStr(rep, 700), 700), "\n", " | "))
					continue
				}
				sigCount[sig]++
				if _, seen := sigSample[sig]; !seen {
					sigSample[sig] = rep
					sigSeed[sig] = seed
				}
			}
		}
	}
	for i, seed := range seeds {
		// broker Close racing in-flight streamer Sends: a process of its own (a panic in a library goroutine
		// must cost that scenario only, and be reported as its result); quick tier: first seed only
		if i == 0 || tier() == "thorough" {
			closePrefix := filepath.Join(work, fmt.Sprintf("raceclose-%d", i))
			sel := closeReplay
			if sel == "" && (tier() != "thorough" || i > 0) {
				// multiplexed rounds cost seconds each (a knock whose ack never comes waits for its 5 s timer): thorough tier, first seed
				sel = "C20.close mux=0"
			}
			c20RunClose(o, bin, work, seed, closePrefix, sel)
			collect(closePrefix, seed)
		}
		if closeOnly {
			continue
		}
		logPrefix := filepath.Join(work, fmt.Sprintf("race-%d", i))
		cmd := exec.Command(bin, "host", "C20race")
		cmd.Dir = work
		cmd.SysProcAttr = &syscall.SysProcAttr{Setpgid: true}
		env := []string{}
		for _, kv := range os.Environ() {
			if strings.HasPrefix(kv, "VERIF_GPV=") || strings.HasPrefix(kv, "VERIF_SEED=") || strings.HasPrefix(kv, "GORACE=") {
				continue
			}
			env = append(env, kv)
		}
		cmd.Env = append(env, "VERIF_GPV="+bin, fmt.Sprintf("VERIF_SEED=%d", seed),
			"GORACE=halt_on_error=0 exitcode=0 history_size=5 log_path="+logPrefix)
		var stdout, stderr bytes.Buffer
		cmd.Stdout, cmd.Stderr = &stdout, &stderr
		limit := 240 * time.Second
		if tier() == "thorough" {
			limit = 400 * time.Second
		}
		done := make(chan error, 1)
		if err := cmd.Start(); err != nil {
			o.emit(fmt.Sprintf("!C20.run seed=%d", seed), "err", "FAIL:race-run-start")
			continue
		}
		go func() { done <- cmd.Wait() }()
		var runErr error
		select {
		case runErr = <-done:
		case <-time.After(limit):
			syscall.Kill(-cmd.Process.Pid, syscall.SIGKILL)
			<-done
			runErr = fmt.Errorf("timeout")
		}
		syscall.Kill(-cmd.Process.Pid, syscall.SIGKILL) // stray plugin processes
		rows := 0
		sc := bufio.NewScanner(&stdout)
		sc.Buffer(make([]byte, 1<<20), 1<<24)
		for sc.Scan() {
			line := sc.Text()
			if strings.HasPrefix(line, "# ") {
				o.note("%s", line[2:])
				continue
			}
			parts := strings.Split(line, "\t")
			if len(parts) == 3 {
				o.emit(parts[0], parts[1], parts[2])
				rows++
			}
		}
		if runErr != nil || rows == 0 {
			o.note("race run seed=%d: %v; stderr tail: %s", seed, runErr, strings.ReplaceAll(tailStr(stderr.String(), 600), "\n", " | "))
			if msg, at, ok := c20CrashInfo(stderr.String()); ok {
				o.emit(fmt.Sprintf("!C20.run seed=%d panic=%s at=%s", seed, msg, at), "panic "+msg, "FAIL:panic:"+msg+":"+at)
			} else {
				o.emit(fmt.Sprintf("!C20.run seed=%d", seed), "err", "FAIL:race-run-crashed")
			}
		}
		collect(logPrefix, seed)
	}
	// a report with one unrecoverable stack ("failed to restore the stack": method "-") is counted with a
	// complete report on the same field that involves the same method, if this run produced one
	for s, n := range sigCount {
		parts := strings.SplitN(s, ":", 3)
		if len(parts) != 3 || !strings.HasPrefix(parts[2], "-/") {
			continue
		}
		m := parts[2][2:]
		for s2 := range sigCount {
			p2 := strings.SplitN(s2, ":", 3)
			if s2 == s || len(p2) != 3 || p2[1] != parts[1] || strings.HasPrefix(p2[2], "-/") {
				continue
			}
			ms := strings.Split(p2[2], "/")
			if len(ms) == 2 && (ms[0] == m || ms[1] == m) {
				sigCount[s2] += n
				delete(sigCount, s)
				break
			}
		}
	}
	var sigs []string
	for s := range sigCount {
		sigs = append(sigs, s)
	}
	sort.Strings(sigs)
	o.note("race detector: %d report(s), %d without go-plugin frames, %d distinct go-plugin signature(s) over %d seed(s)", totalReports, foreign, len(sigs), len(seeds))
	for _, s := range sigs {
		o.note("race %s x%d: %s", s, sigCount[s], strings.ReplaceAll(headStr(sigSample[s], 900), "\n", " | "))
		o.emit(fmt.Sprintf("!C20.race sig=%s seed=%d reports=%d", s, sigSeed[s], sigCount[s]), "race "+s, "FAIL:"+s)
	}
	if len(sigs) == 0 {
		o.emit(fmt.Sprintf("!C20.race sig=none seed=%d reports=0", seeds[0]), "ok", "ok")
	}
}

// c20CrashInfo extracts "panic: <msg>" / "fatal error: <msg>" and the topmost go-plugin frame from a crash dump.
func c20CrashInfo(stderr string) (msg, at string, ok bool) {
	lines := strings.Split(stderr, "\n")
	for i, l := range lines {
		m := ""
		switch {
		case strings.HasPrefix(l, "panic: "):
			m = l[len("panic: "):]
		case strings.HasPrefix(l, "fatal error: "):
			m = l[len("fatal error: "):]
		default:
			continue
		}
		if j := strings.IndexAny(m, "[("); j > 0 {
			m = m[:j]
		}
		m = strings.ReplaceAll(strings.TrimSpace(m), " ", "-")
		at = "-"
		for _, fl := range lines[i+1:] {
			fl = strings.TrimSpace(fl)
			if isGoPluginFrame(fl) {
				name := fl
				if k := strings.LastIndexByte(name, '/'); k >= 0 && k < strings.IndexByte(name+"(", '(') {
					name = name[k+1:]
				}
				if k := strings.IndexByte(name, '.'); k >= 0 {
					name = name[k+1:]
				}
				if k := strings.LastIndexByte(name, '('); k > 0 && strings.HasSuffix(name, ")") {
					name = name[:k]
				}
				name = strings.NewReplacer("(*", "", ")", "").Replace(name)
				at = name
				break
			}
		}
		return m, at, true
	}
	return "", "", false
}

func headStr(s string, n int) string {
	if len(s) > n {
		return s[:n]
	}
	return s
}

// ---------------------------------------------------------------- race report parsing

func splitRaceReports(log string) []string {
	var reps []string
	for _, chunk := range strings.Split(log, "==================") {
		if strings.Contains(chunk, "WARNING: DATA RACE") {
			reps = append(reps, strings.TrimSpace(chunk))
		}
	}
	return reps
}

type raceFrame struct {
	fn   string
	file string
	line int
}

var raceLocRe = regexp.MustCompile(`^\s+(\S+\.go):(\d+)`)

// raceStacks returns the frames of the access sections (not the "Goroutine … created at" sections).
func raceStacks(rep string) [][]raceFrame {
	var stacks [][]raceFrame
	var cur []raceFrame
	in := false
	lines := strings.Split(rep, "\n")
	for i := 0; i < len(lines); i++ {
		l := lines[i]
		t := strings.TrimSpace(l)
		if t == "" {
			if in {
				stacks = append(stacks, cur)
			}
			in, cur = false, nil
			continue
		}
		if !strings.HasPrefix(l, " ") {
			// section header
			if in {
				stacks = append(stacks, cur)
			}
			cur = nil
			in = strings.Contains(t, " at 0x") && strings.Contains(t, " by ")
			continue
		}
		if in && strings.HasPrefix(l, "  ") && !strings.HasPrefix(l, "   ") {
			fr := raceFrame{fn: t}
			if i+1 < len(lines) {
				if m := raceLocRe.FindStringSubmatch(lines[i+1]); m != nil {
					fr.file = m[1]
					fr.line, _ = strconv.Atoi(m[2])
					i++
				}
			}
			cur = append(cur, fr)
		}
	}
	if in {
		stacks = append(stacks, cur)
	}
	return stacks
}

const goPluginPath = "github.com/hashicorp/go-plugin"

func isGoPluginFrame(fn string) bool {
	if !strings.HasPrefix(fn, goPluginPath) {
		return false
	}
	rest := fn[len(goPluginPath):]
	if strings.HasPrefix(rest, "/test/") || strings.HasPrefix(rest, "/examples/") {
		return false
	}
	return strings.HasPrefix(rest, ".") || strings.HasPrefix(rest, "/")
}

var raceFnRe = regexp.MustCompile(`^(?:\(\*?([A-Za-z0-9_]+)\)\.)?([A-Za-z0-9_.]+?)(?:\(\))?$`)
var raceSelRe = regexp.MustCompile(`([A-Za-z_][A-Za-z0-9_]*)\.([A-Za-z_][A-Za-z0-9_]*)`)

type raceTop struct {
	typ, method string
	direct      bool        // the racing access itself is in go-plugin code (not in a callee from a dependency)
	sels        [][2]string // prefix.field selectors on the source line, in order
}

// raceSignature: race:<Type>.<field>:<M1>/<M2> from the topmost go-plugin frame of each access stack.
// The field is the selector common to the two source lines (or the one on the line of a direct access);
// the type is the receiver type of that frame, or the selector's own prefix for package-level variables
// accessed from plain functions (os.Stderr).
func raceSignature(rep string) (string, bool) {
	stacks := raceStacks(rep)
	var tops []raceTop
	for _, st := range stacks {
		for i, fr := range st {
			if !isGoPluginFrame(fr.fn) {
				continue
			}
			name := fr.fn
			if j := strings.LastIndexByte(name, '/'); j >= 0 {
				name = name[j+1:]
			}
			if j := strings.IndexByte(name, '.'); j >= 0 {
				name = name[j+1:] // drop the package name
			}
			t := raceTop{method: name, direct: i == 0}
			if m := raceFnRe.FindStringSubmatch(name); m != nil {
				t.typ, t.method = m[1], m[2]
			}
			if j := strings.Index(t.method, ".gowrap"); j >= 0 {
				t.method = t.method[:j]
			}
			for _, mm := range raceSelRe.FindAllStringSubmatch(sourceLine(fr.file, fr.line), -1) {
				t.sels = append(t.sels, [2]string{mm[1], mm[2]})
			}
			tops = append(tops, t)
			break
		}
	}
	if len(tops) == 0 {
		return "", false
	}
	methods := []string{"-", "-"}
	for i, t := range tops {
		if i < 2 {
			methods[i] = t.method
		}
	}
	sort.Strings(methods)
	typ, field := "", "?"
	choose := func(t raceTop, sel [2]string) {
		field = sel[1]
		typ = t.typ
		if typ == "" {
			typ = sel[0]
		}
	}
	found := false
	if len(tops) >= 2 {
		for _, a := range tops[0].sels {
			for _, b := range tops[1].sels {
				if !found && a[1] == b[1] {
					if tops[0].typ != "" || tops[1].typ == "" {
						choose(tops[0], a)
					} else {
						choose(tops[1], b)
					}
					found = true
				}
			}
		}
	}
	if !found {
		for _, t := range tops {
			if !found && t.direct && len(t.sels) > 0 {
				choose(t, t.sels[0])
				found = true
			}
		}
	}
	if !found {
		for _, t := range tops {
			if typ == "" {
				typ = t.typ
			}
		}
	}
	return fmt.Sprintf("race:%s.%s:%s", typ, field, strings.Join(methods, "/")), true
}

var srcCache sync.Map

func sourceLine(file string, line int) string {
	if file == "" || line <= 0 {
		return ""
	}
	var lines []string
	if v, ok := srcCache.Load(file); ok {
		lines = v.([]string)
	} else {
		data, err := os.ReadFile(file)
		if err != nil {
			return ""
		}
		lines = strings.Split(string(data), "\n")
		srcCache.Store(file, lines)
	}
	if line > len(lines) {
		return ""
	}
	l := lines[line-1]
	if i := strings.Index(l, "//"); i >= 0 {
		l = l[:i]
	}
	return l
}

// ---------------------------------------------------------------- the workload (race binary)

// c20Delays installs small seeded sleeps at the verifhook points of this process.
func c20Delays(r *rng) {
	points := []string{"client.kill.after-close", "client.start.after-launch", "muxbroker.accept.took", "muxbroker.run.stream",
		"muxbroker.timeoutwait.pre-lock", "grpcbroker.accept.pre-send", "grpcbroker.dial.got-info", "rpcserver.dispense.after-id",
		"grpcmux.server.accepted"}
	for _, p := range points {
		if r.intn(3) == 0 {
			plugin.VerifSetPoint(p, nil)
			continue
		}
		table := make([]time.Duration, 16)
		for i := range table {
			table[i] = time.Duration(r.intn(3000)) * time.Microsecond
		}
		var n uint32
		plugin.VerifSetPoint(p, func() {
			i := atomic.AddUint32(&n, 1)
			time.Sleep(table[i%16])
		})
	}
}

func c20PluginPoints(r *rng) string {
	var parts []string
	for _, p := range []string{"muxbroker.accept.took", "muxbroker.run.stream", "rpcserver.dispense.after-id", "grpcbroker.accept.pre-send", "grpcbroker.dial.got-info"} {
		if r.bool() {
			parts = append(parts, fmt.Sprintf("%s=sleep:%dus", p, 100+r.intn(2500)))
		}
	}
	return strings.Join(parts, ",")
}

type c20Tally struct {
	mu     sync.Mutex
	ok     map[string]int
	errs   map[string]int
	panics []string
	bad    []string
}

func newTally() *c20Tally { return &c20Tally{ok: map[string]int{}, errs: map[string]int{}} }

func (t *c20Tally) add(op string, err error) {
	t.mu.Lock()
	defer t.mu.Unlock()
	if err != nil {
		t.errs[op]++
	} else {
		t.ok[op]++
	}
}

func (t *c20Tally) panic(op string, p interface{}) {
	t.mu.Lock()
	defer t.mu.Unlock()
	t.panics = append(t.panics, fmt.Sprintf("%s:%v", op, p))
}

func (t *c20Tally) wrong(s string) {
	t.mu.Lock()
	defer t.mu.Unlock()
	t.bad = append(t.bad, s)
}

func (t *c20Tally) summary() string {
	t.mu.Lock()
	defer t.mu.Unlock()
	var ops []string
	seen := map[string]bool{}
	for k := range t.ok {
		seen[k] = true
	}
	for k := range t.errs {
		seen[k] = true
	}
	for k := range seen {
		ops = append(ops, k)
	}
	sort.Strings(ops)
	var sb strings.Builder
	for _, k := range ops {
		fmt.Fprintf(&sb, " %s=%d/%d", k, t.ok[k], t.ok[k]+t.errs[k])
	}
	return strings.TrimSpace(sb.String())
}

// guarded runs f with recover; a panic is recorded.
func (t *c20Tally) guarded(op string, f func() error) {
	defer func() {
		if p := recover(); p != nil {
			t.panic(op, p)
		}
	}()
	t.add(op, f())
}

var c20PollOps = []string{"ID", "Exited", "ReattachConfig", "NegotiatedVersion"}

var c20Burst = []byte(strings.Repeat("c20-burst-of-plugin-output ", 120) + "\n")

var c20ClientOps = []string{"Start", "Client", "Protocol", "NegotiatedVersion", "ID", "Exited", "ReattachConfig", "Ping", "Dispense", "Callback", "Emit"}

func c20ClientOp(c *plugin.Client, op string, tag int, q *rng, t *c20Tally) {
	t.guarded(op, func() error {
		switch op {
		case "Start":
			_, err := c.Start()
			return err
		case "Client":
			_, err := c.Client()
			return err
		case "Protocol":
			if c.Protocol() == plugin.ProtocolInvalid {
				return fmt.Errorf("invalid")
			}
		case "NegotiatedVersion":
			_ = c.NegotiatedVersion()
		case "ID":
			_ = c.ID()
		case "Exited":
			_ = c.Exited()
		case "ReattachConfig":
			_ = c.ReattachConfig()
		case "Ping":
			cp, err := c.Client()
			if err != nil {
				return err
			}
			return cp.Ping()
		case "Dispense", "Callback", "Emit":
			cp, err := c.Client()
			if err != nil {
				return err
			}
			raw, err := cp.Dispense("kit")
			if err != nil {
				return err
			}
			k := raw.(Kit)
			n := q.intn(1000)
			v, err := k.Double(n)
			if err != nil {
				return err
			}
			if v != 2*n+tag {
				t.wrong(fmt.Sprintf("Double(%d)=%d", n, v))
			}
			if op == "Callback" {
				return k.Callback()
			}
			if op == "Emit" {
				// the plugin serves several implementations at once while it writes bursts (several chunks) to both standard streams
				return k.Emit(c20Burst, c20Burst)
			}
		}
		return nil
	})
}

// c20Client: n goroutines on ONE client, then concurrent Kill racing with in-flight operations.
func c20Client(o *out, seed uint64, idx int, proto string, mux bool, r *rng) {
	n := 2 + r.intn(15)
	opsPer := 4 + r.intn(5)
	killers := 2 + r.intn(3)
	caseLine := fmt.Sprintf("!C20.client seed=%d i=%d proto=%s mux=%s n=%d ops=%d killers=%d", seed, idx, proto, b01(mux), n, opsPer, killers)
	tag := 3
	cfg := kitServeCfg{Sets: map[string]string{"3": proto}, GRPCServer: proto == "grpc"}
	stderr := &lockedBuf{}
	extra := []string{}
	if pp := c20PluginPoints(r); pp != "" {
		extra = append(extra, "GOPLUGIN_VERIF_POINTS="+pp)
	}
	c := plugin.NewClient(&plugin.ClientConfig{
		HandshakeConfig:     kitHandshake(),
		VersionedPlugins:    kitHostSets(map[int]string{tag: proto}, nil, nil),
		Cmd:                 kitCmd(cfg, extra...),
		AllowedProtocols:    []plugin.Protocol{plugin.ProtocolNetRPC, plugin.ProtocolGRPC},
		GRPCBrokerMultiplex: mux,
		Logger:              nullLogger(),
		Stderr:              stderr,
		StartTimeout:        30 * time.Second,
	})
	t := newTally()
	post := newTally()
	_, hung, _ := withTimeout(120*time.Second, func() error {
		var wg sync.WaitGroup
		start := make(chan struct{})
		for g := 0; g < n; g++ {
			wg.Add(1)
			q := r.fork(uint64(g))
			go func() {
				defer wg.Done()
				<-start
				for k := 0; k < opsPer; k++ {
					c20ClientOp(c, pick(q, c20ClientOps), tag, q, t)
				}
			}()
		}
		// a monitoring goroutine polling the cheap accessors while the others start and use the client
		stopPoll := make(chan struct{})
		var pollWg sync.WaitGroup
		pollWg.Add(1)
		go func() {
			defer pollWg.Done()
			<-start
			for i := 0; ; i++ {
				select {
				case <-stopPoll:
					return
				default:
				}
				c20ClientOp(c, c20PollOps[i%len(c20PollOps)], tag, nil, t)
				time.Sleep(200 * time.Microsecond)
			}
		}()
		close(start)
		wg.Wait()
		close(stopPoll)
		pollWg.Wait()
		// shutdown racing with in-flight operations
		var wg2 sync.WaitGroup
		start2 := make(chan struct{})
		for g := 0; g < killers; g++ {
			wg2.Add(1)
			go func() {
				defer wg2.Done()
				<-start2
				post.guarded("Kill", func() error { c.Kill(); return nil })
			}()
		}
		for g := 0; g < 4; g++ {
			wg2.Add(1)
			q := r.fork(uint64(1000 + g))
			go func() {
				defer wg2.Done()
				<-start2
				for k := 0; k < 3; k++ {
					c20ClientOp(c, pick(q, c20ClientOps), tag, q, post)
				}
			}()
		}
		// hosts poll Exited() to learn that the plugin is gone
		for _, op := range []string{"Exited", "ID"} {
			wg2.Add(1)
			go func(op string) {
				defer wg2.Done()
				<-start2
				deadline := time.Now().Add(3 * time.Second)
				for time.Now().Before(deadline) {
					c20ClientOp(c, op, tag, nil, post)
					if op == "Exited" && c.Exited() {
						break
					}
					time.Sleep(100 * time.Microsecond)
				}
				for k := 0; k < 20; k++ {
					c20ClientOp(c, op, tag, nil, post)
					time.Sleep(100 * time.Microsecond)
				}
			}(op)
		}
		close(start2)
		wg2.Wait()
		return nil
	})
	c.Kill()
	pred := "ok"
	impl := "ok"
	se := string(stderr.snapshot())
	switch {
	case hung:
		impl, pred = "hang", "FAIL:hang"
	case len(t.panics)+len(post.panics) > 0:
		impl, pred = "panic "+strings.Join(append(t.panics, post.panics...), ";"), "FAIL:panic"
	case strings.Contains(se, "panic:") || strings.Contains(se, "fatal error:"):
		impl, pred = "plugin-panic", "FAIL:plugin-panic"
		o.note("plugin stderr: %s", strings.ReplaceAll(tailStr(se, 800), "\n", " | "))
	case len(t.bad)+len(post.bad) > 0:
		impl, pred = "wrong "+strings.Join(append(t.bad, post.bad...), ";"), "FAIL:wrong-result"
	}
	o.note("client seed=%d proto=%s mux=%v n=%d: before kill %s; during kill %s", seed, proto, mux, n, t.summary(), post.summary())
	o.emit(caseLine, impl, pred)
}

// c20Mux: concurrent Accept/Dial/NextId with distinct ids on one MuxBroker pair, both directions, then Close in flight.
func c20Mux(o *out, seed uint64, r *rng) {
	n := 2 + r.intn(15)
	per := 3 + r.intn(4)
	caseLine := fmt.Sprintf("!C20.mux seed=%d n=%d per=%d", seed, n, per)
	p, err := newBrokerPair()
	if err != nil {
		o.emit(caseLine, "err setup", "FAIL:setup")
		return
	}
	t := newTally()
	var ids sync.Map
	dups := int32(0)
	_, hung, _ := withTimeout(60*time.Second, func() error {
		var wg sync.WaitGroup
		for g := 0; g < n; g++ {
			wg.Add(1)
			dir := g % 2
			q := r.fork(uint64(g))
			go func() {
				defer wg.Done()
				acc, dial := p.a, p.b
				if dir == 1 {
					acc, dial = p.b, p.a
				}
				for k := 0; k < per; k++ {
					id := acc.NextId()
					if dir == 1 {
						id |= 1 << 30 // the two brokers count independently: keep the directions' ids apart
					}
					if _, loaded := ids.LoadOrStore(id, true); loaded {
						atomic.AddInt32(&dups, 1)
					}
					unmatched := q.intn(12) == 0
					done := make(chan struct{})
					go func() {
						defer close(done)
						t.guarded("Accept", func() error {
							conn, err := acc.Accept(id)
							if err != nil {
								return err
							}
							defer conn.Close()
							var b [4]byte
							if _, err := io.ReadFull(conn, b[:]); err != nil {
								return err
							}
							b[0]++
							_, err = conn.Write(b[:])
							return err
						})
					}()
					if !unmatched {
						t.guarded("Dial", func() error {
							conn, err := dial.Dial(id)
							if err != nil {
								return err
							}
							defer conn.Close()
							want := byte(id)
							if _, err := conn.Write([]byte{want, 1, 2, 3}); err != nil {
								return err
							}
							var b [4]byte
							if _, err := io.ReadFull(conn, b[:]); err != nil {
								return err
							}
							if b[0] != want+1 {
								t.wrong(fmt.Sprintf("id %d echo %d", id, b[0]))
							}
							return nil
						})
					}
					for j := 0; j < 20; j++ {
						acc.NextId()
					}
					<-done
				}
			}()
		}
		wg.Wait()
		// Close racing with a few late operations
		var wg2 sync.WaitGroup
		for g := 0; g < 4; g++ {
			wg2.Add(1)
			go func(g int) {
				defer wg2.Done()
				id := uint32(1<<29 + g)
				if g%2 == 0 {
					t.guarded("LateAccept", func() error { _, err := p.a.Accept(id); return err })
				} else {
					t.guarded("LateDial", func() error { _, err := p.b.Dial(id + 100); return err })
				}
			}(g)
		}
		for g := 0; g < 2; g++ {
			wg2.Add(1)
			go func() {
				defer wg2.Done()
				time.Sleep(5 * time.Millisecond)
				t.guarded("Close", func() error { p.a.Close(); p.b.Close(); return nil })
			}()
		}
		wg2.Wait()
		return nil
	})
	p.close()
	impl, pred := "ok", "ok"
	switch {
	case hung:
		impl, pred = "hang", "FAIL:hang"
	case len(t.panics) > 0:
		impl, pred = "panic "+strings.Join(t.panics, ";"), "FAIL:panic"
	case dups > 0:
		impl, pred = fmt.Sprintf("duplicate-ids %d", dups), "FAIL:duplicate-ids"
	case len(t.bad) > 0:
		impl, pred = "wrong "+strings.Join(t.bad, ";"), "FAIL:wrong-result"
	}
	o.note("mux seed=%d n=%d: %s", seed, n, t.summary())
	o.emit(caseLine, impl, pred)
}

// c20GRPC: concurrent AcceptAndServe/Dial/NextId with distinct ids on one in-process GRPCBroker pair, then
// concurrent Close of the protocol client (what concurrent Client.Kill calls do) — the server runs Stop per Shutdown RPC.
func c20GRPC(o *out, seed uint64, mux bool, r *rng) {
	n := 2 + r.intn(7)
	per := 2 + r.intn(3)
	closers := 2 + r.intn(3)
	caseLine := fmt.Sprintf("!C20.grpc seed=%d mux=%s n=%d per=%d closers=%d", seed, b01(mux), n, per, closers)
	t := newTally()
	var tb testing.TB
	var client *plugin.GRPCClient
	var server *plugin.GRPCServer
	func() {
		defer func() {
			if p := recover(); p != nil {
				t.panic("setup", p)
			}
		}()
		client, server = plugin.TestPluginGRPCConn(tb, mux, map[string]plugin.Plugin{"kit": &kitGRPCPlugin{kitPlugin{tag: 5}}})
	}()
	if client == nil || server == nil {
		o.emit(caseLine, "err setup", "FAIL:setup")
		return
	}
	cb, sb := client.VerifBroker(), server.VerifBroker()
	var ids sync.Map
	dups := int32(0)
	_, hung, _ := withTimeout(90*time.Second, func() error {
		var wg sync.WaitGroup
		for g := 0; g < n; g++ {
			wg.Add(1)
			dir := g % 2
			go func() {
				defer wg.Done()
				acc, dial := sb, cb
				if dir == 1 {
					acc, dial = cb, sb
				}
				for k := 0; k < per; k++ {
					id := acc.NextId()
					if dir == 1 {
						id |= 1 << 30
					}
					if _, loaded := ids.LoadOrStore(id, true); loaded {
						atomic.AddInt32(&dups, 1)
					}
					go func() {
						defer func() {
							if p := recover(); p != nil {
								t.panic("AcceptAndServe", p)
							}
						}()
						servePingPong(acc, id)
					}()
					if mux {
						time.Sleep(150 * time.Millisecond) // let the listener register before the knock (C08's concern, not this check's)
					}
					t.guarded("Dial+Ping", func() error { return pingVia(context.Background(), dial, id) })
					for j := 0; j < 20; j++ {
						acc.NextId()
					}
				}
			}()
		}
		wg.Wait()
		// dispense + a call through the main connection while brokered servers are up
		t.guarded("Dispense", func() error {
			raw, err := client.Dispense("kit")
			if err != nil {
				return err
			}
			v, err := raw.(Kit).Double(4)
			if err == nil && v != 13 {
				t.wrong(fmt.Sprintf("Double(4)=%d", v))
			}
			return err
		})
		var wg2 sync.WaitGroup
		start := make(chan struct{})
		for g := 0; g < closers; g++ {
			wg2.Add(1)
			go func() {
				defer wg2.Done()
				<-start
				t.guarded("Close", func() error { client.Close(); return nil })
			}()
		}
		wg2.Add(1)
		go func() {
			defer wg2.Done()
			<-start
			t.guarded("LatePing", func() error { return client.Ping() })
		}()
		close(start)
		wg2.Wait()
		return nil
	})
	impl, pred := "ok", "ok"
	switch {
	case hung:
		impl, pred = "hang", "FAIL:hang"
	case len(t.panics) > 0:
		impl, pred = "panic "+strings.Join(t.panics, ";"), "FAIL:panic"
	case dups > 0:
		impl, pred = fmt.Sprintf("duplicate-ids %d", dups), "FAIL:duplicate-ids"
	case len(t.bad) > 0:
		impl, pred = "wrong "+strings.Join(t.bad, ";"), "FAIL:wrong-result"
	}
	o.note("grpc seed=%d mux=%v n=%d: %s", seed, mux, n, t.summary())
	o.emit(caseLine, impl, pred)
}

// c20Ids: g goroutines x calls NextId on one broker; the multiset of results must have no duplicates.
func c20Ids(o *out, kind string, next func() uint32) {
	const g, calls = 64, 1000
	res := make([][]uint32, g)
	var wg sync.WaitGroup
	start := make(chan struct{})
	for i := 0; i < g; i++ {
		wg.Add(1)
		go func(i int) {
			defer wg.Done()
			<-start
			r := make([]uint32, calls)
			for k := range r {
				r[k] = next()
			}
			res[i] = r
		}(i)
	}
	close(start)
	wg.Wait()
	seen := make(map[uint32]bool, g*calls)
	dups := 0
	for _, r := range res {
		for _, v := range r {
			if seen[v] {
				dups++
			}
			seen[v] = true
		}
	}
	impl, pred := "distinct", "ok"
	if dups > 0 {
		impl, pred = fmt.Sprintf("duplicates %d", dups), "FAIL:duplicate-ids"
	}
	o.emit(fmt.Sprintf("C20.ids kind=%s n=%d calls=%d", kind, g, calls), impl, pred)
}

func hostC20Race(o *out, replay string) {
	seed := seedFromEnv()
	r := newRng(seed ^ 0xC20)
	c20Delays(r.fork(1))
	reps := 1
	if tier() == "thorough" {
		reps = 2
	}
	i := 0
	for rep := 0; rep < reps; rep++ {
		for _, tc := range []struct {
			proto string
			mux   bool
		}{{"netrpc", false}, {"grpc", false}, {"grpc", true}} {
			c20Client(o, seed, i, tc.proto, tc.mux, r.fork(uint64(100+i)))
			o.flush()
			i++
		}
	}
	c20Mux(o, seed, r.fork(2))
	o.flush()
	c20GRPC(o, seed, false, r.fork(3))
	c20GRPC(o, seed, true, r.fork(4))
	o.flush()
	mb := plugin.VerifNewMuxBroker(nil)
	c20Ids(o, "mux", mb.NextId)
	var tb testing.TB
	func() {
		defer func() {
			if p := recover(); p != nil {
				o.emit("!C20.ids-setup kind=grpc", "panic", "FAIL:setup")
			}
		}()
		client, _ := plugin.TestPluginGRPCConn(tb, false, map[string]plugin.Plugin{})
		c20Ids(o, "grpc", client.VerifBroker().NextId)
		client.Close()
	}()
	o.flush()
}
