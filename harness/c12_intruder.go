package main

// C12 building blocks: intruder credentials, one RPC attempt over each wire
// protocol, and the scripted impostor plugin (`gpv plugin c12-impostor`).

import (
	"context"
	"crypto/ecdsa"
	"crypto/elliptic"
	"crypto/rand"
	"crypto/tls"
	"crypto/x509"
	"crypto/x509/pkix"
	"encoding/base64"
	"encoding/json"
	"encoding/pem"
	"errors"
	"fmt"
	"math/big"
	"net"
	"os"
	"path/filepath"
	"strings"
	"sync"
	"time"

	plugin "github.com/hashicorp/go-plugin"
	grpctest "github.com/hashicorp/go-plugin/test/grpc"
	"github.com/hashicorp/yamux"
	"google.golang.org/grpc"
	"google.golang.org/grpc/codes"
	"google.golang.org/grpc/credentials"
	"google.golang.org/grpc/health"
	"google.golang.org/grpc/health/grpc_health_v1"
	"google.golang.org/grpc/status"
)

const c12Attempt = 2 * time.Second

// ---------------------------------------------------------------- certificates

type c12CA struct {
	cert    *x509.Certificate
	key     *ecdsa.PrivateKey
	certPEM []byte
}

func c12NewKey() *ecdsa.PrivateKey {
	k, err := ecdsa.GenerateKey(elliptic.P256(), rand.Reader)
	if err != nil {
		panic(err)
	}
	return k
}

func c12Serial() *big.Int {
	n, _ := rand.Int(rand.Reader, new(big.Int).Lsh(big.NewInt(1), 120))
	return n
}

// c12NewCA: a self-signed CA (the harness installs it as THE system root pool through SSL_CERT_FILE).
func c12NewCA() *c12CA {
	k := c12NewKey()
	tpl := &x509.Certificate{SerialNumber: c12Serial(), Subject: pkix.Name{CommonName: "verif system CA", Organization: []string{"verif"}},
		NotBefore: time.Now().Add(-time.Hour), NotAfter: time.Now().Add(24 * time.Hour), IsCA: true, BasicConstraintsValid: true,
		KeyUsage: x509.KeyUsageCertSign | x509.KeyUsageDigitalSignature}
	der, err := x509.CreateCertificate(rand.Reader, tpl, tpl, k.Public(), k)
	if err != nil {
		panic(err)
	}
	c, _ := x509.ParseCertificate(der)
	return &c12CA{cert: c, key: k, certPEM: pem.EncodeToMemory(&pem.Block{Type: "CERTIFICATE", Bytes: der})}
}

func (ca *c12CA) keyPEM() []byte {
	b, _ := x509.MarshalECPrivateKey(ca.key)
	return pem.EncodeToMemory(&pem.Block{Type: "EC PRIVATE KEY", Bytes: b})
}

func c12LoadCA(certFile, keyFile string) (*c12CA, error) {
	cp, err := os.ReadFile(certFile)
	if err != nil {
		return nil, err
	}
	kp, err := os.ReadFile(keyFile)
	if err != nil {
		return nil, err
	}
	cb, _ := pem.Decode(cp)
	kb, _ := pem.Decode(kp)
	if cb == nil || kb == nil {
		return nil, errors.New("bad CA pem")
	}
	c, err := x509.ParseCertificate(cb.Bytes)
	if err != nil {
		return nil, err
	}
	k, err := x509.ParseECPrivateKey(kb.Bytes)
	if err != nil {
		return nil, err
	}
	return &c12CA{cert: c, key: k, certPEM: cp}, nil
}

func c12LeafTemplate(cn string) *x509.Certificate {
	return &x509.Certificate{SerialNumber: c12Serial(), Subject: pkix.Name{CommonName: cn, Organization: []string{"HashiCorp"}},
		DNSNames: []string{cn}, NotBefore: time.Now().Add(-time.Hour), NotAfter: time.Now().Add(24 * time.Hour),
		KeyUsage:    x509.KeyUsageDigitalSignature | x509.KeyUsageKeyEncipherment | x509.KeyUsageKeyAgreement | x509.KeyUsageCertSign,
		ExtKeyUsage: []x509.ExtKeyUsage{x509.ExtKeyUsageClientAuth, x509.ExtKeyUsageServerAuth}, IsCA: true, BasicConstraintsValid: true}
}

// c12Issue signs a localhost leaf with the CA.
func (ca *c12CA) issue() tls.Certificate {
	k := c12NewKey()
	tpl := c12LeafTemplate("localhost")
	tpl.IsCA = false
	tpl.KeyUsage = x509.KeyUsageDigitalSignature
	der, err := x509.CreateCertificate(rand.Reader, tpl, ca.cert, k.Public(), ca.key)
	if err != nil {
		panic(err)
	}
	return tls.Certificate{Certificate: [][]byte{der}, PrivateKey: k}
}

// c12SelfSigned: fresh key, self-signed, given common name.
func c12SelfSigned(cn string) tls.Certificate {
	k := c12NewKey()
	tpl := c12LeafTemplate(cn)
	der, err := x509.CreateCertificate(rand.Reader, tpl, tpl, k.Public(), k)
	if err != nil {
		panic(err)
	}
	return tls.Certificate{Certificate: [][]byte{der}, PrivateKey: k}
}

// c12Fresh: what go-plugin's own generateCert produces (new P-521 key, CN=localhost, O=HashiCorp).
func c12Fresh() tls.Certificate {
	cp, kp, err := plugin.VerifGenerateCert()
	if err != nil {
		panic(err)
	}
	c, err := tls.X509KeyPair(cp, kp)
	if err != nil {
		panic(err)
	}
	return c
}

// c12Clone: every field of the victim certificate (names, serial, validity, key ids,
// usages) on ANOTHER key, self-signed with that key.
func c12Clone(victim *x509.Certificate) tls.Certificate {
	k, err := ecdsa.GenerateKey(elliptic.P521(), rand.Reader)
	if err != nil {
		panic(err)
	}
	tpl := &x509.Certificate{SerialNumber: victim.SerialNumber, Subject: victim.Subject, DNSNames: victim.DNSNames,
		NotBefore: victim.NotBefore, NotAfter: victim.NotAfter, KeyUsage: victim.KeyUsage, ExtKeyUsage: victim.ExtKeyUsage,
		IsCA: victim.IsCA, BasicConstraintsValid: victim.BasicConstraintsValid, SubjectKeyId: victim.SubjectKeyId,
		AuthorityKeyId: victim.AuthorityKeyId}
	der, err := x509.CreateCertificate(rand.Reader, tpl, tpl, k.Public(), k)
	if err != nil {
		panic(err)
	}
	return tls.Certificate{Certificate: [][]byte{der}, PrivateKey: k}
}

// c12Classes are the credential classes an intruder tries (control and tls10 use the real configuration).
var c12IntruderClasses = []string{"plain", "nocert", "fresh", "othername", "clone", "stapled", "sysca"}

// c12Cred builds the tls.Config of one credential class; plain = (nil, true).
// victim = the certificate the attacked end is pinned to; real = the legitimate configuration (may be nil).
func c12Cred(cls string, victim *x509.Certificate, real *tls.Config, ca *c12CA) (cfg *tls.Config, plain bool, err error) {
	base := func(c *tls.Certificate) *tls.Config {
		t := &tls.Config{InsecureSkipVerify: true, ServerName: "localhost", MinVersion: tls.VersionTLS12}
		if c != nil {
			cc := *c
			t.Certificates = []tls.Certificate{cc}
			// present it whatever CA names the peer asks for
			t.GetClientCertificate = func(*tls.CertificateRequestInfo) (*tls.Certificate, error) { return &cc, nil }
		}
		return t
	}
	switch cls {
	case "plain":
		return nil, true, nil
	case "nocert":
		return base(nil), false, nil
	case "fresh", "certB":
		c := c12Fresh()
		return base(&c), false, nil
	case "othername":
		c := c12SelfSigned("intruder.example")
		return base(&c), false, nil
	case "clone":
		if victim == nil {
			return nil, false, errors.New("no victim certificate")
		}
		c := c12Clone(victim)
		return base(&c), false, nil
	case "stapled":
		if victim == nil {
			return nil, false, errors.New("no victim certificate")
		}
		c := c12Fresh()
		c.Certificate = append(c.Certificate, victim.Raw)
		return base(&c), false, nil
	case "sysca":
		c := ca.issue()
		return base(&c), false, nil
	case "tls10":
		if real == nil {
			return nil, false, errors.New("no real config")
		}
		t := real.Clone()
		t.MinVersion, t.MaxVersion = tls.VersionTLS10, tls.VersionTLS10
		return t, false, nil
	case "control":
		if real == nil {
			return nil, false, errors.New("no real config")
		}
		return real.Clone(), false, nil
	}
	return nil, false, fmt.Errorf("unknown class %q", cls)
}

// ---------------------------------------------------------------- one RPC attempt

// c12Answered: did the peer answer an RPC at all (a result or a server-generated status)?
func c12Answered(err error) bool {
	if err == nil {
		return true
	}
	switch status.Code(err) {
	case codes.Unimplemented, codes.NotFound, codes.InvalidArgument, codes.PermissionDenied, codes.FailedPrecondition:
		return true
	}
	return false
}

// c12TryGRPC dials through `dial` with the given credentials and tries the health
// service, Test.Double and PingPong.Ping.  true = some RPC was answered.
func c12TryGRPC(dial func() (net.Conn, error), cfg *tls.Config, plain bool) (served bool) {
	defer func() {
		if recover() != nil {
			served = false
		}
	}()
	ctx, cancel := context.WithTimeout(context.Background(), c12Attempt)
	defer cancel()
	opts := []grpc.DialOption{grpc.WithContextDialer(func(context.Context, string) (net.Conn, error) { return dial() })}
	if plain {
		opts = append(opts, grpc.WithInsecure())
	} else {
		opts = append(opts, grpc.WithTransportCredentials(credentials.NewTLS(cfg)))
	}
	conn, err := grpc.DialContext(ctx, "unused", opts...)
	if err != nil {
		return false
	}
	defer conn.Close()
	if _, err := grpc_health_v1.NewHealthClient(conn).Check(ctx, &grpc_health_v1.HealthCheckRequest{Service: plugin.GRPCServiceName}); c12Answered(err) {
		return true
	}
	if _, err := grpctest.NewTestClient(conn).Double(ctx, &grpctest.TestRequest{Input: 5}); c12Answered(err) {
		return true
	}
	if _, err := grpctest.NewPingPongClient(conn).Ping(ctx, &grpctest.PingRequest{}); c12Answered(err) {
		return true
	}
	return false
}

// c12TryNetRPC speaks the plugin net/rpc protocol (yamux + control/Dispenser) over conn.
func c12TryNetRPC(conn net.Conn, cfg *tls.Config, plain bool) bool {
	var rw net.Conn = conn
	if !plain {
		rw = tls.Client(conn, cfg)
	}
	conn.SetDeadline(time.Now().Add(c12Attempt))
	served := false
	_, hung, _ := withTimeout(c12Attempt+500*time.Millisecond, func() error {
		rc, err := plugin.NewRPCClient(rw, plugin.PluginSet{"kit": &kitPlugin{tag: 3}})
		if err != nil {
			return err
		}
		// no rc.Close(): it sends Control.Quit, which would stop the plugin under test
		if err := rc.Ping(); err == nil {
			served = true
			return nil
		}
		raw, err := rc.Dispense("kit")
		if err != nil {
			return err
		}
		if _, err := raw.(Kit).Double(5); err == nil {
			served = true
		}
		return nil
	})
	conn.Close()
	return served && !hung
}

func c12DialUnix(path string) func() (net.Conn, error) {
	return func() (net.Conn, error) { return net.DialTimeout("unix", path, c12Attempt) }
}

// c12PeerCert fetches the certificate a TLS listener presents (the intruder can always learn it).
func c12PeerCert(path string, h2 bool) (*x509.Certificate, error) {
	conn, err := net.DialTimeout("unix", path, c12Attempt)
	if err != nil {
		return nil, err
	}
	defer conn.Close()
	conn.SetDeadline(time.Now().Add(c12Attempt))
	cfg := &tls.Config{InsecureSkipVerify: true, ServerName: "localhost"}
	if h2 {
		cfg.NextProtos = []string{"h2"}
	}
	tc := tls.Client(conn, cfg)
	if err := tc.Handshake(); err != nil {
		return nil, err
	}
	pcs := tc.ConnectionState().PeerCertificates
	if len(pcs) == 0 {
		return nil, errors.New("no peer certificate")
	}
	return pcs[0], nil
}

// unixSockets lists the socket files directly in dir.
func unixSockets(dir string) map[string]bool {
	res := map[string]bool{}
	ents, err := os.ReadDir(dir)
	if err != nil {
		return res
	}
	for _, e := range ents {
		if e.Type()&os.ModeSocket != 0 {
			res[filepath.Join(dir, e.Name())] = true
		}
	}
	return res
}

// ---------------------------------------------------------------- impostor plugin

// c12ImpostorCfg (GPV_C12): the impostor announces certificate A and serves as Mode says.
type c12ImpostorCfg struct {
	Proto  string `json:"proto"` // netrpc | grpc | grpcmux
	Mode   string `json:"mode"`  // certB | clone | stapled | sysca | plain | control | noannounce
	CACert string `json:"ca_cert,omitempty"`
	CAKey  string `json:"ca_key,omitempty"`
}

func init() { registerPlugin("c12-impostor", pluginC12Impostor) }

// chanListener hands out connections pushed into it (yamux streams of the one mux session).
type chanListener struct {
	ch   chan net.Conn
	addr net.Addr
	once sync.Once
	done chan struct{}
}

func (l *chanListener) Accept() (net.Conn, error) {
	select {
	case c := <-l.ch:
		return c, nil
	case <-l.done:
		return nil, errors.New("closed")
	}
}
func (l *chanListener) Close() error   { l.once.Do(func() { close(l.done) }); return nil }
func (l *chanListener) Addr() net.Addr { return l.addr }

func pluginC12Impostor(args []string) {
	var cfg c12ImpostorCfg
	if err := json.Unmarshal([]byte(os.Getenv("GPV_C12")), &cfg); err != nil {
		fmt.Fprintln(os.Stderr, "c12-impostor: bad GPV_C12:", err)
		os.Exit(2)
	}
	certA := c12Fresh() // announced
	a, _ := x509.ParseCertificate(certA.Certificate[0])
	var serve *tls.Config
	mk := func(c tls.Certificate) *tls.Config {
		// as permissive as a server can be: the only thing under test is what the HOST accepts
		return &tls.Config{Certificates: []tls.Certificate{c}, ClientAuth: tls.RequestClientCert, MinVersion: tls.VersionTLS12}
	}
	switch cfg.Mode {
	case "certB", "noannounce":
		serve = mk(c12Fresh())
	case "clone":
		serve = mk(c12Clone(a))
	case "stapled":
		c := c12Fresh()
		c.Certificate = append(c.Certificate, a.Raw)
		serve = mk(c)
	case "sysca":
		ca, err := c12LoadCA(cfg.CACert, cfg.CAKey)
		if err != nil {
			fmt.Fprintln(os.Stderr, "c12-impostor:", err)
			os.Exit(2)
		}
		serve = mk(ca.issue())
	case "control":
		serve = mk(certA)
	case "plain", "noannounce-plain":
		serve = nil
	default:
		os.Exit(2)
	}
	path := filepath.Join(os.TempDir(), "imp.sock")
	os.Remove(path)
	ln, err := net.Listen("unix", path)
	if err != nil {
		fmt.Fprintln(os.Stderr, "c12-impostor:", err)
		os.Exit(2)
	}
	proto := "grpc"
	if cfg.Proto == "netrpc" {
		proto = "netrpc"
	}
	announced := base64.RawStdEncoding.EncodeToString(a.Raw)
	if cfg.Mode == "noannounce" || cfg.Mode == "noannounce-plain" {
		announced = ""
	}
	line := fmt.Sprintf("1|3|unix|%s|%s|%s", path, proto, announced)
	if cfg.Proto == "grpcmux" {
		line += "|true"
	}
	fmt.Println(line)
	os.Stdout.Sync()

	switch cfg.Proto {
	case "netrpc":
		var l net.Listener = ln
		if serve != nil {
			l = tls.NewListener(ln, serve)
		}
		srv := &plugin.RPCServer{Plugins: plugin.PluginSet{"kit": &kitPlugin{tag: 3}}, Stdout: strings.NewReader(""),
			Stderr: strings.NewReader(""), DoneCh: make(chan struct{})}
		for {
			c, err := l.Accept()
			if err != nil {
				return
			}
			go srv.ServeConn(c)
		}
	default:
		var opts []grpc.ServerOption
		if serve != nil {
			opts = append(opts, grpc.Creds(credentials.NewTLS(serve)))
		}
		s := grpc.NewServer(opts...)
		hs := health.NewServer()
		hs.SetServingStatus(plugin.GRPCServiceName, grpc_health_v1.HealthCheckResponse_SERVING)
		grpc_health_v1.RegisterHealthServer(s, hs)
		grpctest.RegisterTestServer(s, &kitGRPCServer{impl: &kitImpl{tag: 3}})
		var l net.Listener = ln
		if cfg.Proto == "grpcmux" {
			cl := &chanListener{ch: make(chan net.Conn), addr: ln.Addr(), done: make(chan struct{})}
			go func() {
				c, err := ln.Accept()
				if err != nil {
					return
				}
				yc := yamux.DefaultConfig()
				yc.LogOutput = os.Stderr
				sess, err := yamux.Server(c, yc)
				if err != nil {
					return
				}
				for {
					st, err := sess.Accept()
					if err != nil {
						return
					}
					cl.ch <- st
				}
			}()
			l = cl
		}
		s.Serve(l)
		time.Sleep(time.Hour)
	}
}
