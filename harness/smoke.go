package main

import (
	"fmt"
	"time"

	plugin "github.com/hashicorp/go-plugin"
)

func init() { register("smoke", hostSmoke) }

// hostSmoke: launch the kit over netrpc, grpc, grpc+mux; Double, Callback, Kill.
func hostSmoke(o *out, replay string) {
	for _, tc := range []struct {
		proto string
		mux   bool
		auto  bool
	}{{"netrpc", false, false}, {"grpc", false, false}, {"grpc", true, false}, {"netrpc", false, true}, {"grpc", false, true}, {"grpc", true, true}} {
		cfg := kitServeCfg{Sets: map[string]string{"3": tc.proto}, GRPCServer: tc.proto == "grpc"}
		c := plugin.NewClient(&plugin.ClientConfig{
			HandshakeConfig:     kitHandshake(),
			VersionedPlugins:    kitHostSets(map[int]string{3: tc.proto}, nil, nil),
			Cmd:                 kitCmd(cfg),
			AllowedProtocols:    []plugin.Protocol{plugin.ProtocolNetRPC, plugin.ProtocolGRPC},
			GRPCBrokerMultiplex: tc.mux,
			AutoMTLS:            tc.auto,
			Logger:              nullLogger(),
			StartTimeout:        10 * time.Second,
		})
		res := "ok"
		err, hung, p := withTimeout(30*time.Second, func() error {
			cp, err := c.Client()
			if err != nil {
				return err
			}
			raw, err := cp.Dispense("kit")
			if err != nil {
				return err
			}
			k := raw.(Kit)
			v, err := k.Double(5)
			if err != nil {
				return err
			}
			if v != 13 {
				return fmt.Errorf("double=%d", v)
			}
			if err := k.Callback(); err != nil {
				return fmt.Errorf("callback: %w", err)
			}
			return cp.Ping()
		})
		if hung {
			res = "hang"
		} else if p != nil {
			res = fmt.Sprint("panic:", p)
		} else if err != nil {
			res = "err:" + err.Error()
		}
		c.Kill()
		o.emit(fmt.Sprintf("!smoke proto=%s mux=%v auto=%v", tc.proto, tc.mux, tc.auto), res, "ok")
	}
}
