package main

// C17 correspondence: the environment and stdin the real Client.Start hands to
// the runner, for client configurations × pre-set cmd.Env × host environments.
//
// The host environment is this process's own os.Environ(): every case clears
// it, sets exactly the case's entries (plus TMPDIR, dropped again from the
// observation) and restores it afterwards — cases run sequentially.
//
// Three launch modes:
//   runner  ClientConfig.RunnerFunc captures cmd.Env / cmd.Stdin, Start fails in runner.Start
//   cmd     ClientConfig.Cmd with pre-set Env (and Stdin), nonexistent binary: Start fails in exec
//   child   ClientConfig.Cmd = this binary as `gpv plugin c17env`: a real child reports what
//           os.LookupEnv returns for every negotiation variable (after os/exec's dedup) and
//           the identity of its stdin, then exits without a handshake

import (
	"bytes"
	"crypto/tls"
	"crypto/x509"
	"encoding/pem"
	"errors"
	"fmt"
	"io"
	"os"
	"os/exec"
	"path/filepath"
	"sort"
	"strconv"
	"strings"
	"syscall"
	"time"

	hclog "github.com/hashicorp/go-hclog"
	plugin "github.com/hashicorp/go-plugin"
	"github.com/hashicorp/go-plugin/runner"
)

var c17Names = []string{"PLUGIN_MIN_PORT", "PLUGIN_MAX_PORT", "PLUGIN_PROTOCOL_VERSIONS",
	"PLUGIN_MULTIPLEX_GRPC", "PLUGIN_CLIENT_CERT", "PLUGIN_UNIX_SOCKET_GROUP", "PLUGIN_UNIX_SOCKET_DIR"}

func c17IsName(k string) bool {
	for _, n := range c17Names {
		if n == k {
			return true
		}
	}
	return false
}

type envCase struct {
	mode     string // runner | cmd | child
	ck, cv   string
	gminp    uint // as given to NewClient
	gmaxp    uint
	vp       []int // keys of VersionedPlugins
	legacy   bool  // Plugins != nil
	pv       int   // HandshakeConfig.ProtocolVersion
	mux      bool
	mtls     bool
	skip     bool
	group    string // "" = none
	usc      bool   // pass a non-nil UnixSocketConfig even without a group
	tlsc     bool   // the caller also supplies a (non-nil) ClientConfig.TLSConfig
	preset   []string
	pstdin   bool // config.Cmd.Stdin pre-set to something else
	host     []string
	hostName string // class label for the input distribution note
}

// offered is the set of versions the configuration offers: the keys of
// VersionedPlugins plus ProtocolVersion when the legacy Plugins field is set
// and that version is not already a key.
func (c *envCase) offered() []int {
	set := map[int]struct{}{}
	for _, v := range c.vp {
		set[v] = struct{}{}
	}
	if c.legacy {
		set[c.pv] = struct{}{}
	}
	return sortedKeys(set)
}

func joinStrsHex(xs []string) string { return joinHex(xs) }

func (c *envCase) line(minp, maxp uint) string {
	g := "-"
	if c.group != "" {
		g = hxs(c.group)
	}
	return fmt.Sprintf("C17.%s ck=%s cv=%s minp=%d maxp=%d versions=%s mux=%s mtls=%s skip=%s group=%s preset=%s host=%s pstdin=%s gminp=%d gmaxp=%d vp=%s legacy=%s pv=%d usc=%s tlsc=%s",
		c.mode, hxs(c.ck), hxs(c.cv), minp, maxp, joinInts(c.offered()), b01(c.mux), b01(c.mtls), b01(c.skip),
		g, joinStrsHex(c.preset), joinStrsHex(c.host), b01(c.pstdin), c.gminp, c.gmaxp, joinInts(c.vp), b01(c.legacy), c.pv, b01(c.usc), b01(c.tlsc))
}

func envCaseFromLine(tag string, m map[string]string) *envCase {
	c := &envCase{mode: "runner", ck: string(unhx(m["ck"])), cv: string(unhx(m["cv"])),
		mux: m["mux"] == "1", mtls: m["mtls"] == "1", skip: m["skip"] == "1", pstdin: m["pstdin"] == "1",
		legacy: m["legacy"] == "1", usc: m["usc"] == "1", tlsc: m["tlsc"] == "1", hostName: "replay"}
	if i := strings.IndexByte(tag, '.'); i >= 0 {
		c.mode = tag[i+1:]
	}
	if g := m["group"]; g != "" && g != "-" {
		c.group = string(unhx(g))
	}
	a, _ := strconv.ParseUint(m["gminp"], 10, 64)
	b, _ := strconv.ParseUint(m["gmaxp"], 10, 64)
	c.gminp, c.gmaxp = uint(a), uint(b)
	c.pv, _ = strconv.Atoi(m["pv"])
	for _, v := range splitComma(m["vp"]) {
		x, _ := strconv.Atoi(v)
		c.vp = append(c.vp, x)
	}
	for _, e := range splitComma(m["preset"]) {
		c.preset = append(c.preset, string(unhx(e)))
	}
	for _, e := range splitComma(m["host"]) {
		c.host = append(c.host, string(unhx(e)))
	}
	return c
}

// goEffective: value of the last "k=…" entry (what the child's os.LookupEnv(k)
// returns after os/exec removed earlier duplicates).  Plain Go, independent of the model.
func goEffective(env []string, k string) (string, bool) {
	for i := len(env) - 1; i >= 0; i-- {
		if strings.HasPrefix(env[i], k+"=") {
			return env[i][len(k)+1:], true
		}
	}
	return "", false
}

func cutKeyGo(e string) string {
	if i := strings.IndexByte(e, '='); i >= 0 {
		return e[:i]
	}
	return e
}

func pemCertDER(v string) []byte {
	blk, rest := pem.Decode([]byte(v))
	if blk == nil || blk.Type != "CERTIFICATE" || len(bytes.TrimSpace(rest)) != 0 {
		return nil
	}
	if _, err := x509.ParseCertificate(blk.Bytes); err != nil {
		return nil
	}
	return blk.Bytes
}

type envObs struct {
	launched bool
	env      []string
	stdinOK  bool
	tmpDir   string
	startErr error
	client   *plugin.Client
	childEff map[string]*string // child mode: os.LookupEnv per key (nil entry = unset)
	childIn  string             // child mode: "dev:ino" of the child's fd 0
	childOK  bool
}

var errC17Capture = errors.New("c17: environment captured, launch refused")

func c17SetHost(host []string, work string) (restore func()) {
	saved := os.Environ()
	os.Clearenv()
	for _, e := range host {
		if i := strings.IndexByte(e, '='); i > 0 {
			os.Setenv(e[:i], e[i+1:])
		}
	}
	os.Setenv("TMPDIR", work)
	return func() {
		os.Clearenv()
		for _, e := range saved {
			if i := strings.IndexByte(e, '='); i > 0 {
				os.Setenv(e[:i], e[i+1:])
			}
		}
	}
}

func fileID(f *os.File) string {
	fi, err := f.Stat()
	if err != nil {
		return "?"
	}
	if st, ok := fi.Sys().(*syscall.Stat_t); ok {
		return fmt.Sprintf("%d:%d", st.Dev, st.Ino)
	}
	return "?"
}

func runEnvCase(c *envCase, idx int, work, exe string) (caseLine, impl, pred string) {
	restore := c17SetHost(c.host, work)
	hostFull := append(append([]string(nil), c.host...), "TMPDIR="+work)
	var obs envObs
	var cmd *exec.Cmd
	var cfg *plugin.ClientConfig
	keys := append([]string{c.ck}, c17Names...)
	outFile := filepath.Join(work, fmt.Sprintf("c17-child-%d.out", idx))

	err, hung, panicked := withTimeout(20*time.Second, func() error {
		vp := map[int]plugin.PluginSet{}
		for _, v := range c.vp {
			vp[v] = plugin.PluginSet{}
		}
		cfg = &plugin.ClientConfig{
			HandshakeConfig:     plugin.HandshakeConfig{ProtocolVersion: uint(c.pv), MagicCookieKey: c.ck, MagicCookieValue: c.cv},
			MinPort:             c.gminp,
			MaxPort:             c.gmaxp,
			StartTimeout:        10 * time.Second,
			Logger:              nullLogger(),
			GRPCBrokerMultiplex: c.mux,
			AutoMTLS:            c.mtls,
			SkipHostEnv:         c.skip,
			AllowedProtocols:    []plugin.Protocol{plugin.ProtocolNetRPC, plugin.ProtocolGRPC},
			Stderr:              io.Discard,
		}
		if len(c.vp) > 0 || !c.legacy {
			cfg.VersionedPlugins = vp
		}
		if c.legacy {
			cfg.Plugins = plugin.PluginSet{}
		}
		if c.group != "" || c.usc {
			cfg.UnixSocketConfig = &plugin.UnixSocketConfig{Group: c.group}
		}
		if c.tlsc {
			cfg.TLSConfig = &tls.Config{ServerName: "localhost"}
		}
		switch c.mode {
		case "runner":
			cfg.RunnerFunc = func(l hclog.Logger, cm *exec.Cmd, tmpDir string) (runner.Runner, error) {
				obs.launched = true
				obs.env = append([]string(nil), cm.Env...)
				obs.stdinOK = cm.Stdin == io.Reader(os.Stdin)
				obs.tmpDir = tmpDir
				fr := newFakeRunner()
				fr.startErr = errC17Capture
				return fr, nil
			}
		case "cmd":
			cmd = exec.Command("/nonexistent/gpv-c17-plugin")
		case "child":
			args := []string{"plugin", "c17env", outFile}
			for _, k := range keys {
				args = append(args, hxs(k))
			}
			cmd = exec.Command(exe, args...)
		}
		if cmd != nil {
			if len(c.preset) > 0 {
				cmd.Env = append([]string(nil), c.preset...)
			}
			if c.pstdin {
				cmd.Stdin = strings.NewReader("pre-set stdin")
			}
			cfg.Cmd = cmd
		}
		obs.client = plugin.NewClient(cfg)
		_, obs.startErr = obs.client.Start()
		if cmd != nil {
			obs.env = append([]string(nil), cmd.Env...)
			obs.stdinOK = cmd.Stdin == io.Reader(os.Stdin)
			obs.launched = true
		}
		return nil
	})
	hostStdin := fileID(os.Stdin)
	// the certificate the client will present (AutoMTLS), before Kill
	var clientDER []byte
	if !hung && panicked == nil && obs.client != nil {
		if tc := obs.client.VerifTLSConfig(); tc != nil && len(tc.Certificates) > 0 && len(tc.Certificates[0].Certificate) > 0 {
			clientDER = tc.Certificates[0].Certificate[0]
		}
		_, khung, _ := withTimeout(10*time.Second, func() error { obs.client.Kill(); return nil })
		if khung {
			hung = true
		}
	}
	restore()
	_ = err

	// what the caller configured — the documented default (10000..25000) when it configured NO range at all; computed here,
	// not read back from the config struct that NewClient may have rewritten in place
	minp, maxp := c.gminp, c.gmaxp
	if minp == 0 && maxp == 0 {
		minp, maxp = 10000, 25000
	}
	if c.mode == "child" && obs.launched {
		obs.childEff, obs.childIn, obs.childOK = readChildReport(outFile)
		os.Remove(outFile)
	}

	offered := c.offered()
	caseLine = c.line(minp, maxp)

	switch {
	case hung:
		return caseLine, "hang", "FAIL:start-or-kill-hung"
	case panicked != nil:
		return caseLine, "panic", "FAIL:host-panic:" + strings.ReplaceAll(fmt.Sprint(panicked), " ", "_")
	case !obs.launched:
		return caseLine, "err nolaunch", "FAIL:runner-never-reached"
	}

	// ---- the property's predicate, directly on what the implementation did
	pred = c17Predicate(c, &obs, hostFull, minp, maxp, offered, clientDER, keys, hostStdin)

	// ---- canonical observation for the model comparison
	canonVal := func(k, v string) string {
		if k == "PLUGIN_CLIENT_CERT" && pemCertDER(v) != nil {
			return "CERT"
		}
		if k == "PLUGIN_UNIX_SOCKET_DIR" && obs.tmpDir != "" && v == obs.tmpDir {
			return "DIR"
		}
		if k == "PLUGIN_PROTOCOL_VERSIONS" {
			return sortedIntList(v)
		}
		return v
	}
	var envHex []string
	for _, e := range obs.env {
		if e == "TMPDIR="+work {
			continue
		}
		if i := strings.IndexByte(e, '='); i >= 0 {
			e = e[:i+1] + canonVal(e[:i], e[i+1:])
		}
		envHex = append(envHex, e)
	}
	var eff []string
	for _, k := range keys {
		var v string
		var ok bool
		if c.mode == "child" && obs.childOK {
			if p := obs.childEff[k]; p != nil {
				v, ok = *p, true
			}
		} else {
			v, ok = goEffective(obs.env, k)
		}
		if ok {
			eff = append(eff, hxs(k)+":"+hxs(canonVal(k, v)))
		} else {
			eff = append(eff, hxs(k)+":!")
		}
	}
	inh := 0
	for _, e := range c.host {
		if c17IsName(cutKeyGo(e)) {
			inh++
		}
	}
	stdin := "other"
	if obs.stdinOK {
		stdin = "host"
	}
	impl = fmt.Sprintf("launch:%s inh=%d npre=%d env=%s eff=%s stdin=%s", c.mode, inh, len(c.preset), joinStrsHex(envHex), strings.Join(eff, ","), stdin)
	return caseLine, impl, pred
}

func c17Predicate(c *envCase, obs *envObs, hostFull []string, minp, maxp uint, offered []int, clientDER []byte, keys []string, hostStdin string) string {
	E := obs.env
	// what the configuration dictates for variable k: (value, set)
	type want struct {
		name string
		val  string
		set  bool
		cert bool // value = the client's own certificate (random)
	}
	presetEff := func(k string) (string, bool) { return goEffective(c.preset, k) }
	cond := func(name string, on bool, val string) want {
		if on {
			return want{name: name, val: val, set: true}
		}
		v, ok := presetEff(name)
		return want{name: name, val: v, set: ok}
	}
	wants := []want{
		{name: c.ck, val: c.cv, set: true},
		{name: "PLUGIN_MIN_PORT", val: strconv.FormatUint(uint64(minp), 10), set: true},
		{name: "PLUGIN_MAX_PORT", val: strconv.FormatUint(uint64(maxp), 10), set: true},
		cond("PLUGIN_MULTIPLEX_GRPC", c.mux, "true"),
		cond("PLUGIN_UNIX_SOCKET_GROUP", c.group != "", c.group),
		cond("PLUGIN_UNIX_SOCKET_DIR", c.mode == "runner", obs.tmpDir),
	}
	if c.mtls {
		wants = append(wants, want{name: "PLUGIN_CLIENT_CERT", set: true, cert: true})
	} else {
		wants = append(wants, cond("PLUGIN_CLIENT_CERT", false, ""))
	}
	look := func(k string) (string, bool) {
		if c.mode == "child" && obs.childOK {
			if p := obs.childEff[k]; p != nil {
				return *p, true
			}
			return "", false
		}
		return goEffective(E, k)
	}
	for _, w := range wants {
		got, ok := look(w.name)
		good := ok == w.set && (!ok || got == w.val)
		if w.cert {
			der := pemCertDER(got)
			good = ok && der != nil && clientDER != nil && bytes.Equal(der, clientDER)
		}
		if good {
			continue
		}
		// attribute: does the observed value come from the host's own environment?
		if hv, hok := goEffective(hostFull, w.name); ok && hok && hv == got && !c.skip {
			return "FAIL:inherited:" + w.name
		}
		return "FAIL:wrong:" + w.name
	}
	// versions: exactly the offered set
	{
		v, ok := look("PLUGIN_PROTOCOL_VERSIONS")
		if !ok {
			return "FAIL:wrong:PLUGIN_PROTOCOL_VERSIONS"
		}
		var got []int
		if v != "" {
			for _, s := range strings.Split(v, ",") {
				x, err := strconv.Atoi(s)
				if err != nil {
					return "FAIL:wrong:PLUGIN_PROTOCOL_VERSIONS"
				}
				got = append(got, x)
			}
		}
		sort.Ints(got)
		if len(got) != len(offered) {
			return "FAIL:wrong:PLUGIN_PROTOCOL_VERSIONS"
		}
		for i := range got {
			if got[i] != offered[i] {
				return "FAIL:wrong:PLUGIN_PROTOCOL_VERSIONS"
			}
		}
	}
	// pre-set entries are kept, in place
	if len(E) < len(c.preset) {
		return "FAIL:preset-altered"
	}
	for i, e := range c.preset {
		if E[i] != e {
			return "FAIL:preset-altered"
		}
	}
	nconf := 4
	for _, b := range []bool{c.mux, c.mtls, c.group != "", c.mode == "runner"} {
		if b {
			nconf++
		}
	}
	middle := E[len(c.preset):]
	if c.skip {
		// nothing but the configured entries follows the pre-set ones
		if len(middle) != nconf {
			return "FAIL:skip-host-env-leak"
		}
	} else {
		// every host variable that is not one of go-plugin's own is passed on, once, in order
		if len(middle) < nconf {
			return "FAIL:configured-entries-missing"
		}
		inherited := middle[:len(middle)-nconf]
		j := 0
		for _, h := range hostFull {
			if c17IsName(cutKeyGo(h)) {
				continue
			}
			for j < len(inherited) && inherited[j] != h {
				j++
			}
			if j == len(inherited) {
				return "FAIL:user-var-dropped:" + cutKeyGo(h)
			}
			j++
		}
		for _, e := range inherited {
			found := false
			for _, h := range hostFull {
				if h == e {
					found = true
				}
			}
			if !found {
				return "FAIL:foreign-entry-in-host-part"
			}
		}
	}
	if !obs.stdinOK {
		return "FAIL:stdin-not-host-stdin"
	}
	if c.mode == "child" {
		if !obs.childOK {
			return "FAIL:child-report-missing"
		}
		if obs.childIn != hostStdin {
			return "FAIL:child-stdin-differs"
		}
		// os/exec + the child's runtime implement "last entry wins"
		for _, k := range keys {
			gv, gok := goEffective(E, k)
			p := obs.childEff[k]
			if (p != nil) != gok || (p != nil && *p != gv) {
				return "FAIL:child-sees-different:" + k
			}
		}
	}
	return "ok"
}

// sortedIntList: a comma separated list of canonical decimal integers is
// returned sorted (the order is Go's map iteration order: versions are compared
// as a set); anything else is returned unchanged.
func sortedIntList(v string) string {
	if v == "" {
		return v
	}
	var xs []int
	for _, s := range strings.Split(v, ",") {
		x, err := strconv.Atoi(s)
		if err != nil || strconv.Itoa(x) != s {
			return v
		}
		xs = append(xs, x)
	}
	sort.Ints(xs)
	return joinInts(xs)
}

// ---------------------------------------------------------------- child role

func init() { registerPlugin("c17env", pluginC17Env) }

// pluginC17Env: gpv plugin c17env <outfile> <hexkey>... — report os.LookupEnv of
// each key and the identity of stdin, then exit without a handshake.
func pluginC17Env(args []string) {
	if len(args) < 1 {
		os.Exit(2)
	}
	var sb strings.Builder
	sb.WriteString("stdin " + fileID(os.Stdin) + "\n")
	for _, hk := range args[1:] {
		k := string(unhx(hk))
		if v, ok := os.LookupEnv(k); ok {
			sb.WriteString("env " + hk + " " + hxs(v) + "\n")
		} else {
			sb.WriteString("env " + hk + " !\n")
		}
	}
	sb.WriteString("end\n")
	if err := os.WriteFile(args[0], []byte(sb.String()), 0o600); err != nil {
		os.Exit(3)
	}
	os.Exit(1)
}

func readChildReport(path string) (map[string]*string, string, bool) {
	b, err := os.ReadFile(path)
	if err != nil {
		return nil, "", false
	}
	eff := map[string]*string{}
	in := ""
	complete := false
	for _, l := range strings.Split(string(b), "\n") {
		f := strings.Fields(l)
		switch {
		case len(f) == 2 && f[0] == "stdin":
			in = f[1]
		case len(f) == 3 && f[0] == "env":
			k := string(unhx(f[1]))
			if f[2] == "!" {
				eff[k] = nil
			} else {
				v := string(unhx(f[2]))
				eff[k] = &v
			}
		case len(f) == 1 && f[0] == "end":
			complete = true
		}
	}
	return eff, in, complete
}

// ---------------------------------------------------------------- generator

type c17Host struct {
	name string
	env  []string // "@COOKIE" stands for the case's cookie key
}

func c17Hosts() []c17Host {
	base := []string{"HOME=/h", "PLUGIN_FOO=user", "LANG=C"}
	with := func(xs ...string) []string { return append(append([]string(nil), base...), xs...) }
	hs := []c17Host{
		{"clean", with()},
		{"empty", nil},
		{"PLUGIN_MIN_PORT", with("PLUGIN_MIN_PORT=1")},
		{"PLUGIN_MAX_PORT", with("PLUGIN_MAX_PORT=2")},
		{"PLUGIN_PROTOCOL_VERSIONS", with("PLUGIN_PROTOCOL_VERSIONS=99")},
		{"PLUGIN_MULTIPLEX_GRPC", with("PLUGIN_MULTIPLEX_GRPC=true")},
		{"PLUGIN_CLIENT_CERT", with("PLUGIN_CLIENT_CERT=hostcert")},
		{"PLUGIN_UNIX_SOCKET_GROUP", with("PLUGIN_UNIX_SOCKET_GROUP=hostgroup")},
		{"PLUGIN_UNIX_SOCKET_DIR", with("PLUGIN_UNIX_SOCKET_DIR=/hostdir")},
		{"all", with("PLUGIN_MIN_PORT=1", "PLUGIN_MAX_PORT=2", "PLUGIN_PROTOCOL_VERSIONS=99", "PLUGIN_MULTIPLEX_GRPC=true",
			"PLUGIN_CLIENT_CERT=hostcert", "PLUGIN_UNIX_SOCKET_GROUP=hostgroup", "PLUGIN_UNIX_SOCKET_DIR=/hostdir")},
		{"cookie-other-value", with("@COOKIE=host-value")},
		{"mux-false", with("PLUGIN_MULTIPLEX_GRPC=false")},
		{"empty-values", with("PLUGIN_MULTIPLEX_GRPC=", "PLUGIN_CLIENT_CERT=")},
	}
	return hs
}

var c17Conditional = []string{"PLUGIN_MULTIPLEX_GRPC=true", "PLUGIN_CLIENT_CERT=hostcert", "PLUGIN_UNIX_SOCKET_GROUP=hostgroup", "PLUGIN_UNIX_SOCKET_DIR=/hostdir"}

// c17AdjacentHosts: host environments in which go-plugin's conditional
// variables stand NEXT TO EACH OTHER — what the environment of a host that is
// itself a plugin looks like (Client.Start appends them one after the other).
// A filter that does not look at every entry (e.g. deletes in place and moves
// on) passes single or separated variables and fails only on these.
//
//	adjacent-pair   every ordered pair, at the start / in the middle / at the end
//	adjacent-run    every ordered triple and every order of all four, in the middle
//	separated-pair  every ordered pair with a user variable in between (control)
//	nested-host     the conditional entries a real outer client hands to its plugin,
//	                in the order it hands them over (obtained from the real code)
func c17AdjacentHosts() []c17Host {
	var hs []c17Host
	cv := c17Conditional
	for i := range cv {
		for j := range cv {
			if i == j {
				continue
			}
			hs = append(hs,
				c17Host{"adjacent-pair", []string{cv[i], cv[j], "HOME=/h", "PLUGIN_FOO=user", "LANG=C"}},
				c17Host{"adjacent-pair", []string{"HOME=/h", cv[i], cv[j], "PLUGIN_FOO=user", "LANG=C"}},
				c17Host{"adjacent-pair", []string{"HOME=/h", "PLUGIN_FOO=user", "LANG=C", cv[i], cv[j]}},
				c17Host{"separated-pair", []string{"HOME=/h", cv[i], "PLUGIN_FOO=user", cv[j], "LANG=C"}})
			for k := range cv {
				if k == i || k == j {
					continue
				}
				hs = append(hs, c17Host{"adjacent-run", []string{"HOME=/h", cv[i], cv[j], cv[k], "LANG=C"}})
				l := 6 - i - j - k
				hs = append(hs, c17Host{"adjacent-run", []string{"HOME=/h", cv[i], cv[j], cv[k], cv[l], "LANG=C"}})
			}
		}
	}
	return hs
}

// c17NestedHosts asks the real client what it puts into its plugin's
// environment for outer configurations with several features on, and returns
// host environments carrying exactly those go-plugin entries in that order
// (the certificate value replaced by a short token, the socket directory by a
// fixed path).
func c17NestedHosts(gid string) []c17Host {
	var hs []c17Host
	for _, oc := range []struct{ mux, mtls, group bool }{{true, true, false}, {true, true, true}, {false, true, true}, {true, false, true}} {
		var got []string
		cfg := &plugin.ClientConfig{
			HandshakeConfig:     plugin.HandshakeConfig{ProtocolVersion: 1, MagicCookieKey: "OUTER_COOKIE", MagicCookieValue: "outer"},
			Plugins:             plugin.PluginSet{},
			Logger:              nullLogger(),
			GRPCBrokerMultiplex: oc.mux,
			AutoMTLS:            oc.mtls,
			SkipHostEnv:         true,
			AllowedProtocols:    []plugin.Protocol{plugin.ProtocolGRPC},
			Stderr:              io.Discard,
			RunnerFunc: func(l hclog.Logger, cm *exec.Cmd, tmpDir string) (runner.Runner, error) {
				got = append([]string(nil), cm.Env...)
				fr := newFakeRunner()
				fr.startErr = errC17Capture
				return fr, nil
			},
		}
		if oc.group {
			cfg.UnixSocketConfig = &plugin.UnixSocketConfig{Group: gid}
		}
		_, hung, pan := withTimeout(20*time.Second, func() error {
			c := plugin.NewClient(cfg)
			c.Start()
			c.Kill()
			return nil
		})
		if hung || pan != nil {
			continue
		}
		env := []string{"HOME=/h"}
		for _, e := range got {
			k := cutKeyGo(e)
			switch {
			case k == "PLUGIN_CLIENT_CERT":
				env = append(env, k+"=outercert")
			case k == "PLUGIN_UNIX_SOCKET_DIR":
				env = append(env, k+"=/outerdir")
			case c17IsName(k) || k == "OUTER_COOKIE":
				env = append(env, e)
			}
		}
		hs = append(hs, c17Host{"nested-host", append(env, "LANG=C")})
	}
	return hs
}

func c17Presets() [][]string {
	return [][]string{
		nil,
		{"USERVAR=preset", "LANG=preset"},
		{"PLUGIN_MULTIPLEX_GRPC=true", "PLUGIN_CLIENT_CERT=presetcert", "PLUGIN_UNIX_SOCKET_DIR=/presetdir"},
		{"BARE", "@COOKIE=presetcookie", "PLUGIN_MIN_PORT=1", "PLUGIN_PROTOCOL_VERSIONS=77", "=weird", "DUP=1", "DUP=2"},
	}
}

func c17Subst(xs []string, ck string) []string {
	var out []string
	for _, x := range xs {
		out = append(out, strings.Replace(x, "@COOKIE", ck, 1))
	}
	return out
}

type c17Secondary struct {
	ck, cv string
	vp     []int
	legacy bool
	pv     int
	minp   uint
	maxp   uint
}

func c17Secondaries(i int) c17Secondary {
	cookies := [][2]string{{"K", "V"}, {"BASIC_PLUGIN", "hello"}, {"MAGIC_COOKIE", "a=b c"}, {"EMPTYVAL", ""}}
	vers := []struct {
		vp     []int
		legacy bool
		pv     int
	}{{[]int{1}, false, 0}, {[]int{1, 2, 3}, false, 0}, {nil, false, 0}, {[]int{-1, 0, 10}, false, 0}, {nil, true, 3},
		{[]int{1, 2}, true, 3}, {[]int{1, 2}, true, 2}, {[]int{5, 4, 3, 2, 1, 12, 11, 100}, false, 0}}
	ports := [][2]uint{{0, 0}, {10000, 10100}, {1, 65535}, {0, 9000}, {20000, 0}}
	ck := cookies[i%len(cookies)]
	v := vers[i%len(vers)]
	p := ports[i%len(ports)]
	return c17Secondary{ck[0], ck[1], v.vp, v.legacy, v.pv, p[0], p[1]}
}

func c17Generate(r *rng, gid string, nRandom int, allChildren bool) []*envCase {
	var cases []*envCase
	hosts := c17Hosts()
	presets := c17Presets()
	idx := 0
	mk := func(mode string, bits int, preset []string, h c17Host, pstdin bool) *envCase {
		s := c17Secondaries(idx)
		idx++
		c := &envCase{mode: mode, ck: s.ck, cv: s.cv, gminp: s.minp, gmaxp: s.maxp, vp: s.vp, legacy: s.legacy, pv: s.pv,
			mux: bits&1 != 0, mtls: bits&2 != 0, skip: bits&8 != 0, usc: idx%2 == 0, tlsc: idx%3 == 0, pstdin: pstdin,
			preset: c17Subst(preset, s.ck), host: c17Subst(h.env, s.ck), hostName: h.name}
		if bits&4 != 0 {
			c.group = gid
		}
		return c
	}
	for bits := 0; bits < 16; bits++ {
		for _, h := range hosts {
			cases = append(cases, mk("runner", bits, nil, h, false))
			for pi, p := range presets {
				cases = append(cases, mk("cmd", bits, p, h, (bits+pi)%2 == 1))
				if allChildren || bits == 0 || bits == 3 || bits == 8 || bits == 7 {
					cases = append(cases, mk("child", bits, p, h, (bits+pi)%2 == 0))
				}
			}
		}
	}
	// conditional variables next to each other in the host environment
	adj := append(c17AdjacentHosts(), c17NestedHosts(gid)...)
	for _, h := range adj {
		cases = append(cases, mk("runner", 0, nil, h, false), mk("cmd", 0, nil, h, false),
			mk("runner", 5, nil, h, false), mk("cmd", 2, nil, h, true))
		if allChildren || h.name == "nested-host" {
			cases = append(cases, mk("child", 0, nil, h, false))
		}
	}
	// seeded random combinations: any subset of go-plugin's variables (and user
	// variables) in the host environment and in the pre-set cmd.Env
	vals := []string{"true", "false", "", "1", "hostvalue", "/some/dir", "7,8"}
	users := []string{"PATH=/bin", "HOME=/h", "PLUGIN_FOO=user", "X=1=2", "LC_ALL=C", "PLUGIN_=x", "plugin_multiplex_grpc=true"}
	for i := 0; i < nRandom; i++ {
		q := r.fork(uint64(i))
		mode := pick(q, []string{"runner", "cmd", "cmd"})
		if q.intn(10) == 0 {
			mode = "child"
		}
		var host, preset []string
		for _, u := range users {
			if q.intn(3) == 0 {
				host = append(host, u)
			}
		}
		for _, n := range c17Names {
			if q.intn(3) == 0 {
				host = append(host, n+"="+pick(q, vals))
			}
		}
		if q.intn(4) == 0 {
			host = append(host, "@COOKIE="+pick(q, vals))
		}
		// shuffle the host entries
		for j := len(host) - 1; j > 0; j-- {
			k := q.intn(j + 1)
			host[j], host[k] = host[k], host[j]
		}
		// every other case: go-plugin's variables gathered into one adjacent run
		// at a random position (a host that is itself a plugin)
		hname := "random"
		if q.bool() {
			var neg, rest []string
			for _, e := range host {
				if c17IsName(cutKeyGo(e)) {
					neg = append(neg, e)
				} else {
					rest = append(rest, e)
				}
			}
			if len(neg) >= 2 {
				at := q.intn(len(rest) + 1)
				host = append(append(append([]string(nil), rest[:at]...), neg...), rest[at:]...)
				hname = "random-adjacent"
			}
		}
		if mode != "runner" {
			for _, n := range c17Names {
				if q.intn(6) == 0 {
					preset = append(preset, n+"="+pick(q, vals))
				}
			}
			if q.intn(3) == 0 {
				preset = append(preset, pick(q, []string{"USERVAR=p", "BARE", "HOME=/preset", "@COOKIE=p"}))
			}
		}
		c := mk(mode, q.intn(16), preset, c17Host{hname, host}, q.bool())
		cases = append(cases, c)
	}
	return cases
}

func init() { register("C17", hostC17) }

func hostC17(o *out, replay string) {
	work := os.Getenv("VERIF_WORK")
	if work == "" {
		work = os.TempDir()
	}
	exe := selfExe()
	if replay != "" {
		tag, m := kvLine(replay)
		c := envCaseFromLine(tag, m)
		line, impl, pred := runEnvCase(c, 0, work, exe)
		o.emit(line, impl, pred)
		return
	}
	// AutoMTLS and a host that cannot produce its certificate (before anything else runs: a process-wide source is swapped)
	{
		impl, pred := runAutoMTLSCertFault()
		o.emit("!C17.automtls-cert-fault", impl, pred)
	}
	r := newRng(seedFromEnv())
	n := 400
	if tier() == "thorough" {
		n = 20000
	}
	gid := strconv.Itoa(os.Getgid())
	cases := c17Generate(r, gid, n, tier() == "thorough")
	byMode := map[string]int{}
	byHost := map[string]int{}
	fails := map[string]int{}
	for i, c := range cases {
		line, impl, pred := runEnvCase(c, i, work, exe)
		o.emit(line, impl, pred)
		byMode[c.mode]++
		byHost[c.hostName]++
		if pred != "ok" {
			fails[strings.TrimPrefix(pred, "FAIL:")]++
		}
	}
	o.note("C17 cases=%d by launch mode: %s", len(cases), countsString(byMode))
	o.note("C17 host environment classes: %s", countsString(byHost))
	o.note("C17 configs: {mux, AutoMTLS, socket group, SkipHostEnv} all 16 combinations x 13 host classes x (runner | cmd x 4 pre-set cmd.Env | child subset); cookie/version-set/port variants rotate with the case index; %d seeded random cases", n)
	o.note("C17 adjacency: host environments with conditional variables next to each other — every ordered pair at start/middle/end, every ordered triple and all 24 orders of the four, separated pairs as control, the entries of real outer clients in their order (nested-host) — x 4 configurations; %d host environments contain two or more adjacent conditional variables", c17CountAdjacent(cases))
	if len(fails) > 0 {
		o.note("C17 predicate failures by signature: %s", countsString(fails))
	}
}

// c17CountAdjacent: cases whose host environment has a conditional variable directly after another one.
func c17CountAdjacent(cases []*envCase) int {
	isCond := func(e string) bool {
		k := cutKeyGo(e)
		return k == "PLUGIN_MULTIPLEX_GRPC" || k == "PLUGIN_CLIENT_CERT" || k == "PLUGIN_UNIX_SOCKET_GROUP" || k == "PLUGIN_UNIX_SOCKET_DIR"
	}
	n := 0
	for _, c := range cases {
		for i := 1; i < len(c.host); i++ {
			if isCond(c.host[i-1]) && isCond(c.host[i]) {
				n++
				break
			}
		}
	}
	return n
}

func countsString(m map[string]int) string {
	var ks []string
	for k := range m {
		ks = append(ks, k)
	}
	sort.Strings(ks)
	var ps []string
	for _, k := range ks {
		ps = append(ps, fmt.Sprintf("%s=%d", k, m[k]))
	}
	return strings.Join(ps, " ")
}
