package main

// C05 (failed start leaves nothing behind) and C15 (reattach / test mode) scenarios.

import (
	"context"
	"fmt"
	"github.com/hashicorp/yamux"
	"io"
	"net"
	"os"
	"os/exec"
	"path/filepath"
	"strings"
	"sync"
	"sync/atomic"
	"syscall"
	"time"

	hclog "github.com/hashicorp/go-hclog"
	plugin "github.com/hashicorp/go-plugin"
	"github.com/hashicorp/go-plugin/runner"
)

// lcProcRunner is a runner.Runner around a real process (what a custom RunnerFunc would be).
type lcProcRunner struct {
	hostDir, pluginDir string // non-empty: translate unix addresses between the two views (see namespaced)
	cmd                *exec.Cmd
	stdout             io.ReadCloser
	stderr             io.ReadCloser
	kills              int32
	failAfterLaunch    bool // Start reports an error after the process has been created
	waitOnce           sync.Once
}

func newLcProcRunner(cmd *exec.Cmd) (*lcProcRunner, error) {
	so, err := cmd.StdoutPipe()
	if err != nil {
		return nil, err
	}
	se, err := cmd.StderrPipe()
	if err != nil {
		return nil, err
	}
	return &lcProcRunner{cmd: cmd, stdout: so, stderr: se}, nil
}

func (r *lcProcRunner) Start(ctx context.Context) error {
	if err := r.cmd.Start(); err != nil {
		return err
	}
	if r.failAfterLaunch {
		// a runner that creates its workload and then waits for it to become ready: the wait is given up when the start
		// context ends, the workload is left for Kill ("Kill should stop the plugin and perform any cleanup required")
		select {
		case <-ctx.Done():
		case <-time.After(150 * time.Millisecond):
		}
		return fmt.Errorf("readiness probe failed")
	}
	return nil
}
func (r *lcProcRunner) Diagnose(ctx context.Context) string { return "" }
func (r *lcProcRunner) Stdout() io.ReadCloser               { return r.stdout }
func (r *lcProcRunner) Stderr() io.ReadCloser               { return r.stderr }
func (r *lcProcRunner) Name() string                        { return r.cmd.Path }
func (r *lcProcRunner) Wait(ctx context.Context) error      { return r.cmd.Wait() }
func (r *lcProcRunner) Kill(ctx context.Context) error {
	atomic.AddInt32(&r.kills, 1)
	if r.cmd.Process != nil {
		r.cmd.Process.Kill()
		if r.failAfterLaunch {
			r.waitOnce.Do(func() { r.cmd.Wait() }) // nobody else waits for a workload whose start was reported as failed
		}
	}
	return nil
}
func (r *lcProcRunner) ID() string {
	if r.cmd.Process == nil {
		return ""
	}
	return fmt.Sprint(r.cmd.Process.Pid)
}
func (r *lcProcRunner) PluginToHost(n, a string) (string, string, error) {
	if r.hostDir == "" {
		return n, a, nil
	}
	return nsRebase(n, a, r.pluginDir, r.hostDir)
}
func (r *lcProcRunner) HostToPlugin(n, a string) (string, string, error) {
	if r.hostDir == "" {
		return n, a, nil
	}
	return nsRebase(n, a, r.hostDir, r.pluginDir)
}

// nsRebase: the address translation of a runner whose plugin sees the socket directory under another path (a bind mount
// in a container; here a symlink pluginDir -> hostDir).  Like such a runner it refuses a path from the wrong side.
func nsRebase(n, a, from, to string) (string, string, error) {
	if n != "unix" {
		return n, a, nil
	}
	if !strings.HasPrefix(a, from+string(os.PathSeparator)) {
		return "", "", fmt.Errorf("address %q is not inside %q", a, from)
	}
	return n, filepath.Join(to, strings.TrimPrefix(a, from)), nil
}

// namespaced makes the runner translate addresses between hostDir (the directory go-plugin created for it) and
// pluginDir (a symlink to it, the name the plugin is told), and returns the environment entry for the plugin.
func (r *lcProcRunner) namespaced(hostDir, nsRoot string) (string, error) {
	hd, err := filepath.EvalSymlinks(hostDir)
	if err != nil {
		return "", err
	}
	pd := filepath.Join(nsRoot, "sockets")
	if err := os.Symlink(hd, pd); err != nil {
		return "", err
	}
	r.hostDir, r.pluginDir = hd, pd
	return plugin.EnvUnixSocketDir + "=" + pd, nil
}

var _ runner.Runner = (*lcProcRunner)(nil)

type c05Cause struct {
	name    string
	kit     kitServeCfg
	allowed []plugin.Protocol
	mux     bool
	timeout time.Duration
}

func c05Causes() []c05Cause {
	line := func(s string) string { return "printhang:" + hxs(s+"\n") }
	both := []plugin.Protocol{plugin.ProtocolNetRPC, plugin.ProtocolGRPC}
	return []c05Cause{
		{"early-exit", kitServeCfg{PreServe: "exit:3"}, both, false, 5 * time.Second},
		{"early-exit-with-partial-line", kitServeCfg{PreServe: "printexit:" + hxs("1|3|un")}, both, false, 5 * time.Second},
		{"start-timeout", kitServeCfg{PreServe: "sleep:600000"}, both, false, 400 * time.Millisecond},
		{"garbage-line", kitServeCfg{PreServe: line("hello world")}, both, false, 5 * time.Second},
		{"three-fields", kitServeCfg{PreServe: line("1|3|tcp")}, both, false, 5 * time.Second},
		{"core-version-2", kitServeCfg{PreServe: line("2|3|tcp|127.0.0.1:1|netrpc|")}, both, false, 5 * time.Second},
		{"core-version-nan", kitServeCfg{PreServe: line("x|3|tcp|127.0.0.1:1|netrpc|")}, both, false, 5 * time.Second},
		{"app-version-unoffered", kitServeCfg{PreServe: line("1|9|tcp|127.0.0.1:1|netrpc|")}, both, false, 5 * time.Second},
		{"app-version-nan", kitServeCfg{PreServe: line("1|v3|tcp|127.0.0.1:1|netrpc|")}, both, false, 5 * time.Second},
		{"unknown-network", kitServeCfg{PreServe: line("1|3|foo|bar|netrpc|")}, both, false, 5 * time.Second},
		{"unresolvable-address", kitServeCfg{PreServe: line("1|3|tcp|:99999|netrpc|")}, both, false, 5 * time.Second},
		{"protocol-not-allowed", kitServeCfg{PreServe: line("1|3|tcp|127.0.0.1:1|grpc|")}, []plugin.Protocol{plugin.ProtocolNetRPC}, false, 5 * time.Second},
		{"protocol-not-allowed-real", kitServeCfg{Sets: map[string]string{"3": "grpc"}, GRPCServer: true}, nil, false, 5 * time.Second},
		{"bad-certificate", kitServeCfg{PreServe: line("1|3|tcp|127.0.0.1:1|netrpc|" + strings.Repeat("!", 60))}, both, false, 5 * time.Second},
		{"mux-not-advertised", kitServeCfg{PreServe: line("1|3|tcp|127.0.0.1:1|grpc|")}, both, true, 5 * time.Second},
		{"mux-false", kitServeCfg{PreServe: line("1|3|tcp|127.0.0.1:1|grpc||false")}, both, true, 5 * time.Second},
		{"mux-unparsable", kitServeCfg{PreServe: line("1|3|tcp|127.0.0.1:1|grpc||maybe")}, both, true, 5 * time.Second},
		{"incompatible-version-real", kitServeCfg{Sets: map[string]string{"7": "netrpc"}}, both, false, 5 * time.Second},
		{"std-streams-closed-alive", kitServeCfg{PreServe: "closehang:"}, both, false, 5 * time.Second},
		{"std-streams-closed-alive-after-partial-line", kitServeCfg{PreServe: "closehang:" + hxs("1|3|un")}, both, false, 5 * time.Second},
	}
}

func runC05Real(cause c05Cause, launch string, idx int) (caseLine, impl, pred string) {
	work := os.Getenv("VERIF_WORK")
	base := filepath.Join(work, fmt.Sprintf("c05-%d-%d", os.Getpid(), idx))
	os.MkdirAll(base, 0o755)
	defer os.RemoveAll(base)
	caseLine = fmt.Sprintf("C05 launch=%s hs=0 ops=S,K cause=%s", map[string]string{"cmd": "cmd", "cmdattr": "cmd", "cmdcancel": "cmd", "cmdstdin": "cmd", "runner": "runner"}[launch], cause.name)
	cmd := kitCmd(cause.kit, "TMPDIR="+base)
	if launch == "cmdcancel" {
		// the host built the command with exec.CommandContext and the documented graceful-stop hook (Cancel = SIGINT):
		// that hook is the host's business (its own context), not what a force kill may use — plugins ignore SIGINT
		caseLine += " attr=cancel"
		cc := exec.CommandContext(context.Background(), cmd.Path, cmd.Args[1:]...)
		cc.Env = cmd.Env
		cc.Cancel = func() error { return cc.Process.Signal(os.Interrupt) }
		cmd = cc
		launch = "cmd"
	}
	if launch == "cmdstdin" {
		// the host's command carries a standard input of its own that is not a file and never ends (a pipe nobody writes
		// to): plugins get the host's standard input whatever the command says, so nothing waits for that reader
		caseLine += " attr=stdin"
		pr0, pw0 := io.Pipe()
		defer pw0.Close()
		cmd.Stdin = pr0
		launch = "cmd"
	}
	if launch == "cmdattr" {
		// the host configured process attributes of its own on the command (here the empty set: no new session or group)
		caseLine += " attr=own"
		cmd.SysProcAttr = &syscall.SysProcAttr{}
		launch = "cmd"
	}
	cfg := &plugin.ClientConfig{
		HandshakeConfig:     kitHandshake(),
		VersionedPlugins:    kitHostSets(map[int]string{3: "netrpc"}, nil, nil),
		AllowedProtocols:    cause.allowed,
		GRPCBrokerMultiplex: cause.mux,
		Logger:              nullLogger(),
		StartTimeout:        cause.timeout,
		UnixSocketConfig:    &plugin.UnixSocketConfig{TempDir: base},
	}
	var pr *lcProcRunner
	var rfCalls int32
	if launch == "cmd" {
		cfg.Cmd = cmd
	} else {
		cfg.RunnerFunc = func(l hclog.Logger, cm *exec.Cmd, tmpDir string) (runner.Runner, error) {
			atomic.AddInt32(&rfCalls, 1)
			cmd.Env = append(cmd.Env, cm.Env...)
			var err error
			pr, err = newLcProcRunner(cmd)
			return pr, err
		}
	}
	client := plugin.NewClient(cfg)
	var startErr error
	t0 := time.Now()
	_, hung, pp := withTimeout(cause.timeout+8*time.Second, func() error { _, startErr = client.Start(); return nil })
	pred = "ok"
	outs := []string{}
	switch {
	case hung:
		outs = append(outs, "hang")
		pred = "FAIL:start-hung"
	case pp != nil:
		outs = append(outs, "panic")
		pred = "FAIL:start-panicked"
	case startErr == nil:
		outs = append(outs, "a0")
		pred = "FAIL:start-succeeded-on-" + cause.name
	default:
		outs = append(outs, "e")
	}
	if el := time.Since(t0); el > cause.timeout+3*time.Second && pred == "ok" {
		pred = "FAIL:start-exceeded-timeout"
	}
	pid := 0
	if cmd.Process != nil {
		pid = cmd.Process.Pid
	}
	if pred == "ok" && pid != 0 && !waitDead(pid, 2*time.Second) {
		pred = "FAIL:process-left-behind:" + cause.name
	}
	tk := time.Now()
	_, khung, kpp := withTimeout(10*time.Second, func() error { client.Kill(); return nil })
	switch {
	case khung:
		outs = append(outs, "hang")
		if pred == "ok" {
			pred = "FAIL:kill-after-failed-start-hung"
		}
	case kpp != nil:
		outs = append(outs, "panic")
		if pred == "ok" {
			pred = "FAIL:kill-panicked"
		}
	default:
		outs = append(outs, "u")
		if time.Since(tk) > 3*time.Second && pred == "ok" {
			pred = "FAIL:kill-after-failed-start-slow"
		}
	}
	dirs := countDirs(base)
	if dirs != 0 && pred == "ok" {
		pred = "FAIL:socket-dir-left-behind"
	}
	launches := 0
	if pid != 0 {
		launches = 1
	}
	impl = fmt.Sprintf("outs=%s launches=%d dirs=%d", strings.Join(outs, ","), launches, dirs)
	if launch == "runner" {
		k := 0
		if pr != nil {
			k = int(atomic.LoadInt32(&pr.kills))
		}
		impl += fmt.Sprintf(" kills=%d", k)
	}
	if cmd.Process != nil {
		cmd.Process.Kill()
	}
	return
}

// runC05NoRunner: the launch fails BEFORE there is a runner — RunnerFunc itself returns an error, or the configured group
// for the socket directory does not exist — after go-plugin has created the socket directory: Start reports the error and
// (with or without a later Kill) no directory is left behind.
func runC05NoRunner(kind string) (impl, pred string) {
	base := filepath.Join(os.Getenv("VERIF_WORK"), fmt.Sprintf("c05-nr-%d-%s", os.Getpid(), kind))
	os.MkdirAll(base, 0o755)
	defer os.RemoveAll(base)
	usc := &plugin.UnixSocketConfig{TempDir: base}
	if kind == "bad-group" {
		usc.Group = "no-such-group-gpv"
	}
	calls := 0
	client := plugin.NewClient(&plugin.ClientConfig{
		HandshakeConfig:  kitHandshake(),
		VersionedPlugins: kitHostSets(map[int]string{3: "netrpc"}, nil, nil),
		Logger:           nullLogger(),
		StartTimeout:     3 * time.Second,
		UnixSocketConfig: usc,
		RunnerFunc: func(l hclog.Logger, cm *exec.Cmd, tmpDir string) (runner.Runner, error) {
			calls++
			return nil, fmt.Errorf("runner backend unavailable")
		},
	})
	var serr error
	if _, hung, pp := withTimeout(8*time.Second, func() error { _, serr = client.Start(); return nil }); hung || pp != nil {
		return "start-hung", "FAIL:start-hung"
	}
	if serr == nil {
		return "start-ok", "FAIL:start-succeeded-without-a-runner"
	}
	_, khung, kpp := withTimeout(8*time.Second, func() error { client.Kill(); return nil })
	dirs := countDirs(base)
	impl = fmt.Sprintf("rfcalls=%d dirs=%d", calls, dirs)
	switch {
	case khung:
		return impl, "FAIL:kill-hung"
	case kpp != nil:
		return impl, "FAIL:kill-panicked"
	case dirs != 0:
		return impl, "FAIL:socket-dir-left-behind"
	}
	return impl, "ok"
}

func runC05RunnerStartFails() (impl, pred string) {
	base := filepath.Join(os.Getenv("VERIF_WORK"), fmt.Sprintf("c05-rsf-%d", os.Getpid()))
	os.MkdirAll(base, 0o755)
	defer os.RemoveAll(base)
	cmd := kitCmd(kitServeCfg{Sets: map[string]string{"3": "netrpc"}}, "TMPDIR="+base)
	var pr *lcProcRunner
	client := plugin.NewClient(&plugin.ClientConfig{
		HandshakeConfig:  kitHandshake(),
		VersionedPlugins: kitHostSets(map[int]string{3: "netrpc"}, nil, nil),
		Logger:           nullLogger(),
		StartTimeout:     3 * time.Second,
		UnixSocketConfig: &plugin.UnixSocketConfig{TempDir: base},
		RunnerFunc: func(l hclog.Logger, cm *exec.Cmd, tmpDir string) (runner.Runner, error) {
			cmd.Env = append(cmd.Env, cm.Env...)
			var err error
			pr, err = newLcProcRunner(cmd)
			if pr != nil {
				pr.failAfterLaunch = true
			}
			return pr, err
		},
	})
	defer func() {
		if cmd.Process != nil {
			cmd.Process.Kill()
		}
	}()
	var serr error
	if _, hung, pp := withTimeout(8*time.Second, func() error { _, serr = client.Start(); return nil }); hung || pp != nil {
		return "start-hung", "FAIL:start-hung"
	}
	if serr == nil {
		return "start-ok", "FAIL:setup-start-succeeded"
	}
	pid := 0
	if cmd.Process != nil {
		pid = cmd.Process.Pid
	}
	t0 := time.Now()
	_, khung, kpp := withTimeout(8*time.Second, func() error { client.Kill(); return nil })
	dirs := countDirs(base)
	k := 0
	if pr != nil {
		k = int(atomic.LoadInt32(&pr.kills))
	}
	impl = fmt.Sprintf("kills=%d dirs=%d alive=%s", k, dirs, b01(pid != 0 && pidAlive(pid)))
	switch {
	case khung:
		return impl, "FAIL:kill-after-failed-start-hung"
	case kpp != nil:
		return impl, "FAIL:kill-panicked"
	case time.Since(t0) > 3*time.Second:
		return impl, "FAIL:kill-after-failed-start-slow"
	case pid != 0 && pidAlive(pid):
		return impl, "FAIL:process-left-behind-after-kill"
	case dirs != 0:
		return impl, "FAIL:socket-dir-left-behind"
	}
	return impl, "ok"
}

func init() {
	register("C05", func(o *out, replay string) {
		if replay != "" {
			tag, m := kvLine(replay)
			if tag == "C01" {
				c := hsCaseFromLine(m)
				res := runHsCase(c)
				o.emit(c.line(), res.impl, res.pred)
				return
			}
			for i, c := range c05Causes() {
				if c.name == m["cause"] {
					l := m["launch"]
					if m["attr"] == "own" {
						l = "cmdattr"
					}
					if m["attr"] == "cancel" {
						l = "cmdcancel"
					}
					if m["attr"] == "stdin" {
						l = "cmdstdin"
					}
					cl, impl, pred := runC05Real(c, l, i)
					o.emit(cl, impl, pred)
				}
			}
			return
		}
		// (a) handshake level: every failing first line kills the scripted process and Kill cleans up
		r := newRng(seedFromEnv())
		n := 3000
		if tier() == "thorough" {
			n = 60000
		}
		cases := hsGenerate(r, n)
		results := make([]hsResult, len(cases))
		parallel(len(cases), 32, func(i int) { results[i] = runHsCase(cases[i]) })
		nerr := 0
		for i, c := range cases {
			if strings.HasPrefix(results[i].impl, "ok ") {
				continue // C05 is about failing starts
			}
			nerr++
			o.emit(c.line(), results[i].impl, results[i].pred)
		}
		// (b) real processes, both launch methods, every cause
		causes := c05Causes()
		type rr struct{ cl, impl, pred string }
		var jobs []func() rr
		for _, launch := range []string{"cmd", "runner", "cmdattr", "cmdcancel", "cmdstdin"} {
			for i, c := range causes {
				launch, c, i := launch, c, i
				jobs = append(jobs, func() rr {
					cl, impl, pred := runC05Real(c, launch, i+100*len(launch))
					return rr{cl, impl, pred}
				})
			}
		}
		out := make([]rr, len(jobs))
		parallel(len(jobs), 16, func(i int) { out[i] = jobs[i]() })
		for _, x := range out {
			o.emit(x.cl, x.impl, x.pred)
		}
		// a custom runner whose OWN Start reports an error after it created the process (outside the listed causes, so only
		// the second sentence is demanded): the later Kill ends that process and removes the socket directory
		{
			impl, pred := runC05RunnerStartFails()
			o.emit("!C05.runner-start-fails", impl, pred)
		}
		for _, kind := range []string{"runnerfunc-error", "bad-group"} {
			impl, pred := runC05NoRunner(kind)
			o.emit("!C05.no-runner kind="+kind, impl, pred)
		}
		o.note("C05: %d failing scripted handshakes + %d real-process failed starts (%d causes x cmd/runner)", nerr, len(jobs), len(causes))
	})
}

// ---------------------------------------------------------------- C15

type c15Case struct {
	proto string // netrpc | grpc
	mode  string // live | dead | test
	ops   []string
	srv   string // test mode: "" = server inside the harness process, "proc" = server in a separate process
	stub  bool   // live mode: the plugin acknowledges the shutdown request and keeps running (Kill has to force it)
	crash bool   // dead mode: the plugin was SIGKILLed (its listener was never closed: the socket file is still there)
}

func (c *c15Case) line() string {
	launch := map[string]string{"live": "reattach", "dead": "reattach-dead", "test": "reattach-test"}[c.mode]
	l := fmt.Sprintf("C15 launch=%s hs=1 ops=%s proto=%s", launch, strings.Join(c.ops, ","), c.proto)
	if c.srv != "" {
		l += " srv=" + c.srv
	}
	if c.crash {
		l += " crash=1"
	}
	if c.stub {
		l += " stub=1"
	}
	return l
}

// testServer: a plugin served in test mode inside the harness process.
type testServer struct {
	cancel  context.CancelFunc
	closeCh chan struct{}
	rc      *plugin.ReattachConfig
}

var testServeMu sync.Mutex // plugin.Serve in test mode touches process-global state (os.Stdout); serialise start-up

func startTestServer(proto string) (*testServer, error) {
	ctx, cancel := context.WithCancel(context.Background())
	rcCh := make(chan *plugin.ReattachConfig, 1)
	closeCh := make(chan struct{})
	vp, _ := kitSets(&kitServeCfg{Sets: map[string]string{"3": proto}})
	sc := &plugin.ServeConfig{
		HandshakeConfig:  kitHandshake(),
		VersionedPlugins: vp,
		Logger:           nullLogger(),
		Test:             &plugin.ServeTestConfig{Context: ctx, ReattachConfigCh: rcCh, CloseCh: closeCh},
	}
	if proto == "grpc" {
		sc.GRPCServer = plugin.DefaultGRPCServer
	}
	testServeMu.Lock()
	go plugin.Serve(sc)
	var rc *plugin.ReattachConfig
	select {
	case rc = <-rcCh:
	case <-time.After(5 * time.Second):
	}
	testServeMu.Unlock()
	if rc == nil {
		cancel()
		return nil, fmt.Errorf("test-mode server did not report a reattach config")
	}
	return &testServer{cancel, closeCh, rc}, nil
}

// dropHostConnection connects to the plugin the way a host does (net/rpc: yamux session with the control and the two
// stdio streams; gRPC: a client connection and one health probe) and drops the connection without any shutdown request.
func dropHostConnection(rc *plugin.ReattachConfig, proto string) {
	conn, err := net.DialTimeout(rc.Addr.Network(), rc.Addr.String(), 2*time.Second)
	if err != nil {
		return
	}
	defer conn.Close()
	if proto == "netrpc" {
		cfg := yamux.DefaultConfig()
		cfg.LogOutput = io.Discard
		sess, err := yamux.Client(conn, cfg)
		if err != nil {
			return
		}
		for i := 0; i < 3; i++ {
			if st, err := sess.Open(); err == nil {
				defer st.Close()
			}
		}
		time.Sleep(150 * time.Millisecond)
		sess.Close()
		return
	}
	// gRPC: the HTTP/2 preface and a settings frame are enough to be a connection that came and went
	conn.Write([]byte("PRI * HTTP/2.0\r\n\r\nSM\r\n\r\n\x00\x00\x00\x04\x00\x00\x00\x00\x00"))
	time.Sleep(150 * time.Millisecond)
}

func runC15(c *c15Case, idx int) (impl, pred string) {
	work := os.Getenv("VERIF_WORK")
	base := filepath.Join(work, fmt.Sprintf("c15-%d-%d", os.Getpid(), idx))
	os.MkdirAll(base, 0o755)
	defer os.RemoveAll(base)
	// (the order of the allowed list must not matter to a reattaching client: the protocol it does NOT use comes first)
	allowed := []plugin.Protocol{plugin.ProtocolNetRPC, plugin.ProtocolGRPC}
	if c.proto == "netrpc" {
		allowed = []plugin.Protocol{plugin.ProtocolGRPC, plugin.ProtocolNetRPC}
	}
	hostSets := kitHostSets(map[int]string{3: c.proto}, nil, nil)
	pred = "ok"
	var rc *plugin.ReattachConfig
	var launcher *plugin.Client
	var ts *testServer
	var tp *testProc
	targetPid := 0
	switch c.mode {
	case "live", "dead":
		launcher = plugin.NewClient(&plugin.ClientConfig{
			HandshakeConfig: kitHandshake(), VersionedPlugins: hostSets, AllowedProtocols: allowed,
			Cmd: kitCmd(kitServeCfg{Sets: map[string]string{"3": c.proto}, GRPCServer: c.proto == "grpc",
				AfterServe: map[bool]string{true: "hang", false: ""}[c.stub]}, "TMPDIR="+base),
			Logger: nullLogger(), StartTimeout: 5 * time.Second,
		})
		cp, err := launcher.Client()
		if err != nil {
			return "setup-error", "FAIL:setup"
		}
		raw, err := cp.Dispense("kit")
		if err != nil {
			return "setup-error", "FAIL:setup"
		}
		raw.(Kit).Cmd("set", 4242) // the instance's state cell: identifies the instance
		rc = launcher.ReattachConfig()
		targetPid = rc.Pid
		if c.mode == "dead" {
			if c.crash {
				syscall.Kill(targetPid, syscall.SIGKILL)
				waitDead(targetPid, 3*time.Second)
			}
			launcher.Kill()
			waitDead(targetPid, 3*time.Second)
		}
	case "test":
		var err error
		if c.srv == "proc" {
			tp, err = startTestServerProc(c.proto, base)
			if err != nil {
				return "setup-error", "FAIL:setup"
			}
			defer tp.stop()
			rc = tp.rc
			targetPid = rc.Pid
		} else {
			ts, err = startTestServer(c.proto)
			if err != nil {
				return "setup-error", "FAIL:setup"
			}
			rc = ts.rc
		}
		// mark the instance
		mc := plugin.NewClient(&plugin.ClientConfig{HandshakeConfig: kitHandshake(), Plugins: hostSets[3], AllowedProtocols: allowed, Reattach: rc, Logger: nullLogger()})
		if cp, err := mc.Client(); err == nil {
			if raw, err := cp.Dispense("kit"); err == nil {
				raw.(Kit).Cmd("set", 4242)
			}
		}
	}
	client := plugin.NewClient(&plugin.ClientConfig{HandshakeConfig: kitHandshake(), Plugins: hostSets[3], AllowedProtocols: allowed, Reattach: rc, Logger: nullLogger()})
	var older []*plugin.Client // clients of earlier generations (op G)
	defer func() {
		for _, oc := range older {
			oc := oc
			withTimeout(10*time.Second, func() error { oc.Kill(); return nil })
		}
	}()
	addrIdx := map[string]int{}
	clIdx := map[plugin.ClientProtocol]int{}
	var outs []string
	var gensOut []string // results of completed generations
	killed := false
	stop := false
	flagLost := false
	executed := 0
	for _, op := range c.ops {
		executed++
		var o string
		_, hung, pp := withTimeout(20*time.Second, func() error {
			switch op {
			case "G":
				// next generation: a new client built from ReattachConfig() of the current one
				nrc := client.ReattachConfig()
				gensOut = append(gensOut, strings.Join(outs, ","))
				outs = nil
				if nrc == nil {
					o, stop = "nil", true
					return nil
				}
				if c.mode == "test" && !nrc.Test {
					flagLost = true // reported unless a behavioural failure (server killed) is observed as well
				}
				if (nrc.Addr == nil || nrc.Addr.Network()+"/"+nrc.Addr.String() != rc.Addr.Network()+"/"+rc.Addr.String()) && pred == "ok" {
					pred = "FAIL:reattach-config-names-another-address"
				}
				older = append(older, client)
				client = plugin.NewClient(&plugin.ClientConfig{HandshakeConfig: kitHandshake(), Plugins: hostSets[3], AllowedProtocols: allowed, Reattach: nrc, Logger: nullLogger()})
				addrIdx = map[string]int{}
				clIdx = map[plugin.ClientProtocol]int{}
			case "S":
				a, err := client.Start()
				if err != nil {
					o = "e"
					if c.mode == "dead" && err.Error() != "Reattachment process not found" {
						pred = "FAIL:wrong-error-for-dead-target"
					}
					return nil
				}
				k := a.Network() + "/" + a.String()
				if k != rc.Addr.Network()+"/"+rc.Addr.String() && pred == "ok" {
					pred = "FAIL:reattached-to-another-address"
				}
				if _, ok := addrIdx[k]; !ok {
					addrIdx[k] = len(addrIdx)
				}
				o = fmt.Sprintf("a%d", addrIdx[k])
				if client.Protocol() != plugin.Protocol(c.proto) && pred == "ok" {
					pred = "FAIL:reattached-with-another-protocol"
				}
			case "C":
				cp, err := client.Client()
				if err != nil {
					o = "e"
					return nil
				}
				if _, ok := clIdx[cp]; !ok {
					clIdx[cp] = len(clIdx)
				}
				o = fmt.Sprintf("c%d", clIdx[cp])
				// same instance: the state cell set through the launching client is visible
				if !killed {
					if raw, err := cp.Dispense("kit"); err != nil {
						if pred == "ok" {
							pred = "FAIL:dispense-through-reattached-client-failed"
						}
					} else if v, err := raw.(Kit).Double(kitReadState); err != nil || v != 4242 {
						if pred == "ok" {
							pred = "FAIL:reattached-to-a-different-instance"
						}
					}
				}
			case "X":
				// some other host's connection to the plugin comes and goes WITHOUT a shutdown request (that host crashed,
				// a monitoring probe, a dropped client): the plugin must go on serving
				dropHostConnection(rc, c.proto)
				time.Sleep(300 * time.Millisecond)
				if targetPid != 0 && c.mode != "dead" && !pidAlive(targetPid) && pred == "ok" {
					pred = "FAIL:plugin-exited-when-a-host-connection-dropped"
				}
				if ts != nil {
					select {
					case <-ts.closeCh:
						if pred == "ok" {
							pred = "FAIL:test-server-stopped-when-a-host-connection-dropped"
						}
					default:
					}
				}
				o = "x"
			case "P":
				if client.Protocol() == plugin.ProtocolInvalid {
					o = "e"
				} else {
					o = "u"
				}
			case "K":
				client.Kill()
				o = "u"
			}
			return nil
		})
		if hung {
			o, pred = "hang", "FAIL:op-hung:"+op
		}
		if pp != nil {
			o, pred = "panic", "FAIL:op-panicked:"+op
		}
		if op != "G" || o != "" {
			outs = append(outs, o)
		}
		if op == "K" && c.mode != "test" {
			killed = true
		}
		if hung || stop {
			break
		}
	}
	impl = fmt.Sprintf("outs=%s launches=0 dirs=0", strings.Join(append(gensOut, strings.Join(outs, ",")), ";"))
	// property predicates on the target
	hasKill, started := false, false
	for _, op := range c.ops[:executed] {
		if op == "G" {
			started = false // a new client: its Kill does something only after it has started itself
		}
		if op == "S" || op == "C" || op == "P" {
			started = true
		}
		if op == "K" && started {
			hasKill = true
		}
	}
	switch c.mode {
	case "live":
		if hasKill && !waitDead(targetPid, 4*time.Second) && pred == "ok" {
			pred = "FAIL:kill-via-reattached-client-did-not-terminate-the-plugin"
		}
		if !hasKill && !pidAlive(targetPid) && pred == "ok" {
			pred = "FAIL:plugin-died-without-kill"
		}
	case "test":
		// the server must still be serving after any Kill: a fresh reattach can read the state cell
		probe := plugin.NewClient(&plugin.ClientConfig{HandshakeConfig: kitHandshake(), Plugins: hostSets[3], AllowedProtocols: allowed, Reattach: rc, Logger: nullLogger()})
		ok := false
		withTimeout(8*time.Second, func() error {
			if cp, err := probe.Client(); err == nil {
				if raw, err := cp.Dispense("kit"); err == nil {
					if v, err := raw.(Kit).Double(kitReadState); err == nil && v == 4242 {
						ok = true
					}
				}
			}
			return nil
		})
		if !ok && pred == "ok" {
			pred = "FAIL:test-mode-server-not-serving-after-kill"
		}
		older = append(older, probe)
		if tp != nil {
			// server in its own process: it must still run, must not have ended, and ends when its context is cancelled
			select {
			case e, got := <-tp.endCh:
				if pred == "ok" {
					pred = "FAIL:test-mode-server-stopped-before-cancel"
					if got && e == "cancelled" {
						pred = "FAIL:test-mode-server-cancelled-early"
					}
				}
			default:
				if !pidAlive(targetPid) && pred == "ok" {
					pred = "FAIL:test-mode-server-process-gone"
				}
				tp.stdin.Close() // cancels the serving context
				select {
				case e := <-tp.endCh:
					if e != "cancelled" && pred == "ok" {
						pred = "FAIL:test-mode-server-did-not-stop-on-cancel"
					}
				case <-time.After(6 * time.Second):
					if pred == "ok" {
						pred = "FAIL:test-mode-server-did-not-stop-on-cancel"
					}
				}
			}
			break
		}
		select {
		case <-ts.closeCh:
			if pred == "ok" {
				pred = "FAIL:test-mode-server-stopped-before-cancel"
			}
		default:
		}
		ts.cancel()
		select {
		case <-ts.closeCh:
		case <-time.After(6 * time.Second):
			if pred == "ok" {
				pred = "FAIL:test-mode-server-did-not-stop-on-cancel"
			}
		}
	}
	if flagLost && pred == "ok" {
		pred = "FAIL:reattach-config-of-test-mode-client-lost-test-flag"
	}
	withTimeout(10*time.Second, func() error { client.Kill(); return nil })
	if launcher != nil {
		withTimeout(10*time.Second, func() error { launcher.Kill(); return nil })
	}
	return impl, pred
}

func init() {
	register("C15", func(o *out, replay string) {
		if replay != "" {
			_, m := kvLine(replay)
			mode := map[string]string{"reattach": "live", "reattach-dead": "dead", "reattach-test": "test"}[m["launch"]]
			c := &c15Case{proto: m["proto"], mode: mode, ops: splitComma(m["ops"]), srv: m["srv"], stub: m["stub"] == "1", crash: m["crash"] == "1"}
			impl, pred := runC15(c, 0)
			o.emit(c.line(), impl, pred)
			return
		}
		var cases []*c15Case
		maxLen := 3
		if tier() == "thorough" {
			maxLen = 4
		}
		seqs := lcSequences([]string{"S", "C", "K"}, maxLen)
		for _, proto := range []string{"netrpc", "grpc"} {
			for _, ops := range seqs {
				cases = append(cases, &c15Case{proto: proto, mode: "live", ops: ops})
				if len(ops) == 2 {
					// the same history with another host's connection dropping before it, and in the middle of it
					cases = append(cases, &c15Case{proto: proto, mode: "live", ops: append([]string{"X"}, ops...)},
						&c15Case{proto: proto, mode: "live", ops: []string{ops[0], "X", ops[1]}})
				}
				if len(ops) <= 2 {
					cases = append(cases, &c15Case{proto: proto, mode: "dead", ops: ops})
				}
			}
		}
		// a plugin that ignores the shutdown request: Kill on the reattached client has to terminate it by force
		for _, proto := range []string{"netrpc", "grpc"} {
			// the target crashed (SIGKILL): nothing listens although its socket file was never removed
			cases = append(cases, &c15Case{proto: proto, mode: "dead", crash: true, ops: []string{"S", "C", "K"}},
				&c15Case{proto: proto, mode: "dead", crash: true, ops: []string{"C", "S", "K", "S"}})
			cases = append(cases, &c15Case{proto: proto, mode: "live", stub: true, ops: []string{"S", "K"}},
				&c15Case{proto: proto, mode: "live", stub: true, ops: []string{"C", "K"}})
		}
		// killing a reattached plugin that is frozen
		for _, proto := range []string{"netrpc", "grpc"} {
			if proto == "netrpc" && tier() != "thorough" {
				continue // bounded by the yamux keep-alive (~40 s): thorough tier only
			}
			impl, pred := runReattachKillFrozen(proto)
			o.emit("!C15.reattach-kill-frozen proto="+proto, impl, pred)
		}
		// a test-mode plugin process that has stopped: reattaching to it is "process not found" too
		for _, proto := range []string{"netrpc", "grpc"} {
			impl, pred := runTestModeAfterStop(proto)
			o.emit("!C15.testmode-after-stop proto="+proto, impl, pred)
		}
		// reattaching several times, from a reattached client's ReattachConfig(): live plugins and test-mode server processes
		chains := c15ChainCases()
		cases = append(cases, chains...)
		impls := make([]string, len(cases))
		preds := make([]string, len(cases))
		parallel(len(cases), 16, func(i int) { impls[i], preds[i] = runC15(cases[i], i) })
		for i, c := range cases {
			o.emit(c.line(), impls[i], preds[i])
		}
		o.note("C15: of these %d are chains of reattach-from-ReattachConfig (op G), half of them on test-mode server processes", len(chains))
		// test mode: plugin.Serve swaps process-global stdio handling; run these sequentially
		var tcases []*c15Case
		for _, proto := range []string{"netrpc", "grpc"} {
			for _, ops := range lcSequences([]string{"S", "C", "K"}, 2) {
				tcases = append(tcases, &c15Case{proto: proto, mode: "test", ops: ops})
			}
			tcases = append(tcases, &c15Case{proto: proto, mode: "test", ops: []string{"X", "S", "C"}}, &c15Case{proto: proto, mode: "test", ops: []string{"C", "X", "C"}})
		}
		for i, c := range tcases {
			impl, pred := runC15(c, 10000+i)
			o.emit(c.line(), impl, pred)
		}
		o.note("C15: %d reattach histories on real daemonised plugins (live/dead) + %d test-mode histories", len(cases), len(tcases))
	})
}
