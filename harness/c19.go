package main

// C19 / C05 / C15 correspondence: operation sequences on one plugin.Client.

import (
	"fmt"
	"os"
	"os/exec"
	"path/filepath"
	"strings"
	"sync/atomic"
	"syscall"
	"time"

	hclog "github.com/hashicorp/go-hclog"
	plugin "github.com/hashicorp/go-plugin"
	"github.com/hashicorp/go-plugin/runner"
)

type lcCase struct {
	launch string // runner | cmd | reattach | reattach-dead
	hs     bool
	ops    []string
}

func (c *lcCase) line(tag string) string {
	return fmt.Sprintf("%s launch=%s hs=%s ops=%s", tag, c.launch, b01(c.hs), strings.Join(c.ops, ","))
}

func lcFromLine(m map[string]string) *lcCase {
	return &lcCase{launch: m["launch"], hs: m["hs"] == "1", ops: splitComma(m["ops"])}
}

type lcObs struct {
	impl     string
	pred     string
	launches int
	dirs     int
}

func pidAlive(pid int) bool {
	if pid <= 0 {
		return false
	}
	if err := syscall.Kill(pid, 0); err != nil {
		return false
	}
	// a zombie still answers signal 0: look at its state
	b, err := os.ReadFile(fmt.Sprintf("/proc/%d/stat", pid))
	if err != nil {
		return false
	}
	i := strings.LastIndexByte(string(b), ')')
	if i < 0 || i+2 >= len(b) {
		return true
	}
	return b[i+2] != 'Z'
}

// waitDead is declared in c02.go

func countDirs(base string) int {
	ents, _ := os.ReadDir(base)
	n := 0
	for _, e := range ents {
		if e.IsDir() && strings.HasPrefix(e.Name(), "plugin-dir") {
			n++
		}
	}
	return n
}

var lcSeq int64

func runLcCase(c *lcCase) lcObs {
	work := os.Getenv("VERIF_WORK")
	if work == "" {
		work = os.TempDir()
	}
	base := filepath.Join(work, fmt.Sprintf("lc-%d-%d", os.Getpid(), atomic.AddInt64(&lcSeq, 1)))
	os.MkdirAll(base, 0o755)
	defer os.RemoveAll(base)

	var rfCalls int32
	var fakes []*fakeRunner
	cfg := &plugin.ClientConfig{
		HandshakeConfig:  kitHandshake(),
		VersionedPlugins: kitHostSets(map[int]string{3: "netrpc"}, nil, nil),
		Logger:           nullLogger(),
		StartTimeout:     5 * time.Second,
		UnixSocketConfig: &plugin.UnixSocketConfig{TempDir: base},
	}
	var launcher *plugin.Client
	var cmd *exec.Cmd
	var targetPid int
	switch c.launch {
	case "runner":
		cfg.RunnerFunc = func(l hclog.Logger, cm *exec.Cmd, tmpDir string) (runner.Runner, error) {
			atomic.AddInt32(&rfCalls, 1)
			fr := newFakeRunner()
			fakes = append(fakes, fr)
			line := "1|3|tcp|127.0.0.1:1|netrpc|\n"
			if !c.hs {
				line = "this is not a handshake line\n"
			}
			go fr.stdoutW.Write([]byte(line))
			return fr, nil
		}
	case "cmd":
		kc := kitServeCfg{Sets: map[string]string{"3": "netrpc"}}
		if !c.hs {
			kc.PreServe = "printhang:" + hxs("garbage|line\n")
		}
		cmd = kitCmd(kc, "TMPDIR="+base)
		cfg.Cmd = cmd
	case "reattach", "reattach-dead":
		launcher = plugin.NewClient(&plugin.ClientConfig{
			HandshakeConfig:  kitHandshake(),
			VersionedPlugins: kitHostSets(map[int]string{3: "netrpc"}, nil, nil),
			Cmd:              kitCmd(kitServeCfg{Sets: map[string]string{"3": "netrpc"}}, "TMPDIR="+base),
			Logger:           nullLogger(),
			StartTimeout:     5 * time.Second,
		})
		if _, err := launcher.Start(); err != nil {
			return lcObs{impl: "setup-error", pred: "FAIL:setup"}
		}
		rc := launcher.ReattachConfig()
		targetPid = rc.Pid
		if c.launch == "reattach-dead" {
			launcher.Kill()
			waitDead(targetPid, 3*time.Second)
		}
		cfg.Reattach = rc
		cfg.UnixSocketConfig = nil
	}
	client := plugin.NewClient(cfg)

	addrIdx := map[string]int{}
	clIdx := map[plugin.ClientProtocol]int{}
	var outs []string
	pred := "ok"
	for _, op := range c.ops {
		var o string
		err, hung, pp := withTimeout(20*time.Second, func() error {
			switch op {
			case "S":
				a, err := client.Start()
				if err != nil {
					o = "e"
					return nil
				}
				if a == nil {
					o = "nil-addr"
					return nil
				}
				k := a.Network() + "/" + a.String()
				if _, ok := addrIdx[k]; !ok {
					addrIdx[k] = len(addrIdx)
				}
				o = fmt.Sprintf("a%d", addrIdx[k])
			case "C":
				cp, err := client.Client()
				if err != nil {
					o = "e"
					return nil
				}
				if _, ok := clIdx[cp]; !ok {
					clIdx[cp] = len(clIdx)
				}
				o = fmt.Sprintf("c%d", clIdx[cp])
			case "P":
				if client.Protocol() == plugin.ProtocolInvalid {
					o = "e"
				} else {
					o = "u"
				}
			case "R":
				client.ReattachConfig()
				o = "u"
			case "I":
				client.ID()
				o = "u"
			case "E":
				client.Exited()
				o = "u"
			case "K":
				client.Kill()
				o = "u"
			}
			return nil
		})
		_ = err
		if hung {
			o = "hang"
			pred = "FAIL:op-hung:" + op
		}
		if pp != nil {
			o = "panic"
			pred = "FAIL:op-panicked:" + op
		}
		outs = append(outs, o)
		if hung {
			break
		}
	}
	// observe
	launches := int(atomic.LoadInt32(&rfCalls))
	if c.launch == "cmd" && cmd != nil && cmd.Process != nil {
		launches = 1
	}
	dirs := countDirs(base)
	kills := 0
	for _, fr := range fakes {
		kills += fr.killCount()
	}
	impl := fmt.Sprintf("outs=%s launches=%d dirs=%d", strings.Join(outs, ","), launches, dirs)
	if c.launch == "runner" {
		impl += fmt.Sprintf(" kills=%d", kills)
	}
	// the property's own predicate
	if pred == "ok" {
		switch {
		case launches > 1:
			pred = "FAIL:launched-more-than-once"
		case len(addrIdx) > 1:
			pred = "FAIL:start-returned-different-addresses"
		case len(clIdx) > 1:
			pred = "FAIL:client-returned-different-clients"
		}
	}
	// cleanup (not part of the case)
	withTimeout(10*time.Second, func() error { client.Kill(); return nil })
	for _, fr := range fakes {
		fr.exit()
	}
	if cmd != nil && cmd.Process != nil {
		cmd.Process.Kill()
	}
	if launcher != nil {
		withTimeout(10*time.Second, func() error { launcher.Kill(); return nil })
	}
	return lcObs{impl: impl, pred: pred, launches: launches, dirs: dirs}
}

func lcSequences(alphabet []string, maxLen int) [][]string {
	var out [][]string
	var rec func(prefix []string)
	rec = func(prefix []string) {
		if len(prefix) > 0 {
			out = append(out, append([]string(nil), prefix...))
		}
		if len(prefix) == maxLen {
			return
		}
		for _, a := range alphabet {
			rec(append(prefix, a))
		}
	}
	rec(nil)
	return out
}

func init() {
	register("C19", func(o *out, replay string) {
		if replay != "" {
			_, m := kvLine(replay)
			c := lcFromLine(m)
			r := runLcCase(c)
			o.emit(c.line("C19"), r.impl, r.pred)
			return
		}
		all := []string{"S", "C", "P", "R", "I", "E", "K"}
		core := []string{"S", "C", "P", "K"}
		var cases []*lcCase
		runnerLen, cmdLen := 4, 3
		if tier() == "thorough" {
			runnerLen, cmdLen = 5, 4
		}
		for _, hs := range []bool{true, false} {
			// exhaustive for that length: scripted runner over the full alphabet …
			for _, ops := range lcSequences(all, runnerLen) {
				cases = append(cases, &lcCase{"runner", hs, ops})
			}
			// … a real process over the operations that matter for launching, plus all ops at length 2
			for _, ops := range lcSequences(core, cmdLen+1) {
				cases = append(cases, &lcCase{"cmd", hs, ops})
			}
			for _, ops := range lcSequences(all, 2) {
				cases = append(cases, &lcCase{"cmd", hs, ops})
			}
		}
		for _, ops := range lcSequences(core, 3) {
			cases = append(cases, &lcCase{"reattach", true, ops}, &lcCase{"reattach-dead", true, ops})
		}
		res := make([]lcObs, len(cases))
		parallel(len(cases), 24, func(i int) { res[i] = runLcCase(cases[i]) })
		for i, c := range cases {
			o.emit(c.line("C19"), res[i].impl, res[i].pred)
		}
		o.note("C19: %d operation sequences (exhaustive up to length %d over 7 ops with a scripted runner, up to %d over {S,C,P,K} with a real process, reattach live/dead up to 3)", len(cases), runnerLen, cmdLen+1)
	})
}
