package main

// C19 / C05 / C15 correspondence: operation sequences on one plugin.Client.

import (
	"context"
	"fmt"
	"net"
	"os"
	"os/exec"
	"path/filepath"
	"strings"
	"sync"
	"sync/atomic"
	"syscall"
	"time"

	hclog "github.com/hashicorp/go-hclog"
	plugin "github.com/hashicorp/go-plugin"
	"github.com/hashicorp/go-plugin/runner"
)

type lcCase struct {
	launch string // runner | cmd | reattach | reattach-dead
	hs     bool
	ops    []string
}

func (c *lcCase) line(tag string) string {
	return fmt.Sprintf("%s launch=%s hs=%s ops=%s", tag, c.launch, b01(c.hs), strings.Join(c.ops, ","))
}

func lcFromLine(m map[string]string) *lcCase {
	return &lcCase{launch: m["launch"], hs: m["hs"] == "1", ops: splitComma(m["ops"])}
}

type lcObs struct {
	impl     string
	pred     string
	launches int
	dirs     int
}

func pidAlive(pid int) bool {
	if pid <= 0 {
		return false
	}
	if err := syscall.Kill(pid, 0); err != nil {
		return false
	}
	// a zombie still answers signal 0: look at its state
	b, err := os.ReadFile(fmt.Sprintf("/proc/%d/stat", pid))
	if err != nil {
		return false
	}
	i := strings.LastIndexByte(string(b), ')')
	if i < 0 || i+2 >= len(b) {
		return true
	}
	return b[i+2] != 'Z'
}

// waitDead is declared in c02.go

func countDirs(base string) int {
	ents, _ := os.ReadDir(base)
	n := 0
	for _, e := range ents {
		if e.IsDir() && strings.HasPrefix(e.Name(), "plugin-dir") {
			n++
		}
	}
	return n
}

var lcSeq int64

// runLcConcurrent: n goroutines released together call Start (two thirds) or Client/Protocol (one third) on one client
// launched through a real kit process (behind a counting RunnerFunc, or Cmd): at most one launch, one address, one client.
func runLcConcurrent(launch string, autoMTLS bool, n int) (impl, pred string) {
	work := os.Getenv("VERIF_WORK")
	if work == "" {
		work = os.TempDir()
	}
	base := filepath.Join(work, fmt.Sprintf("lcc-%d-%d", os.Getpid(), atomic.AddInt64(&lcSeq, 1)))
	os.MkdirAll(base, 0o755)
	defer os.RemoveAll(base)
	var rfCalls int32
	var mu sync.Mutex
	var procs []*lcProcRunner
	cfg := &plugin.ClientConfig{
		HandshakeConfig:  kitHandshake(),
		VersionedPlugins: kitHostSets(map[int]string{3: "netrpc"}, nil, nil),
		Logger:           nullLogger(),
		StartTimeout:     8 * time.Second,
		AutoMTLS:         autoMTLS,
		UnixSocketConfig: &plugin.UnixSocketConfig{TempDir: base},
	}
	mk := func() *exec.Cmd { return kitCmd(kitServeCfg{Sets: map[string]string{"3": "netrpc"}}, "TMPDIR="+base) }
	if launch == "runner" {
		cfg.RunnerFunc = func(l hclog.Logger, cm *exec.Cmd, tmpDir string) (runner.Runner, error) {
			atomic.AddInt32(&rfCalls, 1)
			c := mk()
			c.Env = append(c.Env, cm.Env...)
			pr, err := newLcProcRunner(c)
			if err == nil {
				mu.Lock()
				procs = append(procs, pr)
				mu.Unlock()
			}
			return pr, err
		}
	} else {
		cfg.Cmd = mk()
	}
	client := plugin.NewClient(cfg)
	defer func() {
		withTimeout(10*time.Second, func() error { client.Kill(); return nil })
		mu.Lock()
		for _, pr := range procs {
			pr.Kill(context.Background())
		}
		mu.Unlock()
		if cfg.Cmd != nil && cfg.Cmd.Process != nil {
			cfg.Cmd.Process.Kill()
		}
	}()
	gate := make(chan struct{})
	addrs := make([]string, n)
	clients := make([]plugin.ClientProtocol, n)
	errs := make([]error, n)
	var wg sync.WaitGroup
	hungAny := int32(0)
	for i := 0; i < n; i++ {
		wg.Add(1)
		go func(i int) {
			defer wg.Done()
			<-gate
			_, hung, pp := withTimeout(20*time.Second, func() error {
				switch i % 3 {
				case 2:
					cp, err := client.Client()
					clients[i], errs[i] = cp, err
				default:
					a, err := client.Start()
					if err == nil {
						addrs[i] = a.Network() + "/" + a.String()
					}
					errs[i] = err
				}
				return nil
			})
			if hung || pp != nil {
				atomic.StoreInt32(&hungAny, 1)
			}
		}(i)
	}
	close(gate)
	wg.Wait()
	addrSet, clSet := map[string]bool{}, map[plugin.ClientProtocol]bool{}
	okStarts := 0
	for i := 0; i < n; i++ {
		if addrs[i] != "" {
			addrSet[addrs[i]] = true
			okStarts++
		}
		if clients[i] != nil {
			clSet[clients[i]] = true
		}
	}
	launches := int(atomic.LoadInt32(&rfCalls))
	dirs := countDirs(base)
	impl = fmt.Sprintf("okstarts=%d addrs=%d clients=%d launches=%d dirs=%d", okStarts, len(addrSet), len(clSet), launches, dirs)
	switch {
	case hungAny != 0:
		pred = "FAIL:concurrent-call-hung-or-panicked"
	case launches > 1:
		pred = "FAIL:launched-more-than-once"
	case dirs > 1:
		pred = "FAIL:more-than-one-socket-dir"
	case len(addrSet) > 1:
		pred = "FAIL:start-returned-different-addresses"
	case len(clSet) > 1:
		pred = "FAIL:client-returned-different-clients"
	case okStarts == 0:
		pred = "FAIL:no-start-succeeded"
	default:
		pred = "ok"
	}
	return impl, pred
}

func runLcCase(c *lcCase) lcObs {
	work := os.Getenv("VERIF_WORK")
	if work == "" {
		work = os.TempDir()
	}
	base := filepath.Join(work, fmt.Sprintf("lc-%d-%d", os.Getpid(), atomic.AddInt64(&lcSeq, 1)))
	os.MkdirAll(base, 0o755)
	defer os.RemoveAll(base)

	var rfCalls int32
	var fakes []*fakeRunner
	cfg := &plugin.ClientConfig{
		HandshakeConfig:  kitHandshake(),
		VersionedPlugins: kitHostSets(map[int]string{3: "netrpc"}, nil, nil),
		Logger:           nullLogger(),
		StartTimeout:     5 * time.Second,
		UnixSocketConfig: &plugin.UnixSocketConfig{TempDir: base},
	}
	var launcher *plugin.Client
	var cmd *exec.Cmd
	var targetPid int
	switch c.launch {
	case "runner":
		cfg.RunnerFunc = func(l hclog.Logger, cm *exec.Cmd, tmpDir string) (runner.Runner, error) {
			atomic.AddInt32(&rfCalls, 1)
			fr := newFakeRunner()
			fakes = append(fakes, fr)
			line := "1|3|tcp|:1|netrpc|\n" // a host-less address, as a plugin listening on all interfaces announces it
			if !c.hs {
				line = "this is not a handshake line\n"
			}
			go fr.stdoutW.Write([]byte(line))
			return fr, nil
		}
	case "cmd":
		kc := kitServeCfg{Sets: map[string]string{"3": "netrpc"}}
		if !c.hs {
			kc.PreServe = "printhang:" + hxs("garbage|line\n")
		}
		cmd = kitCmd(kc, "TMPDIR="+base)
		cfg.Cmd = cmd
	case "reattach", "reattach-dead":
		launcher = plugin.NewClient(&plugin.ClientConfig{
			HandshakeConfig:  kitHandshake(),
			VersionedPlugins: kitHostSets(map[int]string{3: "netrpc"}, nil, nil),
			Cmd:              kitCmd(kitServeCfg{Sets: map[string]string{"3": "netrpc"}}, "TMPDIR="+base),
			Logger:           nullLogger(),
			StartTimeout:     5 * time.Second,
		})
		if _, err := launcher.Start(); err != nil {
			return lcObs{impl: "setup-error", pred: "FAIL:setup"}
		}
		rc := launcher.ReattachConfig()
		targetPid = rc.Pid
		if c.launch == "reattach-dead" {
			launcher.Kill()
			waitDead(targetPid, 3*time.Second)
		}
		cfg.Reattach = rc
		cfg.UnixSocketConfig = nil
	}
	client := plugin.NewClient(cfg)

	addrIdx := map[string]int{}
	clIdx := map[plugin.ClientProtocol]int{}
	var outs []string
	pred := "ok"
	for _, op := range c.ops {
		var o string
		err, hung, pp := withTimeout(20*time.Second, func() error {
			switch op {
			case "S":
				a, err := client.Start()
				if err != nil {
					o = "e"
					return nil
				}
				if a == nil {
					o = "nil-addr"
					return nil
				}
				k := a.Network() + "/" + a.String()
				if _, ok := addrIdx[k]; !ok {
					addrIdx[k] = len(addrIdx)
				}
				o = fmt.Sprintf("a%d", addrIdx[k])
			case "C":
				cp, err := client.Client()
				if err != nil {
					o = "e"
					return nil
				}
				if _, ok := clIdx[cp]; !ok {
					clIdx[cp] = len(clIdx)
				}
				o = fmt.Sprintf("c%d", clIdx[cp])
			case "P":
				if client.Protocol() == plugin.ProtocolInvalid {
					o = "e"
				} else {
					o = "u"
				}
			case "R":
				client.ReattachConfig()
				o = "u"
			case "I":
				client.ID()
				o = "u"
			case "E":
				client.Exited()
				o = "u"
			case "K":
				client.Kill()
				o = "u"
			}
			return nil
		})
		_ = err
		if hung {
			o = "hang"
			pred = "FAIL:op-hung:" + op
		}
		if pp != nil {
			o = "panic"
			pred = "FAIL:op-panicked:" + op
		}
		outs = append(outs, o)
		if hung {
			break
		}
	}
	// observe
	launches := int(atomic.LoadInt32(&rfCalls))
	if c.launch == "cmd" && cmd != nil && cmd.Process != nil {
		launches = 1
	}
	dirs := countDirs(base)
	kills := 0
	for _, fr := range fakes {
		kills += fr.killCount()
	}
	impl := fmt.Sprintf("outs=%s launches=%d dirs=%d", strings.Join(outs, ","), launches, dirs)
	if c.launch == "runner" {
		impl += fmt.Sprintf(" kills=%d", kills)
	}
	// the property's own predicate
	if pred == "ok" {
		switch {
		case launches > 1:
			pred = "FAIL:launched-more-than-once"
		case len(addrIdx) > 1:
			pred = "FAIL:start-returned-different-addresses"
		case len(clIdx) > 1:
			pred = "FAIL:client-returned-different-clients"
		}
	}
	// cleanup (not part of the case)
	withTimeout(10*time.Second, func() error { client.Kill(); return nil })
	for _, fr := range fakes {
		fr.exit()
	}
	if cmd != nil && cmd.Process != nil {
		cmd.Process.Kill()
	}
	if launcher != nil {
		withTimeout(10*time.Second, func() error { launcher.Kill(); return nil })
	}
	return lcObs{impl: impl, pred: pred, launches: launches, dirs: dirs}
}

func lcSequences(alphabet []string, maxLen int) [][]string {
	var out [][]string
	var rec func(prefix []string)
	rec = func(prefix []string) {
		if len(prefix) > 0 {
			out = append(out, append([]string(nil), prefix...))
		}
		if len(prefix) == maxLen {
			return
		}
		for _, a := range alphabet {
			rec(append(prefix, a))
		}
	}
	rec(nil)
	return out
}

func init() {
	register("C19", func(o *out, replay string) {
		if replay != "" {
			_, m := kvLine(replay)
			c := lcFromLine(m)
			r := runLcCase(c)
			o.emit(c.line("C19"), r.impl, r.pred)
			return
		}
		all := []string{"S", "C", "P", "R", "I", "E", "K"}
		core := []string{"S", "C", "P", "K"}
		var cases []*lcCase
		runnerLen, cmdLen := 4, 3
		if tier() == "thorough" {
			runnerLen, cmdLen = 5, 4
		}
		for _, hs := range []bool{true, false} {
			// exhaustive for that length: scripted runner over the full alphabet …
			for _, ops := range lcSequences(all, runnerLen) {
				cases = append(cases, &lcCase{"runner", hs, ops})
			}
			// … a real process over the operations that matter for launching, plus all ops at length 2
			for _, ops := range lcSequences(core, cmdLen+1) {
				cases = append(cases, &lcCase{"cmd", hs, ops})
			}
			for _, ops := range lcSequences(all, 2) {
				cases = append(cases, &lcCase{"cmd", hs, ops})
			}
		}
		for _, ops := range lcSequences(core, 3) {
			cases = append(cases, &lcCase{"reattach", true, ops}, &lcCase{"reattach-dead", true, ops})
		}
		res := make([]lcObs, len(cases))
		parallel(len(cases), 24, func(i int) { res[i] = runLcCase(cases[i]) })
		for i, c := range cases {
			o.emit(c.line("C19"), res[i].impl, res[i].pred)
		}
		// the concurrent mix: many goroutines call Start / Client / Protocol on one client at the same instant
		for _, auto := range []bool{false, true} {
			for _, launch := range []string{"runner", "cmd"} {
				for rep := 0; rep < 3; rep++ {
					impl, pred := runLcConcurrent(launch, auto, 8)
					o.emit(fmt.Sprintf("!C19.conc launch=%s automtls=%s n=8 rep=%d", launch, b01(auto), rep), impl, pred)
				}
			}
		}
		// the first Start fails by TIMEOUT after it launched; nothing later launches again
		{
			impl, pred := runTimeoutThenRetry()
			o.emit("!C19.timeout-then-retry launch=runner ops=S,S,C,P,K,S", impl, pred)
		}
		// socket path not in canonical form (relative to Cmd.Dir; through a symbolic link): one address from every Start
		// and from every ReattachConfig in between
		for _, kind := range []string{"rel", "link"} {
			impl, pred := runLcDir(kind)
			o.emit("!C19.dir kind="+kind+" ops=S,R,S,R,S,R", impl, pred)
		}
		o.note("C19: %d operation sequences (exhaustive up to length %d over 7 ops with a scripted runner, up to %d over {S,C,P,K} with a real process, reattach live/dead up to 3)", len(cases), runnerLen, cmdLen+1)
	})
}

// runLcDir: the plugin's unix socket path is not in canonical form — kind "rel": Cmd.Dir is set and the plugin announces a
// RELATIVE path (its TMPDIR is relative); kind "link": its TMPDIR is reached through a symbolic link.  Every successful
// Start — the launching one and the later ones — and every ReattachConfig in between report one and the same address, and
// an address handed out earlier does not change under its holder.
func runLcDir(kind string) (impl, pred string) {
	work := os.Getenv("VERIF_WORK")
	base := filepath.Join(work, fmt.Sprintf("lc-%s-%d", kind, os.Getpid()))
	os.MkdirAll(filepath.Join(base, "socks"), 0o755)
	defer os.RemoveAll(base)
	var cmd *exec.Cmd
	if kind == "link" {
		if err := os.Symlink(filepath.Join(base, "socks"), filepath.Join(base, "lnk")); err != nil {
			return "setup-error", "FAIL:setup-symlink"
		}
		cmd = kitCmd(kitServeCfg{Sets: map[string]string{"3": "netrpc"}}, "TMPDIR="+filepath.Join(base, "lnk"))
	} else {
		cmd = kitCmd(kitServeCfg{Sets: map[string]string{"3": "netrpc"}}, "TMPDIR=socks")
		cmd.Dir = base
	}
	client := plugin.NewClient(&plugin.ClientConfig{
		HandshakeConfig:  kitHandshake(),
		VersionedPlugins: kitHostSets(map[int]string{3: "netrpc"}, nil, nil),
		Cmd:              cmd,
		Logger:           nullLogger(),
		StartTimeout:     8 * time.Second,
		SkipHostEnv:      true,
	})
	defer func() {
		withTimeout(10*time.Second, func() error { client.Kill(); return nil })
		if cmd.Process != nil {
			cmd.Process.Kill()
		}
	}()
	var addrs []string
	var first net.Addr
	for i := 0; i < 3; i++ {
		a, err := client.Start()
		if err != nil || a == nil {
			return "start-error", "FAIL:setup-start"
		}
		if first == nil {
			first = a
		}
		addrs = append(addrs, a.Network()+"/"+a.String())
		rc := client.ReattachConfig()
		if rc == nil || rc.Addr == nil {
			return "no-reattach-config", "FAIL:no-reattach-config"
		}
		addrs = append(addrs, rc.Addr.Network()+"/"+rc.Addr.String())
	}
	addrs = append(addrs, first.Network()+"/"+first.String())
	same := true
	for _, a := range addrs {
		if a != addrs[0] {
			same = false
		}
	}
	impl = fmt.Sprintf("same=%s", b01(same))
	if kind == "rel" {
		impl += " relative=" + b01(!filepath.IsAbs(strings.TrimPrefix(addrs[0], "unix/")))
	} else {
		impl += " vialink=" + b01(strings.Contains(addrs[0], "/lnk/"))
	}
	if !same {
		return impl + " " + strings.Join(addrs, ","), "FAIL:successful-starts-returned-different-addresses"
	}
	return impl, "ok"
}
