module gpv

go 1.24

require (
	github.com/golang/protobuf v1.5.3
	github.com/hashicorp/go-hclog v0.14.1
	github.com/hashicorp/go-plugin v0.0.0
	github.com/hashicorp/yamux v0.1.1
	google.golang.org/grpc v1.58.3
)

require (
	github.com/fatih/color v1.7.0 // indirect
	github.com/mattn/go-colorable v0.1.4 // indirect
	github.com/mattn/go-isatty v0.0.17 // indirect
	github.com/oklog/run v1.0.0 // indirect
	golang.org/x/net v0.37.0 // indirect
	golang.org/x/sys v0.31.0 // indirect
	golang.org/x/text v0.23.0 // indirect
	google.golang.org/genproto/googleapis/rpc v0.0.0-20230711160842-782d3b101e98 // indirect
	google.golang.org/protobuf v1.36.1 // indirect
)

replace github.com/hashicorp/go-plugin => /repo
