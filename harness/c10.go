package main

// C10 correspondence: the real Client (logStderr, the stdout scanner and drain
// goroutines, parseJSON) driven in-process through a scripted runner.
//
//	C10.stderr   n=<PluginLogBufferSize> ch=<write chunk> in=<rle> jv=<json views> tp=<parsable timestamps>
//	             impl: ok w=<len>:<fnv> recs=<count>:<fnv> lv=<levels> | panic | hang
//	C10.stdout   post=<rle>            bytes written to stdout after the handshake line
//	             impl: consumed=<k>/<N> done=<0|1>
//	C10.readline n=<size> in=<rle>     real bufio.Reader.ReadLine  vs  model readAll
//	C10.scan     in=<rle>              real bufio.Scanner          vs  model firstInput / unread
//
// A panic on go-plugin's stderr goroutine cannot be recovered from here (it
// would kill the harness), so every line the real bufio hands to parseJSON is
// first tried through plugin.VerifParseJSON under recover; a stream with a
// panicking line is reported as `panic` without being fed to a Client.

import (
	"bufio"
	"bytes"
	"encoding/json"
	"errors"
	"fmt"
	"io"
	"log"
	"os"
	"os/exec"
	"reflect"
	"sort"
	"strconv"
	"strings"
	"sync"
	"sync/atomic"
	"time"

	hclog "github.com/hashicorp/go-hclog"
	plugin "github.com/hashicorp/go-plugin"
	"github.com/hashicorp/go-plugin/runner"
)

const (
	c10Handshake  = "1|1|tcp|127.0.0.1:1234\n"
	c10DefaultBuf = 64 * 1024 // documented default of PluginLogBufferSize
	c10Watchdog   = 5 * time.Second
	c10TimeLayout = "2006-01-02T15:04:05.000000Z07:00"
)

// ---------------------------------------------------------------- wire helpers

// rle encodes bytes as dot-separated segments: plain hex, or HHxCOUNT for runs.
func rle(b []byte) string {
	if len(b) == 0 {
		return "-"
	}
	var segs []string
	plain := 0
	i := 0
	for i < len(b) {
		j := i
		for j < len(b) && b[j] == b[i] {
			j++
		}
		if j-i >= 12 {
			if plain < i {
				segs = append(segs, hx(b[plain:i]))
			}
			segs = append(segs, fmt.Sprintf("%02xx%d", b[i], j-i))
			plain = j
		}
		i = j
	}
	if plain < len(b) {
		segs = append(segs, hx(b[plain:]))
	}
	return strings.Join(segs, ".")
}

func unrle(s string) []byte {
	if s == "-" || s == "" {
		return nil
	}
	var out []byte
	for _, seg := range strings.Split(s, ".") {
		if i := strings.IndexByte(seg, 'x'); i >= 0 {
			c := unhx(seg[:i])
			k, _ := strconv.Atoi(seg[i+1:])
			out = append(out, bytes.Repeat(c, k)...)
		} else {
			out = append(out, unhx(seg)...)
		}
	}
	return out
}

func fnv64(b []byte) uint64 {
	h := uint64(14695981039346656037)
	for _, c := range b {
		h = (h ^ uint64(c)) * 1099511628211
	}
	return h
}

func hex64(h uint64) string { return strconv.FormatUint(h, 16) }

func rleChars(cs []byte) string {
	if len(cs) == 0 {
		return "-"
	}
	var sb strings.Builder
	i := 0
	for i < len(cs) {
		j := i
		for j < len(cs) && cs[j] == cs[i] {
			j++
		}
		sb.WriteByte(cs[i])
		sb.WriteString(strconv.Itoa(j - i))
		i = j
	}
	return sb.String()
}

// ---------------------------------------------------------------- logger sink

type c10Rec struct {
	level hclog.Level
	msg   string
	args  []interface{}
}

type c10Sink struct {
	mu     sync.Mutex
	recs   []c10Rec
	exited chan struct{}
	once   sync.Once
}

// c10Logger implements hclog.Logger.  Records of the Named child (the logger
// logStderr uses) are kept; on the root logger only the "plugin process
// exited" record matters: it is logged after both pipe readers have finished.
type c10Logger struct {
	s     *c10Sink
	child bool
}

var _ hclog.Logger = (*c10Logger)(nil)

func newC10Sink() *c10Sink { return &c10Sink{exited: make(chan struct{})} }

func (l *c10Logger) Log(level hclog.Level, msg string, args ...interface{}) {
	if l.child {
		l.s.mu.Lock()
		l.s.recs = append(l.s.recs, c10Rec{level, msg, append([]interface{}(nil), args...)})
		l.s.mu.Unlock()
		return
	}
	if msg == "plugin process exited" {
		l.s.once.Do(func() { close(l.s.exited) })
	}
}
func (l *c10Logger) Trace(msg string, args ...interface{}) { l.Log(hclog.Trace, msg, args...) }
func (l *c10Logger) Debug(msg string, args ...interface{}) { l.Log(hclog.Debug, msg, args...) }
func (l *c10Logger) Info(msg string, args ...interface{})  { l.Log(hclog.Info, msg, args...) }
func (l *c10Logger) Warn(msg string, args ...interface{})  { l.Log(hclog.Warn, msg, args...) }
func (l *c10Logger) Error(msg string, args ...interface{}) { l.Log(hclog.Error, msg, args...) }
func (l *c10Logger) IsTrace() bool                         { return true }
func (l *c10Logger) IsDebug() bool                         { return true }
func (l *c10Logger) IsInfo() bool                          { return true }
func (l *c10Logger) IsWarn() bool                          { return true }
func (l *c10Logger) IsError() bool                         { return true }
func (l *c10Logger) ImpliedArgs() []interface{}            { return nil }
func (l *c10Logger) With(args ...interface{}) hclog.Logger { return l }
func (l *c10Logger) Name() string                          { return "" }
func (l *c10Logger) Named(name string) hclog.Logger        { return &c10Logger{s: l.s, child: true} }
func (l *c10Logger) ResetNamed(name string) hclog.Logger   { return l }
func (l *c10Logger) SetLevel(level hclog.Level)            {}
func (l *c10Logger) StandardLogger(opts *hclog.StandardLoggerOptions) *log.Logger {
	return log.New(io.Discard, "", 0)
}
func (l *c10Logger) StandardWriter(opts *hclog.StandardLoggerOptions) io.Writer { return io.Discard }

// lockedBuf is declared in c11.go (Write, Len, snapshot)
func (w *lockedBuf) bytes() []byte {
	w.mu.Lock()
	defer w.mu.Unlock()
	return append([]byte(nil), w.b.Bytes()...)
}

// ---------------------------------------------------------------- starting a client

// c10Start creates a client over a fake runner and completes a valid handshake.
func c10Start(n int, sink *c10Sink, stderr io.Writer) (*plugin.Client, *fakeRunner, string) {
	fr := newFakeRunner()
	cfg := &plugin.ClientConfig{
		HandshakeConfig:     plugin.HandshakeConfig{MagicCookieKey: "K", MagicCookieValue: "V"},
		VersionedPlugins:    map[int]plugin.PluginSet{1: {}},
		StartTimeout:        c10Watchdog,
		Logger:              &c10Logger{s: sink},
		Stderr:              stderr,
		PluginLogBufferSize: n,
		SkipHostEnv:         true,
		RunnerFunc: func(l hclog.Logger, cmd *exec.Cmd, tmpDir string) (runner.Runner, error) {
			return fr, nil
		},
	}
	client := plugin.NewClient(cfg)
	go fr.stdoutW.Write([]byte(c10Handshake))
	res := make(chan string, 1)
	go func() {
		defer func() {
			if p := recover(); p != nil {
				res <- "start-panic"
			}
		}()
		if _, err := client.Start(); err != nil {
			res <- "start-error"
			return
		}
		res <- ""
	}()
	select {
	case s := <-res:
		return client, fr, s
	case <-time.After(c10Watchdog + 2*time.Second):
		return client, fr, "start-hang"
	}
}

func c10Finish(client *plugin.Client, fr *fakeRunner) {
	fr.exit()
	kd := make(chan struct{})
	go func() {
		defer func() { recover(); close(kd) }()
		client.Kill()
	}()
	select {
	case <-kd:
	case <-time.After(c10Watchdog):
	}
}

// ---------------------------------------------------------------- real bufio as reference splitter

type rlRes struct {
	line   []byte
	prefix bool
}

func effBuf(n int) int {
	if n == 0 {
		return c10DefaultBuf
	}
	return n
}

// goReadAll: every result of the real bufio.Reader.ReadLine for a reader of `size` over `in`.
func goReadAll(size int, in []byte) []rlRes {
	r := bufio.NewReaderSize(onlyReader{bytes.NewReader(in)}, size)
	var out []rlRes
	for {
		line, isPrefix, err := r.ReadLine()
		if err != nil {
			return out
		}
		out = append(out, rlRes{append([]byte(nil), line...), isPrefix})
	}
}

// onlyReader hides every method but Read (bufio must not take shortcuts).
type onlyReader struct{ r io.Reader }

func (o onlyReader) Read(p []byte) (int, error) { return o.r.Read(p) }

// safeParse calls the exported parseJSON under recover.
func safeParse(line []byte) (e *plugin.VerifLogEntry, err error, panicked bool) {
	defer func() {
		if p := recover(); p != nil {
			panicked = true
		}
	}()
	e, err = plugin.VerifParseJSON(line)
	return
}

// ---------------------------------------------------------------- the property's own reference (predicate)

type specRec struct {
	level hclog.Level
	msg   string
	json  bool
	kv    map[string]interface{}
	ts    string
}

// c10Spec: what the property statement asks for one complete line that fits the
// buffer: hclog JSON (an object whose @message/@level/@timestamp, when present,
// are strings, with a parsable timestamp and a known level) is emitted at its
// level with its message and remaining fields; anything else verbatim at the
// level of its [LEVEL] prefix, else debug (error inside a panic trace).
func c10Spec(line []byte, inPanic bool) (specRec, bool) {
	var raw map[string]interface{}
	if err := json.Unmarshal(line, &raw); err == nil {
		good := true
		str := func(k string) string {
			v, ok := raw[k]
			if !ok {
				return ""
			}
			s, ok := v.(string)
			if !ok {
				good = false
			}
			return s
		}
		msg, lvl := str("@message"), str("@level")
		var ts time.Time
		if _, ok := raw["@timestamp"]; ok {
			s := str("@timestamp")
			if good {
				t, err := time.Parse(c10TimeLayout, s)
				if err != nil {
					good = false
				}
				ts = t
			}
		}
		if good {
			L := hclog.LevelFromString(lvl)
			if L == hclog.NoLevel {
				return specRec{level: hclog.Debug, msg: string(line)}, false
			}
			kv := map[string]interface{}{}
			for k, v := range raw {
				if k != "@message" && k != "@level" && k != "@timestamp" {
					kv[k] = v
				}
			}
			return specRec{level: L, msg: msg, json: true, kv: kv, ts: ts.Format(hclog.TimeFormat)}, false
		}
	}
	s := string(line)
	for _, p := range []struct {
		pfx string
		l   hclog.Level
	}{{"[TRACE]", hclog.Trace}, {"[DEBUG]", hclog.Debug}, {"[INFO]", hclog.Info}, {"[WARN]", hclog.Warn}, {"[ERROR]", hclog.Error}} {
		if strings.HasPrefix(s, p.pfx) {
			return specRec{level: p.l, msg: s}, false
		}
	}
	if strings.HasPrefix(s, "panic:") {
		return specRec{level: hclog.Error, msg: s}, true
	}
	if inPanic {
		return specRec{level: hclog.Error, msg: s}, true
	}
	return specRec{level: hclog.Debug, msg: s}, false
}

func recMatches(r c10Rec, s specRec) string {
	if r.level != s.level {
		return fmt.Sprintf("level-%s-want-%s", r.level, s.level)
	}
	if r.msg != s.msg {
		return "message-differs"
	}
	if !s.json {
		if len(r.args) != 0 {
			return "unexpected-args"
		}
		return ""
	}
	if len(r.args) != 2*len(s.kv)+2 {
		return "arg-count"
	}
	seen := map[string]bool{}
	for i := 0; i+1 < len(r.args)-2; i += 2 {
		k, ok := r.args[i].(string)
		if !ok || seen[k] {
			return "arg-key"
		}
		seen[k] = true
		v, ok := s.kv[k]
		if !ok || !reflect.DeepEqual(v, r.args[i+1]) {
			return "arg-value"
		}
	}
	if r.args[len(r.args)-2] != "timestamp" || r.args[len(r.args)-1] != s.ts {
		return "arg-timestamp"
	}
	return ""
}

// c10Predicate evaluates C10's stderr half on what the implementation did.
func c10Predicate(n int, in, written []byte, recs []c10Rec) string {
	// (1) verbatim copy: CRLF / LF -> LF, nothing else changed; a final unterminated line may gain a '\n'
	norm := bytes.ReplaceAll(in, []byte("\r\n"), []byte("\n"))
	if !bytes.Equal(written, norm) && !(len(in) > 0 && in[len(in)-1] != '\n' && bytes.Equal(written, append(append([]byte(nil), norm...), '\n'))) {
		return "FAIL:stderr-copy-differs"
	}
	// (2) records, logical line by logical line (the real bufio tells which lines fit the buffer)
	rl := goReadAll(effBuf(n), in)
	inPanic := false
	ri := 0
	for i := 0; i < len(rl); {
		j := i
		for rl[j].prefix && j+1 < len(rl) {
			j++
		}
		group := rl[i : j+1]
		if len(group) == 1 && !group[0].prefix {
			if ri >= len(recs) {
				return "FAIL:record-missing"
			}
			want, np := c10Spec(group[0].line, inPanic)
			inPanic = np
			if why := recMatches(recs[ri], want); why != "" {
				return "FAIL:record-" + why
			}
			ri++
		} else {
			// a line longer than the buffer: consecutive debug chunks whose concatenation is the line
			var want, got []byte
			for _, g := range group {
				want = append(want, g.line...)
			}
			for range group {
				if ri >= len(recs) {
					return "FAIL:record-missing"
				}
				r := recs[ri]
				ri++
				if r.level != hclog.Debug || len(r.args) != 0 {
					return "FAIL:long-line-chunk-not-debug"
				}
				got = append(got, r.msg...)
			}
			if !bytes.Equal(want, got) {
				return "FAIL:long-line-chunks-differ"
			}
		}
		i = j + 1
	}
	if ri != len(recs) {
		return "FAIL:extra-records"
	}
	return "ok"
}

// ---------------------------------------------------------------- one stderr case

type c10Case struct {
	kind string // stderr | stdout | readline | scan
	n    int
	ch   int
	in   []byte
	cls  string // generator class (for the notes)
}

var levelLetter = map[hclog.Level]byte{hclog.Trace: 't', hclog.Debug: 'd', hclog.Info: 'i', hclog.Warn: 'w', hclog.Error: 'e'}

func recBytes(r c10Rec) []byte {
	var b []byte
	b = append(b, levelLetter[r.level])
	if len(r.args) > 0 {
		b = append(b, '1')
	} else {
		b = append(b, '0')
	}
	b = append(b, strconv.Itoa(len(r.msg))...)
	b = append(b, ':')
	b = append(b, r.msg...)
	var keys []string
	for i := 0; i+1 < len(r.args); i += 2 {
		keys = append(keys, fmt.Sprint(r.args[i]))
	}
	sort.Strings(keys)
	for _, k := range keys {
		b = append(b, ',')
		b = append(b, strconv.Itoa(len(k))...)
		b = append(b, ':')
		b = append(b, k...)
	}
	return append(b, ';')
}

// stderrExt: the observed results of encoding/json and time.Parse on every line
// the real ReadLine delivers whole, and whether the real parseJSON panics on one.
func stderrExt(n int, in []byte) (jv, tp string, panics bool) {
	rl := goReadAll(effBuf(n), in)
	seen := map[string]bool{}
	var views, tps []string
	tseen := map[string]bool{}
	prev := false
	for _, r := range rl {
		whole := !r.prefix && !prev
		prev = r.prefix
		if !whole || seen[string(r.line)] {
			continue
		}
		seen[string(r.line)] = true
		if _, _, p := safeParse(r.line); p {
			panics = true
		}
		var raw map[string]interface{}
		if err := json.Unmarshal(r.line, &raw); err != nil {
			continue
		}
		var ks []string
		for k := range raw {
			ks = append(ks, k)
		}
		sort.Strings(ks)
		var fs []string
		for _, k := range ks {
			if s, ok := raw[k].(string); ok {
				fs = append(fs, hxs(k)+"~s~"+hxs(s))
				if k == "@timestamp" && !tseen[s] {
					tseen[s] = true
					if _, err := time.Parse(c10TimeLayout, s); err == nil {
						tps = append(tps, hxs(s))
					}
				}
			} else {
				fs = append(fs, hxs(k)+"~n")
			}
		}
		views = append(views, rle(r.line)+":"+strings.Join(fs, "|"))
	}
	jv, tp = "_", "_"
	if len(views) > 0 {
		jv = strings.Join(views, ";")
	}
	if len(tps) > 0 {
		tp = strings.Join(tps, ",")
	}
	return
}

func (c *c10Case) line() string {
	switch c.kind {
	case "stderr":
		jv, tp, _ := stderrExt(c.n, c.in)
		return fmt.Sprintf("C10.stderr n=%d ch=%d in=%s jv=%s tp=%s", c.n, c.ch, rle(c.in), jv, tp)
	case "stdout":
		return fmt.Sprintf("C10.stdout post=%s", rle(c.in))
	case "readline":
		return fmt.Sprintf("C10.readline n=%d in=%s", c.n, rle(c.in))
	default:
		return fmt.Sprintf("C10.scan in=%s", rle(c.in))
	}
}

func writeChunked(w io.Writer, b []byte, ch int) error {
	if ch <= 0 {
		ch = len(b)
	}
	for len(b) > 0 {
		k := ch
		if k > len(b) {
			k = len(b)
		}
		if _, err := w.Write(b[:k]); err != nil {
			return err
		}
		b = b[k:]
	}
	return nil
}

func runStderrCase(c *c10Case) (impl, pred string) {
	if _, _, panics := stderrExt(c.n, c.in); panics {
		return "panic", "FAIL:parsejson-panic"
	}
	sink := newC10Sink()
	buf := &lockedBuf{}
	client, fr, st := c10Start(c.n, sink, buf)
	if st != "" {
		c10Finish(client, fr)
		return "err " + st, "FAIL:" + st
	}
	wd := make(chan error, 1)
	go func() { wd <- writeChunked(fr.stderrW, c.in, c.ch) }()
	hang := false
	select {
	case <-wd:
	case <-time.After(c10Watchdog):
		hang = true
	}
	fr.exit()
	if !hang {
		select {
		case <-sink.exited:
		case <-time.After(c10Watchdog):
			hang = true
		}
	}
	c10Finish(client, fr)
	if hang {
		return "hang", "FAIL:stderr-stall"
	}
	written := buf.bytes()
	sink.mu.Lock()
	recs := append([]c10Rec(nil), sink.recs...)
	sink.mu.Unlock()
	var rb, lv []byte
	for _, r := range recs {
		rb = append(rb, recBytes(r)...)
		lv = append(lv, levelLetter[r.level])
	}
	impl = fmt.Sprintf("ok w=%d:%s recs=%d:%s lv=%s", len(written), hex64(fnv64(written)), len(recs), hex64(fnv64(rb)), rleChars(lv))
	return impl, c10Predicate(c.n, c.in, written, recs)
}

// runPreHandshakeStderr: the plugin writes 2048 stderr lines (more than any pipe buffer) and only then its handshake
// line: Start must succeed (the stderr reader runs while Start waits) and every line must be logged.
func runPreHandshakeStderr() (impl, pred string) {
	sink := newC10Sink()
	fr := newFakeRunner()
	cfg := &plugin.ClientConfig{
		HandshakeConfig:  plugin.HandshakeConfig{MagicCookieKey: "K", MagicCookieValue: "V"},
		VersionedPlugins: map[int]plugin.PluginSet{1: {}},
		StartTimeout:     c10Watchdog,
		Logger:           &c10Logger{s: sink},
		Stderr:           io.Discard,
		SkipHostEnv:      true,
		RunnerFunc: func(l hclog.Logger, cmd *exec.Cmd, tmpDir string) (runner.Runner, error) {
			return fr, nil
		},
	}
	client := plugin.NewClient(cfg)
	const lines = 2048
	go func() {
		for i := 0; i < lines; i++ {
			if _, err := fr.stderrW.Write([]byte(fmt.Sprintf("[DEBUG] starting up %06d %s\n", i, strings.Repeat("y", 40)))); err != nil {
				return
			}
		}
		fr.stdoutW.Write([]byte(c10Handshake))
	}()
	t0 := time.Now()
	var serr error
	_, hung, pp := withTimeout(c10Watchdog+3*time.Second, func() error { _, serr = client.Start(); return nil })
	el := time.Since(t0)
	c10Finish(client, fr)
	sink.mu.Lock()
	n := len(sink.recs)
	sink.mu.Unlock()
	impl = fmt.Sprintf("start=%s recs=%d/%d", map[bool]string{true: "ok", false: "err"}[serr == nil && !hung && pp == nil], n, lines)
	switch {
	case hung || pp != nil:
		return impl, "FAIL:start-hung-with-stderr-before-handshake"
	case serr != nil:
		return impl, "FAIL:stderr-before-handshake-stalls-the-plugin-until-start-timeout"
	case el > c10Watchdog-time.Second:
		return impl, "FAIL:start-slow-with-stderr-before-handshake"
	case n < lines:
		return impl, "FAIL:stderr-lines-before-handshake-not-logged"
	}
	return impl, "ok"
}

// slowWriter keeps everything and takes its time (a terminal, a log shipper)
type slowWriter struct {
	mu  sync.Mutex
	buf bytes.Buffer
}

func (w *slowWriter) Write(p []byte) (int, error) {
	time.Sleep(100 * time.Microsecond)
	w.mu.Lock()
	defer w.mu.Unlock()
	return w.buf.Write(p)
}

// runLastWords: a real plugin process writes `lines` numbered lines to its stderr and exits; once the client reports
// it as exited and Kill has returned, the configured Stderr writer must hold every line, unchanged and in order.
func runLastWords(launch string, lines int) (impl, pred string) {
	work := os.Getenv("VERIF_WORK")
	base := fmt.Sprintf("%s/c10-lw-%d-%s", work, os.Getpid(), launch)
	os.MkdirAll(base, 0o755)
	defer os.RemoveAll(base)
	w := &slowWriter{}
	cmd := kitCmd(kitServeCfg{Sets: map[string]string{"3": "netrpc"}}, "TMPDIR="+base)
	cfg := &plugin.ClientConfig{
		HandshakeConfig:  kitHandshake(),
		VersionedPlugins: kitHostSets(map[int]string{3: "netrpc"}, nil, nil),
		Logger:           nullLogger(),
		Stderr:           w,
		StartTimeout:     5 * time.Second,
		UnixSocketConfig: &plugin.UnixSocketConfig{TempDir: base},
	}
	if launch == "cmd" {
		cfg.Cmd = cmd
	} else {
		cfg.RunnerFunc = func(l hclog.Logger, cm *exec.Cmd, tmpDir string) (runner.Runner, error) {
			cmd.Env = append(cmd.Env, cm.Env...)
			return newLcProcRunner(cmd)
		}
	}
	client := plugin.NewClient(cfg)
	defer func() {
		withTimeout(8*time.Second, func() error { client.Kill(); return nil })
		if cmd.Process != nil {
			cmd.Process.Kill()
		}
	}()
	cp, err := client.Client()
	if err != nil {
		return "setup-error", "FAIL:setup"
	}
	raw, err := cp.Dispense("kit")
	if err != nil {
		return "setup-error", "FAIL:setup-dispense"
	}
	go func() {
		defer func() { recover() }()
		raw.(Kit).Cmd("lastwords", lines)
	}()
	deadline := time.Now().Add(20 * time.Second)
	for !client.Exited() && time.Now().Before(deadline) {
		time.Sleep(20 * time.Millisecond)
	}
	if !client.Exited() {
		return "not-exited", "FAIL:plugin-did-not-exit"
	}
	if _, hung, _ := withTimeout(8*time.Second, func() error { client.Kill(); return nil }); hung {
		return "kill-hung", "FAIL:kill-hung"
	}
	var want bytes.Buffer
	for i := 0; i < lines; i++ {
		fmt.Fprintf(&want, "last words %06d %s\n", i, strings.Repeat("w", 70))
	}
	w.mu.Lock()
	all := append([]byte(nil), w.buf.Bytes()...)
	w.mu.Unlock()
	// (the plugin's own logger writes a few JSON lines of its own to the same stderr: they are not part of the comparison)
	var got []byte
	for _, ln := range bytes.SplitAfter(all, []byte("\n")) {
		if !bytes.HasPrefix(ln, []byte("{")) {
			got = append(got, ln...)
		}
	}
	impl = fmt.Sprintf("bytes=%d/%d", len(got), want.Len())
	switch {
	case bytes.Equal(got, want.Bytes()):
		return impl, "ok"
	case bytes.HasPrefix(want.Bytes(), got):
		return impl, "FAIL:last-stderr-output-lost"
	}
	d := 0
	for d < len(got) && d < want.Len() && got[d] == want.Bytes()[d] {
		d++
	}
	e := d + 60
	if e > len(got) {
		e = len(got)
	}
	impl += fmt.Sprintf(" firstdiff=%d got=%q", d, got[d:e])
	return impl, "FAIL:stderr-copy-altered"
}

// failingWriter fails per mode: always | once (the first Write only) | short (reports a short write without error)
type failingWriter struct {
	mode string
	n    int64
}

func (w *failingWriter) Write(p []byte) (int, error) {
	k := atomic.AddInt64(&w.n, 1)
	switch {
	case w.mode == "always", w.mode == "once" && k == 1:
		return 0, errors.New("sink failed")
	case w.mode == "short":
		return len(p) / 2, nil
	}
	return len(p), nil
}

// runSinkFailCase: 4096 lines (~256 KiB, several pipe buffers) go to the plugin's stderr while the configured Stderr
// writer fails; the plugin's writes must all complete and every line must still be logged.
func runSinkFailCase(mode string) (impl, pred string) {
	sink := newC10Sink()
	client, fr, st := c10Start(0, sink, &failingWriter{mode: mode})
	if st != "" {
		c10Finish(client, fr)
		return "err " + st, "FAIL:" + st
	}
	const lines = 4096
	var in []byte
	for i := 0; i < lines; i++ {
		in = append(in, []byte(fmt.Sprintf("[INFO] line %06d %s\n", i, strings.Repeat("x", 40)))...)
	}
	wd := make(chan error, 1)
	go func() { wd <- writeChunked(fr.stderrW, in, 1000) }()
	hang := false
	select {
	case <-wd:
	case <-time.After(c10Watchdog):
		hang = true
	}
	fr.exit()
	if !hang {
		select {
		case <-sink.exited:
		case <-time.After(c10Watchdog):
			hang = true
		}
	}
	c10Finish(client, fr)
	sink.mu.Lock()
	n := len(sink.recs)
	sink.mu.Unlock()
	impl = fmt.Sprintf("blocked=%s recs=%d/%d", b01(hang), n, lines)
	switch {
	case hang:
		return impl, "FAIL:stderr-stall-after-sink-error"
	case n != lines:
		return impl, "FAIL:stderr-lines-not-logged-after-sink-error"
	}
	return impl, "ok"
}

// ---------------------------------------------------------------- one stdout case

func runStdoutCase(c *c10Case) (impl, pred string) {
	sink := newC10Sink()
	client, fr, st := c10Start(0, sink, io.Discard)
	if st != "" {
		c10Finish(client, fr)
		return "err " + st, "FAIL:" + st
	}
	type wr struct{ n int }
	wd := make(chan wr, 1)
	go func() {
		n := 0
		if len(c.in) > 0 {
			n, _ = fr.stdoutW.Write(c.in)
		}
		wd <- wr{n}
	}()
	done := true
	var w wr
	select {
	case w = <-wd:
	case <-time.After(c10Watchdog):
		done = false
		fr.stdoutR.Close() // unblocks the writer, which reports how much was taken
		w = <-wd
	}
	c10Finish(client, fr)
	impl = fmt.Sprintf("consumed=%d/%d done=%s", w.n, len(c.in), b01(done))
	pred = "ok"
	if !done {
		pred = "FAIL:stdout-stall"
	}
	return
}

// ---------------------------------------------------------------- library diffs

func runReadlineCase(c *c10Case) (impl, pred string) {
	size := c.n
	rs := goReadAll(size, c.in)
	var ser, flags []byte
	for _, r := range rs {
		if r.prefix {
			ser = append(ser, '1')
			flags = append(flags, 'P')
		} else {
			ser = append(ser, '0')
			flags = append(flags, 'L')
		}
		ser = append(ser, strconv.Itoa(len(r.line))...)
		ser = append(ser, ':')
		ser = append(ser, r.line...)
	}
	return fmt.Sprintf("k=%d h=%s p=%s", len(rs), hex64(fnv64(ser)), rleChars(flags)), "ok"
}

type countReader struct {
	r io.Reader
	n int
}

func (c *countReader) Read(p []byte) (int, error) {
	k, err := c.r.Read(p)
	c.n += k
	return k, err
}

func runScanCase(c *c10Case) (impl, pred string) {
	cr := &countReader{r: bytes.NewReader(c.in)}
	sc := bufio.NewScanner(cr)
	first := "closed"
	if sc.Scan() {
		t := sc.Bytes()
		first = fmt.Sprintf("line:%d:%s", len(t), hex64(fnv64(t)))
		for sc.Scan() {
		}
	}
	return fmt.Sprintf("first=%s read=%d", first, cr.n), "ok"
}

func runC10Case(c *c10Case) (string, string) {
	switch c.kind {
	case "stderr":
		return runStderrCase(c)
	case "stdout":
		return runStdoutCase(c)
	case "readline":
		return runReadlineCase(c)
	default:
		return runScanCase(c)
	}
}

// ---------------------------------------------------------------- generator

func rep(b byte, n int) []byte { return bytesRepeat(b, n) }

func cat(parts ...[]byte) []byte {
	var out []byte
	for _, p := range parts {
		out = append(out, p...)
	}
	return out
}

// c10Boundary: lines whose length sits on the buffer boundaries, with every
// terminator and a '\r' on each boundary position.
func c10Boundary(n int, full bool) []*c10Case {
	N := effBuf(n)
	if N < 16 {
		N = 16
	}
	var out []*c10Case
	lens := []int{0, 1, N - 2, N - 1, N, N + 1, 2*N - 1, 2 * N, 2*N + 1, 3 * N}
	terms := []string{"\n", "\r\n", ""}
	seenLine := map[string]bool{}
	for _, L := range lens {
		var variants [][]byte
		base := rep('a', L)
		variants = append(variants, base)
		for _, pos := range []int{0, N - 2, N - 1, N, N + 1, 2*N - 2, 2*N - 1, 2 * N, L - 1} {
			if pos >= 0 && pos < L {
				v := append([]byte(nil), base...)
				v[pos] = '\r'
				variants = append(variants, v)
			}
		}
		if L >= N {
			v := append([]byte(nil), base...)
			v[N-2], v[N-1] = '\r', '\r'
			variants = append(variants, v)
			variants = append(variants, rep('\r', L))
		}
		for _, v := range variants {
			for _, t := range terms {
				s := cat(v, []byte(t))
				if seenLine[string(s)] {
					continue
				}
				seenLine[string(s)] = true
				out = append(out, &c10Case{kind: "stderr", n: n, in: s, cls: "boundary"})
				out = append(out, &c10Case{kind: "readline", n: N, in: s, cls: "readline"})
				if t != "" {
					out = append(out, &c10Case{kind: "stderr", n: n, in: cat(s, []byte("[INFO] next\n")), cls: "boundary"})
				}
				if full {
					out = append(out, &c10Case{kind: "stderr", n: n, ch: 7, in: cat([]byte("x\n"), s), cls: "boundary"})
				}
			}
		}
	}
	return out
}

var c10TextLines = []string{
	"[TRACE] t", "[DEBUG] d", "[INFO] i", "[WARN] w", "[ERROR] e", "[TRACE]", "[INFO]x", "[trace] x", " [INFO] x",
	"[INFO x", "[INFO", "[WARNING] x", "[ERR] x", "[Error] x", "[ INFO] x", "x [INFO]", "panic: boom", "panic:", "panic",
	"Panic: x", " panic: x", "panic : x", "goroutine 1 [running]:", "", "plain", "\t/x.go:12 +0x1", "fatal error: x", "\r", "[INFO]\r",
}

const c10TS = "2023-01-02T03:04:05.123456Z"

var c10JSONLines = []string{
	// valid hclog entries
	`{"@level":"info","@message":"hello","@timestamp":"` + c10TS + `"}`,
	`{"@level":"trace","@message":"t"}`, `{"@level":"debug","@message":"d"}`, `{"@level":"warn","@message":"w"}`,
	`{"@level":"error","@message":"e"}`, `{"@level":"INFO","@message":"upper"}`, `{"@level":" Warn \t","@message":"spaces"}`,
	`{"@level":"İNFO","@message":"dotted capital I lower-cases to i"}`, `{"@level":"Key","@message":"kelvin"}`,
	`{"@level":"info ","@message":"nbsp trimmed"}`, `{"@level":"in fo","@message":"x"}`,
	`{"@level":"warning","@message":"not a level"}`, `{"@level":"","@message":"empty level"}`, `{"@message":"no level"}`,
	`{"@level":"info"}`, `{"@level":"off","@message":"x"}`, `{"@level":"nolevel","@message":"x"}`,
	`{"@level":"info","@message":"kv","a":1,"b":"two","c":[1,2],"d":{"e":null},"f":true,"g":1.5e300}`,
	`{"@level":"info","@message":"ts key","timestamp":"mine","@module":"m","@caller":"c.go:1"}`,
	// fields whose value is null / empty / zero are fields too
	`{"@level":"error","@message":"request failed","attempt":3,"err":null}`, `{"@level":"info","@message":"zeros","n":0,"s":"","b":false,"l":[],"o":{},"z":null}`,
	`{"@level":"info","@message":"dup","a":1,"a":2}`, `{"@message":"first","@message":"second","@level":"error"}`,
	`{"@level":"info","@message":"tz","@timestamp":"2023-01-02T03:04:05.123456+01:00"}`,
	`{"@level":"info","@message":"esc \" \\ \n é 😀"}`, `{"@level":"info","@message":"bad utf8 ` + "\xff\xfe" + `"}`,
	` {"@level":"info","@message":"leading space"} `, "\t{\"@level\":\"info\",\"@message\":\"tab\"}",
	`{"@LEVEL":"error","@Message":"case matters"}`, `{"@level":"error","@message":"x","@message ":"y"}`,
	// wrong types (D6)
	`{"@message": 5}`, `{"@message": null}`, `{"@message": true}`, `{"@message": []}`, `{"@message": {}}`, `{"@message": 1.5}`,
	`{"@level": 5}`, `{"@level": null}`, `{"@level": ["info"]}`, `{"@level": {"a":"info"}}`, `{"@level":false,"@message":"m"}`,
	`{"@timestamp": 5}`, `{"@timestamp": null}`, `{"@timestamp": {}}`, `{"@timestamp": 1672628645}`,
	`{"@level":"info","@message":"m","@timestamp":12}`, `{"@message":5,"@level":"info","@timestamp":"` + c10TS + `"}`,
	`{"@message":"ok","@level":7,"@timestamp":"bad"}`, `{"@timestamp":"bad","@message":5}`,
	// bad timestamp strings
	`{"@level":"info","@message":"m","@timestamp":"bad"}`, `{"@level":"info","@message":"m","@timestamp":""}`,
	`{"@level":"info","@message":"m","@timestamp":"2023-01-02T03:04:05Z"}`, `{"@level":"info","@message":"m","@timestamp":"2023-01-02T03:04:05.123Z"}`,
	`{"@level":"info","@message":"m","@timestamp":"2023-13-02T03:04:05.123456Z"}`, `{"@level":"info","@message":"m","@timestamp":"2023-01-02 03:04:05.123456Z"}`,
	// non-objects and not-quite JSON
	`[1]`, `5`, `"s"`, `null`, `true`, `[]`, `{}`, `{ }`, `[{"@message":"x"}]`, `{"@message":"x"} trailing`, `{"@message":"x"}{"@message":"y"}`,
	`{"@message":"x",}`, `{'@message':'x'}`, `{"@message":"unterminated`, `{`, `}`, "\xef\xbb\xbf{\"@message\":\"bom\"}", `nul`, `-0`, `1e5`,
	`{"a":{"@message":5}}`, `{"":"empty key","@level":"info"}`, `{"@message":"escaped key","@level":"warn"}`,
	`{"@message":"x","@level":"info","n":12345678901234567890}`, `{"@message":"deep","@level":"info","d":[[[[[[[[1]]]]]]]]}`,
}

func c10Levels() []*c10Case {
	var out []*c10Case
	for _, n := range []int{64, 16, 0} {
		for _, l := range c10TextLines {
			b := []byte(l + "\n")
			out = append(out, &c10Case{kind: "stderr", n: n, in: b, cls: "level"})
			out = append(out, &c10Case{kind: "stderr", n: n, in: cat([]byte("panic: p\n"), b, []byte("after\n")), cls: "panic"})
			out = append(out, &c10Case{kind: "stderr", n: n, in: cat(b, []byte("after\n")), cls: "level"})
		}
		// panic traces: plain lines at error until a level line / JSON line; a long line in between does not reset
		long := rep('z', 3*effBufMin(n)+3)
		traces := []string{
			"panic: boom\n\ngoroutine 1 [running]:\nmain.main()\n\t/x.go:1 +0x1\nexit status 2\n",
			"plain\npanic: boom\ntrace1\n[INFO] recovered\nplain again\n",
			"panic: boom\ntrace1\n{\"@level\":\"info\",\"@message\":\"json resets\"}\nplain again\n",
			"panic: boom\ntrace1\n{\"@message\":\"json without level resets\"}\nplain again\n",
			"panic: boom\ntrace1\n[1]\nstill trace\n",
			"panic: boom\n" + string(long) + "\nstill trace\n",
			"panic: one\npanic: two\nt\n[ERROR] e\nplain\n",
			"panic: boom\r\ntrace\r\n[DEBUG] d\r\nplain\r\n",
			"panic: last line without newline",
			"[WARN] w\npanic: x",
		}
		for _, t := range traces {
			out = append(out, &c10Case{kind: "stderr", n: n, in: []byte(t), cls: "panic"})
			out = append(out, &c10Case{kind: "stderr", n: n, ch: 5, in: []byte(t), cls: "panic"})
		}
	}
	return out
}

func effBufMin(n int) int {
	N := effBuf(n)
	if N < 16 {
		N = 16
	}
	return N
}

func c10JSON() []*c10Case {
	var out []*c10Case
	big := `{"@level":"info","@message":"` + strings.Repeat("m", 5000) + `","k":"` + strings.Repeat("v", 3000) + `"}`
	for _, n := range []int{4096, 0, 64, 200} {
		lines := c10JSONLines
		if n == 4096 || n == 0 {
			lines = append(append([]string(nil), lines...), big)
		}
		for _, l := range lines {
			out = append(out, &c10Case{kind: "stderr", n: n, in: []byte(l + "\n"), cls: "json"})
			if n == 4096 {
				out = append(out, &c10Case{kind: "stderr", n: n, in: []byte(l), cls: "json"})
				out = append(out, &c10Case{kind: "stderr", n: n, in: []byte(l + "\r\n"), cls: "json"})
				out = append(out, &c10Case{kind: "stderr", n: n, ch: 3, in: []byte("panic: p\n" + l + "\nplain\n"), cls: "json"})
			}
		}
	}
	return out
}

// c10Random: random streams over an alphabet that makes CR/LF/prefix/JSON collisions likely.
func c10Random(r *rng, count int) []*c10Case {
	var out []*c10Case
	sizes := []int{16, 17, 64, 1, 15, 33}
	items := []string{"[INFO] ", "[TRACE]", "[ERROR] x", "panic: ", "{}", `{"@level":"warn","@message":"m"}`, `{"@message":"x"}`, "null", "[1]", `{"@level":"debug"}`, "\r", "\r\n", "\n", "\n\n", "\r\r\n"}
	for i := 0; i < count; i++ {
		q := r.fork(uint64(i))
		n := pick(q, sizes)
		N := effBufMin(n)
		var s []byte
		for k := q.intn(6) + 1; k > 0; k-- {
			switch q.intn(6) {
			case 0:
				s = append(s, pick(q, items)...)
			case 1:
				// filler up to a boundary
				target := pick(q, []int{N - 2, N - 1, N, N + 1, 2*N - 1, 2 * N, 2*N + 1})
				s = append(s, rep(byte('a'+q.intn(3)), q.intn(target+1))...)
			case 2:
				L := pick(q, []int{N - 2, N - 1, N, N + 1, 2*N - 1, 2 * N, 2*N + 1})
				s = append(s, rep('b', L)...)
			case 3:
				for j := q.intn(2*N) + 1; j > 0; j-- {
					s = append(s, pick(q, []byte{'a', 'b', '\r', '\n', '[', '{', ' ', 0, 0xff}))
				}
			case 4:
				s = append(s, '\n')
			case 5:
				s = append(s, pick(q, items)...)
				s = append(s, '\n')
			}
		}
		ch := 0
		if q.intn(3) == 0 {
			ch = q.intn(2*N) + 1
		}
		out = append(out, &c10Case{kind: "stderr", n: n, ch: ch, in: s, cls: "random"})
		if i%2 == 0 {
			out = append(out, &c10Case{kind: "readline", n: n, in: s, cls: "readline"})
		}
	}
	return out
}

func c10Stdout(r *rng, thorough bool) []*c10Case {
	var out []*c10Case
	seen := map[string]bool{}
	add := func(b []byte) {
		if seen[string(b)] {
			return
		}
		seen[string(b)] = true
		out = append(out, &c10Case{kind: "stdout", in: b, cls: "stdout"})
		out = append(out, &c10Case{kind: "scan", in: b, cls: "scan"})
	}
	nl := []byte("\n")
	add(nil)
	add([]byte("hello\n"))
	add(cat(rep('a', 65536), nl)) // D7: one line of exactly bufio.MaxScanTokenSize bytes
	add([]byte("no newline"))
	add([]byte("a\r\nb\n\nc"))
	for _, L := range []int{4095, 4096, 4097, 65534, 65535, 65536, 65537, 70000, 131072} {
		add(cat(rep('a', L), nl))
		add(rep('a', L))
		add(cat(rep('a', L), []byte("\r\n")))
		add(cat([]byte("x\n"), rep('a', L), nl, []byte("more\n")))
	}
	add(cat(rep('a', 65535), nl, rep('b', 65535), nl, rep('c', 65536)))
	// volume: 3 MiB of 1000-byte lines, 4 MiB without any newline, 40 lines just under the limit
	var vol []byte
	line := cat(rep('v', 999), nl)
	for i := 0; i < 3*1024; i++ {
		vol = append(vol, line...)
	}
	add(vol)
	add(rep('w', 4<<20))
	var near []byte
	for i := 0; i < 40; i++ {
		near = append(near, rep(byte('a'+i%26), 65535)...)
		near = append(near, '\n')
	}
	add(near)
	add(cat(near, rep('z', 65536), nl, near))
	k := 6
	if thorough {
		k = 60
	}
	for i := 0; i < k; i++ {
		q := r.fork(uint64(1000 + i))
		var s []byte
		for j := q.intn(5) + 1; j > 0; j-- {
			L := pick(q, []int{0, 1, 100, 4096, 65534, 65535, 65535, 65536, 65537, 100000})
			if q.intn(3) == 0 {
				L = q.intn(66000)
			}
			s = append(s, rep(byte('a'+q.intn(26)), L)...)
			if j > 1 || q.bool() {
				s = append(s, '\n')
			}
		}
		add(s)
	}
	return out
}

func c10Generate(r *rng) []*c10Case {
	thorough := tier() == "thorough"
	var cases []*c10Case
	cases = append(cases, c10Stdout(r, thorough)...) // first: the stalling ones wait for the watchdog
	for _, n := range []int{16, 17, 64} {
		cases = append(cases, c10Boundary(n, true)...)
	}
	cases = append(cases, c10Boundary(1, false)...)
	cases = append(cases, c10Boundary(4096, thorough)...)
	cases = append(cases, c10Boundary(0, false)...)
	cases = append(cases, c10Levels()...)
	cases = append(cases, c10JSON()...)
	nr := 2800
	if thorough {
		nr = 190000
	}
	if v := os.Getenv("VERIF_C10_RANDOM"); v != "" {
		fmt.Sscanf(v, "%d", &nr)
	}
	cases = append(cases, c10Random(r, nr)...)
	return cases
}

func c10FromLine(line string) *c10Case {
	tag, m := kvLine(line)
	c := &c10Case{}
	fmt.Sscanf(m["n"], "%d", &c.n)
	fmt.Sscanf(m["ch"], "%d", &c.ch)
	switch tag {
	case "C10.stderr":
		c.kind, c.in = "stderr", unrle(m["in"])
	case "C10.stdout":
		c.kind, c.in = "stdout", unrle(m["post"])
	case "C10.readline":
		c.kind, c.in = "readline", unrle(m["in"])
	default:
		c.kind, c.in = "scan", unrle(m["in"])
	}
	return c
}

func init() { register("C10", hostC10) }

func hostC10(o *out, replay string) {
	if replay != "" {
		c := c10FromLine(replay)
		impl, pred := runC10Case(c)
		o.emit(c.line(), impl, pred)
		return
	}
	r := newRng(seedFromEnv())
	cases := c10Generate(r)
	type res struct{ line, impl, pred string }
	results := make([]res, len(cases))
	parallel(len(cases), 32, func(i int) {
		impl, pred := runC10Case(cases[i])
		results[i] = res{cases[i].line(), impl, pred}
	})
	cls := map[string]int{}
	outc := map[string]int{}
	for i, c := range cases {
		cls[c.cls]++
		key := c.kind + ":" + strings.SplitN(results[i].impl, " ", 2)[0]
		switch c.kind {
		case "stdout":
			key = "stdout:" + results[i].impl[strings.LastIndex(results[i].impl, " ")+1:]
		case "readline":
			key = "readline:single-result"
			if !strings.HasPrefix(results[i].impl, "k=1 ") && !strings.HasPrefix(results[i].impl, "k=0 ") {
				key = "readline:multi-result"
			}
		case "scan":
			key = "scan:first-token"
			if strings.HasPrefix(results[i].impl, "first=closed") {
				key = "scan:no-first-token"
			}
		}
		outc[key]++
		o.emit(results[i].line, results[i].impl, results[i].pred)
	}
	// a Stderr writer that fails (full disk, closed file): the host must keep reading the plugin's stderr and logging it
	for _, mode := range []string{"always", "once", "short"} {
		impl, pred := runSinkFailCase(mode)
		o.emit("!C10.sinkfail mode="+mode, impl, pred)
	}
	// stderr output BEFORE the handshake line: the host must already be consuming it while Start waits for the line
	{
		impl, pred := runPreHandshakeStderr()
		o.emit("!C10.prehandshake lines=2048", impl, pred)
	}
	// the plugin's LAST words: more stderr than a pipe holds, written just before the process ends, a slow Stderr writer
	for _, launch := range []string{"cmd", "runner"} {
		impl, pred := runLastWords(launch, 1500)
		o.emit("!C10.lastwords lines=1500 launch="+launch, impl, pred)
	}
	// a first stdout line that is rejected, FOLLOWED by more stdout lines (a usage message): the rest is still consumed — the
	// plugin is ended and Kill returns
	for _, proto := range []string{"netrpc", "grpc"} {
		impl, pred := runKillCase(&killCase{proto, "neverstarted2", "cmd", "single"})
		o.emit("!C10.rejected-line-then-more proto="+proto, impl, pred)
	}
	o.note("C10 input classes: %s", fmtCounts(cls))
	o.note("C10 outcomes: %s", fmtCounts(outc))
	o.note("C10 buffer sizes: PluginLogBufferSize in {1,15,16,17,33,64,200,4096,0(default 65536)}; stdout lines around 4096/65535/65536/65537, 3-4 MiB volume")
}

func fmtCounts(m map[string]int) string {
	var ks []string
	for k := range m {
		ks = append(ks, k)
	}
	sort.Strings(ks)
	var ps []string
	for _, k := range ks {
		ps = append(ps, fmt.Sprintf("%s=%d", k, m[k]))
	}
	return strings.Join(ps, " ")
}
