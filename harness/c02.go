package main

// C02 correspondence: application-protocol-version negotiation.
//
//	C02.a  in-process breadth: the real client renders PLUGIN_PROTOCOL_VERSIONS
//	       (captured from the exec.Cmd handed to RunnerFunc), the real
//	       protocolVersion (plugin.VerifProtocolVersion) runs under that value
//	       (or a corrupted one) set with os.Setenv, the scripted runner prints the
//	       handshake line with the version it returned, and the real
//	       checkProtoVersion decides inside Client.Start.
//	C02.e  end-to-end: a raw launch of the kit plugin process (handshake line
//	       read from its stdout) and a full plugin.Client with a real Cmd.
//
// Plugin sets carry identities: VersionedPlugins[v] has id v, the legacy
// Plugins field has id 1000+ProtocolVersion (on either side).

import (
	"bufio"
	"fmt"
	"os"
	"os/exec"
	"reflect"
	"sort"
	"strconv"
	"strings"
	"sync"
	"sync/atomic"
	"syscall"
	"time"

	hclog "github.com/hashicorp/go-hclog"
	plugin "github.com/hashicorp/go-plugin"
	"github.com/hashicorp/go-plugin/runner"
)

func init() { register("C02", hostC02) }

// negSide is one side's configuration.
type negSide struct {
	lv     int   // ProtocolVersion
	lp     bool  // Plugins != nil
	vs     []int // keys of VersionedPlugins, in the order written on the case line
	nilMap bool  // VersionedPlugins == nil (only meaningful when vs is empty)
}

type negCase struct {
	sub        string // "a" | "e"
	host, plug negSide
	g          bool           // ServeConfig.GRPCServer != nil
	kinds      map[int]string // plugin set id -> letters g/n ("-" = empty set)
	cor        string         // how the list the plugin sees is derived from the real rendering
	eu         bool           // C02.e raw launch: variable unset instead of empty
	env, henv  string         // observed: what the plugin saw / what the client rendered
}

func legacyID(v int) int { return 1000 + v }

// effective maps version -> set id after each side's own legacy fold
func (s negSide) foldHost() map[int]int {
	m := map[int]int{}
	for _, v := range s.vs {
		m[v] = v
	}
	if _, ok := m[s.lv]; !ok && s.lp {
		m[s.lv] = legacyID(s.lv)
	}
	return m
}

func (s negSide) foldPlugin() map[int]int {
	m := map[int]int{}
	for _, v := range s.vs {
		m[v] = v
	}
	if s.lp {
		m[s.lv] = legacyID(s.lv)
	}
	return m
}

func (s negSide) fields(p string) string {
	hp := "n"
	if s.lp {
		hp = strconv.Itoa(legacyID(s.lv))
	}
	hm := "_"
	if len(s.vs) > 0 {
		var es []string
		for _, v := range s.vs {
			es = append(es, fmt.Sprintf("%d:%d", v, v))
		}
		hm = strings.Join(es, ",")
	}
	return fmt.Sprintf("%sv=%d %sp=%s %sm=%s %snil=%s", p, s.lv, p, hp, p, hm, p, b01(s.nilMap))
}

func (c *negCase) kindsField() string {
	var ids []int
	for id := range c.kinds {
		ids = append(ids, id)
	}
	sort.Ints(ids)
	if len(ids) == 0 {
		return "_"
	}
	var es []string
	for _, id := range ids {
		es = append(es, fmt.Sprintf("%d:%s", id, c.kinds[id]))
	}
	return strings.Join(es, ",")
}

func (c *negCase) line() string {
	return fmt.Sprintf("C02.%s %s %s g=%s k=%s cor=%s eu=%s env=%s henv=%s", c.sub, c.host.fields("h"), c.plug.fields("p"),
		b01(c.g), c.kindsField(), c.cor, b01(c.eu), hxs(c.env), hxs(c.henv))
}

func negSideFromLine(m map[string]string, p string) negSide {
	s := negSide{}
	s.lv, _ = strconv.Atoi(m[p+"v"])
	s.lp = m[p+"p"] != "n" && m[p+"p"] != ""
	for _, e := range splitComma(m[p+"m"]) {
		kv := strings.SplitN(e, ":", 2)
		v, _ := strconv.Atoi(kv[0])
		s.vs = append(s.vs, v)
	}
	s.nilMap = m[p+"nil"] == "1"
	return s
}

func negCaseFromLine(tag string, m map[string]string) *negCase {
	c := &negCase{sub: strings.TrimPrefix(tag, "C02."), host: negSideFromLine(m, "h"), plug: negSideFromLine(m, "p"),
		g: m["g"] == "1", kinds: map[int]string{}, cor: m["cor"], eu: m["eu"] == "1"}
	for _, e := range splitComma(m["k"]) {
		kv := strings.SplitN(e, ":", 2)
		id, _ := strconv.Atoi(kv[0])
		c.kinds[id] = kv[1]
	}
	if c.sub == "e" {
		c.env = string(unhx(m["env"]))
	}
	return c
}

// applyCor derives the list the plugin sees from the client's real rendering.
func applyCor(real, cor string) string {
	elems := []string{}
	if real != "" {
		elems = strings.Split(real, ",")
	}
	switch {
	case cor == "none":
		return real
	case strings.HasPrefix(cor, "lit:"):
		return string(unhx(cor[4:]))
	case strings.HasPrefix(cor, "app:"):
		return real + string(unhx(cor[4:]))
	case strings.HasPrefix(cor, "pre:"):
		return string(unhx(cor[4:])) + real
	case cor == "plus":
		for i := range elems {
			elems[i] = "+" + elems[i]
		}
		return strings.Join(elems, ",")
	case cor == "zero":
		for i := range elems {
			elems[i] = "0" + elems[i]
		}
		return strings.Join(elems, ",")
	case cor == "dup":
		return strings.Join(append(append([]string{}, elems...), elems...), ",")
	case cor == "sp":
		return strings.Join(elems, ", ")
	case cor == "tab":
		for i := range elems {
			elems[i] = elems[i] + "\t"
		}
		return strings.Join(elems, ",")
	case cor == "semi":
		return strings.Join(elems, ";")
	}
	return real
}

// validList is the predicate's own reading of the list: entries strconv.Atoi accepts.
func validList(env string) []int {
	var out []int
	if env == "" {
		return nil
	}
	for _, s := range strings.Split(env, ",") {
		if v, err := strconv.Atoi(s); err == nil {
			out = append(out, v)
		}
	}
	return out
}

// ---------------------------------------------------------------- the property's predicate

type negObs struct {
	pickV     int
	pickProto string
	pickSet   int // -1 = nil
	started   bool
	errClass  string
	negVer    int
	hostSet   int
	killed    bool
	pluginTag int // e2e: tag answered by the dispensed implementation; -2 = not observed
}

func homogeneousKind(k string) string {
	if k == "" || k == "-" {
		return ""
	}
	for i := 1; i < len(k); i++ {
		if k[i] != k[0] {
			return ""
		}
	}
	if k[0] == 'g' {
		return "grpc"
	}
	return "netrpc"
}

// negPred evaluates C02 directly on what the implementation did.  `list` is what the
// plugin was offered (valid entries of the variable it saw), H/P the effective maps.
func negPred(c *negCase, list []int, o negObs) string {
	H, P := c.host.foldHost(), c.plug.foldPlugin()
	inList := map[int]bool{}
	for _, v := range list {
		inList[v] = true
	}
	best, found := 0, false
	lowest, any := 0, false
	for v := range P {
		if inList[v] && (!found || v > best) {
			best, found = v, true
		}
		if !any || v < lowest {
			lowest, any = v, true
		}
	}
	if any {
		if found && o.pickV != best {
			return "FAIL:not-highest-common"
		}
		if !found && o.pickV != lowest {
			return "FAIL:not-lowest-without-common"
		}
		if o.pickSet != P[o.pickV] {
			return "FAIL:plugin-serves-set-of-other-version"
		}
		if !c.g && o.pickProto != "netrpc" {
			return "FAIL:protocol-without-grpc-server"
		}
		if c.g {
			if hk := homogeneousKind(c.kinds[P[o.pickV]]); hk != "" && o.pickProto != hk {
				return "FAIL:protocol-not-that-of-chosen-set"
			}
		}
	}
	hs, offered := H[o.pickV]
	if o.started {
		if o.negVer != o.pickV {
			return "FAIL:negotiated-differs-from-announced"
		}
		if !offered {
			return "FAIL:client-accepted-unoffered-version"
		}
		if o.hostSet != hs {
			return "FAIL:host-uses-set-of-other-version"
		}
		if o.pluginTag != -2 && o.pluginTag != o.pickSet {
			return "FAIL:dispensed-implementation-of-other-set"
		}
	} else {
		if offered {
			return "FAIL:client-rejected-offered-version:" + o.errClass
		}
		if o.errClass != "incompatible" {
			return "FAIL:mismatch-not-reported-as-incompatible:" + o.errClass
		}
		if !o.killed {
			return "FAIL:plugin-not-terminated-on-mismatch"
		}
	}
	return "ok"
}

func errClassOf(err error) string {
	switch {
	case err == nil:
		return "nil"
	case strings.HasPrefix(err.Error(), "Incompatible API version with plugin"):
		return "incompatible"
	case strings.HasPrefix(err.Error(), "Error parsing protocol version"):
		return "parse"
	}
	return "other"
}

func setStr(id int) string {
	if id < 0 {
		return "nil"
	}
	return strconv.Itoa(id)
}

// ---------------------------------------------------------------- C02.a

var negEnvMu sync.Mutex // os.Setenv + protocolVersion: process-global, strictly sequential

func setPtr(ps plugin.PluginSet) uintptr {
	if ps == nil {
		return 0
	}
	return reflect.ValueOf(ps).Pointer()
}

func mkKindSet(id int, kinds string) plugin.PluginSet {
	ps := plugin.PluginSet{}
	if kinds == "-" {
		return ps
	}
	for i, ch := range kinds {
		name := fmt.Sprintf("p%d", i)
		if ch == 'g' {
			ps[name] = &kitGRPCPlugin{kitPlugin{tag: id}}
		} else {
			ps[name] = &kitPlugin{tag: id}
		}
	}
	return ps
}

func runNegA(c *negCase) (string, string) {
	plugReg := map[uintptr]int{}
	hostReg := map[uintptr]int{}

	// plugin side
	newServeCfg := func() *plugin.ServeConfig {
		sc := &plugin.ServeConfig{HandshakeConfig: plugin.HandshakeConfig{ProtocolVersion: uint(c.plug.lv)}}
		if len(c.plug.vs) > 0 || !c.plug.nilMap {
			sc.VersionedPlugins = map[int]plugin.PluginSet{}
			for _, v := range c.plug.vs {
				ps := mkKindSet(v, c.kinds[v])
				plugReg[setPtr(ps)] = v
				sc.VersionedPlugins[v] = ps
			}
		}
		if c.plug.lp {
			ps := mkKindSet(legacyID(c.plug.lv), c.kinds[legacyID(c.plug.lv)])
			plugReg[setPtr(ps)] = legacyID(c.plug.lv)
			sc.Plugins = ps
		}
		if c.g {
			sc.GRPCServer = plugin.DefaultGRPCServer
		}
		return sc
	}

	// host side
	fr := newFakeRunner()
	var o negObs
	o.pluginTag = -2
	var serverPanic interface{}
	cfg := &plugin.ClientConfig{
		HandshakeConfig:  plugin.HandshakeConfig{ProtocolVersion: uint(c.host.lv), MagicCookieKey: "K", MagicCookieValue: "V"},
		StartTimeout:     5 * time.Second,
		Logger:           nullLogger(),
		SkipHostEnv:      true,
		AllowedProtocols: []plugin.Protocol{plugin.ProtocolNetRPC, plugin.ProtocolGRPC},
	}
	// version sets that do not intersect are an incompatible-VERSION error whatever wire protocol the plugin's lowest set
	// uses: such hosts allow one protocol only (alternating), so that the announced protocol is often not allowed either
	if c.cor == "none" {
		hp, hh := c.plug.foldPlugin(), c.host.foldHost()
		disjoint := len(hp) > 0 && len(hh) > 0 // (a side without any set still has its legacy version number)
		for v := range hh {
			if _, ok := hp[v]; ok {
				disjoint = false
			}
		}
		if disjoint {
			if (c.host.lv+len(c.host.vs)+len(c.plug.vs))%2 == 0 {
				cfg.AllowedProtocols = []plugin.Protocol{plugin.ProtocolNetRPC}
			} else {
				cfg.AllowedProtocols = []plugin.Protocol{plugin.ProtocolGRPC}
			}
		}
	}
	if len(c.host.vs) > 0 || !c.host.nilMap {
		cfg.VersionedPlugins = map[int]plugin.PluginSet{}
		for _, v := range c.host.vs {
			ps := plugin.PluginSet{"kit": &kitPlugin{tag: v}}
			hostReg[setPtr(ps)] = v
			cfg.VersionedPlugins[v] = ps
		}
	}
	if c.host.lp {
		ps := plugin.PluginSet{"kit": &kitPlugin{tag: legacyID(c.host.lv)}}
		hostReg[setPtr(ps)] = legacyID(c.host.lv)
		cfg.Plugins = ps
	}
	sockDir := ""
	cfg.RunnerFunc = func(l hclog.Logger, cmd *exec.Cmd, tmpDir string) (runner.Runner, error) {
		sockDir = tmpDir
		// what the real client rendered
		for _, e := range cmd.Env {
			if strings.HasPrefix(e, "PLUGIN_PROTOCOL_VERSIONS=") {
				c.henv = e[len("PLUGIN_PROTOCOL_VERSIONS="):]
			}
		}
		c.env = applyCor(c.henv, c.cor)
		// the "plugin process": the real protocolVersion under that environment
		func() {
			negEnvMu.Lock()
			defer negEnvMu.Unlock()
			defer func() { serverPanic = recover() }()
			os.Setenv("PLUGIN_PROTOCOL_VERSIONS", c.env)
			v, proto, set := plugin.VerifProtocolVersion(newServeCfg())
			o.pickV, o.pickProto = v, string(proto)
			o.pickSet = -1
			if set != nil {
				id, ok := plugReg[setPtr(set)]
				if !ok {
					id = 9999
				}
				o.pickSet = id
			}
		}()
		if serverPanic == nil {
			go fr.stdoutW.Write([]byte(fmt.Sprintf("1|%d|tcp|127.0.0.1:1|%s|\n", o.pickV, o.pickProto)))
		} else {
			fr.exit()
		}
		return fr, nil
	}
	client := plugin.NewClient(cfg)
	var startErr error
	_, hung, p := withTimeout(15*time.Second, func() error {
		_, startErr = client.Start()
		return nil
	})
	// No client.Kill(): with an address it would first try to dial the (fictitious) plugin.  The
	// scripted process "exits", which ends every goroutine of the client; the socket dir is removed here.
	defer func() {
		fr.exit()
		if sockDir != "" {
			os.RemoveAll(sockDir)
		}
	}()
	switch {
	case hung:
		return "hang", "FAIL:start-hung"
	case p != nil:
		return "panic", "FAIL:host-panic"
	case serverPanic != nil:
		return "panic", "FAIL:protocolVersion-panic"
	}
	o.killed = fr.killCount() > 0
	clientStr := ""
	if startErr == nil {
		o.started = true
		o.negVer = client.NegotiatedVersion()
		id, ok := hostReg[setPtr(cfg.Plugins)]
		if !ok {
			id = 9999
		}
		o.hostSet = id
		clientStr = fmt.Sprintf("ok:%d:%d", o.negVer, o.hostSet)
		if string(client.Protocol()) != o.pickProto {
			return "bad", "FAIL:client-protocol-differs-from-line"
		}
	} else {
		o.errClass = errClassOf(startErr)
		clientStr = "err:" + o.errClass
	}
	// render check with plain Go
	want := []int{}
	for v := range c.host.foldHost() {
		want = append(want, v)
	}
	got := validList(c.henv)
	sort.Ints(want)
	sort.Ints(got)
	renv := reflect.DeepEqual(want, append([]int{}, got...)) || (len(want) == 0 && len(got) == 0)
	impl := fmt.Sprintf("pick=%d/%s/%s renv=%s client=%s", o.pickV, o.pickProto, setStr(o.pickSet), b01(renv), clientStr)
	pred := negPred(c, validList(c.env), o)
	if pred == "ok" && !renv {
		pred = "FAIL:rendered-list-is-not-the-host-key-set"
	}
	return impl, pred
}

// ---------------------------------------------------------------- C02.e

func pidDead(pid int) bool {
	b, err := os.ReadFile(fmt.Sprintf("/proc/%d/stat", pid))
	if err != nil {
		return true
	}
	// "pid (comm) S ..." — state after the last ')'
	s := string(b)
	if i := strings.LastIndexByte(s, ')'); i >= 0 && i+2 < len(s) {
		return s[i+2] == 'Z' || s[i+2] == 'X'
	}
	return false
}

func waitDead(pid int, d time.Duration) bool {
	deadline := time.Now().Add(d)
	for {
		if pidDead(pid) {
			return true
		}
		if time.Now().After(deadline) {
			return false
		}
		time.Sleep(10 * time.Millisecond)
	}
}

func (c *negCase) kitCfg() kitServeCfg {
	k := kitServeCfg{GRPCServer: c.g, LegacyVersion: c.plug.lv}
	proto := func(id int) string {
		if homogeneousKind(c.kinds[id]) == "grpc" {
			return "grpc"
		}
		return "netrpc"
	}
	if len(c.plug.vs) > 0 {
		k.Sets = map[string]string{}
		for _, v := range c.plug.vs {
			k.Sets[strconv.Itoa(v)] = proto(v)
		}
	}
	if c.plug.lp {
		k.LegacyProto = proto(legacyID(c.plug.lv))
	}
	return k
}

// rawHandshake launches the kit plugin by hand and returns fields 2 and 5 of its first stdout line.
func rawHandshake(c *negCase) (string, string, error) {
	extra := []string{kitCookieKey + "=" + kitCookieVal, "TMPDIR=" + os.Getenv("TMPDIR")}
	if !(c.eu && c.env == "") {
		extra = append(extra, "PLUGIN_PROTOCOL_VERSIONS="+c.env)
	}
	cmd := kitCmd(c.kitCfg(), extra...)
	stdout, err := cmd.StdoutPipe()
	if err != nil {
		return "", "", err
	}
	if err := cmd.Start(); err != nil {
		return "", "", err
	}
	defer func() {
		cmd.Process.Kill()
		cmd.Wait()
	}()
	lineCh := make(chan string, 1)
	go func() {
		l, _ := bufio.NewReader(stdout).ReadString('\n')
		lineCh <- l
	}()
	select {
	case l := <-lineCh:
		parts := strings.Split(strings.TrimSpace(l), "|")
		if len(parts) < 5 {
			return "", "", fmt.Errorf("short line %q", l)
		}
		return parts[1], parts[4], nil
	case <-time.After(20 * time.Second):
		return "", "", fmt.Errorf("no handshake line")
	}
}

func runNegE(c *negCase) (string, string) {
	lv, lproto, err := rawHandshake(c)
	if err != nil {
		return "line=err", "FAIL:raw-launch:" + strings.ReplaceAll(err.Error(), " ", "_")
	}
	lineStr := fmt.Sprintf("line=%s/%s", lv, lproto)
	// the raw launch alone already decides the plugin half of the property
	lineV, aerr := strconv.Atoi(lv)
	if aerr != nil {
		return lineStr, "FAIL:handshake-version-field-not-a-number"
	}

	var used int64 = -1
	hostSet := func(id int) plugin.PluginSet {
		rec := func() { atomic.StoreInt64(&used, int64(id)) }
		return plugin.PluginSet{"kit": &kitGRPCPlugin{kitPlugin{tag: id,
			onMuxBroker:  func(*plugin.MuxBroker) { rec() },
			onGRPCBroker: func(*plugin.GRPCBroker) { rec() }}}}
	}
	cmd := kitCmd(c.kitCfg())
	// the command the host hands over carries a stale version list of its own (copied from an environment in which the
	// host itself was launched as a plugin): what the plugin is told must still be what THIS client offers
	cmd.Env = append(cmd.Env, "PLUGIN_PROTOCOL_VERSIONS=77,78")
	cfg := &plugin.ClientConfig{
		HandshakeConfig:  plugin.HandshakeConfig{ProtocolVersion: uint(c.host.lv), MagicCookieKey: kitCookieKey, MagicCookieValue: kitCookieVal},
		Cmd:              cmd,
		AllowedProtocols: []plugin.Protocol{plugin.ProtocolNetRPC, plugin.ProtocolGRPC},
		Logger:           nullLogger(),
		StartTimeout:     20 * time.Second,
	}
	if len(c.host.vs) > 0 || !c.host.nilMap {
		cfg.VersionedPlugins = map[int]plugin.PluginSet{}
		for _, v := range c.host.vs {
			cfg.VersionedPlugins[v] = hostSet(v)
		}
	}
	if c.host.lp {
		cfg.Plugins = hostSet(legacyID(c.host.lv))
	}
	client := plugin.NewClient(cfg)
	defer client.Kill()

	o := negObs{pickV: lineV, pickProto: lproto, pluginTag: -2}
	var startErr error
	tag := 0
	proto := ""
	_, hung, p := withTimeout(60*time.Second, func() error {
		if _, startErr = client.Start(); startErr != nil {
			return nil
		}
		cp, err := client.Client()
		if err != nil {
			startErr = fmt.Errorf("protocol client: %w", err)
			return nil
		}
		raw, err := cp.Dispense("kit")
		if err != nil {
			startErr = fmt.Errorf("dispense: %w", err)
			return nil
		}
		tag, err = raw.(Kit).Double(0)
		if err != nil {
			startErr = fmt.Errorf("double: %w", err)
		}
		proto = string(client.Protocol())
		return nil
	})
	if hung {
		return lineStr + " start=hang", "FAIL:start-hung"
	}
	if p != nil {
		return lineStr + " start=panic", "FAIL:host-panic"
	}
	// what did the raw launch's plugin pick? (set identity is only observable through the full client)
	P := c.plug.foldPlugin()
	o.pickSet = -1
	if id, ok := P[lineV]; ok {
		o.pickSet = id
	}
	var startStr string
	if startErr == nil {
		o.started = true
		o.negVer = client.NegotiatedVersion()
		o.hostSet = int(atomic.LoadInt64(&used))
		o.pluginTag = tag
		startStr = fmt.Sprintf("ok:%d:%s:%d:%d", o.negVer, proto, tag, o.hostSet)
	} else {
		o.errClass = errClassOf(startErr)
		dead := cmd.Process != nil && waitDead(cmd.Process.Pid, 2*time.Second)
		o.killed = dead
		startStr = fmt.Sprintf("err:%s:dead=%s", o.errClass, b01(dead))
	}
	// predicate 1: the raw launch against the list it was given
	rawObs := negObs{pickV: lineV, pickProto: lproto, pickSet: o.pickSet, pluginTag: -2}
	pred := negPredPluginOnly(c, validList(c.env), rawObs)
	// predicate 2: the full negotiation (the client renders the host's own keys)
	if pred == "ok" {
		var hostKeys []int
		for v := range c.host.foldHost() {
			hostKeys = append(hostKeys, v)
		}
		full := o
		if o.started {
			full.pickV = o.negVer // version the plugin announced to this client = what the client parsed from the line
			full.pickSet = tag
			full.pickProto = proto
		} else {
			// not observable on failure: take the model-independent expectation from the raw rule
			full.pickV, full.pickSet, full.pickProto = expectedPick(c, hostKeys)
		}
		pred = negPred(c, hostKeys, full)
	}
	return lineStr + " start=" + startStr, pred
}

// expectedPick: highest common else lowest (used only where the announced version is not observable).
func expectedPick(c *negCase, list []int) (int, int, string) {
	P := c.plug.foldPlugin()
	in := map[int]bool{}
	for _, v := range list {
		in[v] = true
	}
	best, found, lowest, any := 0, false, 0, false
	for v := range P {
		if in[v] && (!found || v > best) {
			best, found = v, true
		}
		if !any || v < lowest {
			lowest, any = v, true
		}
	}
	v := c.plug.lv
	if found {
		v = best
	} else if any {
		v = lowest
	}
	set := -1
	if id, ok := P[v]; ok {
		set = id
	}
	proto := "netrpc"
	if c.g && set >= 0 && homogeneousKind(c.kinds[set]) == "grpc" {
		proto = "grpc"
	}
	return v, set, proto
}

// negPredPluginOnly: only the plugin half (announced version, protocol).
func negPredPluginOnly(c *negCase, list []int, o negObs) string {
	H := c.host
	// evaluate with a host that offers exactly `list`, pretending the client accepted or rejected correctly
	tmp := *c
	tmp.host = negSide{vs: list, nilMap: false}
	o2 := o
	if _, ok := tmp.host.foldHost()[o.pickV]; ok {
		o2.started, o2.negVer, o2.hostSet = true, o.pickV, o.pickV
	} else {
		o2.started, o2.errClass, o2.killed = false, "incompatible", true
	}
	_ = H
	return negPred(&tmp, list, o2)
}

// ---------------------------------------------------------------- generators

func bitsToList(mask int) []int {
	var out []int
	for v := 0; v < 6; v++ {
		if mask&(1<<v) != 0 {
			out = append(out, v)
		}
	}
	return out
}

func shuffled(r *rng, xs []int) []int {
	out := append([]int{}, xs...)
	for i := len(out) - 1; i > 0; i-- {
		j := r.intn(i + 1)
		out[i], out[j] = out[j], out[i]
	}
	return out
}

// mkSide: variant 0 = no legacy Plugins, 1 = legacy colliding with a versioned key (if any), 2 = legacy under a fresh key.
func mkSide(r *rng, mask, variant int) negSide {
	s := negSide{vs: shuffled(r, bitsToList(mask)), nilMap: r.bool()}
	switch variant {
	case 0:
		s.lv = pick(r, []int{0, 1, 3, 7})
	case 1:
		s.lp = true
		if len(s.vs) > 0 {
			s.lv = pick(r, s.vs)
		} else {
			s.lv = r.intn(7)
		}
	case 2:
		s.lp = true
		var free []int
		for v := 0; v <= 6; v++ {
			if mask&(1<<v) == 0 {
				free = append(free, v)
			}
		}
		s.lv = pick(r, free)
	}
	return s
}

var negCorruptions = []string{
	"lit:-", "lit:" + hxsC(","), "lit:" + hxsC("x"), "lit:" + hxsC("+3"), "lit:" + hxsC("03"), "lit:" + hxsC("2,2,1"),
	"lit:" + hxsC(" 1, 2"), "lit:" + hxsC("99999999999999999999,1"), "lit:" + hxsC("9223372036854775808,3,-9223372036854775809"),
	"lit:" + hxsC("1,,2"), "lit:" + hxsC(",4"), "lit:" + hxsC("4,"), "lit:" + hxsC("0x1,1e0,１,2"), "lit:" + hxsC("-0,+0,00"),
	"lit:" + hxsC("5,4,3,2,1,0"), "lit:" + hxsC("-1,6,7"), "lit:" + hxsC("3\n"), "lit:" + hxsC("1_0,2"),
	"app:" + hxsC(",x"), "app:" + hxsC(","), "app:" + hxsC(",99999999999999999999"), "app:" + hxsC(" "),
	"pre:" + hxsC("x,"), "pre:" + hxsC(","), "pre:" + hxsC("+"), "pre:" + hxsC("0"),
	"plus", "zero", "dup", "sp", "tab", "semi",
}

func hxsC(s string) string { return hxs(s) }

// kind assignment styles for the plugin's sets
func assignKinds(r *rng, c *negCase, style string) {
	c.kinds = map[int]string{}
	var ids []int
	for _, id := range c.plug.foldPlugin() {
		ids = append(ids, id)
	}
	// also sets that the fold hides (a versioned entry overwritten by the legacy set) need kinds
	for _, v := range c.plug.vs {
		ids = append(ids, v)
	}
	sort.Ints(ids)
	for _, id := range ids {
		switch style {
		case "n":
			c.kinds[id] = "n"
		case "g":
			c.kinds[id] = pick(r, []string{"g", "gg"})
		default:
			c.kinds[id] = pick(r, []string{"g", "n", "nn", "gg"})
		}
	}
	if len(ids) > 0 {
		switch style {
		case "inhom":
			c.kinds[pick(r, ids)] = "gn"
		case "empty":
			c.kinds[pick(r, ids)] = "-"
		}
	}
}

func negGenerateA(r *rng) []*negCase {
	var cases []*negCase
	idx := uint64(0)
	add := func(hm, pm, hl, pl int, cor, style string, g bool) {
		q := r.fork(idx)
		idx++
		c := &negCase{sub: "a", host: mkSide(q, hm, hl), plug: mkSide(q, pm, pl), g: g, cor: cor}
		assignKinds(q, c, style)
		cases = append(cases, c)
	}
	styles := []string{"n", "g", "mixed", "inhom", "empty"}
	for hm := 0; hm < 64; hm++ {
		for pm := 0; pm < 64; pm++ {
			q := r.fork(uint64(1<<32 + hm*64 + pm))
			// every legacy variant on each side, true rendering
			for hl := 0; hl < 3; hl++ {
				for pl := 0; pl < 3; pl++ {
					add(hm, pm, hl, pl, "none", pick(q, styles), q.bool())
				}
			}
			// corrupted lists
			for k := 0; k < 4; k++ {
				add(hm, pm, q.intn(3), q.intn(3), pick(q, negCorruptions), pick(q, styles), q.bool())
			}
			// GRPCServer configured, every style of kinds once in a while
			add(hm, pm, q.intn(3), q.intn(3), "none", styles[(hm+pm)%len(styles)], true)
			add(hm, pm, q.intn(3), q.intn(3), "none", styles[(hm+pm+2)%len(styles)], true)
		}
	}
	return cases
}

func maskOf(vs []int) int {
	m := 0
	for _, v := range vs {
		m |= 1 << v
	}
	return m
}

func negGenerateE(r *rng, n int) []*negCase {
	var cases []*negCase
	for i := 0; i < n; i++ {
		q := r.fork(uint64(7<<32 + i))
		var hm, pm int
		switch i % 4 {
		case 0: // two or more common versions
			common := 0
			for bitsCount(common) < 2+q.intn(2) {
				common |= 1 << q.intn(6)
			}
			hm = common | q.intn(64)
			pm = common | q.intn(64)
		case 1: // disjoint, both non-empty
			for {
				hm, pm = 1+q.intn(63), 1+q.intn(63)
				pm &^= hm
				if pm != 0 {
					break
				}
			}
		case 2: // exactly one common version
			cv := 1 << q.intn(6)
			hm = cv | q.intn(64)
			pm = cv | (q.intn(64) &^ hm)
		default:
			hm, pm = q.intn(64), q.intn(64)
		}
		c := &negCase{sub: "e", host: mkSide(q, hm, q.intn(3)), plug: mkSide(q, pm, q.intn(3))}
		// a plugin that serves nothing at all is outside the kit's reach: keep at least one set
		if len(c.plug.foldPlugin()) == 0 {
			c.plug.vs = []int{q.intn(6)}
		}
		assignKinds(q, c, pick(q, []string{"n", "g", "mixed", "mixed"}))
		anyG := false
		for _, k := range c.kinds {
			if strings.Contains(k, "g") {
				anyG = true
			}
		}
		c.g = (anyG && q.intn(10) != 0) || (!anyG && q.bool())
		// the list offered to the raw launch: the host's keys in a random order, sometimes corrupted
		var hk []int
		for v := range c.host.foldHost() {
			hk = append(hk, v)
		}
		sort.Ints(hk)
		hk = shuffled(q, hk)
		var hs []string
		for _, v := range hk {
			hs = append(hs, strconv.Itoa(v))
		}
		real := strings.Join(hs, ",")
		c.cor = "none"
		if q.intn(3) == 0 {
			c.cor = pick(q, negCorruptions)
		}
		c.env = applyCor(real, c.cor)
		c.eu = q.bool()
		cases = append(cases, c)
	}
	return cases
}

func bitsCount(m int) int {
	n := 0
	for ; m != 0; m &= m - 1 {
		n++
	}
	return n
}

// ---------------------------------------------------------------- driver

func hostC02(o *out, replay string) {
	// protocolVersion reports invalid list entries on os.Stderr (without newline); keep that out of the result stream
	if dn, err := os.OpenFile(os.DevNull, os.O_WRONLY, 0); err == nil {
		saved := os.Stderr
		os.Stderr = dn
		defer func() { os.Stderr = saved; dn.Close() }()
	}
	if replay != "" {
		tag, m := kvLine(replay)
		c := negCaseFromLine(tag, m)
		var impl, pred string
		if c.sub == "e" {
			impl, pred = runNegE(c)
		} else {
			impl, pred = runNegA(c)
		}
		o.emit(c.line(), impl, pred)
		return
	}
	r := newRng(seedFromEnv())

	// (a) in-process breadth
	casesA := negGenerateA(r)
	type res struct{ impl, pred string }
	resA := make([]res, len(casesA))
	parallel(len(casesA), 16, func(i int) {
		impl, pred := runNegA(casesA[i])
		resA[i] = res{impl, pred}
	})
	classes := map[string]int{}
	corr := map[string]int{}
	inhom := map[string]int{}
	for i, c := range casesA {
		o.emit(c.line(), resA[i].impl, resA[i].pred)
		classes[negClass(c, validList(c.env))]++
		k := c.cor
		if j := strings.IndexByte(k, ':'); j > 0 {
			k = k[:j]
		}
		corr[k]++
		for _, ks := range c.kinds {
			if ks == "gn" && c.g {
				// which protocol did the mixed set get when it was the chosen one?
				f := strings.Split(strings.TrimPrefix(strings.Fields(resA[i].impl + " x")[0], "pick="), "/")
				if len(f) == 3 {
					if id, err := strconv.Atoi(f[2]); err == nil && c.kinds[id] == "gn" {
						inhom[f[1]]++
					}
				}
			}
		}
	}
	o.note("C02.a: %d in-process cases = all 64x64 pairs of subsets of {0..5} x (9 legacy-field variants + 4 corrupted lists + 2 GRPCServer/kinds variants); classes %s", len(casesA), c02FmtCounts(classes))
	o.note("C02.a: list derivations %s", c02FmtCounts(corr))
	o.note("C02.a: observation (not a finding): a chosen set mixing gRPC and net/rpc plugins under GRPCServer was announced as %s — the protocol of such a set depends on Go's map iteration order (API requires homogeneous sets)", c02FmtCounts(inhom))

	// (b) end to end
	n := 40
	if tier() == "thorough" {
		n = 600
	}
	if v := os.Getenv("VERIF_C02_E2E"); v != "" {
		fmt.Sscanf(v, "%d", &n)
	}
	casesE := negGenerateE(r, n)
	resE := make([]res, len(casesE))
	parallel(len(casesE), 8, func(i int) {
		impl, pred := runNegE(casesE[i])
		resE[i] = res{impl, pred}
	})
	classesE := map[string]int{}
	for i, c := range casesE {
		o.emit(c.line(), resE[i].impl, resE[i].pred)
		var hk []int
		for v := range c.host.foldHost() {
			hk = append(hk, v)
		}
		classesE[negClass(c, hk)]++
	}
	o.note("C02.e: %d end-to-end cases (raw launch reading the handshake line + full Client with a real Cmd); classes %s", len(casesE), c02FmtCounts(classesE))
}

func negClass(c *negCase, list []int) string {
	P := c.plug.foldPlugin()
	if len(P) == 0 {
		return "plugin-serves-nothing"
	}
	n := 0
	seen := map[int]bool{}
	for _, v := range list {
		if _, ok := P[v]; ok && !seen[v] {
			n++
			seen[v] = true
		}
	}
	switch {
	case len(list) == 0:
		return "no-list"
	case n == 0:
		return "disjoint"
	case n == 1:
		return "one-common"
	}
	return "two-or-more-common"
}

func c02FmtCounts(m map[string]int) string {
	var ks []string
	for k := range m {
		ks = append(ks, k)
	}
	sort.Strings(ks)
	var es []string
	for _, k := range ks {
		es = append(es, fmt.Sprintf("%s=%d", k, m[k]))
	}
	return "{" + strings.Join(es, " ") + "}"
}

var _ = syscall.SIGKILL
