package main

// C03 correspondence (fault enumeration): the plugin process dies at each crash
// point, on each protocol; every host call must return in bounded time, with an
// error when it needed the plugin; the client then reports exited and the gRPC
// plugin client's context is cancelled.

import (
	"fmt"
	"os"
	"path/filepath"
	"strings"
	"sync/atomic"
	"time"

	plugin "github.com/hashicorp/go-plugin"
)

type crashCase struct {
	proto string // netrpc | grpc | grpcmux
	point string
}

func (c *crashCase) line() string { return fmt.Sprintf("C03 proto=%s point=%s", c.proto, c.point) }

// crash points; "needs" says for which protocols the point exists
var crashPoints = []struct {
	name   string
	protos string
}{
	{"before-output", "all"},
	{"mid-line", "all"},
	{"blank-lines-then-exit", "all"},
	{"after-listener", "all"},
	{"after-line", "all"},
	{"idle", "all"},
	{"in-call-exit", "all"},
	{"in-call-kill", "all"},
	{"during-dispense", "netrpc"},
	{"broker-plugin-accept", "all"},
	{"broker-plugin-dial", "grpc-nomux"},
	{"during-stdio", "all"},
	{"extra-stdout", "all"},
	{"attached-before-connect", "grpc-nomux"},
	{"mux-knock-unanswered", "grpcmux"},
}

var c03Seq int64

// timed runs f with a watchdog and classifies: ok | err | hang | panic, and whether it was slow (> slowAfter).
func timed(d time.Duration, f func() error) (string, time.Duration) {
	t0 := time.Now()
	err, hung, pp := withTimeout(d, f)
	el := time.Since(t0)
	switch {
	case hung:
		return "hang", el
	case pp != nil:
		return "panic", el
	case err != nil:
		return "err", el
	}
	return "ok", el
}

// runAttachedCase: a second client attaches (ReattachConfig) to a running gRPC plugin, the plugin dies before that
// client has connected, then the client connects and does a host-side broker Accept: everything must return in
// bounded time, the Accept with an error.
func runAttachedCase(c *crashCase) (impl, pred string) {
	work := os.Getenv("VERIF_WORK")
	base := filepath.Join(work, fmt.Sprintf("c03-%d-%d", os.Getpid(), atomic.AddInt64(&c03Seq, 1)))
	os.MkdirAll(base, 0o755)
	defer os.RemoveAll(base)
	kc := kitServeCfg{Sets: map[string]string{"3": "grpc"}, GRPCServer: true}
	cmd := kitCmd(kc, "TMPDIR="+base)
	launcher := plugin.NewClient(&plugin.ClientConfig{
		HandshakeConfig: kitHandshake(), VersionedPlugins: kitHostSets(map[int]string{3: "grpc"}, nil, nil),
		AllowedProtocols: []plugin.Protocol{plugin.ProtocolGRPC}, Cmd: cmd, Logger: nullLogger(), StartTimeout: 4 * time.Second,
	})
	defer func() {
		withTimeout(8*time.Second, func() error { launcher.Kill(); return nil })
		if cmd.Process != nil {
			cmd.Process.Kill()
		}
	}()
	if _, err := launcher.Start(); err != nil {
		return "setup-error", "FAIL:setup-launch"
	}
	client := plugin.NewClient(&plugin.ClientConfig{
		HandshakeConfig: kitHandshake(), Plugins: kitHostSets(map[int]string{3: "grpc"}, nil, nil)[3],
		AllowedProtocols: []plugin.Protocol{plugin.ProtocolGRPC}, Reattach: launcher.ReattachConfig(), Logger: nullLogger(),
	})
	defer withTimeout(8*time.Second, func() error { client.Kill(); return nil })
	var fails []string
	r, el := timed(12*time.Second, func() error { _, err := client.Start(); return err })
	if r != "ok" {
		return "setup-error", "FAIL:setup-attach-" + r
	}
	// the plugin dies now; wait until the process is gone
	cmd.Process.Kill()
	waitDead(cmd.Process.Pid, 3*time.Second)
	for i := 0; i < 200 && !launcher.Exited(); i++ {
		time.Sleep(5 * time.Millisecond)
	}
	late := "err"
	var cp plugin.ClientProtocol
	r, el = timed(12*time.Second, func() error { var err error; cp, err = client.Client(); return err })
	if r == "hang" || r == "panic" || el > 6*time.Second {
		fails = append(fails, "client-"+r)
	}
	if r == "ok" && cp != nil {
		// connected "successfully" before the death was noticed: the broker call must still fail in bounded time
		r, el = timed(12*time.Second, func() error {
			raw, err := cp.Dispense("kit")
			if err != nil {
				return err
			}
			return raw.(*kitGRPCClient).AcceptOnce()
		})
		late = r
		if r == "hang" || r == "panic" {
			fails = append(fails, "broker-accept-after-crash-"+r)
		} else if r == "ok" {
			fails = append(fails, "broker-accept-ok-after-crash")
		} else if el > 6*time.Second {
			fails = append(fails, "broker-accept-after-crash-slow")
		}
	}
	r, el = timed(10*time.Second, func() error { client.Kill(); return nil })
	if r != "ok" || el > 5*time.Second {
		fails = append(fails, "kill-"+r)
	}
	impl = fmt.Sprintf("start=ok client=any latecb=%s kill=%s", late, r)
	pred = "ok"
	if len(fails) > 0 {
		pred = "FAIL:" + fails[0]
	}
	return impl, pred
}

func runCrashCase(c *crashCase) (impl, pred string) {
	if c.point == "attached-before-connect" {
		return runAttachedCase(c)
	}
	work := os.Getenv("VERIF_WORK")
	base := filepath.Join(work, fmt.Sprintf("c03-%d-%d", os.Getpid(), atomic.AddInt64(&c03Seq, 1)))
	os.MkdirAll(base, 0o755)
	defer os.RemoveAll(base)
	wire := "netrpc"
	if c.proto != "netrpc" {
		wire = "grpc"
	}
	kc := kitServeCfg{Sets: map[string]string{"3": wire}, GRPCServer: wire == "grpc"}
	extra := []string{"TMPDIR=" + base}
	hook := func(p string) { extra = append(extra, "GOPLUGIN_VERIF_POINTS="+p) }
	switch c.point {
	case "before-output":
		kc.PreServe = "exit:3"
	case "mid-line":
		kc.PreServe = "printexit:" + hxs("1|3|un")
	case "blank-lines-then-exit":
		kc.PreServe = "printexit:" + hxs("\n\n\r\n")
	case "after-listener":
		hook("serve.after-listener=exit:3")
	case "after-line":
		hook("serve.after-line=exit:3")
	case "during-dispense":
		hook("rpcserver.dispense.after-id=exit:3")
	case "broker-plugin-accept":
		if wire == "netrpc" {
			hook("muxbroker.accept.took=exit:3")
		} else if c.proto == "grpcmux" {
			hook("grpcbroker.accept.mux-mid=exit:3")
		} else {
			hook("grpcbroker.accept.pre-send=exit:3")
		}
	case "broker-plugin-dial":
		hook("grpcbroker.dial.got-info=exit:3")
	}
	cmd := kitCmd(kc, extra...)
	client := plugin.NewClient(&plugin.ClientConfig{
		HandshakeConfig:     kitHandshake(),
		VersionedPlugins:    kitHostSets(map[int]string{3: wire}, nil, nil),
		AllowedProtocols:    []plugin.Protocol{plugin.ProtocolNetRPC, plugin.ProtocolGRPC},
		GRPCBrokerMultiplex: c.proto == "grpcmux",
		Cmd:                 cmd,
		Logger:              nullLogger(),
		StartTimeout:        4 * time.Second,
	})
	res := map[string]string{}
	var fails []string
	note := func(op, r string, el, bound time.Duration) {
		res[op] = r
		if r == "hang" || r == "panic" {
			fails = append(fails, op+"-"+r)
		} else if el > bound {
			fails = append(fails, op+"-slow")
		}
	}
	defer func() {
		withTimeout(8*time.Second, func() error { client.Kill(); return nil })
		if cmd.Process != nil {
			cmd.Process.Kill()
		}
	}()

	// ---- start
	r, el := timed(12*time.Second, func() error { _, err := client.Start(); return err })
	note("start", r, el, 6*time.Second)
	if r == "hang" {
		// Start never returned (it holds the client lock): nothing else on this client can be asked without blocking too
		return "start=hang", "FAIL:start-hang"
	}
	var kit Kit
	var cp plugin.ClientProtocol
	crashed := false
	if r == "ok" {
		switch c.point {
		case "after-line":
			crashed = true // the plugin died right after printing its line
			if cmd.Process != nil {
				waitDead(cmd.Process.Pid, 2*time.Second)
			}
		default:
			// healthy so far: connect and dispense
			r, el = timed(12*time.Second, func() error { var err error; cp, err = client.Client(); return err })
			note("client", r, el, 6*time.Second)
			if r == "ok" {
				r, el = timed(12*time.Second, func() error {
					raw, err := cp.Dispense("kit")
					if err == nil {
						kit = raw.(Kit)
					}
					return err
				})
				if c.point == "during-dispense" || (c.point == "broker-plugin-accept" && wire == "netrpc") {
					// net/rpc: the plugin's first broker Accept is the one of Dispense itself
					note("dispense", r, el, 8*time.Second)
					crashed = true
				} else if r != "ok" {
					return "setup-error", "FAIL:setup-dispense"
				}
			}
		}
	} else {
		crashed = true
	}
	// ---- the crash itself, for points that happen after a successful dispense
	if !crashed && kit != nil {
		switch c.point {
		case "idle":
			kit.Cmd("kill-later", 30)
			if cmd.Process != nil {
				waitDead(cmd.Process.Pid, 3*time.Second)
			}
		case "in-call-exit":
			r, el = timed(12*time.Second, func() error { return kit.Cmd("exit", 3) })
			note("call", r, el, 6*time.Second)
		case "in-call-kill":
			r, el = timed(12*time.Second, func() error { return kit.Cmd("kill", 0) })
			note("call", r, el, 6*time.Second)
		case "broker-plugin-accept", "broker-plugin-dial":
			r, el = timed(15*time.Second, func() error { return kit.Callback() })
			note("callback", r, el, 9*time.Second)
		case "mux-knock-unanswered":
			// a brokered dial whose knock is on its way / parked on the plugin (nobody has accepted the id) when the plugin dies
			if gk, ok := kit.(*kitGRPCClient); ok {
				done := make(chan string, 1)
				go func() {
					r, _ := timed(15*time.Second, func() error {
						conn, err := gk.broker.Dial(gk.broker.NextId())
						if err != nil {
							return err
						}
						defer conn.Close()
						_, err = pingConn(conn, 12*time.Second)
						return err
					})
					done <- r
				}()
				time.Sleep(500 * time.Millisecond)
				kit.Cmd("kill-later", 5)
				if cmd.Process != nil {
					waitDead(cmd.Process.Pid, 3*time.Second)
				}
				select {
				case r := <-done:
					res["call"] = r
					if r == "hang" || r == "panic" || r == "ok" {
						fails = append(fails, "dial-in-flight-"+r)
					}
				case <-time.After(16 * time.Second):
					res["call"] = "hang"
					fails = append(fails, "dial-in-flight-hang")
				}
			}
		case "extra-stdout":
			// the plugin prints further lines on its real stdout, then dies
			kit.Cmd("rawout", 3)
			time.Sleep(50 * time.Millisecond)
			kit.Cmd("kill-later", 30)
			if cmd.Process != nil {
				waitDead(cmd.Process.Pid, 3*time.Second)
			}
		case "during-stdio":
			kit.Cmd("kill-later", 5)
			r, el = timed(12*time.Second, func() error { return kit.Emit(make([]byte, 1<<20), make([]byte, 1<<20)) })
			res["emit"] = "any" // it may complete before the kill or fail: only its return matters
			if r == "hang" || r == "panic" {
				fails = append(fails, "emit-"+r)
			}
			if cmd.Process != nil {
				waitDead(cmd.Process.Pid, 3*time.Second)
			}
		}
		crashed = true
	}
	// ---- after the crash: exited / context
	exited := false
	for dl := time.Now().Add(4 * time.Second); time.Now().Before(dl); time.Sleep(25 * time.Millisecond) {
		if client.Exited() {
			exited = true
			break
		}
	}
	res["exited"] = b01(exited)
	if !exited {
		fails = append(fails, "exited-false")
	}
	if gk, ok := kit.(*kitGRPCClient); ok {
		select {
		case <-gk.ctx.Done():
			res["ctx"] = "1"
		case <-time.After(3 * time.Second):
			res["ctx"] = "0"
			fails = append(fails, "ctx-not-cancelled")
		}
	}
	// ---- subsequent calls
	if kit != nil {
		r, el = timed(12*time.Second, func() error { _, err := kit.Double(1); return err })
		note("double", r, el, 6*time.Second)
		if r == "ok" {
			fails = append(fails, "double-ok-after-crash")
		}
		r, el = timed(15*time.Second, func() error { return kit.Callback() })
		note("callback2", r, el, 9*time.Second)
		if r == "ok" {
			fails = append(fails, "callback-ok-after-crash")
		}
		// the host's own broker Dial / Accept on fresh ids after the crash: bounded (the pending window is ~5 s), never ok
		if bd, ok := kit.(interface {
			DialOnce() error
			AcceptOnce() error
		}); ok {
			r, el = timed(15*time.Second, bd.DialOnce)
			note("bdial", r, el, 9*time.Second)
			if c.proto == "grpcmux" {
				// multiplexed: Dial hands out a lazily connecting gRPC connection without needing the plugin;
				// only its return in bounded time is demanded here
				if r == "ok" || r == "err" {
					res["bdial"] = "any"
				}
			} else if r == "ok" {
				fails = append(fails, "broker-dial-ok-after-crash")
			}
			r, el = timed(15*time.Second, bd.AcceptOnce)
			res["baccept"] = r
			if r == "hang" || r == "panic" {
				fails = append(fails, "baccept-"+r)
			} else if el > 9*time.Second {
				fails = append(fails, "baccept-slow")
			}
			if r != "hang" && r != "panic" {
				res["baccept"] = "any" // a listener may still be handed out locally (non-mux gRPC listens before it announces)
			}
		}
	}
	if cp != nil {
		r, el = timed(12*time.Second, func() error { return cp.Ping() })
		note("ping", r, el, 6*time.Second)
		if r == "ok" {
			fails = append(fails, "ping-ok-after-crash")
		}
	} else if res["start"] == "ok" {
		// connect after the crash: must return (gRPC connects lazily, so it may succeed)
		r, el = timed(12*time.Second, func() error { var err error; cp, err = client.Client(); return err })
		res["client"] = "any"
		if r == "hang" || r == "panic" {
			fails = append(fails, "client-"+r)
		}
		if cp != nil {
			r, el = timed(12*time.Second, func() error { return cp.Ping() })
			if r == "hang" || r == "panic" || el > 6*time.Second {
				fails = append(fails, "ping-"+r)
			}
			if r == "ok" {
				fails = append(fails, "ping-ok-after-crash")
			}
		}
	}
	r, el = timed(10*time.Second, func() error { client.Kill(); return nil })
	note("kill", r, el, 5*time.Second)

	keys := []string{"start", "client", "dispense", "call", "callback", "emit", "exited", "ctx", "double", "callback2", "bdial", "baccept", "ping", "kill"}
	var parts []string
	for _, k := range keys {
		if v, ok := res[k]; ok {
			parts = append(parts, k+"="+v)
		}
	}
	impl = strings.Join(parts, " ")
	pred = "ok"
	if len(fails) > 0 {
		pred = "FAIL:" + fails[0]
	}
	return impl, pred
}

func init() {
	register("C03", func(o *out, replay string) {
		idleHostStdin()
		if replay != "" {
			_, m := kvLine(replay)
			c := &crashCase{m["proto"], m["point"]}
			impl, pred := runCrashCase(c)
			o.emit(c.line(), impl, pred)
			return
		}
		var cases []*crashCase
		reps := 1
		if tier() == "thorough" {
			reps = 3
		}
		for rep := 0; rep < reps; rep++ {
			for _, proto := range []string{"netrpc", "grpc", "grpcmux"} {
				for _, pt := range crashPoints {
					if pt.protos == "netrpc" && proto != "netrpc" {
						continue
					}
					if pt.protos == "grpc-nomux" && proto != "grpc" {
						continue
					}
					if pt.protos == "grpcmux" && proto != "grpcmux" {
						continue
					}
					cases = append(cases, &crashCase{proto, pt.name})
				}
			}
		}
		// reattached to a plugin launched by another process, crash after it has been up for a while (started now, collected below)
		type agedRes struct{ proto, impl, pred string }
		agedCh := make(chan agedRes, 2)
		for _, proto := range []string{"netrpc", "grpc"} {
			proto := proto
			go func() {
				impl, pred := runReattachAged(proto, 8500*time.Millisecond)
				agedCh <- agedRes{proto, impl, pred}
			}()
		}
		impls := make([]string, len(cases))
		preds := make([]string, len(cases))
		parallel(len(cases), 16, func(i int) { impls[i], preds[i] = runCrashCase(cases[i]) })
		for i, c := range cases {
			o.emit(c.line(), impls[i], preds[i])
		}
		for _, proto := range []string{"netrpc", "grpc"} {
			impl, pred := runTestModeProcDies(proto)
			o.emit("!C03.testmode-proc-dies proto="+proto, impl, pred)
		}
		for i := 0; i < 2; i++ {
			a := <-agedCh
			o.emit("!C03.reattach-aged proto="+a.proto+" age=8500", a.impl, a.pred)
		}
		o.note("C03: %d cells = crash points x protocols (x%d)", len(cases), reps)
	})
}
