package main

// C15, reattaching several times: clients built from a reattached client's ReattachConfig().
//
// Plugin role `gpv plugin testserve`: a plugin served in TEST MODE (ServeConfig.Test) by a separate
// process, so that a client that wrongly holds a handle on the server kills that process and not the
// harness.  It prints `CFG <json>` (its reattach configuration), cancels its serving context when its
// stdin is closed, and prints `END cancelled` or `END stopped-without-cancel` when Serve returns.

import (
	"bufio"
	"context"
	"encoding/json"
	"fmt"
	"io"
	"net"
	"os"
	"os/exec"
	"strings"
	"time"

	plugin "github.com/hashicorp/go-plugin"
)

type testServeWire struct {
	Protocol        string
	ProtocolVersion int
	Network         string
	Address         string
	Pid             int
	Test            bool
}

func init() { registerPlugin("testserve", pluginTestServe) }

func pluginTestServe(args []string) {
	proto := os.Getenv("GPV_TESTSERVE_PROTO")
	ctx, cancel := context.WithCancel(context.Background())
	go func() {
		buf := make([]byte, 1)
		for {
			if _, err := os.Stdin.Read(buf); err != nil {
				cancel()
				return
			}
		}
	}()
	rcCh := make(chan *plugin.ReattachConfig, 1)
	closeCh := make(chan struct{})
	vp, _ := kitSets(&kitServeCfg{Sets: map[string]string{"3": proto}})
	sc := &plugin.ServeConfig{
		HandshakeConfig:  kitHandshake(),
		VersionedPlugins: vp,
		Logger:           nullLogger(),
		Test:             &plugin.ServeTestConfig{Context: ctx, ReattachConfigCh: rcCh, CloseCh: closeCh},
	}
	if proto == "grpc" {
		sc.GRPCServer = plugin.DefaultGRPCServer
	}
	go plugin.Serve(sc)
	select {
	case rc := <-rcCh:
		b, _ := json.Marshal(testServeWire{string(rc.Protocol), rc.ProtocolVersion, rc.Addr.Network(), rc.Addr.String(), rc.Pid, rc.Test})
		fmt.Printf("CFG %s\n", b)
	case <-closeCh:
		fmt.Printf("ERR serve ended early\n")
		os.Exit(3)
	case <-time.After(10 * time.Second):
		fmt.Printf("ERR no reattach config\n")
		os.Exit(3)
	}
	<-closeCh
	if ctx.Err() != nil {
		fmt.Printf("END cancelled\n")
	} else {
		fmt.Printf("END stopped-without-cancel\n")
	}
}

// testProc is the host-side handle of such a server process.
type testProc struct {
	cmd   *exec.Cmd
	stdin io.WriteCloser
	rc    *plugin.ReattachConfig
	endCh chan string // the END line (closed without a value if the process just ends)
}

func startTestServerProc(proto, tmp string) (*testProc, error) {
	cmd := exec.Command(selfExe(), "plugin", "testserve")
	cmd.Env = []string{"GPV_TESTSERVE_PROTO=" + proto, "TMPDIR=" + tmp}
	stdin, err := cmd.StdinPipe()
	if err != nil {
		return nil, err
	}
	stdout, err := cmd.StdoutPipe()
	if err != nil {
		return nil, err
	}
	if err := cmd.Start(); err != nil {
		return nil, err
	}
	tp := &testProc{cmd: cmd, stdin: stdin, endCh: make(chan string, 1)}
	cfgCh := make(chan string, 1)
	go func() {
		defer close(tp.endCh)
		sc := bufio.NewScanner(stdout)
		for sc.Scan() {
			l := sc.Text()
			switch {
			case strings.HasPrefix(l, "CFG "):
				cfgCh <- l[4:]
			case strings.HasPrefix(l, "END "):
				tp.endCh <- l[4:]
			case strings.HasPrefix(l, "ERR "):
				cfgCh <- ""
			}
		}
		cmd.Wait()
	}()
	select {
	case js := <-cfgCh:
		var w testServeWire
		if js == "" || json.Unmarshal([]byte(js), &w) != nil {
			tp.stop()
			return nil, fmt.Errorf("test-mode server process did not report a reattach config")
		}
		var addr net.Addr
		switch w.Network {
		case "unix":
			addr, err = net.ResolveUnixAddr("unix", w.Address)
		default:
			addr, err = net.ResolveTCPAddr("tcp", w.Address)
		}
		if err != nil {
			tp.stop()
			return nil, err
		}
		tp.rc = &plugin.ReattachConfig{Protocol: plugin.Protocol(w.Protocol), ProtocolVersion: w.ProtocolVersion, Addr: addr, Pid: w.Pid, Test: w.Test}
		return tp, nil
	case <-time.After(10 * time.Second):
		tp.stop()
		return nil, fmt.Errorf("test-mode server process: no reattach config in 10 s")
	}
}

func (tp *testProc) stop() {
	tp.stdin.Close()
	if tp.cmd.Process != nil {
		tp.cmd.Process.Kill()
	}
}

// c15ChainCases: histories with `G` (= take ReattachConfig() of the current client, continue on a new
// client built from it), on live daemonised plugins and on test-mode server processes.
func c15ChainCases() []*c15Case {
	var out []*c15Case
	firsts := [][]string{{"S"}, {"C"}, {"S", "K"}, {"C", "K"}}
	seconds := lcSequences([]string{"S", "C", "K"}, 2)
	triples := [][]string{
		{"S", "G", "S", "G", "S", "K"},
		{"C", "G", "C", "G", "C", "K", "C"},
		{"S", "G", "C", "K", "G", "C"},
		{"S", "G", "G", "S", "K"}, // ReattachConfig of a client that never started is nil
	}
	for _, proto := range []string{"netrpc", "grpc"} {
		for _, mode := range []string{"test", "live"} {
			srv := ""
			if mode == "test" {
				srv = "proc"
			}
			for _, f := range firsts {
				for _, s := range seconds {
					ops := append(append(append([]string{}, f...), "G"), s...)
					out = append(out, &c15Case{proto: proto, mode: mode, ops: ops, srv: srv})
				}
			}
			for _, t := range triples {
				out = append(out, &c15Case{proto: proto, mode: mode, ops: append([]string{}, t...), srv: srv})
			}
		}
	}
	return out
}
