package main

// C18: two custom-runner clients configured with ONE UnixSocketConfig value (the same pointer, as a host that builds its
// configuration once does).  Each client has a socket directory of its own; killing one removes that one and leaves the
// other's — and the other plugin — intact; after both are killed nothing is left.

import (
	"fmt"
	"os"
	"os/exec"
	"path/filepath"
	"time"

	hclog "github.com/hashicorp/go-hclog"
	plugin "github.com/hashicorp/go-plugin"
	"github.com/hashicorp/go-plugin/runner"
)

func runSharedUSC(proto string) (impl, pred string) {
	// (short names: the sockets live three directories below this one, and a Unix socket address holds 107 bytes; when the
	// work directory itself is deep — a checkout somewhere else than /verif — the cell moves to the system's temporary directory)
	base := filepath.Join(os.Getenv("VERIF_WORK"), fmt.Sprintf("u%d%s", os.Getpid(), proto[:1]))
	if len(base) > 45 {
		if d, err := os.MkdirTemp("/tmp", "gpv-u"); err == nil {
			base = d
		}
	}
	hostDir := filepath.Join(base, "h")
	os.MkdirAll(hostDir, 0o755)
	defer os.RemoveAll(base)
	shared := &plugin.UnixSocketConfig{TempDir: hostDir}
	type one struct {
		client *plugin.Client
		dir    string
		cmd    *exec.Cmd
		kit    Kit
	}
	mk := func(i int) (*one, error) {
		o := &one{}
		plugDir := filepath.Join(base, fmt.Sprintf("p%d", i))
		os.MkdirAll(plugDir, 0o755)
		cfg := kitServeCfg{Sets: map[string]string{"3": proto}, GRPCServer: proto == "grpc"}
		o.client = plugin.NewClient(&plugin.ClientConfig{
			HandshakeConfig:  kitHandshake(),
			VersionedPlugins: kitHostSets(map[int]string{3: proto}, nil, nil),
			AllowedProtocols: []plugin.Protocol{plugin.ProtocolNetRPC, plugin.ProtocolGRPC},
			Logger:           nullLogger(),
			StartTimeout:     20 * time.Second,
			SkipHostEnv:      true,
			UnixSocketConfig: shared,
			RunnerFunc: func(l hclog.Logger, spec *exec.Cmd, tmpDir string) (runner.Runner, error) {
				o.dir = tmpDir
				o.cmd = kitCmd(cfg, "TMPDIR="+plugDir)
				o.cmd.Env = append(o.cmd.Env, spec.Env...)
				return newExecRunner(o.cmd, tmpDir)
			},
		})
		cp, err := o.client.Client()
		if err != nil {
			return o, err
		}
		raw, err := cp.Dispense("kit")
		if err != nil {
			return o, err
		}
		o.kit = raw.(Kit)
		_, err = o.kit.Double(1)
		return o, err
	}
	a, errA := mk(1)
	b, errB := mk(2)
	defer func() {
		for _, o := range []*one{a, b} {
			if o != nil && o.client != nil {
				withTimeout(10*time.Second, func() error { o.client.Kill(); return nil })
			}
			if o != nil && o.cmd != nil && o.cmd.Process != nil {
				o.cmd.Process.Kill()
			}
		}
	}()
	if errA != nil || errB != nil {
		return "setup-error", "FAIL:setup"
	}
	exists := func(d string) bool { _, err := os.Stat(d); return err == nil }
	if a.dir == b.dir || !exists(a.dir) || !exists(b.dir) {
		return fmt.Sprintf("dirs a=%s b=%s", b01(exists(a.dir)), b01(exists(b.dir))), "FAIL:clients-do-not-have-socket-directories-of-their-own"
	}
	if _, hung, _ := withTimeout(15*time.Second, func() error { a.client.Kill(); return nil }); hung {
		return "kill-a-hung", "FAIL:kill-hung"
	}
	aGone, bThere := !exists(a.dir), exists(b.dir)
	_, berr := b.kit.Double(2)
	if _, hung, _ := withTimeout(15*time.Second, func() error { b.client.Kill(); return nil }); hung {
		return "kill-b-hung", "FAIL:kill-hung"
	}
	left := countDirs(hostDir)
	impl = fmt.Sprintf("afterA: a-gone=%s b-there=%s b-usable=%s; afterB: left=%d", b01(aGone), b01(bThere), b01(berr == nil), left)
	switch {
	case !aGone:
		return impl, "FAIL:killed-clients-socket-directory-not-removed"
	case !bThere || berr != nil:
		return impl, "FAIL:kill-of-one-client-removed-anothers-socket-directory"
	case left != 0:
		return impl, "FAIL:socket-directory-left-behind"
	}
	return impl, "ok"
}
