package main

import (
	"context"
	"errors"
	"io"
	"sync"
	"sync/atomic"

	"github.com/hashicorp/go-plugin/runner"
)

// fakeRunner is a scripted runner.Runner: the "plugin process" is the harness
// itself writing into in-memory pipes.  It counts Kill calls and lets the
// case decide when the process "exits".
type fakeRunner struct {
	stdoutR *io.PipeReader
	stdoutW *io.PipeWriter
	stderrR *io.PipeReader
	stderrW *io.PipeWriter

	exitOnce sync.Once
	exitCh   chan struct{}

	kills  int32
	starts int32

	// translate is PluginToHost; nil means identity.
	translate func(n, a string) (string, string, error)
	startErr  error
}

var _ runner.Runner = (*fakeRunner)(nil)

func newFakeRunner() *fakeRunner {
	f := &fakeRunner{exitCh: make(chan struct{})}
	f.stdoutR, f.stdoutW = io.Pipe()
	f.stderrR, f.stderrW = io.Pipe()
	return f
}

// exit simulates process death: both pipes reach EOF and Wait returns.
func (f *fakeRunner) exit() {
	f.exitOnce.Do(func() {
		f.stdoutW.Close()
		f.stderrW.Close()
		close(f.exitCh)
	})
}

func (f *fakeRunner) Start(ctx context.Context) error {
	atomic.AddInt32(&f.starts, 1)
	return f.startErr
}
func (f *fakeRunner) Diagnose(ctx context.Context) string { return "" }
func (f *fakeRunner) Stdout() io.ReadCloser              { return f.stdoutR }
func (f *fakeRunner) Stderr() io.ReadCloser              { return f.stderrR }
func (f *fakeRunner) Name() string                       { return "fake" }
func (f *fakeRunner) ID() string                         { return "fake-1" }

func (f *fakeRunner) Wait(ctx context.Context) error {
	<-f.exitCh
	return nil
}

func (f *fakeRunner) Kill(ctx context.Context) error {
	atomic.AddInt32(&f.kills, 1)
	f.exit()
	return nil
}

func (f *fakeRunner) killCount() int { return int(atomic.LoadInt32(&f.kills)) }

func (f *fakeRunner) PluginToHost(n, a string) (string, string, error) {
	if f.translate == nil {
		return n, a, nil
	}
	return f.translate(n, a)
}

func (f *fakeRunner) HostToPlugin(n, a string) (string, string, error) { return n, a, nil }

var errTranslate = errors.New("scripted translation failure")
