package main

// C13 correspondence: the real public SecureConfig.Check on temp files with
// exact / bit-flipped / truncated / extended / empty checksums under several
// hash functions, and real launches through plugin.NewClient(...).Start()
// observing whether a plugin process came into existence.
//
// Assumption carried by the model (SecureCfg.written = []): Check writes into
// s.Hash without Reset, so every Check call here gets a fresh hasher; the
// C13.reuse cases exercise the other side of that assumption on purpose.

import (
	"bytes"
	"crypto/md5"
	"crypto/sha1"
	"crypto/sha256"
	"crypto/sha512"
	"encoding/hex"
	"errors"
	"fmt"
	"hash"
	"io"
	"io/fs"
	"net"
	"os"
	"os/exec"
	"path/filepath"
	"sort"
	"strconv"
	"strings"
	"sync"
	"sync/atomic"
	"syscall"
	"time"

	hclog "github.com/hashicorp/go-hclog"
	plugin "github.com/hashicorp/go-plugin"
	"github.com/hashicorp/go-plugin/runner"
)

func init() {
	register("C13", hostC13)
	registerPlugin("c13", pluginC13)
}

// ---------------------------------------------------------------- hashes

// toy32 is a 4-byte hash.Hash (FNV-1a) written here so that the comparator is
// exercised on a digest that is not produced by a crypto package.
type toy32 struct{ s uint32 }

func newToy32() hash.Hash { return &toy32{s: 2166136261} }
func (t *toy32) Write(p []byte) (int, error) {
	for _, b := range p {
		t.s ^= uint32(b)
		t.s *= 16777619
	}
	return len(p), nil
}
func (t *toy32) Sum(b []byte) []byte {
	return append(b, byte(t.s>>24), byte(t.s>>16), byte(t.s>>8), byte(t.s))
}
func (t *toy32) Reset()         { t.s = 2166136261 }
func (t *toy32) Size() int      { return 4 }
func (t *toy32) BlockSize() int { return 1 }

var c13HashNames = []string{"sha256", "sha512", "sha1", "md5", "toy32"}

func c13NewHash(name string) hash.Hash {
	switch name {
	case "sha256":
		return sha256.New()
	case "sha512":
		return sha512.New()
	case "sha1":
		return sha1.New()
	case "md5":
		return md5.New()
	case "toy32":
		return newToy32()
	}
	panic("unknown hash " + name)
}

// c13Digest: the real hash over the given byte strings fed in order to one fresh hasher.
func c13Digest(name string, parts ...[]byte) []byte {
	h := c13NewHash(name)
	for _, p := range parts {
		h.Write(p)
	}
	return h.Sum(nil)
}

// ---------------------------------------------------------------- files

var c13Mu sync.Mutex
var c13Made = map[string]string{}

func c13Dir() string {
	w := os.Getenv("VERIF_WORK")
	if w == "" {
		w = os.TempDir()
	}
	d := filepath.Join(w, "c13")
	os.MkdirAll(d, 0o755)
	return d
}

// c13File materialises a file spec under $VERIF_WORK/c13 and returns its path.
//
//	empty | one:<hh> | rand:<n>:<seed> | missing | dir | binA | binB | noexec
func c13File(spec string) string {
	c13Mu.Lock()
	defer c13Mu.Unlock()
	if p, ok := c13Made[spec]; ok {
		return p
	}
	p := filepath.Join(c13Dir(), "f-"+strings.NewReplacer(":", "_").Replace(spec))
	parts := strings.Split(spec, ":")
	write := func(b []byte, mode os.FileMode) {
		if err := os.WriteFile(p, b, mode); err != nil {
			panic(err)
		}
	}
	switch parts[0] {
	case "empty":
		write(nil, 0o644)
	case "one":
		write(unhx(parts[1]), 0o644)
	case "rand":
		n, _ := strconv.Atoi(parts[1])
		seed, _ := strconv.ParseUint(parts[2], 10, 64)
		write(newRng(seed).bytes(n), 0o644)
	case "missing":
		os.Remove(p)
	case "dir":
		os.MkdirAll(p, 0o755)
	case "binA", "binB":
		b, err := os.ReadFile(selfExe())
		if err != nil {
			panic(err)
		}
		if parts[0] == "binB" {
			b = append(b, []byte("\x00trailing bytes: a different file")...)
		}
		write(b, 0o755)
	case "noexec":
		write(newRng(99).bytes(4096), 0o644)
	case "big":
		// big:<n>:<seed>: n bytes, all zero (a sparse file) except the last 64, which depend on the seed
		n, _ := strconv.ParseInt(parts[1], 10, 64)
		seed, _ := strconv.ParseUint(parts[2], 10, 64)
		fh, err := os.OpenFile(p, os.O_CREATE|os.O_TRUNC|os.O_WRONLY, 0o644)
		if err != nil {
			panic(err)
		}
		if err := fh.Truncate(n); err != nil {
			panic(err)
		}
		if _, err := fh.WriteAt(newRng(seed).bytes(64), n-64); err != nil {
			panic(err)
		}
		fh.Close()
	default:
		panic("bad file spec " + spec)
	}
	c13Made[spec] = p
	return p
}

// c13Open classifies what opening and reading the path yields, with plain os calls
// (not through go-plugin): ok | openerr | readerr, and the content when ok.
func c13Open(path string) (string, []byte) {
	f, err := os.Open(path)
	if err != nil {
		return "openerr", nil
	}
	defer f.Close()
	b, err := io.ReadAll(f)
	if err != nil {
		return "readerr", nil
	}
	return "ok", b
}

type c13FileInfo struct {
	open    string
	content []byte
}

var c13InfoMu sync.Mutex
var c13Infos = map[string]*c13FileInfo{}
var c13Digests = map[string][]byte{}

func c13Info(spec string) *c13FileInfo {
	path := c13File(spec)
	c13InfoMu.Lock()
	defer c13InfoMu.Unlock()
	if fi, ok := c13Infos[spec]; ok {
		return fi
	}
	o, b := c13Open(path)
	fi := &c13FileInfo{o, b}
	c13Infos[spec] = fi
	return fi
}

// c13FH: digest of the file under the named hash ("-" content for unreadable files: digest of nothing).
func c13FH(hashName, spec string, twice bool) []byte {
	fi := c13Info(spec)
	k := hashName + "|" + spec + "|" + b01(twice)
	c13InfoMu.Lock()
	if d, ok := c13Digests[k]; ok {
		c13InfoMu.Unlock()
		return d
	}
	c13InfoMu.Unlock()
	var d []byte
	if twice {
		d = c13Digest(hashName, fi.content, fi.content)
	} else {
		d = c13Digest(hashName, fi.content)
	}
	c13InfoMu.Lock()
	c13Digests[k] = d
	c13InfoMu.Unlock()
	return d
}

// ---------------------------------------------------------------- Check cases

type c13Check struct {
	hash    string
	file    string
	sum     []byte
	nilHash bool
	cls     string
	reuse   bool // call Check twice on the same SecureConfig
}

func (c *c13Check) line() string {
	fi := c13Info(c.file)
	if c.reuse {
		return fmt.Sprintf("C13.reuse hash=%s fkind=%s open=%s fh=%s fh2=%s sum=%s nilhash=%s cls=%s",
			c.hash, c.file, fi.open, hx(c13FH(c.hash, c.file, false)), hx(c13FH(c.hash, c.file, true)), hx(c.sum), b01(c.nilHash), c.cls)
	}
	return fmt.Sprintf("C13.check hash=%s fkind=%s open=%s fh=%s sum=%s nilhash=%s cls=%s",
		c.hash, c.file, fi.open, hx(c13FH(c.hash, c.file, false)), hx(c.sum), b01(c.nilHash), c.cls)
}

func c13CheckFromLine(tag string, m map[string]string) *c13Check {
	return &c13Check{hash: m["hash"], file: m["fkind"], sum: unhx(m["sum"]), nilHash: m["nilhash"] == "1",
		cls: m["cls"], reuse: tag == "C13.reuse"}
}

func c13ShowCheck(ok bool, err error, p interface{}) string {
	switch {
	case p != nil:
		return "panic"
	case err == nil:
		return "ok match=" + b01(ok)
	case errors.Is(err, plugin.ErrSecureConfigNoChecksum):
		return "err kind=nochecksum"
	case errors.Is(err, plugin.ErrSecureConfigNoHash):
		return "err kind=nohash"
	case errors.Is(err, fs.ErrNotExist):
		return "err kind=open"
	case errors.Is(err, syscall.EISDIR):
		return "err kind=read"
	}
	return "err kind=other"
}

func c13CallCheck(s *plugin.SecureConfig, path string) (ok bool, err error, p interface{}) {
	defer func() {
		if r := recover(); r != nil {
			p = r
		}
	}()
	ok, err = s.Check(path)
	return
}

// c13WantCheck is the property's own reading of one Check call: the expected
// canonical answer given only the inputs (checksum, hash present, file, digest).
func c13WantCheck(sum []byte, nilHash bool, open string, fh []byte) string {
	switch {
	case len(sum) == 0:
		return "err kind=nochecksum"
	case nilHash:
		return "err kind=nohash"
	case open == "openerr":
		return "err kind=open"
	case open == "readerr":
		return "err kind=read"
	}
	return "ok match=" + b01(bytes.Equal(fh, sum))
}

func c13PredCheck(impl, want string, ok bool, err error, cls string) string {
	cl := strings.SplitN(cls, ":", 2)[0]
	switch {
	case impl == "panic":
		return "FAIL:check-panicked"
	case err != nil && ok:
		return "FAIL:true-together-with-error"
	case impl == want:
		return "ok"
	case impl == "ok match=1":
		return "FAIL:accepted-nonmatching-checksum:" + cl
	case want == "ok match=1":
		return "FAIL:rejected-matching-checksum:" + cl
	}
	return "FAIL:wrong-check-result:" + cl
}

func runC13Check(c *c13Check) (impl, pred string) {
	path := c13File(c.file)
	fi := c13Info(c.file)
	s := &plugin.SecureConfig{Checksum: c.sum}
	if !c.nilHash {
		s.Hash = c13NewHash(c.hash) // fresh hasher for every Check (assumption of the model)
	}
	ok, err, p := c13CallCheck(s, path)
	impl = c13ShowCheck(ok, err, p)
	want := c13WantCheck(c.sum, c.nilHash, fi.open, c13FH(c.hash, c.file, false))
	pred = c13PredCheck(impl, want, ok, err, c.cls)
	if c.reuse {
		// second call on the same SecureConfig: outside the property's quantifier, correspondence only
		ok2, err2, p2 := c13CallCheck(s, path)
		impl = impl + " then " + c13ShowCheck(ok2, err2, p2)
		if p2 != nil {
			pred = "FAIL:check-panicked"
		}
	}
	return
}

func c13FlipBit(d []byte, i int) []byte {
	o := append([]byte(nil), d...)
	o[i/8] ^= 1 << uint(i%8)
	return o
}

// c13Sums: the checksum variants of one digest.
func c13Sums(r *rng, hashName, file string, d []byte, nRandom int) []*c13Check {
	var cs []*c13Check
	add := func(cls string, sum []byte, nilHash bool) {
		cs = append(cs, &c13Check{hash: hashName, file: file, sum: sum, nilHash: nilHash, cls: cls})
	}
	add("exact", d, false)
	for i := 0; i < 8*len(d); i++ {
		add(fmt.Sprintf("flip:%d", i), c13FlipBit(d, i), false)
	}
	for k := 1; k < len(d); k++ {
		add(fmt.Sprintf("prefix:%d", k), append([]byte(nil), d[:k]...), false)
	}
	for n := 1; n <= 3; n++ {
		add(fmt.Sprintf("extra:%d", n), append(append([]byte(nil), d...), r.bytes(n)...), false)
		add(fmt.Sprintf("extrazero:%d", n), append(append([]byte(nil), d...), make([]byte, n)...), false)
	}
	// what a checksum FILE leaves around the digest: line terminators, blanks; and the digest in its text form
	for _, w := range []string{"\n", "\r\n", "\n\n\n", "\r", " ", "\t", "\x00"} {
		add(fmt.Sprintf("extraws:%x", w), append(append([]byte(nil), d...), w...), false)
		add(fmt.Sprintf("leadws:%x", w), append([]byte(w), d...), false)
	}
	add("hextext", []byte(fmt.Sprintf("%x", d)), false)
	add("hextext-nl", []byte(fmt.Sprintf("%x\n", d)), false)
	add("empty", []byte{}, false)
	add("nil", nil, false)
	add("nilhash", d, true)
	add("nilhash-empty", nil, true)
	add("nilhash-wrong", c13FlipBit(d, 0), true)
	add("suffix", append([]byte(nil), d[1:]...), false)
	add("zeros", make([]byte, len(d)), false)
	add("hex", []byte(hex.EncodeToString(d)), false)
	add("random", r.bytes(len(d)), false)
	rev := make([]byte, len(d))
	for i := range d {
		rev[len(d)-1-i] = d[i]
	}
	add("reversed", rev, false)
	add("doubled", append(append([]byte(nil), d...), d...), false)
	for _, other := range c13HashNames {
		if other != hashName {
			add("otherhash:"+other, c13FH(other, file, false), false)
		}
	}
	for i := 0; i < nRandom; i++ {
		q := r.fork(uint64(i))
		o := append([]byte(nil), d...)
		switch q.intn(4) {
		case 0: // several bit flips
			for k := 0; k < 2+q.intn(6); k++ {
				o = c13FlipBit(o, q.intn(8*len(o)))
			}
			add("multiflip", o, false)
		case 1: // one byte replaced
			o[q.intn(len(o))] = byte(q.next())
			add("bytechange", o, false)
		case 2: // prefix followed by junk to the full length
			k := q.intn(len(o))
			copy(o[k:], q.bytes(len(o)-k))
			add("prefixjunk", o, false)
		case 3: // two positions swapped
			i, j := q.intn(len(o)), q.intn(len(o))
			o[i], o[j] = o[j], o[i]
			add("swap", o, false)
		}
	}
	return cs
}

func c13GenChecks(r *rng) []*c13Check {
	files := []string{"empty", "one:61", "rand:65536:7"}
	nRandom := 8
	if tier() == "thorough" {
		files = append(files, "one:00", "rand:2:1", "rand:63:2", "rand:64:3", "rand:65:4", "rand:4096:5", "rand:1048576:6", "rand:1048577:8",
			fmt.Sprintf("rand:%d:%d", 1+r.intn(200000), r.next()%1000000))
		nRandom = 400
	}
	var cs []*c13Check
	for hi, hn := range c13HashNames {
		for fi, f := range files {
			d := c13FH(hn, f, false)
			cs = append(cs, c13Sums(r.fork(uint64(1000+hi*100+fi)), hn, f, d, nRandom)...)
			// the digest of a different file under the same hash
			for _, g := range files {
				if g != f {
					cs = append(cs, &c13Check{hash: hn, file: f, sum: c13FH(hn, g, false), cls: "otherfile"})
				}
			}
			cs = append(cs, &c13Check{hash: hn, file: f, sum: d, cls: "reuse-exact", reuse: true})
			cs = append(cs, &c13Check{hash: hn, file: f, sum: c13FH(hn, f, true), cls: "reuse-doublehash", reuse: true})
		}
		// unreadable paths: the digest of "nothing" is the most plausible candidate to be wrongly accepted
		for _, f := range []string{"missing", "dir"} {
			d := c13FH(hn, f, false)
			for _, c := range []*c13Check{
				{sum: d, cls: "exact-of-nothing"}, {sum: d[:1], cls: "prefix:1"}, {sum: nil, cls: "nil"},
				{sum: d, nilHash: true, cls: "nilhash"}, {sum: nil, nilHash: true, cls: "nilhash-empty"},
				{sum: c13FH(hn, "one:61", false), cls: "otherfile"},
			} {
				c.hash, c.file = hn, f
				cs = append(cs, c)
			}
		}
	}
	// two files of 64 MiB + 64 bytes that differ only in their last 64 bytes: every byte counts, whatever the size
	bigA, bigB := fmt.Sprintf("big:%d:1", 64<<20+64), fmt.Sprintf("big:%d:2", 64<<20+64)
	cs = append(cs, &c13Check{hash: "sha256", file: bigA, sum: c13FH("sha256", bigA, false), cls: "big-exact"},
		&c13Check{hash: "sha256", file: bigA, sum: c13FH("sha256", bigB, false), cls: "otherfile"},
		&c13Check{hash: "sha256", file: bigB, sum: c13FH("sha256", bigA, false), cls: "otherfile"})
	return cs
}

// ---------------------------------------------------------------- launches

// pluginC13: `gpv plugin c13` — leave a launch marker naming the executed file, then behave as the kit.
func pluginC13(args []string) {
	if m := os.Getenv("GPV_C13_MARKER"); m != "" {
		exe, _ := os.Executable()
		os.WriteFile(m, []byte(exe), 0o644)
	}
	pluginKit(args)
}

type c13Start struct {
	cmd, rf, re, mux bool
	secure           bool
	hash             string
	bin              string // file spec of the command path (binA | binB | noexec | missing | empty …)
	// rel: Cmd.Path is relative ("./f-<bin>", resolved by Check against the host's working directory, which
	// hostC13 sets to the c13 scratch dir) and Cmd.Dir names another directory holding a different file of
	// that name (os/exec resolves a relative Path against Dir).  Outside the model's "same file" assumption.
	rel bool
	// rel2: the same with Cmd.Dir a SYMLINK to a directory elsewhere and Cmd.Path = "../f-<bin>": the kernel resolves the
	// `..` from the link's target, a lexical clean-up of Dir/Path from the link's own location
	rel2 bool
	sum              []byte
	nilHash          bool
	cls              string
}

// runok: would exec of this path work at all (observed with plain os/exec, not through go-plugin).
var c13RunOK = map[string]bool{}

func c13ExecWorks(spec string) bool {
	c13InfoMu.Lock()
	v, ok := c13RunOK[spec]
	c13InfoMu.Unlock()
	if ok {
		return v
	}
	cmd := exec.Command(c13File(spec), "plugin", "c13-noop")
	err := cmd.Start()
	if err == nil {
		cmd.Process.Kill()
		cmd.Wait()
	}
	c13InfoMu.Lock()
	c13RunOK[spec] = err == nil
	c13InfoMu.Unlock()
	return err == nil
}

func (c *c13Start) path() string {
	if c.rf || !c.cmd {
		return "" // exec.Command("") is the spec Start builds when Cmd is nil
	}
	return c13File(c.bin)
}

func (c *c13Start) ext() (open string, fh []byte, runok bool) {
	if c.path() == "" {
		o, _ := c13Open("")
		return o, c13Digest(c.hash), true
	}
	if c.rel2 {
		// the file that runs is <target of Dir>/../f-<bin>, whose content is this binary's own
		fi := c13Info(c.bin)
		return fi.open, c13FH(c.hash, c.bin, false), c13ExecWorks(c.bin)
	}
	if c.rel {
		// os/exec evaluates the relative Path relative to Cmd.Dir: the file that is checked and
		// executed is <Dir>/f-<bin>, whose content is the OTHER binary's
		other := map[string]string{"binA": "binB", "binB": "binA"}[c.bin]
		fi := c13Info(other)
		return fi.open, c13FH(c.hash, other, false), c13ExecWorks(other)
	}
	fi := c13Info(c.bin)
	return fi.open, c13FH(c.hash, c.bin, false), c13ExecWorks(c.bin)
}

func (c *c13Start) line() string {
	open, fh, runok := c.ext()
	l := fmt.Sprintf("C13.start cmd=%s rf=%s re=%s mux=%s secure=%s hash=%s bin=%s open=%s fh=%s sum=%s nilhash=%s runok=%s cls=%s",
		b01(c.cmd), b01(c.rf), b01(c.re), b01(c.mux), b01(c.secure), c.hash, c.bin, open, hx(fh), hx(c.sum), b01(c.nilHash), b01(runok), c.cls)
	if c.rel2 {
		return l + " rel=2"
	}
	if c.rel {
		return l + " rel=1"
	}
	return l
}

func c13StartFromLine(m map[string]string) *c13Start {
	return &c13Start{cmd: m["cmd"] == "1", rf: m["rf"] == "1", re: m["re"] == "1", mux: m["mux"] == "1", secure: m["secure"] == "1",
		hash: m["hash"], bin: m["bin"], sum: unhx(m["sum"]), nilHash: m["nilhash"] == "1", cls: m["cls"], rel: m["rel"] == "1", rel2: m["rel"] == "2"}
}

var c13MarkerSeq int64

type c13StartRes struct {
	impl, pred string
	marker     string
	launched   bool
}

func runC13Start(c *c13Start) c13StartRes {
	marker := filepath.Join(c13Dir(), fmt.Sprintf("marker-%d", atomic.AddInt64(&c13MarkerSeq, 1)))
	os.Remove(marker)
	open, fh, runok := c.ext()
	cfg := &plugin.ClientConfig{
		HandshakeConfig:     kitHandshake(),
		VersionedPlugins:    kitHostSets(map[int]string{3: "netrpc"}, nil, nil),
		Logger:              nullLogger(),
		StartTimeout:        30 * time.Second,
		GRPCBrokerMultiplex: c.mux,
	}
	if c.mux {
		cfg.AllowedProtocols = []plugin.Protocol{plugin.ProtocolNetRPC, plugin.ProtocolGRPC}
	}
	if c.secure {
		cfg.SecureConfig = &plugin.SecureConfig{Checksum: c.sum}
		if !c.nilHash {
			cfg.SecureConfig.Hash = c13NewHash(c.hash)
		}
	}
	var cmd *exec.Cmd
	if c.cmd {
		cmd = kitCmd(kitServeCfg{Sets: map[string]string{"3": "netrpc"}}, "GPV_C13_MARKER="+marker)
		cmd.Path = c13File(c.bin)
		if c.rel {
			cmd.Path = "./" + filepath.Base(cmd.Path)
			cmd.Dir = c13AltDir(c.bin)
		}
		if c.rel2 {
			cmd.Path = "../" + filepath.Base(cmd.Path)
			cmd.Dir = c13LinkDir(c.bin)
		}
		cmd.Args = []string{cmd.Path, "plugin", "c13"}
		if c.cls == "otherfile" && (c.bin == "binA" || c.bin == "binB") {
			// argv[0] names the file the checksum belongs to; the file that runs is still cmd.Path
			cmd.Args[0] = c13File(map[string]string{"binA": "binB", "binB": "binA"}[c.bin])
		}
		cfg.Cmd = cmd
	}
	var fr *fakeRunner
	var rfCalls int32
	if c.rf {
		fr = newFakeRunner()
		cfg.RunnerFunc = func(l hclog.Logger, cm *exec.Cmd, tmpDir string) (runner.Runner, error) {
			atomic.AddInt32(&rfCalls, 1)
			go fr.stdoutW.Write([]byte("1|3|tcp|127.0.0.1:1|netrpc\n"))
			return fr, nil
		}
	}
	var reCalls int32
	if c.re {
		cfg.Reattach = &plugin.ReattachConfig{
			Protocol: plugin.ProtocolNetRPC, Addr: &net.TCPAddr{IP: net.IPv4(127, 0, 0, 1), Port: 1}, Pid: os.Getpid(),
			ReattachFunc: func() (runner.AttachedRunner, error) {
				atomic.AddInt32(&reCalls, 1)
				return nil, errors.New("scripted: nothing to reattach to")
			},
		}
	}
	client := plugin.NewClient(cfg)
	err, hung, p := withTimeout(60*time.Second, func() error {
		_, err := client.Start()
		return err
	})

	// was anything launched?
	procStarted := cmd != nil && cmd.Process != nil
	fakeStarted := fr != nil && atomic.LoadInt32(&fr.starts) > 0
	markerSeen := false
	if procStarted {
		// give the process the time to leave its marker (it is written first thing)
		for i := 0; i < 300; i++ {
			if _, e := os.Stat(marker); e == nil {
				markerSeen = true
				break
			}
			time.Sleep(10 * time.Millisecond)
		}
	} else if _, e := os.Stat(marker); e == nil {
		markerSeen = true
	}
	launched := procStarted || fakeStarted || markerSeen || atomic.LoadInt32(&rfCalls) > 0
	executed := ""
	if markerSeen {
		b, _ := os.ReadFile(marker)
		executed = string(b)
	}

	var impl string
	switch {
	case hung:
		impl = "hang"
	case p != nil:
		impl = "panic launched=" + b01(launched)
	case err == nil:
		impl = "ok launched=" + b01(launched)
	case atomic.LoadInt32(&reCalls) > 0:
		impl = "reattached launched=" + b01(launched)
	default:
		sent := "none"
		switch {
		case errors.Is(err, plugin.ErrChecksumsDoNotMatch):
			sent = "mismatch"
		case errors.Is(err, plugin.ErrSecureConfigAndReattach):
			sent = "reattach"
		case errors.Is(err, plugin.ErrSecureConfigNoChecksum), errors.Is(err, plugin.ErrSecureConfigNoHash):
			sent = "unwrapped" // Start flattens these with %s today
		}
		impl = fmt.Sprintf("err sentinel=%s launched=%s", sent, b01(launched))
	}

	// the property's own predicate
	matches := len(c.sum) > 0 && !c.nilHash && open == "ok" && bytes.Equal(fh, c.sum)
	launching := !c.re && (c.cmd != c.rf)
	pred := "ok"
	switch {
	case hung:
		pred = "FAIL:start-hung"
	case p != nil:
		pred = "FAIL:start-panicked"
	case c.secure && launched && !matches:
		pred = "FAIL:launched-without-matching-checksum:" + strings.SplitN(c.cls, ":", 2)[0]
	case c.secure && c.re && atomic.LoadInt32(&reCalls) > 0:
		pred = "FAIL:reattached-with-secureconfig"
	case err == nil && !launched:
		pred = "FAIL:success-without-launch"
	case launching && (!c.secure || matches) && runok && !launched:
		pred = "FAIL:matching-binary-not-launched"
	case launching && c.secure && !matches && err == nil:
		pred = "FAIL:no-error-for-nonmatching-checksum"
	case launching && c.secure && len(c.sum) > 0 && !c.nilHash && open == "ok" && !matches && !errors.Is(err, plugin.ErrChecksumsDoNotMatch):
		pred = "FAIL:mismatch-not-reported-as-ErrChecksumsDoNotMatch"
	case c.secure && c.re && !c.cmd && !c.rf && !errors.Is(err, plugin.ErrSecureConfigAndReattach):
		pred = "FAIL:reattach-with-secureconfig-not-refused"
	case markerSeen && c.cmd && c.secure && executed != "":
		// the file that was actually executed must itself carry the configured checksum
		if b, e := os.ReadFile(executed); e != nil || !bytes.Equal(c13Digest(c.hash, b), c.sum) {
			pred = "FAIL:executed-file-hash-differs-from-checksum"
		}
	}

	// a refusal is final: asking the same client again (Start, then Client) launches nothing either
	if pred == "ok" && c.secure && !launched && err != nil && !hung && p == nil {
		for _, again := range []string{"start", "client"} {
			_, h2, p2 := withTimeout(30*time.Second, func() error {
				if again == "start" {
					_, e := client.Start()
					return e
				}
				_, e := client.Client()
				return e
			})
			time.Sleep(150 * time.Millisecond)
			_, me := os.Stat(marker)
			started := (cmd != nil && cmd.Process != nil) || (fr != nil && atomic.LoadInt32(&fr.starts) > 0) || atomic.LoadInt32(&rfCalls) > 0 || me == nil
			switch {
			case h2 || p2 != nil:
				pred = "FAIL:retry-after-refusal-hung-or-panicked"
			case started:
				pred = "FAIL:launched-on-retry-after-refusal:" + again
				procStarted = cmd != nil && cmd.Process != nil
			}
			if pred != "ok" {
				break
			}
		}
	}

	// cleanup: nothing may survive the case
	if procStarted && (err != nil || hung || p != nil) {
		cmd.Process.Kill()
	}
	if !hung {
		withTimeout(10*time.Second, func() error { client.Kill(); return nil })
	}
	if fr != nil {
		fr.exit()
	}
	if procStarted {
		cmd.Process.Kill()
		go cmd.Wait()
	}
	return c13StartRes{impl, pred, marker, launched}
}

func c13GenStarts(r *rng) []*c13Start {
	var cs []*c13Start
	add := func(c *c13Start) { cs = append(cs, c) }
	bins := []string{"binA", "binB"}
	for hi, hn := range c13HashNames {
		q := r.fork(uint64(5000 + hi))
		bin := bins[hi%2]
		other := bins[(hi+1)%2]
		d := c13FH(hn, bin, false)
		L := len(d)
		mk := func(cls string, sum []byte, nilHash bool) {
			add(&c13Start{cmd: true, secure: true, hash: hn, bin: bin, sum: sum, nilHash: nilHash, cls: cls})
		}
		mk("exact", d, false)
		mk("flip:0", c13FlipBit(d, 0), false)
		mk(fmt.Sprintf("flip:%d", 8*L-1), c13FlipBit(d, 8*L-1), false)
		mk("flip:rand", c13FlipBit(d, q.intn(8*L)), false)
		mk(fmt.Sprintf("prefix:%d", L-1), append([]byte(nil), d[:L-1]...), false)
		mk("prefix:1", d[:1], false)
		mk("extra:1", append(append([]byte(nil), d...), byte(q.next())), false)
		mk("extrazero:1", append(append([]byte(nil), d...), 0), false)
		mk("extraws:0a", append(append([]byte(nil), d...), '\n'), false)
		mk("extraws:0d0a", append(append([]byte(nil), d...), '\r', '\n'), false)
		mk("leadws:20", append([]byte(" "), d...), false)
		mk("empty", []byte{}, false)
		mk("nilhash", d, true)
		mk("otherfile", c13FH(hn, other, false), false)
		// the digest written out as text (what sha256sum prints) is a different checksum: twice as long, other bytes
		mk("hex", []byte(hex.EncodeToString(d)), false)
		mk("HEX", []byte(strings.ToUpper(hex.EncodeToString(d))), false)
		if tier() == "thorough" {
			for i := 0; i < 12; i++ {
				mk("flip:rand", c13FlipBit(d, q.intn(8*L)), false)
				mk(fmt.Sprintf("prefix:%d", 1+i%(L-1)), append([]byte(nil), d[:1+i%(L-1)]...), false)
			}
			add(&c13Start{cmd: true, secure: true, hash: hn, bin: other, sum: c13FH(hn, other, false), cls: "exact"})
		}
	}
	// the command path is not an executable / does not exist: the check still decides first
	for _, hn := range []string{"sha256", "toy32"} {
		for _, bin := range []string{"noexec", "empty", "missing", "dir"} {
			d := c13FH(hn, bin, false)
			add(&c13Start{cmd: true, secure: true, hash: hn, bin: bin, sum: d, cls: "exact-nonexecutable"})
		}
		add(&c13Start{cmd: true, secure: true, hash: hn, bin: "noexec", sum: c13FlipBit(c13FH(hn, "noexec", false), 3), cls: "flip:3"})
	}
	// no SecureConfig: baseline launches
	add(&c13Start{cmd: true, hash: "sha256", bin: "binA", cls: "nosecure"})
	add(&c13Start{rf: true, hash: "sha256", bin: "binA", cls: "nosecure-runnerfunc"})
	// RunnerFunc + SecureConfig: Start checks exec.Command("").Path, i.e. the empty path
	add(&c13Start{rf: true, secure: true, hash: "sha256", bin: "binA", sum: c13FH("sha256", "binA", false), cls: "runnerfunc-exact"})
	add(&c13Start{rf: true, secure: true, hash: "sha256", bin: "binA", sum: c13Digest("sha256"), cls: "runnerfunc-digest-of-nothing"})
	add(&c13Start{rf: true, secure: true, hash: "toy32", bin: "binA", sum: nil, cls: "runnerfunc-empty"})
	// Reattach + SecureConfig, and the option-count errors
	add(&c13Start{re: true, secure: true, hash: "sha256", bin: "binA", sum: c13FH("sha256", "binA", false), cls: "reattach-secure"})
	add(&c13Start{re: true, secure: true, mux: true, hash: "sha256", bin: "binA", sum: []byte{1}, cls: "reattach-secure-mux"})
	add(&c13Start{re: true, hash: "sha256", bin: "binA", cls: "reattach-nosecure"})
	add(&c13Start{re: true, mux: true, hash: "sha256", bin: "binA", cls: "reattach-mux"})
	add(&c13Start{cmd: true, re: true, secure: true, hash: "sha256", bin: "binA", sum: c13FH("sha256", "binA", false), cls: "cmd+reattach"})
	add(&c13Start{cmd: true, rf: true, secure: true, hash: "sha256", bin: "binA", sum: c13FH("sha256", "binA", false), cls: "cmd+runnerfunc"})
	add(&c13Start{secure: true, hash: "sha256", bin: "binA", sum: c13FH("sha256", "binA", false), cls: "no-command"})
	// relative Cmd.Path + Cmd.Dir: Check reads ./f-binA here, os/exec runs <Dir>/f-binA
	c13AltDir("binA")
	add(&c13Start{cmd: true, secure: true, hash: "sha256", bin: "binA", sum: c13FH("sha256", "binA", false), cls: "relpath-dir", rel: true})
	add(&c13Start{cmd: true, secure: true, hash: "sha256", bin: "binA", sum: c13FH("sha256", "binB", false), cls: "relpath-dir-match", rel: true})
	// … with Dir a symlink and a `..` in Path: what is verified must be what the kernel will run
	c13LinkDir("binA")
	add(&c13Start{cmd: true, secure: true, hash: "sha256", bin: "binA", sum: c13FH("sha256", "binA", false), cls: "linkdir-match", rel2: true})
	add(&c13Start{cmd: true, secure: true, hash: "sha256", bin: "binA", sum: c13FH("sha256", "binB", false), cls: "linkdir-lexical-file", rel2: true})
	return cs
}

// c13AltDir: a second directory holding, under the same base name as the given binary, the *other* binary.
func c13AltDir(bin string) string {
	other := "binB"
	if bin == "binB" {
		other = "binA"
	}
	src := c13File(other)
	dst := filepath.Join(c13Dir(), "alt", filepath.Base(c13File(bin)))
	c13Mu.Lock()
	defer c13Mu.Unlock()
	if _, ok := c13Made["alt:"+bin]; !ok {
		os.MkdirAll(filepath.Dir(dst), 0o755)
		b, err := os.ReadFile(src)
		if err != nil {
			panic(err)
		}
		if err := os.WriteFile(dst, b, 0o755); err != nil {
			panic(err)
		}
		c13Made["alt:"+bin] = dst
	}
	return filepath.Dir(dst)
}

// c13LinkDir: <alt>/lnk, a symlink to <c13>/deep/sub; <c13>/deep/f-<bin> is a copy of the binary itself, while
// <alt>/f-<bin> (what "<alt>/lnk/../f-<bin>" names after a lexical clean-up) holds the OTHER binary.
func c13LinkDir(bin string) string {
	alt := c13AltDir(bin)
	c13Mu.Lock()
	defer c13Mu.Unlock()
	lnk := filepath.Join(alt, "lnk")
	if _, ok := c13Made["lnk:"+bin]; !ok {
		deep := filepath.Join(c13Dir(), "deep")
		os.MkdirAll(filepath.Join(deep, "sub"), 0o755)
		b, err := os.ReadFile(c13Made[bin])
		if err != nil {
			panic(err)
		}
		if err := os.WriteFile(filepath.Join(deep, filepath.Base(c13Made[bin])), b, 0o755); err != nil {
			panic(err)
		}
		os.Remove(lnk)
		if err := os.Symlink(filepath.Join(deep, "sub"), lnk); err != nil {
			panic(err)
		}
		c13Made["lnk:"+bin] = lnk
	}
	return lnk
}

// ---------------------------------------------------------------- scenario

func hostC13(o *out, replay string) {
	// relative command paths (rel=1 cases) are resolved by Check against the working directory
	if err := os.Chdir(c13Dir()); err != nil {
		panic(err)
	}
	// yamux logs connection teardown to os.Stderr (read when its config is built); bin/check merges
	// stderr into the result stream, so keep library chatter out of it.  Runtime crashes still reach fd 2.
	if dn, err := os.OpenFile(os.DevNull, os.O_WRONLY, 0); err == nil {
		os.Stderr = dn
	}
	if replay != "" {
		tag, m := kvLine(replay)
		tag = strings.TrimPrefix(tag, "!")
		switch tag {
		case "C13.check", "C13.reuse":
			c := c13CheckFromLine(tag, m)
			impl, pred := runC13Check(c)
			o.emit(c.line(), impl, pred)
		case "C13.start":
			c := c13StartFromLine(m)
			// the plugin binary is this harness: if it was rebuilt since the case was recorded, an
			// "exact" checksum recorded then is carried over to the current digest
			if old := unhx(m["fh"]); c.path() != "" && len(old) > 0 && bytes.Equal(c.sum, old) {
				c.sum = c13FH(c.hash, c.bin, false)
			}
			res := runC13Start(c)
			if !res.launched {
				time.Sleep(500 * time.Millisecond)
				if _, e := os.Stat(res.marker); e == nil {
					res.pred = "FAIL:late-launch-marker"
				}
			}
			o.emit(c.line(), res.impl, res.pred)
		default:
			o.emit("!C13 bad-replay", "bad", "FAIL:bad-replay-line")
		}
		return
	}
	r := newRng(seedFromEnv())

	// --- Check cases
	checks := c13GenChecks(r)
	type cr struct{ impl, pred string }
	cres := make([]cr, len(checks))
	parallel(len(checks), 8, func(i int) {
		impl, pred := runC13Check(checks[i])
		cres[i] = cr{impl, pred}
	})
	byCls, byOut := map[string]int{}, map[string]int{}
	for i, c := range checks {
		o.emit(c.line(), cres[i].impl, cres[i].pred)
		byCls[strings.SplitN(c.cls, ":", 2)[0]]++
		byOut[cres[i].impl]++
	}
	o.note("C13 Check cases=%d hashes=%v per-class=%s", len(checks), c13HashNames, c13Counts(byCls))
	o.note("C13 Check outcomes=%s", c13Counts(byOut))

	// --- launches
	starts := c13GenStarts(r)
	sres := make([]c13StartRes, len(starts))
	parallel(len(starts), 6, func(i int) { sres[i] = runC13Start(starts[i]) })
	// late sweep: a case that reported "not launched" must not have produced a marker afterwards either
	time.Sleep(400 * time.Millisecond)
	sOut, sCls := map[string]int{}, map[string]int{}
	for i, c := range starts {
		if !sres[i].launched {
			if _, e := os.Stat(sres[i].marker); e == nil && sres[i].pred == "ok" {
				sres[i].pred = "FAIL:late-launch-marker"
			}
		}
		o.emit(c.line(), sres[i].impl, sres[i].pred)
		sOut[sres[i].impl]++
		sCls[strings.SplitN(c.cls, ":", 2)[0]]++
	}
	o.note("C13 Start cases=%d per-class=%s", len(starts), c13Counts(sCls))
	o.note("C13 Start outcomes=%s", c13Counts(sOut))
	o.note("C13 every Check call uses a fresh hash.Hash (Check does not Reset); C13.reuse cases call Check twice on one SecureConfig")
}

func c13Counts(m map[string]int) string {
	var ks []string
	for k := range m {
		ks = append(ks, k)
	}
	sort.Strings(ks)
	var sb strings.Builder
	for i, k := range ks {
		if i > 0 {
			sb.WriteString(", ")
		}
		fmt.Fprintf(&sb, "%s:%d", strings.ReplaceAll(k, " ", "_"), m[k])
	}
	return sb.String()
}
