package main

// gpv — the go-plugin verification harness.  Roles:
//   gpv host <PROP> [--replay "<case line>"]   drive the real code, print case \t impl \t predicate
//   gpv plugin <scenario>                       act as a plugin process (real plugin.Serve)

import (
	"fmt"
	"os"
)

func main() {
	if len(os.Args) < 2 {
		fmt.Fprintln(os.Stderr, "usage: gpv host <PROP> | gpv plugin <scenario>")
		os.Exit(2)
	}
	switch os.Args[1] {
	case "host":
		if len(os.Args) < 3 {
			os.Exit(2)
		}
		replay := ""
		if len(os.Args) >= 5 && os.Args[3] == "--replay" {
			replay = os.Args[4]
		}
		o := newOut(os.Stdout)
		defer o.flush()
		fn, ok := hostScenarios[os.Args[2]]
		if !ok {
			fmt.Fprintln(os.Stderr, "unknown property", os.Args[2])
			os.Exit(2)
		}
		fn(o, replay)
	case "plugin":
		if len(os.Args) < 3 {
			os.Exit(2)
		}
		fn, ok := pluginScenarios[os.Args[2]]
		if !ok {
			fmt.Fprintln(os.Stderr, "unknown plugin scenario", os.Args[2])
			os.Exit(2)
		}
		fn(os.Args[3:])
	default:
		os.Exit(2)
	}
}

// hostScenarios / pluginScenarios are filled by init() functions in the
// per-property files (register / registerPlugin).
var hostScenarios = map[string]func(o *out, replay string){}
var pluginScenarios = map[string]func(args []string){}

func register(name string, fn func(o *out, replay string)) { hostScenarios[name] = fn }
func registerPlugin(name string, fn func(args []string))      { pluginScenarios[name] = fn }
