package main

// C06 / C09 correspondence (net/rpc MuxBroker): real broker pairs over a real
// yamux session on a real socket, driven by timed histories of Dial / Accept
// operations; the same histories are replayed on the Lean model by the oracle.

import (
	"bytes"
	"encoding/binary"
	"fmt"
	"io"
	"net"
	"os"
	"runtime"
	"sort"
	"strings"
	"sync"
	"time"

	plugin "github.com/hashicorp/go-plugin"
	"github.com/hashicorp/yamux"
)

type brokerPair struct {
	a, b   *plugin.MuxBroker
	sa, sb *yamux.Session
}

func newBrokerPair() (*brokerPair, error) {
	l, err := net.Listen("tcp", "127.0.0.1:0")
	if err != nil {
		return nil, err
	}
	defer l.Close()
	type acc struct {
		c   net.Conn
		err error
	}
	ch := make(chan acc, 1)
	go func() { c, err := l.Accept(); ch <- acc{c, err} }()
	cc, err := net.Dial("tcp", l.Addr().String())
	if err != nil {
		return nil, err
	}
	sc := <-ch
	if sc.err != nil {
		return nil, sc.err
	}
	cfg := yamux.DefaultConfig()
	cfg.LogOutput = io.Discard
	sa, err := yamux.Server(sc.c, cfg)
	if err != nil {
		return nil, err
	}
	cfg2 := yamux.DefaultConfig()
	cfg2.LogOutput = io.Discard
	sb, err := yamux.Client(cc, cfg2)
	if err != nil {
		return nil, err
	}
	p := &brokerPair{a: plugin.VerifNewMuxBroker(sa), b: plugin.VerifNewMuxBroker(sb), sa: sa, sb: sb}
	go p.a.Run()
	go p.b.Run()
	return p, nil
}

func (p *brokerPair) close() { p.a.Close(); p.b.Close() }

// hop is one operation of a history. dir 0: dials from B arrive at A, accepts on A; dir 1 the reverse.
type hop struct {
	at   int // ms from history start
	kind byte
	id   uint32
	dir  int
	role string // matched | unmatched | dup | late | fresh  (for the predicate)
}

type history struct {
	name  string
	ops   []hop
	delay int // verifhook delay (ms) at muxbroker.timeoutwait.pre-lock; 0 = none
}

func (h *history) horizon() int {
	m := 0
	for _, o := range h.ops {
		if o.at > m {
			m = o.at
		}
	}
	return m + 6500
}

func (h *history) caseLine(tag string, dir int) string {
	var parts []string
	for _, o := range h.ops {
		if o.dir == dir {
			if o.kind == 'x' {
				parts = append(parts, fmt.Sprintf("%d:x", o.at))
				continue
			}
			parts = append(parts, fmt.Sprintf("%d:%c:%d", o.at, o.kind, o.id))
		}
	}
	if len(parts) == 0 {
		return ""
	}
	// the other direction's operations ran on the same connection: kept on the line so that a replay runs the whole history
	var peer []string
	for _, o := range h.ops {
		if o.dir != dir {
			if o.kind == 'x' {
				peer = append(peer, fmt.Sprintf("%d:x", o.at))
				continue
			}
			peer = append(peer, fmt.Sprintf("%d:%c:%d", o.at, o.kind, o.id))
		}
	}
	if len(peer) > 0 {
		return fmt.Sprintf("%s name=%s dir=%d ops=%s horizon=%d delay=%d peer=%s", tag, h.name, dir, strings.Join(parts, ","), h.horizon(), h.delay, strings.Join(peer, ","))
	}
	return fmt.Sprintf("%s name=%s dir=%d ops=%s horizon=%d delay=%d", tag, h.name, dir, strings.Join(parts, ","), h.horizon(), h.delay)
}

type opResult struct {
	res   string // ok | err | hang | panic
	cross string // non-empty: bytes arrived at the wrong peer / pairing broken
	slip  int    // ms by which the op began later than its place in the history (the machine was busy)
}

// stableHistory runs a timed history and, when the run was DISTURBED — some op began later than the history tolerates
// (slipTolerance: half its smallest gap, at most 250 ms), so the gaps
// the history is about were not the gaps that were run — and its outcome is not the expected one, runs it again (up to
// three runs, with a pause): a history's verdict is about its own timing, not about the load on the machine.  An
// undisturbed run is final whatever it shows.
func stableHistory(h *history, run func(*history) ([]opResult, error)) ([]opResult, error) {
	var res []opResult
	var err error
	for attempt := 0; attempt < 3; attempt++ {
		res, err = run(h)
		if err != nil {
			return res, err
		}
		if !disturbedRun(h, res) || brokerPredicate(h, res) == "ok" {
			return res, nil
		}
		time.Sleep(time.Duration(2+attempt*3) * time.Second)
	}
	return res, err
}

// slipTolerance: by how much an op may begin late before the run no longer is the history: half the smallest gap between
// two ops of the history that are meant to happen one after the other (a 60 ms gap is turned round by a 70 ms slip), at
// most 250 ms.
func slipTolerance(h *history) int {
	tol := 250
	for i := range h.ops {
		for j := range h.ops {
			if g := h.ops[j].at - h.ops[i].at; g > 0 && g/2 < tol {
				tol = g / 2
			}
		}
	}
	if tol < 10 {
		tol = 10
	}
	return tol
}

func disturbedRun(h *history, res []opResult) bool {
	tol := slipTolerance(h)
	for _, r := range res {
		if r.slip > tol {
			return true
		}
	}
	return false
}

// settleDisturbed: after a batch of histories that ran side by side, the ones whose last run was still disturbed AND
// unexpected are run once more ONE AT A TIME (the batch itself is most of the load they suffered from).
func settleDisturbed(hs []*history, results [][]opResult, errs []error, run func(*history) ([]opResult, error)) {
	for i, h := range hs {
		if errs[i] != nil || results[i] == nil || !disturbedRun(h, results[i]) || brokerPredicate(h, results[i]) == "ok" {
			continue
		}
		results[i], errs[i] = stableHistory(h, run)
	}
}

// runHistory executes the history against a fresh real broker pair.
func runHistory(h *history) ([]opResult, error) {
	p, err := newBrokerPair()
	if err != nil {
		return nil, err
	}
	res := make([]opResult, len(h.ops))
	var wg sync.WaitGroup
	start := time.Now()
	deadline := start.Add(time.Duration(h.horizon()) * time.Millisecond)
	for i := range h.ops {
		wg.Add(1)
		go func(i int) {
			defer wg.Done()
			o := h.ops[i]
			time.Sleep(time.Until(start.Add(time.Duration(o.at) * time.Millisecond)))
			res[i].slip = int(time.Since(start).Milliseconds()) - o.at
			acceptor, dialler := p.a, p.b
			if o.dir == 1 {
				acceptor, dialler = p.b, p.a
			}
			type r struct {
				c   net.Conn
				err error
				p   interface{}
			}
			ch := make(chan r, 1)
			go func() {
				var x r
				defer func() {
					if pp := recover(); pp != nil {
						x.p = pp
					}
					ch <- x
				}()
				if o.kind == 'x' {
					// a stream that is opened and closed before its id header is written (what a dialler
					// that fails between OpenStream and the header write leaves behind)
					sess := p.sb
					if o.dir == 1 {
						sess = p.sa
					}
					st, err := sess.OpenStream()
					if err == nil {
						st.Close()
					}
					x.err = err
				} else if o.kind == 'a' {
					x.c, x.err = acceptor.Accept(o.id)
				} else {
					x.c, x.err = dialler.Dial(o.id)
				}
			}()
			select {
			case x := <-ch:
				switch {
				case x.p != nil:
					res[i].res = "panic"
				case x.err != nil:
					res[i].res = "err"
				case x.c == nil:
					res[i].res = "ok"
				default:
					res[i].res = "ok"
					res[i].cross = exchange(x.c, o, i)
					x.c.Close()
				}
			case <-time.After(time.Until(deadline)):
				res[i].res = "hang"
			}
		}(i)
	}
	wg.Wait()
	// (closing the pair is bounded too: a broker whose lock is held for ever must cost this history, not the whole run)
	if _, hung, _ := withTimeout(15*time.Second, func() error { p.close(); return nil }); hung {
		for i := range res {
			if res[i].res == "ok" || res[i].res == "err" {
				res[i].res = "hang" // the broker could not even be closed: report the history, with its ops, as hanging
			}
		}
	}
	return res, nil
}

// exchange checks that the two ends of one brokered connection are each other's peers and that bytes arrive complete
// and in order, in both directions.  The mode is a function of the id, so both ends agree on it:
//
//	id%3 == 0: the dialler speaks first: (id, nonce) -> echo nonce+1
//	id%3 == 1: the ACCEPTOR speaks first, right after Accept returned (its bytes travel right behind the ack)
//	id%3 == 2: acceptor first, then 300 KiB of patterned bulk in each direction at once (more than one yamux window)
//
// role "latebulk": after the handshake both idle 5.3 s, then the acceptor writes 1 MiB while the dialler starts
// reading late (the write has to wait for window space long after Accept).
func exchange(c net.Conn, o hop, idx int) string {
	// no deadline of ours on the connection (it would hide one left behind by the broker): a watchdog closes it instead
	wd := time.AfterFunc(25*time.Second, func() { c.Close() })
	defer wd.Stop()
	mode := int(o.id % 3)
	dial := o.kind == 'd'
	speaksFirst := (mode == 0) == dial
	var buf [8]byte
	if speaksFirst {
		binary.LittleEndian.PutUint32(buf[:4], o.id)
		binary.LittleEndian.PutUint32(buf[4:], uint32(1000+idx))
		if _, err := c.Write(buf[:]); err != nil {
			return "write:" + errClass(err)
		}
		var e [4]byte
		if _, err := io.ReadFull(c, e[:]); err != nil {
			return "noecho:" + errClass(err)
		}
		if binary.LittleEndian.Uint32(e[:]) != uint32(1000+idx)+1 {
			return "wrong-echo"
		}
	} else {
		if _, err := io.ReadFull(c, buf[:]); err != nil {
			return "nodata:" + errClass(err)
		}
		if got := binary.LittleEndian.Uint32(buf[:4]); got != o.id {
			return fmt.Sprintf("%c-of-%d-got-stream-for-%d", o.kind, o.id, got)
		}
		var e [4]byte
		binary.LittleEndian.PutUint32(e[:], binary.LittleEndian.Uint32(buf[4:])+1)
		if _, err := c.Write(e[:]); err != nil {
			return "echo-write:" + errClass(err)
		}
	}
	pattern := func(n int, salt byte) []byte {
		p := make([]byte, n)
		for i := range p {
			p[i] = byte(i*7+i/251) ^ salt
		}
		return p
	}
	if mode == 2 {
		const n = 300 << 10
		mySalt, peerSalt := byte(0x5a), byte(0xa5)
		if dial {
			mySalt, peerSalt = peerSalt, mySalt
		}
		werr := make(chan error, 1)
		go func() { _, err := c.Write(pattern(n, mySalt)); werr <- err }()
		got := make([]byte, n)
		if _, err := io.ReadFull(c, got); err != nil {
			return "bulk-read:" + errClass(err)
		}
		if !bytes.Equal(got, pattern(n, peerSalt)) {
			return "bulk-corrupted"
		}
		if err := <-werr; err != nil {
			return "bulk-write:" + errClass(err)
		}
	}
	if o.role == "latebulk" {
		const n = 1 << 20
		time.Sleep(5300 * time.Millisecond)
		if dial {
			time.Sleep(300 * time.Millisecond) // let the writer run into the window limit
			got := make([]byte, n)
			if _, err := io.ReadFull(c, got); err != nil {
				return "latebulk-read:" + errClass(err)
			}
			if !bytes.Equal(got, pattern(n, 0x33)) {
				return "latebulk-corrupted"
			}
			if _, err := c.Write([]byte{1}); err != nil {
				return "latebulk-ack-write:" + errClass(err)
			}
		} else {
			if _, err := c.Write(pattern(n, 0x33)); err != nil {
				return "latebulk-write:" + errClass(err)
			}
			var a [1]byte
			if _, err := io.ReadFull(c, a[:]); err != nil {
				return "latebulk-ack:" + errClass(err)
			}
		}
	}
	return ""
}

func errClass(err error) string {
	if err == io.EOF {
		return "eof"
	}
	if ne, ok := err.(net.Error); ok && ne.Timeout() {
		return "timeout"
	}
	return "other"
}

// ---------------------------------------------------------------- generator

type motif struct {
	name string
	ops  []hop // ids are relative (0,1,…); at relative
}

func motifs() []motif {
	m := func(name string, ops ...hop) motif { return motif{name, ops} }
	return []motif{
		m("acc-first-50", hop{0, 'a', 0, 0, "matched"}, hop{50, 'd', 0, 0, "matched"}),
		m("acc-first-1000", hop{0, 'a', 0, 0, "matched"}, hop{1000, 'd', 0, 0, "matched"}),
		m("acc-first-3500", hop{0, 'a', 0, 0, "matched"}, hop{3500, 'd', 0, 0, "matched"}),
		m("dial-first-50", hop{0, 'd', 0, 0, "matched"}, hop{50, 'a', 0, 0, "matched"}),
		m("dial-first-1000", hop{0, 'd', 0, 0, "matched"}, hop{1000, 'a', 0, 0, "matched"}),
		m("dial-first-3500", hop{0, 'd', 0, 0, "matched"}, hop{3500, 'a', 0, 0, "matched"}),
		m("simultaneous", hop{0, 'd', 0, 0, "matched"}, hop{0, 'a', 0, 0, "matched"}),
		m("unmatched-dial", hop{0, 'd', 0, 0, "unmatched"}),
		m("unmatched-accept", hop{0, 'a', 0, 0, "unmatched"}),
		m("dup-dial", hop{0, 'd', 0, 0, "unmatched"}, hop{60, 'd', 0, 0, "unmatched"}),
		m("dup-dial-then-accept", hop{0, 'd', 0, 0, "matched"}, hop{60, 'd', 0, 0, "unmatched"}, hop{1000, 'a', 0, 0, "matched"}),
		m("late-accept", hop{0, 'd', 0, 0, "unmatched"}, hop{6500, 'a', 0, 0, "unmatched"}),
		m("late-dial", hop{0, 'a', 0, 0, "unmatched"}, hop{6500, 'd', 0, 0, "unmatched"}),
		m("redial-after-accept", hop{0, 'd', 0, 0, "matched"}, hop{100, 'a', 0, 0, "matched"}, hop{1200, 'd', 0, 0, "unmatched"}),
		m("abort-then-pair", hop{0, 'x', 0, 0, "any"}, hop{100, 'a', 0, 0, "matched"}, hop{200, 'd', 0, 0, "matched"}),
		m("two-ids-crossed", hop{0, 'a', 0, 0, "matched"}, hop{0, 'a', 1, 0, "matched"}, hop{200, 'd', 1, 0, "matched"}, hop{300, 'd', 0, 0, "matched"}),
	}
}

// compose places k motifs (distinct id ranges, random direction and base offset) in one history
// and appends a fresh matched pair in each direction after everything has expired.
func compose(name string, q *rng, ms []motif, k int, withFresh bool) *history {
	h := &history{name: name}
	nextID := uint32(10 + q.intn(1000))
	last := 0
	for j := 0; j < k; j++ {
		m := pick(q, ms)
		dir := q.intn(2)
		base := pick(q, []int{0, 200, 1000})
		maxRel := uint32(0)
		for _, o := range m.ops {
			o.at += base
			o.dir = dir
			if o.id > maxRel {
				maxRel = o.id
			}
			o.id += nextID
			h.ops = append(h.ops, o)
			if o.at > last {
				last = o.at
			}
		}
		nextID += maxRel + 1
		h.name += "+" + m.name
	}
	if withFresh {
		tf := last + 6500
		for dir := 0; dir < 2; dir++ {
			h.ops = append(h.ops, hop{tf, 'a', nextID, dir, "fresh"}, hop{tf + 100, 'd', nextID, dir, "fresh"})
			nextID++
		}
	}
	sort.SliceStable(h.ops, func(i, j int) bool { return h.ops[i].at < h.ops[j].at })
	return h
}

func fixedHistories() []*history {
	return []*history{
		// D5: two unaccepted dials to one id, then a fresh pair after both expiries
		{name: "two-dials-then-fresh", ops: []hop{{0, 'd', 77, 0, "unmatched"}, {0, 'd', 77, 0, "unmatched"}, {6500, 'a', 78, 0, "fresh"}, {6600, 'd', 78, 0, "fresh"}}},
		// D5b: second dial 60 ms later, no accept
		{name: "dup-dial-60ms", ops: []hop{{0, 'd', 77, 0, "unmatched"}, {60, 'd', 77, 0, "unmatched"}, {6500, 'a', 78, 0, "fresh"}, {6600, 'd', 78, 0, "fresh"}}},
		// a stream closed before its header: Run must go on serving (both directions)
		{name: "aborted-stream", ops: []hop{{0, 'x', 0, 0, "any"}, {0, 'x', 0, 1, "any"}, {100, 'a', 9, 0, "fresh"}, {200, 'd', 9, 0, "fresh"}, {100, 'a', 9, 1, "fresh"}, {200, 'd', 9, 1, "fresh"}}},
		{name: "dial-both-directions", ops: []hop{{0, 'd', 5, 0, "unmatched"}, {0, 'd', 5, 1, "unmatched"}, {6500, 'a', 6, 0, "fresh"}, {6600, 'd', 6, 0, "fresh"}, {6500, 'a', 6, 1, "fresh"}, {6600, 'd', 6, 1, "fresh"}}},
	}
}

// hookedHistories need the schedule steered: timeoutWait pauses `delay` ms before taking the mutex.
func hookedHistories() []*history {
	return []*history{
		// D5c: a second dial parks in the slot whose doneCh is already closed
		{name: "orphan-redial", delay: 400, ops: []hop{{0, 'a', 7, 0, "matched"}, {50, 'd', 7, 0, "matched"}, {200, 'd', 7, 0, "unmatched"}, {7000, 'a', 8, 0, "fresh"}, {7100, 'd', 8, 0, "fresh"}}},
		// D5: an Accept takes the parked stream at the expiry instant
		{name: "accept-at-expiry", delay: 400, ops: []hop{{0, 'd', 5, 0, "late"}, {5150, 'a', 5, 0, "late"}, {7000, 'a', 6, 0, "fresh"}, {7100, 'd', 6, 0, "fresh"}}},
	}
}

func brokerPredicate(h *history, res []opResult) string {
	for i, o := range h.ops {
		r := res[i]
		if r.res == "panic" {
			return fmt.Sprintf("FAIL:panic-op%d", i)
		}
		if r.cross != "" && o.role != "late" {
			return "FAIL:pairing:" + r.cross
		}
		switch o.role {
		case "matched", "latebulk":
			if r.res != "ok" {
				// two dials of one id issued within a fraction of a second of each other: WHICH of them meets the accept is
				// not part of the history (their streams may arrive in either order); exactly one connects
				swapped := false
				if o.kind == 'd' && r.res == "err" {
					for j, o2 := range h.ops {
						if j != i && o2.kind == 'd' && o2.id == o.id && o2.dir == o.dir && o2.at-o.at <= 200 && o.at-o2.at <= 200 && res[j].res == "ok" && res[j].cross == "" {
							swapped = true
						}
					}
				}
				if !swapped {
					return fmt.Sprintf("FAIL:matched-%c-%s", o.kind, r.res)
				}
			}
		case "unmatched":
			if r.res == "hang" {
				return fmt.Sprintf("FAIL:unmatched-%s-never-returned", map[byte]string{'a': "accept", 'd': "dial"}[o.kind])
			}
			if r.res == "ok" && r.cross == "" {
				// an unmatched op may legitimately pair with a duplicate's partner; only a hang is a liveness failure
			}
		case "fresh":
			if r.res != "ok" {
				return fmt.Sprintf("FAIL:fresh-pair-%c-%s", o.kind, r.res)
			}
		case "late":
			if r.res == "hang" {
				return "FAIL:late-op-never-returned"
			}
		}
	}
	return "ok"
}

func emitHistory(o *out, tag string, h *history, res []opResult, err error) {
	if err != nil {
		o.emit("!"+tag+" name="+h.name, "setup-error", "FAIL:setup:"+strings.ReplaceAll(err.Error(), " ", "_"))
		return
	}
	pred := brokerPredicate(h, res)
	for dir := 0; dir < 2; dir++ {
		cl := h.caseLine(tag, dir)
		if cl == "" {
			continue
		}
		var rs []string
		for i, op := range h.ops {
			if op.dir == dir {
				rs = append(rs, res[i].res)
			}
		}
		o.emit(cl, "res="+strings.Join(rs, ","), pred)
		pred2 := pred
		_ = pred2
	}
}

func historyFromLine(m map[string]string) *history {
	h := &history{name: m["name"]}
	fmt.Sscanf(m["delay"], "%d", &h.delay)
	var dir int
	fmt.Sscanf(m["dir"], "%d", &dir)
	for _, s := range splitComma(m["ops"]) {
		var at int
		var k byte
		var id uint32
		fmt.Sscanf(s, "%d:%c:%d", &at, &k, &id)
		role := "late"
		h.ops = append(h.ops, hop{at, k, id, dir, role})
	}
	for _, s := range splitComma(m["peer"]) {
		var at int
		var k byte
		var id uint32
		fmt.Sscanf(s, "%d:%c:%d", &at, &k, &id)
		h.ops = append(h.ops, hop{at, k, id, 1 - dir, "late"})
	}
	return h
}

func setTwDelay(ms int) {
	if ms == 0 {
		plugin.VerifSetPoint("muxbroker.timeoutwait.pre-lock", nil)
		return
	}
	plugin.VerifSetPoint("muxbroker.timeoutwait.pre-lock", func() { time.Sleep(time.Duration(ms) * time.Millisecond) })
}

func muxGoroutines() int {
	buf := make([]byte, 8<<20)
	n := runtime.Stack(buf, true)
	c := 0
	for _, g := range strings.Split(string(buf[:n]), "\n\n") {
		if strings.Contains(g, "go-plugin.(*MuxBroker)") {
			c++
		}
	}
	return c
}

func runBrokerScenario(o *out, tag, replay string, gen func(r *rng) (plain, hooked []*history)) {
	if replay != "" {
		_, m := kvLine(replay)
		h := historyFromLine(m)
		setTwDelay(h.delay)
		res, err := runHistory(h)
		setTwDelay(0)
		emitHistory(o, tag, h, res, err)
		return
	}
	r := newRng(seedFromEnv())
	plain, hooked := gen(r)
	run := func(hs []*history) {
		results := make([][]opResult, len(hs))
		errs := make([]error, len(hs))
		parallel(len(hs), 64, func(i int) { results[i], errs[i] = stableHistory(hs[i], runHistory) }) // (64 at a time: hundreds of histories side by side delay each other's ops by more than their gaps)
		settleDisturbed(hs, results, errs, runHistory)
		for i, h := range hs {
			emitHistory(o, tag, h, results[i], errs[i])
		}
	}
	run(plain)
	if len(hooked) > 0 {
		setTwDelay(hooked[0].delay)
		run(hooked)
		setTwDelay(0)
	}
	if tag == "C06" {
		// the premise "distinct IDs": concurrent reservations never collide; concurrent Dispense calls each reach their own server
		idsDistinct(o, "!C06.ids kind=mux", plugin.VerifNewMuxBroker(nil).NextId)
		concurrentDispense(o, 16, 12)
		o.flush()
	}
	if tag == "C09" {
		// the gRPC broker's part of the property: duplicate accepts nobody dials and unmatched dials, then a
		// fresh pair in each direction on the same connection (case lines carry the C07 tag: same model)
		gms := grpcMotifs()
		var ghs []*history
		for i := 0; i < 4; i++ {
			q := r.fork(uint64(7000 + i))
			ghs = append(ghs, compose(fmt.Sprintf("gl%d", i), q, []motif{gms[10], gms[6], gms[0], gms[12], gms[13]}, 2+q.intn(2), true))
		}
		// three unmatched dials in flight at once in one direction (and one in the other), then a fresh pair each way
		ghs = append(ghs, &history{name: "gfix-three-unmatched-dials", ops: []hop{
			{0, 'd', 301, 0, "unmatched"}, {100, 'd', 302, 0, "unmatched"}, {150, 'd', 304, 0, "unmatched"}, {200, 'd', 303, 1, "unmatched"},
			{6700, 'a', 310, 0, "fresh"}, {6800, 'd', 310, 0, "fresh"}, {6700, 'a', 311, 1, "fresh"}, {6800, 'd', 311, 1, "fresh"}}})
		gres := make([][]opResult, len(ghs))
		gerrs := make([]error, len(ghs))
		parallel(len(ghs), len(ghs), func(i int) { gres[i], gerrs[i] = stableHistory(ghs[i], runGrpcHistory) })
		settleDisturbed(ghs, gres, gerrs, runGrpcHistory)
		for i, h := range ghs {
			emitGrpcHistory(o, h, gres[i], gerrs[i])
		}
		// the multiplexed gRPC broker: unmatched / late peers, then a fresh pair, both roles
		type ml struct{ role, kind, impl, pred string }
		var mls []*ml
		for _, role := range []string{"server", "client"} {
			for _, kind := range []string{"dial-unmatched", "dial-then-late-accept", "dial-abandoned-then-late-accept", "accept-unmatched"} {
				mls = append(mls, &ml{role: role, kind: kind})
			}
		}
		parallel(len(mls), len(mls), func(i int) { mls[i].impl, mls[i].pred = runMuxLiveness(mls[i].role, mls[i].kind) })
		for _, m := range mls {
			o.emit(fmt.Sprintf("!C09.mux role=%s kind=%s", m.role, m.kind), m.impl, m.pred)
		}
		// two dials of an id whose listener is not being served, then a fresh pair (both roles)
		for _, role := range []string{"server", "client"} {
			impl, pred := boundedCell(90*time.Second, func() (string, string) { return runMuxDupDialUnserved(role) })
			o.emit("!C09.mux role="+role+" kind=dup-dial-unserved", impl, pred)
		}
		// a listener nobody dials, left open on each side, then the pair is closed: no knock loop stays behind
		{
			impl, pred := runMuxOpenListenerThenClose()
			o.emit("!C09.mux kind=open-listener-then-close", impl, pred)
		}
		// accepted, dialled, never served, closed — then a fresh pair (both roles)
		for _, role := range []string{"server", "client"} {
			impl, pred := runMuxAcceptedNeverServed(role)
			o.emit("!C09.mux role="+role+" kind=accepted-never-served", impl, pred)
		}
		// peer closes mid-negotiation, multiplexed: the plugin closes its listener between the knock's ack and the stream
		{
			impl, pred := runMuxAcceptorClosesMid()
			o.emit("!C09.mux role=server kind=acceptor-closes-mid", impl, pred)
		}
		// peer closes mid-negotiation: the listener is gone when the (blocking) dial is made
		for dir := 0; dir < 2; dir++ {
			impl, pred := runGonePeerDial(dir)
			o.emit(fmt.Sprintf("!C09.gone-peer dir=%d opts=block", dir), impl, pred)
		}
		// the peer is gone (its broker stream has ended): broker calls made afterwards return
		{
			impl, pred := runAfterPeerGone()
			o.emit("!C09.after-peer-gone accepts=12", impl, pred)
		}
		// close_ends_goroutines: all pairs are closed; a few seconds later no broker goroutine remains
		time.Sleep(6500 * time.Millisecond)
		n := muxGoroutines()
		pred := "ok"
		if n != 0 {
			pred = fmt.Sprintf("FAIL:broker-goroutines-after-close")
		}
		o.emit("!C09.goroutines", fmt.Sprintf("remaining=%d", n), pred)
	}
	o.note("histories plain=%d hooked=%d", len(plain), len(hooked))
}

func init() {
	register("C09", func(o *out, replay string) {
		runBrokerScenario(o, "C09", replay, func(r *rng) ([]*history, []*history) {
			ms := motifs()
			hs := fixedHistories()
			n := 24
			if tier() == "thorough" {
				n = 300
			}
			if v := os.Getenv("VERIF_C09_N"); v != "" {
				fmt.Sscanf(v, "%d", &n)
			}
			// liveness-oriented: unmatched / duplicate / late motifs dominate
			live := []motif{ms[7], ms[8], ms[9], ms[10], ms[11], ms[12], ms[13], ms[0], ms[4]}
			for i := 0; i < n; i++ {
				q := r.fork(uint64(i))
				hs = append(hs, compose(fmt.Sprintf("h%d", i), q, live, 1+q.intn(4), true))
			}
			return hs, hookedHistories()
		})
	})
	register("C06", func(o *out, replay string) {
		runBrokerScenario(o, "C06", replay, func(r *rng) ([]*history, []*history) {
			ms := motifs()
			matched := []motif{ms[0], ms[1], ms[2], ms[3], ms[4], ms[5], ms[6], ms[14], ms[10], ms[13]}
			n := 40
			if tier() == "thorough" {
				n = 500
			}
			var hs []*history
			for i := 0; i < n; i++ {
				q := r.fork(uint64(i))
				hs = append(hs, compose(fmt.Sprintf("m%d", i), q, matched, 1+q.intn(8), false))
			}
			// an accept nobody dials runs out its window; matched pairs afterwards (same direction and the other) still connect
			hs = append(hs, &history{name: "accept-timeout-then-pairs", ops: []hop{{0, 'a', 60, 0, "unmatched"}, {0, 'a', 60, 1, "unmatched"},
				{5700, 'a', 61, 0, "matched"}, {5800, 'd', 61, 0, "matched"}, {5700, 'a', 62, 1, "matched"}, {5800, 'd', 62, 1, "matched"}}})
			// the same NUMBER in flight in both directions at once (each side's NextId counts from 1): accept-first and dial-first
			hs = append(hs, &history{name: "same-number-accept-first", ops: []hop{
				{0, 'a', 70, 0, "matched"}, {0, 'a', 70, 1, "matched"}, {300, 'd', 70, 0, "matched"}, {600, 'd', 70, 1, "matched"}}})
			hs = append(hs, &history{name: "same-number-dial-first", ops: []hop{
				{0, 'd', 71, 0, "matched"}, {300, 'a', 71, 1, "matched"}, {600, 'a', 71, 0, "matched"}, {900, 'd', 71, 1, "matched"}}})
			hs = append(hs, &history{name: "same-number-interleaved", ops: []hop{
				{0, 'a', 72, 0, "matched"}, {200, 'd', 72, 1, "matched"}, {400, 'a', 72, 1, "matched"}, {600, 'd', 72, 0, "matched"}}})
			// a bulk write long after Accept, in both directions: complete, in order, no left-over deadline
			hs = append(hs, &history{name: "late-bulk", ops: []hop{{0, 'a', 30, 0, "latebulk"}, {50, 'd', 30, 0, "latebulk"}, {0, 'd', 31, 1, "latebulk"}, {80, 'a', 31, 1, "latebulk"}}})
			return hs, nil
		})
		if replay == "" {
			// a real net/rpc plugin process: brokered connections opened from BOTH ends of a real connection
			impl, pred := runRealCallbacks("netrpc", 3)
			o.emit("!C06.real-callbacks proto=netrpc n=3", impl, pred)
		}
	})
}
