package main

// C04: CleanupClients over several managed clients in DIFFERENT states at once (one process-wide call).

import (
	"fmt"
	"os"
	"os/exec"
	"path/filepath"
	"strings"
	"time"

	plugin "github.com/hashicorp/go-plugin"
)

type mixedClient struct {
	proto, beh string
	client     *plugin.Client
	cmd        *exec.Cmd
	marker     string
}

// startMixed launches one managed client and brings it into the state `beh`.
func startMixed(base, proto, beh string, idx int) (*mixedClient, error) {
	dir := filepath.Join(base, fmt.Sprintf("m%d", idx))
	os.MkdirAll(dir, 0o755)
	wire := proto
	kc := kitServeCfg{Sets: map[string]string{"3": wire}, GRPCServer: wire == "grpc", Marker: filepath.Join(dir, "clean-exit")}
	switch beh {
	case "ignores":
		kc.AfterServe = "hang"
	case "fast500":
		kc.AfterServe = "delay:500"
	case "neverstarted":
		kc.PreServe = "printhang:" + hxs("not a handshake\n")
	}
	cmd := kitCmd(kc, "TMPDIR="+dir)
	m := &mixedClient{proto: proto, beh: beh, cmd: cmd, marker: kc.Marker}
	m.client = plugin.NewClient(&plugin.ClientConfig{
		HandshakeConfig:  kitHandshake(),
		VersionedPlugins: kitHostSets(map[int]string{3: wire}, nil, nil),
		AllowedProtocols: []plugin.Protocol{plugin.ProtocolNetRPC, plugin.ProtocolGRPC},
		Cmd:              cmd,
		Logger:           nullLogger(),
		StartTimeout:     5 * time.Second,
		Managed:          true,
		UnixSocketConfig: &plugin.UnixSocketConfig{TempDir: dir},
	})
	switch beh {
	case "notstarted":
		// constructed and managed, never started: nothing to end, nothing may go wrong either
		return m, nil
	case "neverstarted":
		if _, err := m.client.Start(); err == nil {
			return m, fmt.Errorf("start succeeded")
		}
		return m, nil
	}
	cp, err := m.client.Client()
	if err != nil {
		return m, err
	}
	raw, err := cp.Dispense("kit")
	if err != nil {
		return m, err
	}
	kit := raw.(Kit)
	if _, err := kit.Double(2); err != nil {
		return m, err
	}
	switch beh {
	case "frozen":
		go kit.Cmd("stop", 0)
		time.Sleep(300 * time.Millisecond)
	case "dead":
		go kit.Cmd("kill", 0)
		if cmd.Process != nil {
			waitDead(cmd.Process.Pid, 3*time.Second)
		}
	}
	return m, nil
}

func runCleanupMixed() (caseLine, impl, pred string) {
	states := []struct{ proto, beh string }{
		{"grpc", "fast"}, {"netrpc", "ignores"}, {"grpc", "frozen"}, {"netrpc", "fast500"},
		{"grpc", "neverstarted"}, {"netrpc", "dead"}, {"grpc", "notstarted"}, {"grpc", "ignores"},
	}
	var names []string
	for _, s := range states {
		names = append(names, s.proto+":"+s.beh)
	}
	caseLine = "!C04.cleanup-mixed clients=" + strings.Join(names, ",")
	base := filepath.Join(os.Getenv("VERIF_WORK"), fmt.Sprintf("c04-mixed-%d", os.Getpid()))
	os.MkdirAll(base, 0o755)
	defer os.RemoveAll(base)
	var ms []*mixedClient
	defer func() {
		for _, m := range ms {
			if m.cmd.Process != nil {
				m.cmd.Process.Kill()
			}
		}
	}()
	for i, s := range states {
		m, err := startMixed(base, s.proto, s.beh, i)
		if m != nil {
			ms = append(ms, m)
		}
		if err != nil {
			return caseLine, "setup-error " + s.proto + ":" + s.beh, "FAIL:setup"
		}
	}
	t0 := time.Now()
	_, hung, pp := withTimeout(15*time.Second, func() error { plugin.CleanupClients(); return nil })
	lat := time.Since(t0)
	var bad []string
	for _, m := range ms {
		pid := 0
		if m.cmd.Process != nil {
			pid = m.cmd.Process.Pid
		}
		switch {
		case pid != 0 && pidAlive(pid):
			bad = append(bad, m.proto+":"+m.beh+":alive")
		case m.beh != "notstarted" && !m.client.Exited():
			bad = append(bad, m.proto+":"+m.beh+":exited-false")
		}
	}
	impl = fmt.Sprintf("ret=%s bad=%d lat=%d", b01(!hung), len(bad), lat.Milliseconds())
	switch {
	case hung:
		return caseLine, impl, "FAIL:cleanupclients-hung"
	case pp != nil:
		return caseLine, impl, "FAIL:cleanupclients-panicked"
	case len(bad) > 0:
		return caseLine, impl + " " + strings.Join(bad, ","), "FAIL:plugin-left-after-cleanupclients"
	case lat > 8*time.Second:
		// (the slowest single Kill here: frozen gRPC = 2 s shutdown deadline + 2 s grace; they run in parallel)
		return caseLine, impl, "FAIL:cleanupclients-not-parallel-or-unbounded"
	}
	return caseLine, impl, "ok"
}
