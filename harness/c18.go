package main

// C18 correspondence: REAL plugin sessions (kit plugin re-executed from this
// binary) with private temp directories on both sides.  One session = one
// history of ops under one configuration, followed by a graceful Client.Kill:
//
//	ops      d = Dispense("kit") + Double      c = Callback (brokered host→plugin and plugin→host)
//	         e = Emit (plugin writes to its stdout and stderr)      p = Ping
//	config   proto netrpc|grpc × mux × AutoMTLS × launch cmd|runner
//	         (runner = ClientConfig.RunnerFunc returning a runner.Runner around a real exec.Cmd)
//	pre      (optional) close = before Kill the host calls ClientProtocol.Close() itself and waits until
//	         Client.Exited(): Kill finds a recorded runner whose process has already exited
//
// After Kill has returned and the plugin process is gone: both directories are
// listed (nothing go-plugin created may remain) and, 3 s later, the host's
// goroutines are dumped and filtered to stacks with go-plugin frames (nothing
// may remain; a goroutine sitting in a broker's 5 s timeoutWait is given until
// 6 s after Kill).  Every session runs in its OWN host process (this binary
// re-executed with --replay <case>), so that the host's TMPDIR — where the
// host-side brokered listeners of a Cmd launch are created — and the goroutine
// dump belong to exactly one session.

import (
	"context"
	"errors"
	"fmt"
	"io"
	"os"
	"os/exec"
	"path/filepath"
	"runtime"
	"sort"
	"strings"
	"sync"
	"syscall"
	"time"

	hclog "github.com/hashicorp/go-hclog"
	plugin "github.com/hashicorp/go-plugin"
	"github.com/hashicorp/go-plugin/runner"
)

func init() { register("C18", hostC18) }

// ---------------------------------------------------------------- cases

type c18Case struct {
	proto     string // netrpc | grpc
	mux, auto bool
	launch    string // cmd | runner
	procs     int    // GOMAXPROCS of the plugin process (0 = default): 1 makes scheduling races inside the plugin reproducible
	ops       []string
	// pre = what happens between the history and Kill: "" = nothing (the plugin is running when Kill is
	// called); "close" = the host calls ClientProtocol.Close() itself (the plugin is asked to shut down and
	// exits gracefully), waits until Client.Exited() reports the exit, and only then calls Kill
	pre string
	// lns > 0: before Kill, each side opens that many brokered listeners (broker.Accept) and leaves them open and unserved
	lns int
	// dup: before Kill, the plugin advertises ONE brokered ID twice and the host never asks for it (gRPC: two Accepts of the
	// id, i.e. two connection-info messages; net/rpc: two Dials of the id, i.e. two incoming streams)
	dup bool
	// stdioerr: the plugin's stdio stream ends at once with an unexpected status (Internal)
	stdioerr bool
	// flash > 0: before Kill the host accepts that many brokered ids and closes each listener at once
	flash int
}

func (c *c18Case) line() string {
	ops := "_"
	if len(c.ops) > 0 {
		ops = strings.Join(c.ops, ",")
	}
	s := fmt.Sprintf("C18 proto=%s mux=%s auto=%s launch=%s procs=%d ops=%s", c.proto, b01(c.mux), b01(c.auto), c.launch, c.procs, ops)
	if c.pre != "" {
		s += " pre=" + c.pre
	}
	if c.lns > 0 {
		s += fmt.Sprintf(" lns=%d", c.lns)
	}
	if c.dup {
		s += " dup=1"
	}
	if c.stdioerr {
		s += " stdioerr=1"
	}
	if c.flash > 0 {
		s += fmt.Sprintf(" flash=%d", c.flash)
	}
	return s
}

// cfgName is the configuration part of a signature, e.g. "grpc+mux+cmd".
func (c *c18Case) cfgName() string {
	s := c.proto
	if c.mux && c.proto == "grpc" {
		s += "+mux"
	}
	return s + "+" + c.launch
}

func c18FromLine(m map[string]string) (*c18Case, error) {
	c := &c18Case{proto: m["proto"], mux: m["mux"] == "1", auto: m["auto"] == "1", launch: m["launch"], ops: splitComma(m["ops"])}
	fmt.Sscanf(m["procs"], "%d", &c.procs)
	fmt.Sscanf(m["lns"], "%d", &c.lns)
	c.dup = m["dup"] == "1"
	c.stdioerr = m["stdioerr"] == "1"
	fmt.Sscanf(m["flash"], "%d", &c.flash)
	if c.pre = m["pre"]; c.pre != "" && c.pre != "close" {
		return nil, errors.New("bad pre")
	}
	if c.proto != "netrpc" && c.proto != "grpc" {
		return nil, errors.New("bad proto")
	}
	if c.launch != "cmd" && c.launch != "runner" {
		return nil, errors.New("bad launch")
	}
	for _, op := range c.ops {
		if op != "d" && op != "c" && op != "e" && op != "p" {
			return nil, errors.New("bad op " + op)
		}
	}
	return c, nil
}

// ---------------------------------------------------------------- a runner.Runner around a real process

// execRunner is what a RunnerFunc user would write: a real process started
// with exec.Cmd, its sockets living in the directory go-plugin hands over.
type execRunner struct {
	cmd            *exec.Cmd
	stdout, stderr io.ReadCloser
	tmpDir         string
}

var _ runner.Runner = (*execRunner)(nil)

func newExecRunner(cmd *exec.Cmd, tmpDir string) (*execRunner, error) {
	so, err := cmd.StdoutPipe()
	if err != nil {
		return nil, err
	}
	se, err := cmd.StderrPipe()
	if err != nil {
		return nil, err
	}
	return &execRunner{cmd: cmd, stdout: so, stderr: se, tmpDir: tmpDir}, nil
}

func (r *execRunner) Start(context.Context) error     { return r.cmd.Start() }
func (r *execRunner) Diagnose(context.Context) string { return "" }
func (r *execRunner) Stdout() io.ReadCloser           { return r.stdout }
func (r *execRunner) Stderr() io.ReadCloser           { return r.stderr }
func (r *execRunner) Name() string                    { return "gpv-exec-runner" }
func (r *execRunner) Wait(context.Context) error      { return r.cmd.Wait() }
func (r *execRunner) Kill(context.Context) error {
	if r.cmd.Process == nil {
		return nil
	}
	if err := r.cmd.Process.Kill(); err != nil && !errors.Is(err, os.ErrProcessDone) {
		return err
	}
	return nil
}
func (r *execRunner) ID() string {
	if r.cmd.Process == nil {
		return ""
	}
	return fmt.Sprint(r.cmd.Process.Pid)
}
func (r *execRunner) PluginToHost(n, a string) (string, string, error) { return n, a, nil }
func (r *execRunner) HostToPlugin(n, a string) (string, string, error) { return n, a, nil }

// ---------------------------------------------------------------- goroutine dump

type c18Gor struct {
	desc  string // "<creator>><entry function>", go-plugin prefix stripped
	where string // innermost go-plugin frame
	timer bool   // sitting in a broker's timeoutWait (bounded by its 5 s timer)
}

func c18Short(fn string) string {
	fn = strings.TrimPrefix(fn, "github.com/hashicorp/go-plugin/internal/")
	fn = strings.TrimPrefix(fn, "github.com/hashicorp/go-plugin.")
	fn = strings.TrimPrefix(fn, "github.com/hashicorp/go-plugin/")
	fn = strings.NewReplacer("(*", "", ")", "").Replace(fn)
	return fn
}

// c18Goroutines: goroutines whose stack has a go-plugin frame (go-plugin code
// proper, not its generated test protos), except the caller.
func c18Goroutines() []c18Gor {
	buf := make([]byte, 16<<20)
	n := runtime.Stack(buf, true)
	var res []c18Gor
	for i, g := range strings.Split(string(buf[:n]), "\n\n") {
		if i == 0 { // the goroutine taking the dump
			continue
		}
		lines := strings.Split(g, "\n")
		var funcs []string
		creator := ""
		for _, l := range lines[1:] {
			if strings.HasPrefix(l, "\t") || strings.TrimSpace(l) == "" {
				continue
			}
			if strings.HasPrefix(l, "created by ") {
				creator = strings.TrimPrefix(l, "created by ")
				if k := strings.Index(creator, " in goroutine"); k >= 0 {
					creator = creator[:k]
				}
				continue
			}
			if k := strings.LastIndex(l, "("); k > 0 {
				l = l[:k]
			}
			funcs = append(funcs, l)
		}
		isGP := func(f string) bool {
			return (strings.HasPrefix(f, "github.com/hashicorp/go-plugin.") || strings.HasPrefix(f, "github.com/hashicorp/go-plugin/internal/")) &&
				!strings.Contains(f, "verifhook")
		}
		where := ""
		for _, f := range funcs {
			if isGP(f) {
				where = f
				break
			}
		}
		if where == "" && !isGP(creator) {
			continue
		}
		entry := ""
		if len(funcs) > 0 {
			entry = funcs[len(funcs)-1]
		}
		gg := c18Gor{desc: c18Short(creator) + ">" + c18Short(entry), where: c18Short(where)}
		gg.timer = strings.HasSuffix(gg.where, ".timeoutWait")
		if os.Getenv("C18_DEBUG") != "" {
			fmt.Fprintln(os.Stderr, "----\n"+g)
		}
		res = append(res, gg)
	}
	return res
}

func c18GorSet(gs []c18Gor, skipTimers bool) []string {
	seen := map[string]bool{}
	for _, g := range gs {
		if skipTimers && g.timer {
			continue
		}
		seen[g.desc] = true
	}
	var out []string
	for k := range seen {
		out = append(out, k)
	}
	sort.Strings(out)
	return out
}

// ---------------------------------------------------------------- one session (in this process)

func c18PidGone(pid int, d time.Duration) bool {
	dl := time.Now().Add(d)
	for {
		if err := syscall.Kill(pid, 0); err != nil && errors.Is(err, syscall.ESRCH) {
			return true
		}
		if time.Now().After(dl) {
			return false
		}
		time.Sleep(5 * time.Millisecond)
	}
}

// c18List walks dir and classifies everything below it.
func c18List(root, mainSock, side string, into map[string]bool, detail *[]string) {
	filepath.Walk(root, func(p string, info os.FileInfo, err error) error {
		if err != nil || p == root {
			return nil
		}
		base := filepath.Base(p)
		inDir := strings.HasPrefix(filepath.Base(filepath.Dir(p)), "plugin-dir")
		var cls string
		switch {
		case p == mainSock:
			cls = "main-socket"
		case info.IsDir() && strings.HasPrefix(base, "plugin-dir"):
			cls = "socket-dir"
		case strings.HasPrefix(base, "plugin") && inDir:
			cls = "brokered-socket"
		case strings.HasPrefix(base, "plugin"):
			cls = side + "-brokered-socket"
		default:
			cls = "other"
		}
		into[cls] = true
		*detail = append(*detail, cls+"="+p)
		return nil
	})
}

func joinSet(xs []string) string {
	if len(xs) == 0 {
		return "-"
	}
	return strings.Join(xs, ",")
}

// c18PluginEnv: the plugin's private temp dir and, if asked for, its GOMAXPROCS.
func c18PluginEnv(plugDir string, procs int) []string {
	env := []string{"TMPDIR=" + plugDir}
	if procs > 0 {
		env = append(env, fmt.Sprintf("GOMAXPROCS=%d", procs))
	}
	return env
}

// c18Session runs one history for real. impl is "ok left=<files> gor=<goroutines>"
// (both empty = "-"), "forced" (Kill had to kill the process: the property's
// premise "exits gracefully" does not hold) or "err stage=<…>".
func c18Session(c *c18Case) (impl, pred string, notes []string) {
	base := os.Getenv("VERIF_WORK")
	if base == "" {
		base = os.TempDir()
	}
	sess, err := os.MkdirTemp(base, "s")
	if err != nil {
		return "err stage=setup", "FAIL:harness-setup", []string{err.Error()}
	}
	defer os.RemoveAll(sess)
	hostDir, plugDir := filepath.Join(sess, "h"), filepath.Join(sess, "p")
	os.Mkdir(hostDir, 0o700)
	os.Mkdir(plugDir, 0o700)
	// the host's own temp dir: host-side brokered listeners of a Cmd launch go to os.CreateTemp("", "plugin")
	os.Setenv("TMPDIR", hostDir)

	before := len(c18Goroutines())
	if before != 0 {
		notes = append(notes, fmt.Sprintf("go-plugin goroutines before the session: %d", before))
	}

	// (no exit marker: the plugin's main returns right after plugin.Serve, as a minimal plugin's does)
	cfg := kitServeCfg{Sets: map[string]string{"3": c.proto}, GRPCServer: c.proto == "grpc"}
	if c.stdioerr {
		cfg.StdioStatus = "internal"
	}
	var syncOut, syncErr lockedBuf
	cc := &plugin.ClientConfig{
		HandshakeConfig:     kitHandshake(),
		VersionedPlugins:    kitHostSets(map[int]string{3: c.proto}, nil, nil),
		AllowedProtocols:    []plugin.Protocol{plugin.ProtocolNetRPC, plugin.ProtocolGRPC},
		GRPCBrokerMultiplex: c.mux,
		AutoMTLS:            c.auto,
		Logger:              nullLogger(),
		StartTimeout:        20 * time.Second,
		SkipHostEnv:         true, // so that the plugin's TMPDIR is the private one below
		SyncStdout:          &syncOut,
		SyncStderr:          &syncErr,
	}
	var proc func() *os.Process
	if c.launch == "cmd" {
		cmd := kitCmd(cfg, c18PluginEnv(plugDir, c.procs)...)
		cc.Cmd = cmd
		proc = func() *os.Process { return cmd.Process }
	} else {
		var er *execRunner
		var mu sync.Mutex
		cc.UnixSocketConfig = &plugin.UnixSocketConfig{TempDir: hostDir}
		cc.RunnerFunc = func(l hclog.Logger, spec *exec.Cmd, tmpDir string) (runner.Runner, error) {
			real := kitCmd(cfg, c18PluginEnv(plugDir, c.procs)...)
			real.Env = append(real.Env, spec.Env...) // cookie, versions, PLUGIN_UNIX_SOCKET_DIR=tmpDir, mux, client cert
			r, err := newExecRunner(real, tmpDir)
			mu.Lock()
			er = r
			mu.Unlock()
			return r, err
		}
		proc = func() *os.Process {
			mu.Lock()
			defer mu.Unlock()
			if er == nil {
				return nil
			}
			return er.cmd.Process
		}
	}
	client := plugin.NewClient(cc)
	killed := false
	defer func() {
		if !killed {
			withTimeout(20*time.Second, func() error { client.Kill(); return nil })
		}
		if p := proc(); p != nil {
			p.Kill()
		}
	}()

	stage := "start"
	mainSock := ""
	opErr, hung, pnc := withTimeout(60*time.Second, func() error {
		addr, err := client.Start()
		if err != nil {
			return err
		}
		if addr.Network() == "unix" {
			mainSock = addr.String()
		}
		var kit Kit
		var cp plugin.ClientProtocol
		getCP := func() error {
			if cp != nil {
				return nil
			}
			var err error
			cp, err = client.Client()
			return err
		}
		dispense := func() error {
			if err := getCP(); err != nil {
				return err
			}
			raw, err := cp.Dispense("kit")
			if err != nil {
				return err
			}
			kit = raw.(Kit)
			return nil
		}
		for i, op := range c.ops {
			stage = fmt.Sprintf("op%d-%s", i, op)
			if (op == "c" || op == "e") && kit == nil {
				if err := dispense(); err != nil {
					return err
				}
			}
			switch op {
			case "d":
				if err := dispense(); err != nil {
					return err
				}
				v, err := kit.Double(5)
				if err != nil {
					return err
				}
				if v != 13 {
					return fmt.Errorf("double=%d", v)
				}
			case "c":
				if err := kit.Callback(); err != nil {
					return err
				}
			case "e":
				if err := kit.Emit([]byte("c18-out\n"), []byte("c18-err\n")); err != nil {
					return err
				}
			case "p":
				if err := getCP(); err != nil {
					return err
				}
				if err := cp.Ping(); err != nil {
					return err
				}
			}
		}
		if c.lns > 0 {
			stage = "open-listeners"
			if kit == nil {
				if err := dispense(); err != nil {
					return err
				}
			}
			if l, ok := kit.(interface{ Listeners(n int) error }); ok {
				if err := l.Listeners(c.lns); err != nil {
					return err
				}
			}
		}
		if c.flash > 0 {
			stage = "flash-listeners"
			if kit == nil {
				if err := dispense(); err != nil {
					return err
				}
			}
			if l, ok := kit.(interface{ FlashListeners(n int) error }); ok {
				if err := l.FlashListeners(c.flash); err != nil {
					return err
				}
			}
		}
		if c.dup {
			stage = "dup-advert"
			if kit == nil {
				if err := dispense(); err != nil {
					return err
				}
			}
			if l, ok := kit.(interface{ DupAdvert() error }); ok {
				if err := l.DupAdvert(); err != nil {
					return err
				}
				time.Sleep(300 * time.Millisecond) // both advertisements have reached the host's broker
			}
		}
		if c.pre == "close" {
			// the host is done with the plugin before it gets round to Kill: it closes the protocol client
			// (which asks the plugin to shut down) and sees the plugin exit
			stage = "pre-close"
			if err := getCP(); err != nil {
				return err
			}
			// (its result is not the point here: on net/rpc it may report the connection as already shut down when the
			// plugin is gone before the remaining streams are closed; what matters is that the plugin exits)
			_ = cp.Close()
			stage = "pre-close-exit"
			for dl := time.Now().Add(10 * time.Second); !client.Exited(); {
				if time.Now().After(dl) {
					return errors.New("plugin did not exit within 10 s of ClientProtocol.Close")
				}
				time.Sleep(5 * time.Millisecond)
			}
		}
		return nil
	})
	switch {
	case hung:
		return "err stage=" + stage + "-hang", "FAIL:session-hang", notes
	case pnc != nil:
		return "err stage=" + stage + "-panic", "FAIL:session-panic", append(notes, fmt.Sprint(pnc))
	case opErr != nil:
		return "err stage=" + stage, "FAIL:session-error", append(notes, opErr.Error())
	}
	pid := 0
	if p := proc(); p != nil {
		pid = p.Pid
	}

	_, hung, pnc = withTimeout(45*time.Second, func() error { client.Kill(); return nil })
	killed = true
	tKill := time.Now()
	if hung || pnc != nil {
		return "err stage=kill", "FAIL:kill-hang-or-panic", notes
	}
	if pid != 0 && !c18PidGone(pid, 5*time.Second) {
		return "err stage=process-alive", "FAIL:process-alive-after-kill", notes
	}
	// (pre=close: the plugin exited by itself, on request, before Kill was called — that is the graceful exit;
	// that Kill afterwards "kills" the recorded, already reaped process says nothing about it)
	if c.pre == "" && client.VerifKilled() {
		// not a graceful exit: outside the property's premise (C04 is about this)
		return "forced", "ok", append(notes, "plugin had to be killed: not a graceful exit")
	}

	// ---- files: listed when Kill has returned (the plugin side is final then) and again 3 s later
	// (the host's AcceptAndServe goroutines close their listeners asynchronously)
	list := func() ([]string, []string) {
		left := map[string]bool{}
		var detail []string
		c18List(hostDir, mainSock, "host", left, &detail)
		c18List(plugDir, mainSock, "plugin", left, &detail)
		var files []string
		for k := range left {
			files = append(files, k)
		}
		sort.Strings(files)
		return files, detail
	}
	filesAtKill, _ := list()
	time.Sleep(time.Until(tKill.Add(3 * time.Second)))
	files, detail := list()
	if len(filesAtKill) != len(files) {
		notes = append(notes, fmt.Sprintf("present when Kill returned: %s; 3 s later: %s", joinSet(filesAtKill), joinSet(files)))
	}

	// ---- goroutines: 3 s after Kill; a broker's timeoutWait (5 s timer) may live until 6 s after Kill
	gs := c18Goroutines()
	gor := c18GorSet(gs, true)
	if len(gs) > 0 {
		for _, g := range gs {
			detail = append(detail, fmt.Sprintf("goroutine@3s %s in %s", g.desc, g.where))
		}
		time.Sleep(time.Until(tKill.Add(6 * time.Second)))
		gs6 := c18Goroutines()
		for _, g := range gs6 {
			detail = append(detail, fmt.Sprintf("goroutine@6s %s in %s", g.desc, g.where))
		}
		seen := map[string]bool{}
		for _, g := range gor {
			seen[g] = true
		}
		for _, g := range c18GorSet(gs6, false) {
			if !seen[g] {
				gor = append(gor, g)
			}
		}
		sort.Strings(gor)
	}

	impl = fmt.Sprintf("ok left=%s gor=%s", joinSet(files), joinSet(gor))
	pred = "ok"
	switch {
	case len(files) > 0:
		pred = fmt.Sprintf("FAIL:left:%s:%s", strings.Join(files, "+"), c.cfgName())
	case len(gor) > 0:
		pred = fmt.Sprintf("FAIL:goroutine:%s:%s", strings.Join(gor, "+"), c.cfgName())
	}
	if pred != "ok" {
		notes = append(notes, detail...)
	}
	return impl, pred, notes
}

// ---------------------------------------------------------------- generation + driver

var c18Ops = []string{"d", "c", "e", "p"}

func c18Configs() []c18Case {
	var cs []c18Case
	for _, launch := range []string{"cmd", "runner"} {
		for _, pm := range []struct {
			proto string
			mux   bool
		}{{"netrpc", false}, {"grpc", false}, {"grpc", true}, {"netrpc", true}} {
			for _, auto := range []bool{false, true} {
				cs = append(cs, c18Case{proto: pm.proto, mux: pm.mux, auto: auto, launch: launch})
			}
		}
	}
	return cs
}

func c18RandomOps(r *rng) []string {
	n := r.intn(7)
	ops := make([]string, n)
	for i := range ops {
		// callbacks (the only op creating sockets and broker goroutines) are favoured
		if r.intn(3) == 0 {
			ops[i] = "c"
		} else {
			ops[i] = pick(r, c18Ops)
		}
	}
	return ops
}

func c18Generate(r *rng) []*c18Case {
	cfgs := c18Configs()
	var cases []*c18Case
	add := func(cf c18Case, ops []string, procs int) {
		c := cf
		c.ops = ops
		c.procs = procs
		cases = append(cases, &c)
	}
	// fixed: the witness histories of the model's negative theorems (Kill right after Start, and one of everything)
	for i, cf := range cfgs {
		if cf.proto == "netrpc" && cf.mux { // multiplexing has no effect on net/rpc: sampled once per launch below
			continue
		}
		if !cf.auto {
			add(cf, nil, 0)
		}
		if cf.auto || i%2 == 0 {
			// a single-CPU plugin when AutoMTLS is on: what is left to a goroutine racing the plugin's exit then loses reproducibly
			add(cf, []string{"d", "c", "e", "p", "c", "d"}, map[bool]int{false: 0, true: 1}[cf.auto])
		}
	}
	// the plugin has ALREADY exited when Kill is called (the host closed the protocol client itself): Kill's own
	// clean-up duties (socket directory of a RunnerFunc launch, waiting for the client's goroutines) remain
	for _, cf := range cfgs {
		if cf.auto || (cf.proto == "netrpc" && cf.mux) {
			continue
		}
		if cf.launch == "runner" {
			c := cf
			c.pre = "close"
			add(c, nil, 0)
			add(c, []string{"d", "c"}, 0)
		} else if !cf.mux {
			c := cf
			c.pre = "close"
			add(c, []string{"d", "c", "e"}, 0)
		}
	}
	// several brokered listeners still open (accepted, never served) on both sides when Kill comes
	for _, cf := range cfgs {
		if cf.proto == "grpc" && !cf.auto {
			c := cf
			c.lns = 3
			add(c, []string{"d"}, 0)
			if !cf.mux && cf.launch == "cmd" {
				c.pre = "close"
				add(c, []string{"d", "c"}, 0)
			}
		}
	}
	// brokered listeners accepted and closed at once (with and without multiplexing), then Kill
	for _, cf := range cfgs {
		if cf.proto == "grpc" && !cf.auto && cf.launch == "cmd" {
			c := cf
			c.flash = 40
			add(c, []string{"d"}, 0)
		}
	}
	// a gRPC plugin whose stdio stream ends at once with an unexpected status
	for _, cf := range cfgs {
		if cf.proto == "grpc" && !cf.auto && !cf.mux && cf.launch == "cmd" {
			c := cf
			c.stdioerr = true
			add(c, []string{"d", "p"}, 0)
		}
	}
	// one brokered ID advertised twice by the plugin and never asked for by the host
	for _, cf := range cfgs {
		if !cf.auto && !cf.mux && cf.launch == "cmd" {
			c := cf
			c.dup = true
			add(c, []string{"d"}, 0)
		}
	}
	n := 14
	if tier() == "thorough" {
		n = 150
	}
	if v := os.Getenv("VERIF_C18_N"); v != "" {
		fmt.Sscanf(v, "%d", &n)
	}
	// random histories: gRPC (the protocol with socket files and broker goroutines) twice as often as net/rpc
	var weighted []c18Case
	for _, cf := range cfgs {
		weighted = append(weighted, cf)
		if cf.proto == "grpc" {
			weighted = append(weighted, cf, cf)
		}
	}
	for i := 0; i < n; i++ {
		q := r.fork(uint64(i))
		cf := weighted[q.intn(len(weighted))]
		ops := c18RandomOps(q)
		procs := map[bool]int{false: 0, true: 1}[q.intn(3) == 0]
		if q.intn(4) == 0 { // (drawn after everything else: the other cases of a seed stay what they were)
			cf.pre = "close"
		}
		add(cf, ops, procs)
	}
	return cases
}

// c18Child runs one case in a fresh host process and returns its rows and notes.
func c18Child(line string) (rows [][3]string, notes []string, err error) {
	cmd := exec.Command(selfExe(), "host", "C18", "--replay", line)
	cmd.Env = append(os.Environ(), "C18_ATTEMPTS=1")
	cmd.Stderr = io.Discard
	cmd.SysProcAttr = &syscall.SysProcAttr{Setpgid: true}
	outPipe, err := cmd.StdoutPipe()
	if err != nil {
		return nil, nil, err
	}
	if err := cmd.Start(); err != nil {
		return nil, nil, err
	}
	done := make(chan struct{})
	var data []byte
	go func() { data, _ = io.ReadAll(outPipe); close(done) }()
	select {
	case <-done:
	case <-time.After(150 * time.Second):
		syscall.Kill(-cmd.Process.Pid, syscall.SIGKILL)
		<-done
		err = errors.New("host process for the session timed out")
	}
	cmd.Wait()
	syscall.Kill(-cmd.Process.Pid, syscall.SIGKILL) // any plugin process it left behind
	for _, l := range strings.Split(string(data), "\n") {
		if strings.HasPrefix(l, "# ") {
			notes = append(notes, l[2:])
			continue
		}
		if p := strings.Split(l, "\t"); len(p) == 3 {
			rows = append(rows, [3]string{p[0], p[1], p[2]})
		}
	}
	if err == nil && len(rows) == 0 {
		err = errors.New("host process for the session printed no result")
	}
	return rows, notes, err
}

func hostC18(o *out, replay string) {
	if replay != "" {
		_, m := kvLine(replay)
		c, err := c18FromLine(m)
		if err != nil {
			o.emit(replay, "bad-case", "FAIL:bad-replay-case")
			return
		}
		// A plain replay repeats the session until the predicate fails (leftovers that depend on a race
		// inside the plugin do not show on every run); the per-session host processes of a full run
		// (C18_ATTEMPTS=1) run it once.  A plugin that needed SIGKILL is outside the premise: retried.
		attempts := 5
		if v := os.Getenv("C18_ATTEMPTS"); v != "" {
			fmt.Sscanf(v, "%d", &attempts)
		}
		var impl, pred string
		var notes []string
		forcedSeen := 0
		for attempt := 0; attempt < attempts+forcedSeen && attempt < attempts+2; attempt++ {
			impl, pred, notes = c18Session(c)
			if impl == "forced" {
				forcedSeen++
				continue
			}
			if pred != "ok" {
				break
			}
		}
		for _, n := range notes {
			o.note("%s: %s", c.line(), n)
		}
		line := c.line()
		if impl == "forced" {
			line = "!" + line
		}
		o.emit(line, impl, pred)
		return
	}

	r := newRng(seedFromEnv())
	cases := c18Generate(r)
	type res struct {
		rows  [][3]string
		notes []string
		err   error
	}
	results := make([]res, len(cases))
	workers := 10
	if n := runtime.NumCPU(); n < workers {
		workers = n
	}
	t0 := time.Now()
	parallel(len(cases), workers, func(i int) {
		rows, notes, err := c18Child(cases[i].line())
		results[i] = res{rows, notes, err}
	})
	hist := map[string]int{}
	opCount := map[string]int{}
	forced := 0
	for i, c := range cases {
		rs := results[i]
		if rs.err != nil {
			o.emit("!"+c.line(), "err stage=host-process", "FAIL:session-host-process")
			o.note("%s: %v", c.line(), rs.err)
			continue
		}
		for _, n := range rs.notes {
			o.note("%s", n)
		}
		for _, row := range rs.rows {
			o.emit(row[0], row[1], row[2])
			if row[1] == "forced" {
				forced++
			}
		}
		hist[c.cfgName()+map[bool]string{false: "", true: "+mtls"}[c.auto]]++
		for _, op := range c.ops {
			opCount[op]++
		}
	}
	var ks []string
	for k, v := range hist {
		ks = append(ks, fmt.Sprintf("%s=%d", k, v))
	}
	sort.Strings(ks)
	preClose := 0
	for _, c := range cases {
		if c.pre == "close" {
			preClose++
		}
	}
	o.note("sessions=%d (one host process each; %d with the plugin shut down through ClientProtocol.Close and exited before Kill) configs: %s",
		len(cases), preClose, strings.Join(ks, " "))
	// two custom-runner clients configured with the same UnixSocketConfig value
	for _, proto := range []string{"netrpc", "grpc"} {
		impl, pred := runSharedUSC(proto)
		o.emit("!C18.shared-usc proto="+proto, impl, pred)
	}
	o.note("ops: dispense+Double=%d callback(both directions)=%d emit=%d ping=%d; sessions whose plugin needed SIGKILL (outside the premise)=%d; wall=%.0fs",
		opCount["d"], opCount["c"], opCount["e"], opCount["p"], forced, time.Since(t0).Seconds())
}
