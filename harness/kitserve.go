package main

// Plugin role: `gpv plugin kit` — a real plugin.Serve configured from the
// GPV_PLUGIN_CFG environment variable (JSON), and the host-side helper that
// launches it.

import (
	"crypto/ecdsa"
	"crypto/elliptic"
	"crypto/rand"
	"crypto/tls"
	"crypto/x509"
	"crypto/x509/pkix"
	"encoding/json"
	"encoding/pem"
	"fmt"
	"google.golang.org/grpc"
	"google.golang.org/grpc/codes"
	"google.golang.org/grpc/status"
	"math/big"
	"os"
	"os/exec"
	"strconv"
	"strings"
	"time"

	plugin "github.com/hashicorp/go-plugin"
)

const (
	kitCookieKey = "GPV_COOKIE"
	kitCookieVal = "gpv-cookie-value"
)

// kitServeCfg configures the plugin process.
type kitServeCfg struct {
	// Sets: application protocol version -> "netrpc" | "grpc".  The plugin set
	// registered under version v has tag v (so Double(0) == v tells which set answered).
	Sets map[string]string `json:"sets,omitempty"`
	// Legacy: ServeConfig.ProtocolVersion + ServeConfig.Plugins (tag = 1000+version).
	LegacyVersion int    `json:"legacy_version,omitempty"`
	LegacyProto   string `json:"legacy_proto,omitempty"`
	// GRPCServer: set ServeConfig.GRPCServer (needed for any grpc set).
	GRPCServer bool `json:"grpc_server,omitempty"`
	// StdioStatus "internal": the plugin's GRPCStdio/StreamStdio call ends at once with the status code Internal (what a
	// plugin in another language, server middleware or a proxy in between may answer)
	StdioStatus string `json:"stdio_status,omitempty"`
	// TLS: "" | "static" (TLSProvider using CertPEM/KeyPEM, requiring and verifying client certs from the same cert)
	TLS     string `json:"tls,omitempty"`
	CertPEM string `json:"cert_pem,omitempty"`
	KeyPEM  string `json:"key_pem,omitempty"`
	// Cookie the plugin's ServeConfig expects (defaults to the kit cookie).
	CookieKey string `json:"cookie_key"`
	CookieVal string `json:"cookie_val"`
	// AfterServe: what the process does once Serve returns: "" (exit 0) | "hang" | "delay:<ms>"
	AfterServe string `json:"after_serve,omitempty"`
	// Marker: file written by deferred cleanup after Serve returned (proves graceful exit).
	Marker string `json:"marker,omitempty"`
	// NoMuxAdvert: behave like a plugin built before broker multiplexing existed: ignore PLUGIN_MULTIPLEX_GRPC
	NoMuxAdvert bool `json:"no_mux_advert,omitempty"`
	// NoAutoMTLS: behave like a plugin that does not implement AutoMTLS (built against an old go-plugin, or
	// not written in Go): ignore PLUGIN_CLIENT_CERT — no certificate in the handshake line, plaintext listener
	NoAutoMTLS bool `json:"no_auto_mtls,omitempty"`
	// PreServe: "" | "exit:<code>" | "sleep:<ms>" | "print:<hex bytes>" (then continue) | "printexit:<hex>" | "printhang:<hex>" | "closehang:<hex>"
	PreServe string `json:"pre_serve,omitempty"`
}

func init() {
	registerPlugin("kit", pluginKit)
}

func kitSets(cfg *kitServeCfg) (map[int]plugin.PluginSet, plugin.PluginSet) {
	mk := func(proto string, tag int) plugin.PluginSet {
		// ("plugin-only": a name the plugin serves and the HOST's set does not have)
		if proto == "grpc" {
			return plugin.PluginSet{"kit": &kitGRPCPlugin{kitPlugin{tag: tag}}, "plugin-only": &kitGRPCPluginOnly{}}
		}
		return plugin.PluginSet{"kit": &kitPlugin{tag: tag}, "plugin-only": &kitPlugin{tag: tag}}
	}
	var vp map[int]plugin.PluginSet
	if len(cfg.Sets) > 0 {
		vp = map[int]plugin.PluginSet{}
		for vs, proto := range cfg.Sets {
			v, err := strconv.Atoi(vs)
			if err != nil {
				continue
			}
			vp[v] = mk(proto, v)
		}
	}
	var legacy plugin.PluginSet
	if cfg.LegacyProto != "" {
		legacy = mk(cfg.LegacyProto, 1000+cfg.LegacyVersion)
	}
	return vp, legacy
}

func pluginKit(args []string) {
	var cfg kitServeCfg
	if err := json.Unmarshal([]byte(os.Getenv("GPV_PLUGIN_CFG")), &cfg); err != nil {
		fmt.Fprintln(os.Stderr, "gpv plugin kit: bad GPV_PLUGIN_CFG:", err)
		os.Exit(2)
	}
	switch {
	case hasPrefix(cfg.PreServe, "exit:"):
		c, _ := strconv.Atoi(cfg.PreServe[5:])
		os.Exit(c)
	case hasPrefix(cfg.PreServe, "sleep:"):
		ms, _ := strconv.Atoi(cfg.PreServe[6:])
		time.Sleep(time.Duration(ms) * time.Millisecond)
	case hasPrefix(cfg.PreServe, "printexit:"):
		os.Stdout.Write(unhx(cfg.PreServe[10:]))
		os.Exit(0)
	case hasPrefix(cfg.PreServe, "printhang:"):
		os.Stdout.Write(unhx(cfg.PreServe[10:]))
		time.Sleep(time.Hour)
	case hasPrefix(cfg.PreServe, "closehang:"):
		// writes the bytes, CLOSES both standard streams and stays alive (a daemon-style start that went wrong)
		os.Stdout.Write(unhx(cfg.PreServe[10:]))
		os.Stdout.Close()
		os.Stderr.Close()
		time.Sleep(time.Hour)
	case hasPrefix(cfg.PreServe, "print:"):
		os.Stdout.Write(unhx(cfg.PreServe[6:]))
	}
	if cfg.NoMuxAdvert {
		os.Unsetenv("PLUGIN_MULTIPLEX_GRPC")
	}
	if cfg.NoAutoMTLS {
		os.Unsetenv("PLUGIN_CLIENT_CERT")
	}
	vp, legacy := kitSets(&cfg)
	sc := &plugin.ServeConfig{
		HandshakeConfig: plugin.HandshakeConfig{
			ProtocolVersion:  uint(cfg.LegacyVersion),
			MagicCookieKey:   cfg.CookieKey,
			MagicCookieValue: cfg.CookieVal,
		},
		VersionedPlugins: vp,
		Plugins:          legacy,
	}
	if cfg.GRPCServer {
		sc.GRPCServer = plugin.DefaultGRPCServer
		if cfg.StdioStatus == "internal" {
			sc.GRPCServer = func(opts []grpc.ServerOption) *grpc.Server {
				return grpc.NewServer(append(opts, grpc.StreamInterceptor(func(srv interface{}, ss grpc.ServerStream, info *grpc.StreamServerInfo, handler grpc.StreamHandler) error {
					if strings.HasSuffix(info.FullMethod, "/StreamStdio") {
						return status.Error(codes.Internal, "stdio is not available from this plugin")
					}
					return handler(srv, ss)
				}))...)
			}
		}
	}
	if cfg.TLS == "static" {
		sc.TLSProvider = func() (*tls.Config, error) { return staticTLS(cfg.CertPEM, cfg.KeyPEM) }
	}
	defer func() {
		if cfg.Marker != "" {
			os.WriteFile(cfg.Marker, []byte("clean\n"), 0o644)
		}
	}()
	plugin.Serve(sc)
	switch {
	case cfg.AfterServe == "hang":
		time.Sleep(time.Hour)
	case hasPrefix(cfg.AfterServe, "delay:"):
		ms, _ := strconv.Atoi(cfg.AfterServe[6:])
		time.Sleep(time.Duration(ms) * time.Millisecond)
	}
}

func hasPrefix(s, p string) bool { return len(s) >= len(p) && s[:len(p)] == p }

// staticTLS: one self-signed certificate used by both sides, each requiring and verifying it.
func staticTLS(certPEM, keyPEM string) (*tls.Config, error) {
	cert, err := tls.X509KeyPair([]byte(certPEM), []byte(keyPEM))
	if err != nil {
		return nil, err
	}
	pool := x509.NewCertPool()
	pool.AppendCertsFromPEM([]byte(certPEM))
	return &tls.Config{
		Certificates: []tls.Certificate{cert},
		RootCAs:      pool,
		ClientCAs:    pool,
		ClientAuth:   tls.RequireAndVerifyClientCert,
		ServerName:   "localhost",
		MinVersion:   tls.VersionTLS12,
	}, nil
}

func genStaticCert() (certPEM, keyPEM string) {
	key, err := ecdsa.GenerateKey(elliptic.P256(), rand.Reader)
	if err != nil {
		panic(err)
	}
	tpl := &x509.Certificate{
		SerialNumber: big.NewInt(time.Now().UnixNano()), Subject: pkix.Name{CommonName: "localhost"},
		NotBefore: time.Now().Add(-time.Hour), NotAfter: time.Now().Add(24 * time.Hour),
		IsCA: true, BasicConstraintsValid: true, DNSNames: []string{"localhost"},
		KeyUsage:    x509.KeyUsageDigitalSignature | x509.KeyUsageCertSign,
		ExtKeyUsage: []x509.ExtKeyUsage{x509.ExtKeyUsageClientAuth, x509.ExtKeyUsageServerAuth},
	}
	der, err := x509.CreateCertificate(rand.Reader, tpl, tpl, key.Public(), key)
	if err != nil {
		panic(err)
	}
	kb, _ := x509.MarshalECPrivateKey(key)
	return string(pem.EncodeToMemory(&pem.Block{Type: "CERTIFICATE", Bytes: der})),
		string(pem.EncodeToMemory(&pem.Block{Type: "EC PRIVATE KEY", Bytes: kb}))
}

// ---------------------------------------------------------------- host-side launcher

// selfExe is the harness binary (re-executed in plugin role).
func selfExe() string {
	if p := os.Getenv("VERIF_GPV"); p != "" {
		return p
	}
	p, err := os.Executable()
	if err != nil {
		panic(err)
	}
	return p
}

// kitCmd builds the exec.Cmd of a kit plugin process. extraEnv entries are "K=V".
func kitCmd(cfg kitServeCfg, extraEnv ...string) *exec.Cmd {
	if cfg.CookieKey == "" && cfg.CookieVal == "" {
		cfg.CookieKey, cfg.CookieVal = kitCookieKey, kitCookieVal
	}
	js, _ := json.Marshal(cfg)
	cmd := exec.Command(selfExe(), "plugin", "kit")
	cmd.Env = append([]string{"GPV_PLUGIN_CFG=" + string(js)}, extraEnv...)
	return cmd
}

// kitHostSets mirrors kitSets for the host's ClientConfig (Client side of each plugin).
func kitHostSets(sets map[int]string, onMux func(*plugin.MuxBroker), onGRPC func(*plugin.GRPCBroker)) map[int]plugin.PluginSet {
	vp := map[int]plugin.PluginSet{}
	for v, proto := range sets {
		kp := kitPlugin{tag: v, onMuxBroker: onMux, onGRPCBroker: onGRPC}
		if proto == "grpc" {
			vp[v] = plugin.PluginSet{"kit": &kitGRPCPlugin{kp}}
		} else {
			vp[v] = plugin.PluginSet{"kit": &kp}
		}
	}
	return vp
}

func kitHandshake() plugin.HandshakeConfig {
	return plugin.HandshakeConfig{MagicCookieKey: kitCookieKey, MagicCookieValue: kitCookieVal}
}

// withTimeout runs f and reports ("hang") if it does not return in d.
func withTimeout(d time.Duration, f func() error) (err error, hung bool, panicked interface{}) {
	type r struct {
		err error
		p   interface{}
	}
	ch := make(chan r, 1)
	go func() {
		var x r
		defer func() {
			if p := recover(); p != nil {
				x.p = p
			}
			ch <- x
		}()
		x.err = f()
	}()
	select {
	case x := <-ch:
		return x.err, false, x.p
	case <-time.After(d):
		return nil, true, nil
	}
}

// idleHostStdin gives the harness process (the plugin host) a stdin that is open and never delivers anything — a terminal
// nobody types on, a pipe the parent keeps open — instead of the /dev/null of a batch run, which is at EOF at once.
var idleStdinKeep []*os.File

func idleHostStdin() {
	if r, w, err := os.Pipe(); err == nil {
		idleStdinKeep = append(idleStdinKeep, r, w)
		os.Stdin = r
	}
}
