package main

// C12 — With AutoMTLS every plugin connection is mutually authenticated.
//
// LIVE correspondence.  Real AutoMTLS plugins (the kit, re-executed from this
// binary) are started through plugin.NewClient over netrpc, grpc and grpc+mux.
// An intruder (goroutines of this process) then connects to every socket the
// pair listens on —
//
//	srv rpcMain / grpcMain    the plugin's main socket
//	srv brokerPlugin          the socket of a brokered gRPC server inside the plugin (found in the plugin's TMPDIR)
//	srv brokerHost            the socket of a brokered gRPC server inside the host   (found in the host's TMPDIR)
//	srv grpcMuxMain           with GRPCBrokerMultiplex the one main socket carries a yamux session and the plugin
//	                          accepts exactly ONE connection on it: the intruder is either that first connection
//	                          (the host has not dialled yet) or a late one (when=late).  Brokered connections have
//	                          no socket of their own then, so they cannot be attacked from outside; the legitimate
//	                          brokered round trip is the control.
//
// — with each credential class (plaintext, TLS without certificate, fresh
// generateCert certificate, other names, clone of the pinned certificate on
// another key, own leaf + the pinned certificate stapled behind it, a
// certificate from a CA in the machine's system pool, the real configuration
// capped at TLS 1.0) and, as positive control, the host's real configuration.
//
//	cli …                     a scripted impostor plugin announces certificate A and serves with something else;
//	                          the host's first use (Client/Dispense/Double) must fail; announcing A and serving
//	                          with A is the control.
//
// impl = "served" | "refused"; the oracle computes the same from the symbolic
// model at the extracted facts.

import (
	"crypto/tls"
	"crypto/x509"
	"encoding/json"
	"fmt"
	"net"
	"os"
	"os/exec"
	"path/filepath"
	"sort"
	"sync"
	"time"

	plugin "github.com/hashicorp/go-plugin"
	"github.com/hashicorp/yamux"
)

func init() { register("C12", hostC12) }

type c12Env struct {
	o       *out
	work    string
	hostTmp string
	ca      *c12CA
	caCert  string
	caKey   string
	filter  string // replay: only this case line is emitted
	tmpMu   sync.Mutex
	mu      sync.Mutex
	hist    map[string]int
	nextDir int
}

func (e *c12Env) dir() string {
	e.mu.Lock()
	e.nextDir++
	d := filepath.Join(e.work, fmt.Sprintf("s%d", e.nextDir))
	e.mu.Unlock()
	os.MkdirAll(filepath.Join(d, "plug"), 0o700)
	return d
}

// cell emits one result. wantServed: the property's own expectation for this class.
func (e *c12Env) cell(tag, path, cls, extra string, served bool) {
	line := fmt.Sprintf("%s path=%s cls=%s", tag, path, cls)
	if extra != "" {
		line += " " + extra
	}
	impl := "refused"
	if served {
		impl = "served"
	}
	want := cls == "control"
	pred := "ok"
	if served && !want {
		pred = fmt.Sprintf("FAIL:%s-%s-%s-was-served", tag[4:], path, cls)
	} else if !served && want {
		pred = fmt.Sprintf("FAIL:%s-%s-legitimate-peer-refused", tag[4:], path)
	}
	e.mu.Lock()
	e.hist[tag[4:]+"/"+path+"/"+impl]++
	e.mu.Unlock()
	if e.filter != "" && e.filter != line {
		return
	}
	e.o.emit(line, impl, pred)
}

func (e *c12Env) problem(what string, err error) {
	line := "!C12.setup what=" + what
	if e.filter != "" {
		e.o.note("C12 setup problem %s: %v", what, err)
		return
	}
	e.o.note("C12 setup problem %s: %v", what, err)
	e.o.emit(line, "err", "FAIL:setup-"+what)
}

func (e *c12Env) pluginEnv(plugDir string) []string {
	return []string{"TMPDIR=" + plugDir, "SSL_CERT_FILE=" + e.caCert, "SSL_CERT_DIR=" + filepath.Join(e.work, "nocerts")}
}

func (e *c12Env) client(cmd *exec.Cmd, wire string, mux bool) *plugin.Client {
	return plugin.NewClient(&plugin.ClientConfig{
		HandshakeConfig:     kitHandshake(),
		VersionedPlugins:    kitHostSets(map[int]string{3: wire}, nil, nil),
		Cmd:                 cmd,
		AllowedProtocols:    []plugin.Protocol{plugin.ProtocolNetRPC, plugin.ProtocolGRPC},
		GRPCBrokerMultiplex: mux,
		AutoMTLS:            true,
		SkipHostEnv:         true,
		Logger:              nullLogger(),
		StartTimeout:        15 * time.Second,
	})
}

func (e *c12Env) kit(wire string, mux bool) (*plugin.Client, string) {
	d := e.dir()
	plug := filepath.Join(d, "plug")
	cmd := kitCmd(kitServeCfg{Sets: map[string]string{"3": wire}, GRPCServer: wire == "grpc"}, e.pluginEnv(plug)...)
	return e.client(cmd, wire, mux), plug
}

// use performs the host's first use of a started client.
func c12Use(c *plugin.Client) (Kit, error) {
	var k Kit
	err, hung, p := withTimeout(20*time.Second, func() error {
		cp, err := c.Client()
		if err != nil {
			return err
		}
		raw, err := cp.Dispense("kit")
		if err != nil {
			return err
		}
		k = raw.(Kit)
		v, err := k.Double(5)
		if err != nil {
			return err
		}
		if v != 13 {
			return fmt.Errorf("double=%d", v)
		}
		return nil
	})
	if hung {
		return nil, fmt.Errorf("hang")
	}
	if p != nil {
		return nil, fmt.Errorf("panic: %v", p)
	}
	return k, err
}

func c12HostCert(real *tls.Config) *x509.Certificate {
	if real == nil || len(real.Certificates) == 0 || len(real.Certificates[0].Certificate) == 0 {
		return nil
	}
	c, _ := x509.ParseCertificate(real.Certificates[0].Certificate[0])
	return c
}

// attack runs every class against one listening end in parallel.
func (e *c12Env) attack(path, extra string, classes []string, victim *x509.Certificate, real *tls.Config,
	try func(cfg *tls.Config, plain bool) bool) {
	var wg sync.WaitGroup
	for _, cls := range classes {
		cls := cls
		wg.Add(1)
		go func() {
			defer wg.Done()
			cfg, plain, err := c12Cred(cls, victim, real, e.ca)
			if err != nil {
				e.problem("cred-"+path+"-"+cls, err)
				return
			}
			e.cell("C12.srv", path, cls, extra, try(cfg, plain))
		}()
	}
	wg.Wait()
}

var c12All = append(append([]string{}, c12IntruderClasses...), "tls10", "control")

// ---------------------------------------------------------------- sessions

func (e *c12Env) sessionNetRPC(r int) {
	extra := fmt.Sprintf("r=%d", r)
	c, _ := e.kit("netrpc", false)
	defer c.Kill()
	_, err := c12Use(c)
	e.cell("C12.cli", "rpcMain", "control", extra, err == nil)
	if err != nil {
		e.o.note("C12 netrpc legitimate use failed: %v", err)
		return
	}
	addr := c.ReattachConfig().Addr.String()
	real := c.VerifTLSConfig()
	e.attack("rpcMain", extra, c12All, c12HostCert(real), real, func(cfg *tls.Config, plain bool) bool {
		conn, err := net.DialTimeout("unix", addr, c12Attempt)
		if err != nil {
			return false
		}
		return c12TryNetRPC(conn, cfg, plain)
	})
}

func (e *c12Env) sessionGRPC(r int, callbacks int) {
	extra := fmt.Sprintf("r=%d", r)
	c, plug := e.kit("grpc", false)
	defer c.Kill()
	k, err := c12Use(c)
	e.cell("C12.cli", "grpcMain", "control", extra, err == nil)
	if err != nil {
		e.o.note("C12 grpc legitimate use failed: %v", err)
		return
	}
	addr := c.ReattachConfig().Addr.String()
	real := c.VerifTLSConfig()
	hostCert := c12HostCert(real)

	// brokered round trips: each leaves one brokered server open on either side
	var hostSocks []string
	cbOK := true
	for i := 0; i < callbacks; i++ {
		e.tmpMu.Lock()
		before := unixSockets(e.hostTmp)
		err, hung, _ := withTimeout(30*time.Second, k.Callback)
		after := unixSockets(e.hostTmp)
		e.tmpMu.Unlock()
		if err != nil || hung {
			cbOK = false
			e.o.note("C12 grpc brokered round trip failed: %v hung=%v", err, hung)
		}
		for s := range after {
			if !before[s] {
				hostSocks = append(hostSocks, s)
			}
		}
	}
	var plugSocks []string
	for s := range unixSockets(plug) {
		if s != addr {
			plugSocks = append(plugSocks, s)
		}
	}
	sort.Strings(hostSocks)
	sort.Strings(plugSocks)
	// the legitimate brokered connections: plugin dialled the host's server, host dialled the plugin's
	e.cell("C12.srv", "brokerHost", "control", extra, cbOK)
	e.cell("C12.cli", "brokerPlugin", "control", extra, cbOK)
	e.cell("C12.cli", "brokerHost", "control", extra, cbOK)

	pluginCert, perr := c12PeerCert(addr, true)
	if perr != nil {
		e.o.note("C12 could not read the plugin's certificate off its main socket: %v", perr)
	}
	var wg sync.WaitGroup
	run := func(f func()) { wg.Add(1); go func() { defer wg.Done(); f() }() }
	run(func() {
		e.attack("grpcMain", extra, c12All, hostCert, real, func(cfg *tls.Config, plain bool) bool {
			return c12TryGRPC(c12DialUnix(addr), cfg, plain)
		})
	})
	if cbOK && len(plugSocks) != callbacks {
		e.problem("plugin-brokered-socket", fmt.Errorf("found %d sockets in %s besides the main one, expected %d", len(plugSocks), plug, callbacks))
	}
	if cbOK && len(hostSocks) != callbacks {
		e.problem("host-brokered-socket", fmt.Errorf("found %d new sockets in %s, expected %d", len(hostSocks), e.hostTmp, callbacks))
	}
	for i, s := range plugSocks {
		s, x := s, fmt.Sprintf("%s b=%d", extra, i)
		run(func() {
			e.attack("brokerPlugin", x, c12All, hostCert, real, func(cfg *tls.Config, plain bool) bool {
				return c12TryGRPC(c12DialUnix(s), cfg, plain)
			})
		})
	}
	for i, s := range hostSocks {
		s, x := s, fmt.Sprintf("%s b=%d", extra, i)
		run(func() {
			// the host is the server here: the intruder poses as the plugin (victim = the plugin's certificate)
			e.attack("brokerHost", x, c12IntruderClasses, pluginCert, nil, func(cfg *tls.Config, plain bool) bool {
				return c12TryGRPC(c12DialUnix(s), cfg, plain)
			})
		})
	}
	wg.Wait()
}

// sessionMuxFirst: the intruder is the FIRST (and therefore only accepted) connection on the mux main socket.
func (e *c12Env) sessionMuxFirst(r int) {
	extra := fmt.Sprintf("r=%d when=first", r)
	c, _ := e.kit("grpc", true)
	defer c.Kill()
	var addr net.Addr
	err, hung, _ := withTimeout(20*time.Second, func() error {
		a, err := c.Start()
		addr = a
		return err
	})
	if err != nil || hung || addr == nil {
		e.problem("mux-start", fmt.Errorf("%v hung=%v", err, hung))
		return
	}
	real := c.VerifTLSConfig()
	conn, err := net.DialTimeout("unix", addr.String(), c12Attempt)
	if err != nil {
		e.problem("mux-dial", err)
		return
	}
	defer conn.Close()
	yc := yamux.DefaultConfig()
	yc.LogOutput = os.Stderr
	sess, err := yamux.Client(conn, yc)
	if err != nil {
		e.problem("mux-yamux", err)
		return
	}
	defer sess.Close()
	e.attack("grpcMuxMain", extra, c12All, c12HostCert(real), real, func(cfg *tls.Config, plain bool) bool {
		return c12TryGRPC(func() (net.Conn, error) { return sess.Open() }, cfg, plain)
	})
}

// sessionMux: the legitimate host owns the yamux session; brokered traffic has no socket; late intruders.
func (e *c12Env) sessionMux(r int) {
	extra := fmt.Sprintf("r=%d", r)
	c, plug := e.kit("grpc", true)
	defer c.Kill()
	k, err := c12Use(c)
	e.cell("C12.cli", "grpcMuxMain", "control", extra, err == nil)
	if err != nil {
		e.o.note("C12 grpc+mux legitimate use failed: %v", err)
		return
	}
	addr := c.ReattachConfig().Addr.String()
	real := c.VerifTLSConfig()
	e.tmpMu.Lock()
	before := unixSockets(e.hostTmp)
	cerr, hung, _ := withTimeout(30*time.Second, k.Callback)
	after := unixSockets(e.hostTmp)
	e.tmpMu.Unlock()
	cbOK := cerr == nil && !hung
	if !cbOK {
		e.o.note("C12 grpc+mux brokered round trip failed: %v hung=%v", cerr, hung)
	}
	e.cell("C12.srv", "muxBrokerPlugin", "control", extra, cbOK)
	e.cell("C12.srv", "muxBrokerHost", "control", extra, cbOK)
	e.cell("C12.cli", "muxBrokerPlugin", "control", extra, cbOK)
	e.cell("C12.cli", "muxBrokerHost", "control", extra, cbOK)
	// multiplexed brokered connections must not have opened any socket
	extraSocks := 0
	for s := range after {
		if !before[s] {
			extraSocks++
		}
	}
	for s := range unixSockets(plug) {
		if s != addr {
			extraSocks++
		}
	}
	if e.filter == "" {
		pred := "ok"
		if extraSocks != 0 {
			pred = "FAIL:mux-brokered-connection-opened-a-socket"
		}
		e.o.emit(fmt.Sprintf("!C12.muxsockets %s", extra), fmt.Sprintf("ok extra=%d", extraSocks), pred)
	}
	e.attack("grpcMuxMain", extra+" when=late", c12IntruderClasses, c12HostCert(real), real, func(cfg *tls.Config, plain bool) bool {
		conn, err := net.DialTimeout("unix", addr, c12Attempt)
		if err != nil {
			return false
		}
		defer conn.Close()
		yc := yamux.DefaultConfig()
		yc.LogOutput = os.Stderr
		sess, err := yamux.Client(conn, yc)
		if err != nil {
			return false
		}
		defer sess.Close()
		return c12TryGRPC(func() (net.Conn, error) { return sess.Open() }, cfg, plain)
	})
}

var c12ImpostorModes = []string{"certB", "clone", "stapled", "sysca", "plain", "control", "noannounce", "noannounce-plain"}

func (e *c12Env) sessionImpostor(r int, proto, mode string) {
	extra := fmt.Sprintf("r=%d", r)
	d := e.dir()
	js, _ := json.Marshal(c12ImpostorCfg{Proto: proto, Mode: mode, CACert: e.caCert, CAKey: e.caKey})
	cmd := exec.Command(selfExe(), "plugin", "c12-impostor")
	cmd.Env = append([]string{"GPV_C12=" + string(js)}, e.pluginEnv(filepath.Join(d, "plug"))...)
	wire := "grpc"
	path := "grpcMain"
	switch proto {
	case "netrpc":
		wire, path = "netrpc", "rpcMain"
	case "grpcmux":
		path = "grpcMuxMain"
	}
	c := e.client(cmd, wire, proto == "grpcmux")
	_, err := c12Use(c)
	c.Kill()
	if mode == "noannounce" || mode == "noannounce-plain" {
		// no certificate came back at all: outside the model's world (it has an announced certificate);
		// the property still demands that a peer with an unrelated certificate is not talked to
		if e.filter == "" {
			pred := "ok"
			if err == nil {
				pred = "FAIL:cli-" + path + "-" + mode + "-was-served"
			}
			impl := "refused"
			if err == nil {
				impl = "served"
			}
			e.o.emit(fmt.Sprintf("!C12.cli path=%s cls=%s %s", path, mode, extra), impl, pred)
		}
		return
	}
	e.cell("C12.cli", path, mode, extra, err == nil)
}

// ---------------------------------------------------------------- scenario

func hostC12(o *out, replay string) {
	work := os.Getenv("VERIF_WORK")
	if work == "" {
		var err error
		work, err = os.MkdirTemp("", "c12")
		if err != nil {
			panic(err)
		}
		defer os.RemoveAll(work)
	}
	hostTmp := filepath.Join(work, "host")
	os.MkdirAll(hostTmp, 0o700)
	os.MkdirAll(filepath.Join(work, "nocerts"), 0o700)
	os.Setenv("TMPDIR", hostTmp) // host-side brokered sockets are created in os.TempDir()

	e := &c12Env{o: o, work: work, hostTmp: hostTmp, ca: c12NewCA(), hist: map[string]int{}, filter: replay}
	e.caCert = filepath.Join(work, "sysroots.pem")
	e.caKey = filepath.Join(work, "sysroots.key")
	os.WriteFile(e.caCert, e.ca.certPEM, 0o644)
	os.WriteFile(e.caKey, e.ca.keyPEM(), 0o600)
	// THE system root pool of this process (and of the plugins): exactly the verif CA.
	os.Setenv("SSL_CERT_FILE", e.caCert)
	os.Setenv("SSL_CERT_DIR", filepath.Join(work, "nocerts"))

	// the sysca class is only meaningful if crypto/x509 really trusts that CA by default
	if replay == "" {
		leaf := e.ca.issue()
		lc, _ := x509.ParseCertificate(leaf.Certificate[0])
		_, verr := lc.Verify(x509.VerifyOptions{DNSName: "localhost", KeyUsages: []x509.ExtKeyUsage{x509.ExtKeyUsageServerAuth}})
		pred, impl := "ok", "ok"
		if verr != nil {
			pred, impl = "FAIL:setup-system-roots-not-installed", "err"
			o.note("C12 system roots: %v", verr)
		}
		o.emit("!C12.sysroots", impl, pred)
	}

	rounds, callbacks := 1, 1
	if tier() == "thorough" {
		rounds, callbacks = 4, 2
	}
	t0 := time.Now()
	var wg sync.WaitGroup
	sem := make(chan struct{}, 12)
	run := func(f func()) {
		wg.Add(1)
		go func() {
			defer wg.Done()
			sem <- struct{}{}
			defer func() { <-sem }()
			defer func() {
				if p := recover(); p != nil {
					e.problem("panic", fmt.Errorf("%v", p))
				}
			}()
			f()
		}()
	}
	for r := 0; r < rounds; r++ {
		r := r
		run(func() { e.sessionNetRPC(r) })
		run(func() { e.sessionGRPC(r, callbacks) })
		run(func() { e.sessionMuxFirst(r) })
		run(func() { e.sessionMux(r) })
		for _, proto := range []string{"netrpc", "grpc", "grpcmux"} {
			for _, mode := range c12ImpostorModes {
				proto, mode := proto, mode
				run(func() { e.sessionImpostor(r, proto, mode) })
			}
		}
	}
	wg.Wait()

	var ks []string
	for k := range e.hist {
		ks = append(ks, k)
	}
	sort.Strings(ks)
	s := ""
	for _, k := range ks {
		s += fmt.Sprintf(" %s=%d", k, e.hist[k])
	}
	o.note("C12 tier=%s rounds=%d brokered-servers-per-side=%d wall=%.1fs; cells (role/path/outcome):%s", tier(), rounds, callbacks, time.Since(t0).Seconds(), s)
	o.note("C12 classes per listening end: %v + tls10 + control; impostor modes: %v; every session is a fresh process pair with fresh P-521 keys", c12IntruderClasses, c12ImpostorModes)
}
