package main

import (
	"bufio"
	"encoding/hex"
	"fmt"
	"io"
	"os"
	"sort"
	"strconv"
	"strings"
	"sync"

	hclog "github.com/hashicorp/go-hclog"
)

// ---------------------------------------------------------------- PRNG

// rng is SplitMix64; every random choice of a run derives from VERIF_SEED.
type rng struct{ s uint64 }

func newRng(seed uint64) *rng { return &rng{s: seed} }

func (r *rng) next() uint64 {
	r.s += 0x9e3779b97f4a7c15
	z := r.s
	z = (z ^ (z >> 30)) * 0xbf58476d1ce4e5b9
	z = (z ^ (z >> 27)) * 0x94d049bb133111eb
	return z ^ (z >> 31)
}

func (r *rng) intn(n int) int {
	if n <= 0 {
		return 0
	}
	return int(r.next() % uint64(n))
}

func (r *rng) bool() bool { return r.next()&1 == 1 }

func (r *rng) bytes(n int) []byte {
	b := make([]byte, n)
	for i := range b {
		b[i] = byte(r.next())
	}
	return b
}

// fork derives an independent stream (so that case i does not depend on how
// many choices case i-1 consumed).
func (r *rng) fork(i uint64) *rng {
	return newRng(r.s ^ (i+1)*0xd1342543de82ef95)
}

func pick[T any](r *rng, xs []T) T { return xs[r.intn(len(xs))] }

func seedFromEnv() uint64 {
	s := os.Getenv("VERIF_SEED")
	if s == "" {
		return 1
	}
	v, err := strconv.ParseInt(s, 10, 64)
	if err != nil {
		u, err2 := strconv.ParseUint(s, 10, 64)
		if err2 != nil {
			return 1
		}
		return u
	}
	return uint64(v)
}

// ---------------------------------------------------------------- wire

// hx encodes bytes for the line protocol ("-" is the empty string).
func hx(b []byte) string {
	if len(b) == 0 {
		return "-"
	}
	return hex.EncodeToString(b)
}

func hxs(s string) string { return hx([]byte(s)) }

func unhx(s string) []byte {
	if s == "-" {
		return nil
	}
	b, err := hex.DecodeString(s)
	if err != nil {
		panic("bad hex in case: " + s)
	}
	return b
}

func b01(b bool) string {
	if b {
		return "1"
	}
	return "0"
}

func joinInts(xs []int) string {
	if len(xs) == 0 {
		return "_"
	}
	ss := make([]string, len(xs))
	for i, x := range xs {
		ss[i] = strconv.Itoa(x)
	}
	return strings.Join(ss, ",")
}

func joinHex(xs []string) string {
	if len(xs) == 0 {
		return "_"
	}
	ss := make([]string, len(xs))
	for i, x := range xs {
		ss[i] = hxs(x)
	}
	return strings.Join(ss, ",")
}

// kvLine parses "tag k=v k=v" back into a map (used for --replay).
func kvLine(line string) (string, map[string]string) {
	fs := strings.Fields(line)
	m := map[string]string{}
	if len(fs) == 0 {
		return "", m
	}
	for _, f := range fs[1:] {
		if i := strings.IndexByte(f, '='); i > 0 {
			m[f[:i]] = f[i+1:]
		}
	}
	return fs[0], m
}

func splitComma(s string) []string {
	if s == "" || s == "_" {
		return nil
	}
	return strings.Split(s, ",")
}

// ---------------------------------------------------------------- output

// out collects result lines: case \t impl \t predicate.  Safe for concurrent use.
type out struct {
	mu sync.Mutex
	w  *bufio.Writer
	n  int
}

func newOut(w io.Writer) *out { return &out{w: bufio.NewWriterSize(w, 1<<20)} }

// emit writes one result. pred is "ok" or "FAIL:<reason>" — the property's own
// predicate evaluated on what the implementation did, independent of the model.
func (o *out) emit(caseLine, impl, pred string) {
	o.mu.Lock()
	defer o.mu.Unlock()
	fmt.Fprintf(o.w, "%s\t%s\t%s\n", caseLine, impl, pred)
	o.n++
}

// note writes a free-form line (prefixed '#') that the driver copies into the evidence.
func (o *out) note(format string, a ...interface{}) {
	o.mu.Lock()
	defer o.mu.Unlock()
	fmt.Fprintf(o.w, "# "+format+"\n", a...)
}

func (o *out) flush() {
	o.mu.Lock()
	defer o.mu.Unlock()
	o.w.Flush()
}

// ---------------------------------------------------------------- misc

func nullLogger() hclog.Logger {
	return hclog.New(&hclog.LoggerOptions{Output: io.Discard, Level: hclog.Error})
}

func sortedKeys(m map[int]struct{}) []int {
	var ks []int
	for k := range m {
		ks = append(ks, k)
	}
	sort.Ints(ks)
	return ks
}

func tier() string {
	if t := os.Getenv("VERIF_TIER"); t != "" {
		return t
	}
	return "quick"
}

// parallel runs f(i) for i in [0,n) on w workers.
func parallel(n, w int, f func(i int)) {
	if w < 1 {
		w = 1
	}
	var wg sync.WaitGroup
	ch := make(chan int)
	for k := 0; k < w; k++ {
		wg.Add(1)
		go func() {
			defer wg.Done()
			for i := range ch {
				f(i)
			}
		}()
	}
	for i := 0; i < n; i++ {
		ch <- i
	}
	close(ch)
	wg.Wait()
}
