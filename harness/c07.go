package main

// C07 / C08 correspondence: real in-process GRPCClient / GRPCServer pairs
// (the package's own TestPluginGRPCConn construction: real unix socket, real
// gRPC, real brokers, with or without yamux multiplexing).

import (
	"context"
	"fmt"
	"os"
	"sort"
	"strings"
	"sync"
	"sync/atomic"
	"testing"
	"time"

	plugin "github.com/hashicorp/go-plugin"
	grpctest "github.com/hashicorp/go-plugin/test/grpc"
	"google.golang.org/grpc"
	"google.golang.org/grpc/keepalive"
)

type grpcPair struct {
	client *plugin.GRPCClient
	server *plugin.GRPCServer
	host   *plugin.GRPCBroker // the host's broker (dials plugin-accepted ids, accepts for the plugin)
	plug   *plugin.GRPCBroker
}

func newGrpcPair(mux bool) (p *grpcPair, err error) {
	defer func() {
		if r := recover(); r != nil {
			err = fmt.Errorf("TestPluginGRPCConn: %v", r)
		}
	}()
	ps := map[string]plugin.Plugin{"kit": &kitGRPCPlugin{kitPlugin{tag: 1}}}
	c, s := plugin.TestPluginGRPCConn(nil, mux, ps)
	return &grpcPair{client: c, server: s, host: c.VerifBroker(), plug: s.VerifBroker()}, nil
}

func (p *grpcPair) close() {
	done := make(chan struct{})
	go func() {
		defer func() { recover(); close(done) }()
		p.client.Close()
		p.server.Stop()
	}()
	select {
	case <-done:
	case <-time.After(5 * time.Second):
	}
}

// pingKeep dials id and pings; returns the id that answered ("" on failure) and the connection (kept open by the caller).
var sharedDialOpts = append(make([]grpc.DialOption, 0, 8), grpc.WithUserAgent("gpv"))

func pingKeep(b *plugin.GRPCBroker, id uint32, timeout time.Duration) (answered string, conn *grpc.ClientConn, err error) {
	// every dial of the run passes the SAME caller-owned option slice, which has spare capacity (as a caller that builds
	// its options once with append would): concurrent dials must not write their per-id dialer into it
	conn, err = b.DialWithOptions(id, sharedDialOpts...)
	if err != nil {
		return "", nil, err
	}
	ans, err := pingConn(conn, timeout)
	return ans, conn, err
}

func pingConn(conn *grpc.ClientConn, timeout time.Duration) (string, error) {
	ctx, cancel := context.WithTimeout(context.Background(), timeout)
	defer cancel()
	resp, err := grpctest.NewPingPongClient(conn).Ping(ctx, &grpctest.PingRequest{})
	if err != nil {
		return "", err
	}
	return strings.TrimPrefix(resp.Msg, "pong-"), nil
}

// ---------------------------------------------------------------- C09 (gRPC broker, multiplexed): liveness histories

// runMuxLiveness: on one multiplexed pair, a history of unmatched / late peers on id 70.., then a fresh matched pair
// (accept first) in the same direction; role "server": the plugin accepts and the host dials, "client": the reverse.
//
//	kind "dial-unmatched":        Dial(x)+call with nobody accepting                       -> error within the window
//	kind "dial-then-late-accept": the same, and AFTER the dial has given up the other side accepts x (nobody dials again)
//	kind "accept-unmatched":      Accept(x) with nobody dialling
func runMuxLiveness(role, kind string) (impl, pred string) {
	p, err := newGrpcPair(true)
	if err != nil {
		return "setup-error", "FAIL:setup"
	}
	defer p.close()
	acceptor, dialler := p.plug, p.host
	if role == "client" {
		acceptor, dialler = p.host, p.plug
	}
	serve := func(id uint32) {
		go func() {
			defer func() { recover() }()
			servePingPong(acceptor, id)
		}()
	}
	first := "-"
	switch kind {
	case "dial-unmatched", "dial-then-late-accept":
		t0 := time.Now()
		ans, conn, err := pingKeep(dialler, 70, 7*time.Second)
		if conn != nil {
			conn.Close()
		}
		first = "err"
		if err == nil && ans != "" {
			first = "ok"
		}
		if time.Since(t0) > 9*time.Second {
			first = "slow"
		}
		if kind == "dial-then-late-accept" {
			serve(70)
			time.Sleep(500 * time.Millisecond)
		}
	case "dial-abandoned-then-late-accept":
		// the dialling side gives its connection up early (its call's deadline passes, the ClientConn is closed); the
		// listener for the id shows up while the knock is still parked on the accepting side
		_, conn, err := pingKeep(dialler, 70, 600*time.Millisecond)
		if conn != nil {
			conn.Close()
		}
		first = "err"
		if err == nil {
			first = "ok"
		}
		time.Sleep(500 * time.Millisecond)
		serve(70)
		time.Sleep(800 * time.Millisecond)
	case "accept-unmatched":
		serve(71)
		time.Sleep(300 * time.Millisecond)
	}
	// the fresh pair
	serve(80)
	time.Sleep(150 * time.Millisecond)
	ans, conn, err := pingKeep(dialler, 80, 8*time.Second)
	if conn != nil {
		defer conn.Close()
	}
	fresh := "ok"
	if err != nil || ans != "80" {
		fresh = "failed"
	}
	mainOK := true
	if err, hung, pp := withTimeout(5*time.Second, p.client.Ping); err != nil || hung || pp != nil {
		mainOK = false
	}
	impl = fmt.Sprintf("first=%s fresh=%s main=%s", first, fresh, b01(mainOK))
	pred = "ok"
	switch {
	case first == "ok":
		pred = "FAIL:unmatched-dial-succeeded"
	case first == "slow":
		pred = "FAIL:unmatched-dial-not-bounded"
	case fresh != "ok":
		pred = "FAIL:fresh-pair-failed-after-" + kind
	case !mainOK:
		pred = "FAIL:main-connection-dead"
	}
	return impl, pred
}

// runMuxAcceptorClosesMid: peer closes mid-negotiation, multiplexed, plugin accepting: the plugin accepted id 70, the
// host's knock for 70 has been acknowledged, and the plugin closes the listener BEFORE the announced stream reaches its
// main accept loop (the schedule point is the loop's `grpcmux.server.accepted`).  The dial's first call fails or not —
// what matters is that the plugin's accept loop is not wedged: a fresh pair on another id works afterwards.
// (The hook is process-wide: this cell runs while no other multiplexed pair is active.)
func runMuxAcceptorClosesMid() (impl, pred string) {
	p, err := newGrpcPair(true)
	if err != nil {
		return "setup-error", "FAIL:setup"
	}
	defer p.close()
	ln, err := p.plug.Accept(70)
	if err != nil {
		return "accept-err", "FAIL:setup-accept"
	}
	var once sync.Once
	closed := make(chan struct{})
	plugin.VerifSetPoint("grpcmux.server.accepted", func() {
		once.Do(func() {
			ln.Close()
			time.Sleep(60 * time.Millisecond) // whatever that close woke up has run before the loop looks the listener up
			close(closed)
		})
	})
	defer plugin.VerifSetPoint("grpcmux.server.accepted", nil)
	t0 := time.Now()
	ans, conn, err := pingKeep(p.host, 70, 3*time.Second)
	if conn != nil {
		conn.Close()
	}
	first := "err"
	if err == nil && ans == "70" {
		first = "ok"
	}
	if time.Since(t0) > 9*time.Second {
		first = "slow"
	}
	fired := false
	select {
	case <-closed:
		fired = true
	default:
	}
	plugin.VerifSetPoint("grpcmux.server.accepted", nil)
	go func() {
		defer func() { recover() }()
		servePingPong(p.plug, 80)
	}()
	time.Sleep(150 * time.Millisecond)
	ans, conn2, err := pingKeep(p.host, 80, 8*time.Second)
	if conn2 != nil {
		defer conn2.Close()
	}
	fresh := "ok"
	if err != nil || ans != "80" {
		fresh = "failed"
	}
	mainOK := true
	if err, hung, pp := withTimeout(5*time.Second, p.client.Ping); err != nil || hung || pp != nil {
		mainOK = false
	}
	impl = fmt.Sprintf("closed-mid=%s first=%s fresh=%s main=%s", b01(fired), first, fresh, b01(mainOK))
	switch {
	case !fired:
		return impl, "FAIL:setup-schedule-point-not-reached"
	case first == "slow":
		return impl, "FAIL:dial-not-bounded"
	case fresh != "ok":
		return impl, "FAIL:fresh-pair-failed-after-acceptor-closed-mid-negotiation"
	case !mainOK:
		return impl, "FAIL:main-connection-dead"
	}
	return impl, "ok"
}

// runMuxAcceptedNeverServed: multiplexed; one side accepts id 70 but never calls the listener's Accept() (its server is not
// started), the other side dials 70 and gives up; then the listener is closed.  A fresh pair on id 80 (accept first)
// works afterwards, in the same direction.
func runMuxAcceptedNeverServed(role string) (impl, pred string) {
	p, err := newGrpcPair(true)
	if err != nil {
		return "setup-error", "FAIL:setup"
	}
	defer p.close()
	acceptor, dialler := p.plug, p.host
	if role == "client" {
		acceptor, dialler = p.host, p.plug
	}
	ln, err := acceptor.Accept(70)
	if err != nil {
		return "accept-err", "FAIL:setup-accept"
	}
	time.Sleep(100 * time.Millisecond)
	ans, conn, err := pingKeep(dialler, 70, 1500*time.Millisecond)
	if conn != nil {
		conn.Close()
	}
	first := "err"
	if err == nil && ans == "70" {
		first = "ok"
	}
	ln.Close()
	time.Sleep(200 * time.Millisecond)
	go func() {
		defer func() { recover() }()
		servePingPong(acceptor, 80)
	}()
	time.Sleep(150 * time.Millisecond)
	ans, conn2, err := pingKeep(dialler, 80, 8*time.Second)
	if conn2 != nil {
		defer conn2.Close()
	}
	fresh := "ok"
	if err != nil || ans != "80" {
		fresh = "failed"
	}
	mainOK := true
	if err, hung, pp := withTimeout(5*time.Second, p.client.Ping); err != nil || hung || pp != nil {
		mainOK = false
	}
	impl = fmt.Sprintf("first=%s fresh=%s main=%s", first, fresh, b01(mainOK))
	switch {
	case fresh != "ok":
		return impl, "FAIL:fresh-pair-failed-after-accepted-never-served"
	case !mainOK:
		return impl, "FAIL:main-connection-dead"
	}
	return impl, "ok"
}

// runEarlyAccept: a real gRPC plugin accepts IDs 1..3 while its server is being initialised; the host attaches `delay`
// later (its broker stream starts only then) and dials each ID at once: every first call must be answered by its ID.
func runEarlyAccept(delay time.Duration) (impl, pred string) {
	base := fmt.Sprintf("%s/c07-early-%d", os.Getenv("VERIF_WORK"), os.Getpid())
	os.MkdirAll(base, 0o755)
	defer os.RemoveAll(base)
	var hb *plugin.GRPCBroker
	cmd := kitCmd(kitServeCfg{Sets: map[string]string{"3": "grpc"}, GRPCServer: true}, "TMPDIR="+base, "GPV_EARLY_ACCEPT=1,2,3")
	client := plugin.NewClient(&plugin.ClientConfig{
		HandshakeConfig:  kitHandshake(),
		VersionedPlugins: kitHostSets(map[int]string{3: "grpc"}, nil, func(b *plugin.GRPCBroker) { hb = b }),
		AllowedProtocols: []plugin.Protocol{plugin.ProtocolGRPC},
		Cmd:              cmd,
		Logger:           nullLogger(),
		StartTimeout:     10 * time.Second,
	})
	defer func() {
		withTimeout(8*time.Second, func() error { client.Kill(); return nil })
		if cmd.Process != nil {
			cmd.Process.Kill()
		}
	}()
	if _, err := client.Start(); err != nil {
		return "setup-error", "FAIL:setup-start"
	}
	time.Sleep(delay)
	cp, err := client.Client()
	if err != nil {
		return "setup-error", "FAIL:setup-client"
	}
	if _, err := cp.Dispense("kit"); err != nil || hb == nil {
		return "setup-error", "FAIL:setup-dispense"
	}
	var rs []string
	pred = "ok"
	for id := uint32(1); id <= 3; id++ {
		ans, conn, err := pingKeep(hb, id, 8*time.Second)
		if conn != nil {
			defer conn.Close()
		}
		switch {
		case err != nil:
			rs = append(rs, "err")
			pred = "FAIL:dial-of-an-id-accepted-before-the-host-attached-failed"
		case ans != fmt.Sprint(id):
			rs = append(rs, "wrong:"+ans)
			pred = "FAIL:misrouted"
		default:
			rs = append(rs, "ok")
		}
	}
	return "res=" + strings.Join(rs, ","), pred
}

// runAfterPeerGone: the plugin side of a pair is stopped (its broker stream ends); the host then uses its broker again:
// every Accept must return — with an error — within the window.
func runAfterPeerGone() (impl, pred string) {
	p, err := newGrpcPair(false)
	if err != nil {
		return "setup-error", "FAIL:setup"
	}
	defer p.close()
	p.server.Stop()
	time.Sleep(500 * time.Millisecond)
	const n = 12
	res := make(chan string, n)
	for i := 0; i < n; i++ {
		id := uint32(600 + i)
		go func() {
			done := make(chan error, 1)
			go func() {
				defer func() { recover() }()
				ln, err := p.host.Accept(id)
				if ln != nil {
					ln.Close()
				}
				done <- err
			}()
			select {
			case err := <-done:
				if err == nil {
					res <- "ok"
				} else {
					res <- "err"
				}
			case <-time.After(7 * time.Second):
				res <- "hang"
			}
		}()
	}
	cnt := map[string]int{}
	for i := 0; i < n; i++ {
		cnt[<-res]++
	}
	impl = fmt.Sprintf("err=%d ok=%d hang=%d", cnt["err"], cnt["ok"], cnt["hang"])
	if cnt["hang"] > 0 {
		return impl, "FAIL:broker-call-after-peer-gone-never-returned"
	}
	return impl, "ok"
}

// runGonePeerDial: the accepting side accepts an ID (its connection info reaches the dialling side) and goes away again —
// it closes the listener — before the other side dials the ID, with the caller's own grpc.WithBlock() among the options.
// The dial must end with an error within the window; afterwards a fresh pair works.
func runGonePeerDial(dir int) (impl, pred string) {
	p, err := newGrpcPair(false)
	if err != nil {
		return "setup-error", "FAIL:setup"
	}
	defer p.close()
	acceptor, dialler := p.plug, p.host
	if dir == 1 {
		acceptor, dialler = p.host, p.plug
	}
	ln, err := acceptor.Accept(90)
	if err != nil {
		return "setup-error", "FAIL:setup-accept"
	}
	ln.Close()
	time.Sleep(200 * time.Millisecond)
	t0 := time.Now()
	var conn *grpc.ClientConn
	derr, hung, pp := withTimeout(9*time.Second, func() error {
		var e error
		conn, e = dialler.DialWithOptions(90, grpc.WithBlock())
		return e
	})
	if conn != nil {
		conn.Close()
	}
	first := "err"
	switch {
	case hung:
		first = "hang"
	case pp != nil:
		first = "panic"
	case derr == nil:
		first = "ok"
	}
	lat := time.Since(t0)
	go func() {
		defer func() { recover() }()
		servePingPong(acceptor, 91)
	}()
	time.Sleep(150 * time.Millisecond)
	ans, c2, err := pingKeep(dialler, 91, 8*time.Second)
	if c2 != nil {
		defer c2.Close()
	}
	fresh := "ok"
	if err != nil || ans != "91" {
		fresh = "failed"
	}
	impl = fmt.Sprintf("first=%s fresh=%s", first, fresh)
	pred = "ok"
	switch {
	case first == "hang":
		pred = "FAIL:blocking-dial-to-gone-peer-never-returned"
	case first == "panic":
		pred = "FAIL:dial-panicked"
	case first == "ok":
		pred = "FAIL:dial-to-closed-listener-succeeded"
	case lat > 6500*time.Millisecond:
		pred = "FAIL:dial-to-gone-peer-not-bounded"
	case fresh != "ok":
		pred = "FAIL:fresh-pair-failed-after-gone-peer"
	}
	return impl, pred
}

// runGrpcBurst: n distinct ids accepted at the same instant (n conn-infos in flight on the broker stream at once), all
// dialled together a little later; every connection must be answered by its own id's server.
func runGrpcBurst(n int, dir int) (impl, pred string) {
	p, err := newGrpcPair(false)
	if err != nil {
		return "setup-error", "FAIL:setup"
	}
	defer p.close()
	acceptor, dialler := p.plug, p.host
	if dir == 1 {
		acceptor, dialler = p.host, p.plug
	}
	gate := make(chan struct{})
	for i := 0; i < n; i++ {
		id := uint32(5000 + i)
		go func() {
			defer func() { recover() }()
			<-gate
			servePingPong(acceptor, id)
		}()
	}
	close(gate)
	time.Sleep(400 * time.Millisecond)
	var okN, wrong, failed int32
	var wg sync.WaitGroup
	for i := 0; i < n; i++ {
		wg.Add(1)
		id := uint32(5000 + i)
		go func() {
			defer wg.Done()
			defer func() {
				if recover() != nil {
					atomic.AddInt32(&failed, 1)
				}
			}()
			ans, conn, err := pingKeep(dialler, id, 8*time.Second)
			if conn != nil {
				defer conn.Close()
			}
			switch {
			case err != nil || ans == "":
				atomic.AddInt32(&failed, 1)
			case ans != fmt.Sprint(id):
				atomic.AddInt32(&wrong, 1)
			default:
				atomic.AddInt32(&okN, 1)
			}
		}()
	}
	wg.Wait()
	impl = fmt.Sprintf("ok=%d wrong=%d failed=%d", okN, wrong, failed)
	switch {
	case wrong > 0:
		return impl, "FAIL:burst-misrouted"
	case failed > 0:
		return impl, "FAIL:burst-first-call-failed"
	}
	return impl, "ok"
}

// runBigBrokered: a 6 MiB response over a brokered connection, in both directions (the limits go-plugin lifts on the
// main connection are lifted on brokered connections too).
func runBigBrokered(mux bool) (impl, pred string) {
	p, err := newGrpcPair(mux)
	if err != nil {
		return "setup-error", "FAIL:setup"
	}
	defer p.close()
	var rs []string
	pred = "ok"
	for dir, pair := range [][2]*plugin.GRPCBroker{{p.plug, p.host}, {p.host, p.plug}} {
		acceptor, dialler := pair[0], pair[1]
		id := uint32(900 + dir)
		go func() {
			defer func() { recover() }()
			acceptor.AcceptAndServe(id, func(opts []grpc.ServerOption) *grpc.Server {
				s := grpc.NewServer(opts...)
				grpctest.RegisterPingPongServer(s, &pingPong{id: id, pad: 6 << 20})
				return s
			})
		}()
		time.Sleep(150 * time.Millisecond)
		ans, conn, err := pingKeep(dialler, id, 15*time.Second)
		if conn != nil {
			conn.Close()
		}
		r := "ok"
		if err != nil || !strings.HasPrefix(ans, fmt.Sprintf("%d/", id)) || len(ans) < 6<<20 {
			r = "failed"
			if pred == "ok" {
				pred = fmt.Sprintf("FAIL:large-response-over-brokered-connection-dir%d", dir)
			}
		}
		rs = append(rs, r)
	}
	return "dirs=" + strings.Join(rs, ","), pred
}

// runMuxRedial: a long-lived listener on one id is dialled, and dialled again `gap` later (longer than every pending
// window): the second connection must work like the first.
func runMuxRedial(role string, gap time.Duration) (impl, pred string) {
	p, err := newGrpcPair(true)
	if err != nil {
		return "setup-error", "FAIL:setup"
	}
	defer p.close()
	acceptor, dialler := p.plug, p.host
	if role == "client" {
		acceptor, dialler = p.host, p.plug
	}
	go func() {
		defer func() { recover() }()
		servePingPong(acceptor, 41)
	}()
	time.Sleep(150 * time.Millisecond)
	res := func(ans string, err error) string {
		if err != nil || ans != "41" {
			return "failed"
		}
		return "ok"
	}
	a1, c1, e1 := pingKeep(dialler, 41, 8*time.Second)
	if c1 != nil {
		defer c1.Close()
	}
	time.Sleep(gap)
	a2, c2, e2 := pingKeep(dialler, 41, 8*time.Second)
	if c2 != nil {
		defer c2.Close()
	}
	first, second := res(a1, e1), res(a2, e2)
	still := "ok"
	if c1 != nil {
		if ans, err := pingConn(c1, 3*time.Second); err != nil || ans != "41" {
			still = "broken"
		}
	}
	impl = fmt.Sprintf("first=%s second=%s earlier=%s", first, second, still)
	switch {
	case first != "ok":
		return impl, "FAIL:first-dial-failed"
	case second != "ok":
		return impl, "FAIL:second-dial-of-a-live-listener-failed"
	case still != "ok":
		return impl, "FAIL:earlier-connection-broken"
	}
	return impl, "ok"
}

// runMuxReaccept: one id is accepted, dialled and used; that brokered server is shut down (its listener closed); the same id
// is accepted AGAIN and dialled again: the second server must be the one that answers.
func runMuxReaccept(role string) (impl, pred string) {
	p, err := newGrpcPair(true)
	if err != nil {
		return "setup-error", "FAIL:setup"
	}
	defer p.close()
	acceptor, dialler := p.plug, p.host
	if role == "client" {
		acceptor, dialler = p.host, p.plug
	}
	round := func(tag string) string {
		ln, err := acceptor.Accept(43)
		if err != nil {
			return "accept-err"
		}
		srv := grpc.NewServer()
		grpctest.RegisterPingPongServer(srv, &pingPong{id: 43})
		done := make(chan struct{})
		go func() { defer close(done); srv.Serve(ln) }()
		time.Sleep(150 * time.Millisecond)
		ans, conn, err := pingKeep(dialler, 43, 8*time.Second)
		if conn != nil {
			conn.Close()
		}
		srv.Stop()
		ln.Close()
		select {
		case <-done:
		case <-time.After(3 * time.Second):
			return "serve-stuck"
		}
		if err != nil || ans != "43" {
			return "failed"
		}
		return "ok"
	}
	first := round("a")
	time.Sleep(300 * time.Millisecond)
	second := round("b")
	impl = fmt.Sprintf("first=%s second=%s", first, second)
	switch {
	case first != "ok":
		return impl, "FAIL:first-round-failed"
	case second != "ok":
		return impl, "FAIL:re-accepted-id-not-served"
	}
	return impl, "ok"
}

// runMuxDialFirstGap: dial first, accept `gap` later (inside the documented window), the dial being made `start` after
// the pair was set up — so that the gap lies at an arbitrary phase of anything that runs periodically since then: the
// parked knock is still there when the listener shows up, and the first call is answered by it.
func runMuxDialFirstGap(role string, start, gap time.Duration) (impl, pred string) {
	p, err := newGrpcPair(true)
	if err != nil {
		return "setup-error", "FAIL:setup"
	}
	defer p.close()
	acceptor, dialler := p.plug, p.host
	if role == "client" {
		acceptor, dialler = p.host, p.plug
	}
	time.Sleep(start)
	type res struct {
		ans string
		err error
	}
	ch := make(chan res, 1)
	go func() {
		ans, conn, err := pingKeep(dialler, 47, 8*time.Second)
		if conn != nil {
			conn.Close()
		}
		ch <- res{ans, err}
	}()
	time.Sleep(gap)
	go func() {
		defer func() { recover() }()
		servePingPong(acceptor, 47)
	}()
	first := "failed"
	select {
	case r := <-ch:
		if r.err == nil && r.ans == "47" {
			first = "ok"
		}
	case <-time.After(12 * time.Second):
		first = "hang"
	}
	impl = "first=" + first
	if first != "ok" {
		return impl, "FAIL:dial-first-within-window-not-served"
	}
	return impl, "ok"
}

// runMuxReconnect: a brokered connection whose transport is replaced under it (the brokered server ages its connections:
// keepalive MaxConnectionAge, so gRPC connects again by itself): the second transport of the connection dialled for id 44
// is served by the listener accepted for 44 as well — not by the main listener, and it does not take another id's place
// (id 45, established afterwards, is served by its own listener) — and the main connection keeps working.
func runMuxReconnect(role string) (impl, pred string) {
	p, err := newGrpcPair(true)
	if err != nil {
		return "setup-error", "FAIL:setup"
	}
	defer p.close()
	acceptor, dialler := p.plug, p.host
	if role == "client" {
		acceptor, dialler = p.host, p.plug
	}
	serveAging := func(id uint32) (stop func(), err error) {
		ln, err := acceptor.Accept(id)
		if err != nil {
			return nil, err
		}
		srv := grpc.NewServer(grpc.KeepaliveParams(keepalive.ServerParameters{MaxConnectionAge: 700 * time.Millisecond, MaxConnectionAgeGrace: 300 * time.Millisecond}))
		grpctest.RegisterPingPongServer(srv, &pingPong{id: id})
		go srv.Serve(ln)
		return func() { srv.Stop(); ln.Close() }, nil
	}
	res := func(want string, ans string, err error) string {
		if err != nil || ans != want {
			return "failed"
		}
		return "ok"
	}
	stop44, err := serveAging(44)
	if err != nil {
		return "accept-err", "FAIL:setup-accept"
	}
	defer stop44()
	time.Sleep(150 * time.Millisecond)
	ans, conn, err := pingKeep(dialler, 44, 8*time.Second)
	if conn != nil {
		defer conn.Close()
	}
	first := res("44", ans, err)
	if first != "ok" {
		return "first=failed", "FAIL:first-call-failed"
	}
	time.Sleep(2200 * time.Millisecond) // the first transport has been retired (age + grace, with gRPC's ±10% jitter)
	ans, err = pingConn(conn, 6*time.Second)
	second := res("44", ans, err)
	// another id, afterwards, accept first
	stop45, err := serveAging(45)
	if err != nil {
		return "accept-err", "FAIL:setup-accept"
	}
	defer stop45()
	time.Sleep(150 * time.Millisecond)
	ans, conn2, err := pingKeep(dialler, 45, 8*time.Second)
	if conn2 != nil {
		defer conn2.Close()
	}
	other := res("45", ans, err)
	mainOK := true
	if err, hung, pp := withTimeout(5*time.Second, p.client.Ping); err != nil || hung || pp != nil {
		mainOK = false
	}
	impl = fmt.Sprintf("first=%s second=%s other=%s main=%s", first, second, other, b01(mainOK))
	switch {
	case second != "ok":
		return impl, "FAIL:reconnected-transport-not-served-by-its-listener"
	case other != "ok":
		return impl, "FAIL:later-id-not-served-by-its-listener"
	case !mainOK:
		return impl, "FAIL:main-connection-dead"
	}
	return impl, "ok"
}

// runMuxIdZero: a caller-chosen broker ID of 0 (IDs need not come from NextId) is an ID like any other: its listener is
// reached, and the main connection keeps working.
func runMuxIdZero(role string) (impl, pred string) {
	p, err := newGrpcPair(true)
	if err != nil {
		return "setup-error", "FAIL:setup"
	}
	defer p.close()
	acceptor, dialler := p.plug, p.host
	if role == "client" {
		acceptor, dialler = p.host, p.plug
	}
	go func() {
		defer func() { recover() }()
		servePingPong(acceptor, 0)
	}()
	time.Sleep(150 * time.Millisecond)
	ans, conn, err := pingKeep(dialler, 0, 8*time.Second)
	if conn != nil {
		defer conn.Close()
	}
	first := "ok"
	if err != nil || ans != "0" {
		first = "failed"
	}
	mainOK := true
	if err, hung, pp := withTimeout(5*time.Second, p.client.Ping); err != nil || hung || pp != nil {
		mainOK = false
	}
	impl = fmt.Sprintf("id0=%s main=%s", first, b01(mainOK))
	switch {
	case first != "ok":
		return impl, "FAIL:id-zero-not-routed-to-its-listener"
	case !mainOK:
		return impl, "FAIL:main-connection-dead"
	}
	return impl, "ok"
}

// ---------------------------------------------------------------- C07: timed histories, no multiplexing

func runGrpcHistory(h *history) ([]opResult, error) {
	p, err := newGrpcPair(false)
	if err != nil {
		return nil, err
	}
	defer p.close()
	res := make([]opResult, len(h.ops))
	slips := make([]int64, len(h.ops)) // written by the op goroutines (accepts included), read after the wait below
	var wg sync.WaitGroup
	start := time.Now()
	deadline := start.Add(time.Duration(h.horizon()) * time.Millisecond)
	var conns []*grpc.ClientConn
	var mu sync.Mutex
	for i := range h.ops {
		o := h.ops[i]
		acceptor, dialler := p.plug, p.host
		if o.dir == 1 {
			acceptor, dialler = p.host, p.plug
		}
		if o.kind == 'a' {
			res[i].res = "ok"
			go func(i int) {
				time.Sleep(time.Until(start.Add(time.Duration(o.at) * time.Millisecond)))
				atomic.StoreInt64(&slips[i], time.Since(start).Milliseconds()-int64(o.at))
				defer func() { recover() }()
				servePingPong(acceptor, o.id)
			}(i)
			continue
		}
		wg.Add(1)
		go func(i int) {
			defer wg.Done()
			time.Sleep(time.Until(start.Add(time.Duration(o.at) * time.Millisecond)))
			atomic.StoreInt64(&slips[i], time.Since(start).Milliseconds()-int64(o.at))
			type r struct {
				ans string
				c   *grpc.ClientConn
				err error
				p   interface{}
			}
			ch := make(chan r, 1)
			go func() {
				var x r
				defer func() {
					if pp := recover(); pp != nil {
						x.p = pp
					}
					ch <- x
				}()
				x.ans, x.c, x.err = pingKeep(dialler, o.id, 4*time.Second)
			}()
			select {
			case x := <-ch:
				if x.c != nil {
					mu.Lock()
					conns = append(conns, x.c)
					mu.Unlock()
				}
				switch {
				case x.p != nil:
					res[i].res = "panic"
				case x.err != nil:
					res[i].res = "err"
				case x.ans == fmt.Sprint(o.id):
					res[i].res = "ok"
				default:
					res[i].res = "wrong"
					res[i].cross = fmt.Sprintf("dialled-%d-answered-by-%s", o.id, x.ans)
				}
			case <-time.After(time.Until(deadline)):
				res[i].res = "hang"
			}
		}(i)
	}
	wg.Wait()
	for _, c := range conns {
		c.Close()
	}
	for i := range res {
		res[i].slip = int(atomic.LoadInt64(&slips[i]))
	}
	return res, nil
}

func grpcMotifs() []motif {
	m := func(name string, ops ...hop) motif { return motif{name, ops} }
	return []motif{
		m("acc-first-50", hop{0, 'a', 0, 0, "matched"}, hop{50, 'd', 0, 0, "matched"}),
		m("acc-first-1000", hop{0, 'a', 0, 0, "matched"}, hop{1000, 'd', 0, 0, "matched"}),
		m("acc-first-3500", hop{0, 'a', 0, 0, "matched"}, hop{3500, 'd', 0, 0, "matched"}),
		m("dial-first-50", hop{0, 'd', 0, 0, "matched"}, hop{50, 'a', 0, 0, "matched"}),
		m("dial-first-1000", hop{0, 'd', 0, 0, "matched"}, hop{1000, 'a', 0, 0, "matched"}),
		m("dial-first-3500", hop{0, 'd', 0, 0, "matched"}, hop{3500, 'a', 0, 0, "matched"}),
		m("unmatched-dial", hop{0, 'd', 0, 0, "unmatched"}),
		m("late-dial", hop{0, 'a', 0, 0, "unmatched"}, hop{6500, 'd', 0, 0, "unmatched"}),
		m("late-accept", hop{0, 'd', 0, 0, "unmatched"}, hop{6500, 'a', 0, 0, "unmatched"}),
		m("two-ids-crossed", hop{0, 'a', 0, 0, "matched"}, hop{0, 'a', 1, 0, "matched"}, hop{200, 'd', 1, 0, "matched"}, hop{300, 'd', 0, 0, "matched"}),
		m("dup-accept", hop{0, 'a', 0, 0, "unmatched"}, hop{60, 'a', 0, 0, "unmatched"}),
		m("three-ids", hop{0, 'a', 0, 0, "matched"}, hop{10, 'a', 1, 0, "matched"}, hop{20, 'a', 2, 0, "matched"}, hop{400, 'd', 2, 0, "matched"}, hop{400, 'd', 0, 0, "matched"}, hop{400, 'd', 1, 0, "matched"}),
		// a dial that timed out, retried, and then matched by a late accept (the timed-out dial's slot is reused)
		m("redial-after-timeout", hop{0, 'd', 0, 0, "unmatched"}, hop{5400, 'd', 0, 0, "matched"}, hop{5800, 'a', 0, 0, "matched"}),
		m("reaccept-after-timeout", hop{0, 'a', 0, 0, "unmatched"}, hop{5400, 'a', 0, 0, "matched"}, hop{5800, 'd', 0, 0, "matched"}),
	}
}

func grpcPredicate(h *history, res []opResult) string {
	for i, o := range h.ops {
		r := res[i]
		if o.kind == 'a' {
			continue
		}
		switch {
		case r.res == "panic":
			return fmt.Sprintf("FAIL:panic-op%d", i)
		case r.res == "wrong":
			return "FAIL:misrouted:" + r.cross
		case r.res == "hang":
			return "FAIL:dial-never-returned"
		case o.role == "matched" && r.res != "ok":
			return "FAIL:matched-dial-" + r.res
		case o.role == "fresh" && r.res != "ok":
			return "FAIL:fresh-dial-" + r.res
		}
	}
	return "ok"
}

func emitGrpcHistory(o *out, h *history, res []opResult, err error) {
	if err != nil {
		o.emit("!C07 name="+h.name, "setup-error", "FAIL:setup:"+strings.ReplaceAll(err.Error(), " ", "_"))
		return
	}
	pred := grpcPredicate(h, res)
	for dir := 0; dir < 2; dir++ {
		cl := h.caseLine("C07", dir)
		if cl == "" {
			continue
		}
		var rs []string
		for i, op := range h.ops {
			if op.dir == dir && op.kind == 'd' {
				rs = append(rs, res[i].res)
			}
		}
		o.emit(cl, "res="+strings.Join(rs, ","), pred)
	}
}

func init() {
	register("C07", func(o *out, replay string) {
		if replay != "" {
			_, m := kvLine(replay)
			h := historyFromLine(m)
			res, err := runGrpcHistory(h)
			emitGrpcHistory(o, h, res, err)
			return
		}
		r := newRng(seedFromEnv())
		ms := grpcMotifs()
		n := 30
		if tier() == "thorough" {
			n = 300
		}
		if v := os.Getenv("VERIF_C07_N"); v != "" {
			fmt.Sscanf(v, "%d", &n)
		}
		var hs []*history
		for i := 0; i < n; i++ {
			q := r.fork(uint64(i))
			hs = append(hs, compose(fmt.Sprintf("g%d", i), q, ms, 1+q.intn(5), q.intn(3) == 0))
		}
		// liveness of the conn-info loop: duplicate accepts nobody dials, then a fresh pair in each direction
		for i := 0; i < 4; i++ {
			q := r.fork(uint64(1000 + i))
			hs = append(hs, compose(fmt.Sprintf("gd%d", i), q, []motif{ms[10], ms[6], ms[12], ms[13]}, 2+q.intn(2), true))
		}
		// the two directions have ID spaces of their own (every broker's NextId counts from 1): the same NUMBER in flight in
		// both directions at once, dial-first and accept-first
		hs = append(hs, &history{name: "same-number-dial-first", ops: []hop{
			{0, 'd', 400, 0, "matched"}, {300, 'a', 400, 1, "matched"}, {600, 'a', 400, 0, "matched"}, {700, 'd', 400, 1, "matched"}}})
		hs = append(hs, &history{name: "same-number-accept-first", ops: []hop{
			{0, 'a', 401, 0, "matched"}, {300, 'a', 401, 1, "matched"}, {600, 'd', 401, 0, "matched"}, {700, 'd', 401, 1, "matched"}}})
		hs = append(hs, &history{name: "same-number-mirrored", ops: []hop{
			{0, 'a', 402, 1, "matched"}, {300, 'a', 402, 0, "matched"}, {600, 'd', 402, 1, "matched"}, {700, 'd', 402, 0, "matched"},
			{900, 'd', 403, 1, "matched"}, {1200, 'a', 403, 0, "matched"}, {1500, 'a', 403, 1, "matched"}, {1600, 'd', 403, 0, "matched"}}})
		results := make([][]opResult, len(hs))
		errs := make([]error, len(hs))
		parallel(len(hs), 32, func(i int) { results[i], errs[i] = stableHistory(hs[i], runGrpcHistory) })
		settleDisturbed(hs, results, errs, runGrpcHistory)
		for i, h := range hs {
			emitGrpcHistory(o, h, results[i], errs[i])
		}
		for dir := 0; dir < 2; dir++ {
			impl, pred := runGrpcBurst(120, dir)
			o.emit(fmt.Sprintf("!C07.burst n=120 dir=%d", dir), impl, pred)
		}
		// accepts issued by the plugin BEFORE the host has attached (its broker stream is not up yet)
		{
			impl, pred := runEarlyAccept(2 * time.Second)
			o.emit("!C07.early-accept delay=2000 ids=1,2,3", impl, pred)
		}
		// the premise "distinct IDs": concurrent reservations on one GRPCBroker never collide
		func() {
			defer func() {
				if p := recover(); p != nil {
					o.emit("!C07.ids kind=grpc", "panic", "FAIL:setup")
				}
			}()
			var tb testing.TB
			client, _ := plugin.TestPluginGRPCConn(tb, false, map[string]plugin.Plugin{})
			idsDistinct(o, "!C07.ids kind=grpc", client.VerifBroker().NextId)
			client.Close()
		}()
		o.note("grpc histories=%d", len(hs))
	})
}

// ---------------------------------------------------------------- C08: multiplexed establishment schedules

type muxOp struct {
	kind byte // 'a' accept, 'd' dial, 'm' main-connection ping
	id   uint32
}

type muxCase struct {
	role  string // server: plugin accepts / host dials; client: host accepts / plugin dials
	ops   []muxOp
	delay int // ms at grpcbroker.accept.mux-mid
	late  int // ms between broker.Accept(id) returning and the listener being served (0: AcceptAndServe)
}

func (c *muxCase) line() string {
	var ps []string
	for _, o := range c.ops {
		if o.kind == 'm' {
			ps = append(ps, "m")
		} else {
			ps = append(ps, fmt.Sprintf("%c:%d", o.kind, o.id))
		}
	}
	return fmt.Sprintf("C08 role=%s ops=%s delay=%d late=%d", c.role, strings.Join(ps, ","), c.delay, c.late)
}

func muxCaseFromLine(m map[string]string) *muxCase {
	c := &muxCase{role: m["role"]}
	fmt.Sscanf(m["delay"], "%d", &c.delay)
	fmt.Sscanf(m["late"], "%d", &c.late)
	for _, s := range splitComma(m["ops"]) {
		if s == "m" {
			c.ops = append(c.ops, muxOp{kind: 'm'})
			continue
		}
		var k byte
		var id uint32
		fmt.Sscanf(s, "%c:%d", &k, &id)
		c.ops = append(c.ops, muxOp{k, id})
	}
	return c
}

// runMuxCase: establishments are sequential: the op list is a sequence of pairs (a,d) or (d,a) for one id,
// each pair completed (ping answered or failed) before the next starts; 'm' pings the main connection.
func runMuxCase(c *muxCase) (impl string, pred string) {
	p, err := newGrpcPair(true)
	if err != nil {
		return "setup-error", "FAIL:setup"
	}
	defer p.close()
	acceptor, dialler := p.plug, p.host
	if c.role == "client" {
		acceptor, dialler = p.host, p.plug
	}
	est := map[uint32]string{}
	var order []uint32
	mainAlive := true
	pred = "ok"
	kept := map[uint32]*grpc.ClientConn{}
	accept := func(id uint32) {
		go func() {
			defer func() { recover() }()
			if c.late > 0 {
				servePingPongLater(acceptor, id, time.Duration(c.late)*time.Millisecond)
				return
			}
			servePingPong(acceptor, id)
		}()
	}
	i := 0
	for i < len(c.ops) {
		o := c.ops[i]
		switch {
		case o.kind == 'm':
			if err, hung, pp := withTimeout(5*time.Second, p.client.Ping); err != nil || hung || pp != nil {
				mainAlive = false
			}
			i++
		case o.kind == 'a' && i+1 < len(c.ops) && c.ops[i+1].kind == 'd' && c.ops[i+1].id == o.id:
			accept(o.id)
			time.Sleep(time.Duration(120+c.delay) * time.Millisecond)
			ans, conn, err := pingKeep(dialler, o.id, 8*time.Second)
			est[o.id], kept[o.id] = estResult(ans, err), conn
			order = append(order, o.id)
			i += 2
		case o.kind == 'd' && i+1 < len(c.ops) && c.ops[i+1].kind == 'a' && c.ops[i+1].id == o.id:
			type r struct {
				ans string
				c   *grpc.ClientConn
				err error
			}
			ch := make(chan r, 1)
			go func() {
				var x r
				defer func() {
					if pp := recover(); pp != nil {
						x.err = fmt.Errorf("panic: %v", pp)
					}
					ch <- x
				}()
				x.ans, x.c, x.err = pingKeep(dialler, o.id, 8*time.Second)
			}()
			time.Sleep(150 * time.Millisecond) // the knock is parked on the accepting side
			accept(o.id)
			select {
			case x := <-ch:
				est[o.id], kept[o.id] = estResult(x.ans, x.err), x.c
			case <-time.After(12 * time.Second):
				est[o.id] = "failed"
				pred = "FAIL:dial-hung"
			}
			order = append(order, o.id)
			i += 2
		default:
			i++
		}
	}
	// earlier brokered connections keep working
	for _, id := range order {
		if conn := kept[id]; conn != nil && est[id] == fmt.Sprintf("l%d", id) {
			if ans, err := pingConn(conn, 3*time.Second); err != nil || ans != fmt.Sprint(id) {
				if pred == "ok" {
					pred = fmt.Sprintf("FAIL:earlier-connection-broken")
				}
			}
		}
	}
	if err, hung, pp := withTimeout(5*time.Second, p.client.Ping); err != nil || hung || pp != nil {
		mainAlive = false
	}
	for _, conn := range kept {
		if conn != nil {
			conn.Close()
		}
	}
	var es []string
	sort.Slice(order, func(a, b int) bool { return false })
	for _, id := range order {
		es = append(es, fmt.Sprintf("%d:%s", id, est[id]))
		if est[id] != fmt.Sprintf("l%d", id) && pred == "ok" {
			if est[id] == "failed" {
				pred = "FAIL:first-call-failed"
			} else {
				pred = "FAIL:misrouted:" + est[id]
			}
		}
	}
	if !mainAlive && (pred == "ok" || pred == "FAIL:first-call-failed") {
		pred = "FAIL:main-connection-dead"
	}
	impl = fmt.Sprintf("est=%s main=%s", strings.Join(es, ","), map[bool]string{true: "alive", false: "dead"}[mainAlive])
	return impl, pred
}

func estResult(ans string, err error) string {
	if err != nil || ans == "" {
		return "failed"
	}
	return "l" + ans
}

// boundedCell runs one cell and turns "it never came back" into that cell's result (the cell's goroutine is abandoned): a
// wedged broker costs the cell that wedged it — reported with that cell as the failing input — not the whole run.
func boundedCell(d time.Duration, f func() (string, string)) (impl, pred string) {
	_, hung, pp := withTimeout(d, func() error { impl, pred = f(); return nil })
	switch {
	case hung:
		return "hang", "FAIL:cell-did-not-return"
	case pp != nil:
		return "panic", "FAIL:cell-panicked"
	}
	return impl, pred
}

func setMuxMidDelay(ms int) {
	if ms == 0 {
		plugin.VerifSetPoint("grpcbroker.accept.mux-mid", nil)
		return
	}
	plugin.VerifSetPoint("grpcbroker.accept.mux-mid", func() { time.Sleep(time.Duration(ms) * time.Millisecond) })
}

func init() {
	register("C08", func(o *out, replay string) {
		if replay != "" {
			_, m := kvLine(replay)
			c := muxCaseFromLine(m)
			setMuxMidDelay(c.delay)
			impl, pred := runMuxCase(c)
			setMuxMidDelay(0)
			o.emit(c.line(), impl, pred)
			return
		}
		r := newRng(seedFromEnv())
		reps, nseq := 2, 10
		if tier() == "thorough" {
			reps, nseq = 10, 120
		}
		for _, delay := range []int{0, 5, 30} {
			var cases []*muxCase
			for _, role := range []string{"server", "client"} {
				for rep := 0; rep < reps; rep++ {
					id := uint32(3 + rep)
					cases = append(cases,
						&muxCase{role: role, delay: delay, ops: []muxOp{{'m', 0}, {'a', id}, {'d', id}, {'m', 0}}},
						&muxCase{role: role, delay: delay, ops: []muxOp{{'m', 0}, {'d', id}, {'a', id}, {'m', 0}}})
				}
			}
			// the listener is served only some time after Accept returned: the announced stream must wait for it
			if delay == 0 {
				for _, role := range []string{"server", "client"} {
					cases = append(cases,
						&muxCase{role: role, late: 400, ops: []muxOp{{'m', 0}, {'a', 21}, {'d', 21}, {'m', 0}}},
						&muxCase{role: role, late: 400, ops: []muxOp{{'d', 22}, {'a', 22}, {'m', 0}}},
						&muxCase{role: role, late: 400, ops: []muxOp{{'a', 23}, {'d', 23}, {'d', 24}, {'a', 24}, {'m', 0}}})
				}
			}
			// sequential histories of several ids with mixed orders
			for j := 0; j < nseq; j++ {
				q := r.fork(uint64(delay*1000 + j))
				c := &muxCase{role: pick(q, []string{"server", "client"}), delay: delay}
				k := 2 + q.intn(3)
				for e := 0; e < k; e++ {
					id := uint32(10 + e)
					if q.bool() {
						c.ops = append(c.ops, muxOp{'a', id}, muxOp{'d', id})
					} else {
						c.ops = append(c.ops, muxOp{'d', id}, muxOp{'a', id})
					}
					if q.intn(3) == 0 {
						c.ops = append(c.ops, muxOp{'m', 0})
					}
				}
				cases = append(cases, c)
			}
			setMuxMidDelay(delay)
			impls := make([]string, len(cases))
			preds := make([]string, len(cases))
			parallel(len(cases), 16, func(i int) {
				impls[i], preds[i] = boundedCell(90*time.Second, func() (string, string) { return runMuxCase(cases[i]) })
			})
			setMuxMidDelay(0)
			for i, c := range cases {
				o.emit(c.line(), impls[i], preds[i])
			}
		}
		// a long-lived listener dialled twice, the second time after every pending window has passed
		type rd struct{ role, impl, pred string }
		rds := []*rd{{role: "server"}, {role: "client"}}
		parallel(len(rds), len(rds), func(i int) {
			rds[i].impl, rds[i].pred = boundedCell(90*time.Second, func() (string, string) { return runMuxRedial(rds[i].role, 5600*time.Millisecond) })
		})
		for _, x := range rds {
			o.emit("!C08.redial role="+x.role+" gap=5600", x.impl, x.pred)
		}
		// a caller-chosen ID of 0
		for _, role := range []string{"server", "client"} {
			impl, pred := boundedCell(60*time.Second, func() (string, string) { return runMuxIdZero(role) })
			o.emit("!C08.id-zero role="+role, impl, pred)
		}
		// dial first, accept 2 s later, at two phases of the pair's life (3 s and 5.2 s after set-up)
		{
			type dg struct {
				role       string
				start      int
				impl, pred string
			}
			var dgs []*dg
			for _, role := range []string{"server", "client"} {
				for _, st := range []int{3000, 5200} {
					dgs = append(dgs, &dg{role: role, start: st})
				}
			}
			parallel(len(dgs), len(dgs), func(i int) {
				dgs[i].impl, dgs[i].pred = boundedCell(90*time.Second, func() (string, string) {
					return runMuxDialFirstGap(dgs[i].role, time.Duration(dgs[i].start)*time.Millisecond, 2*time.Second)
				})
			})
			for _, x := range dgs {
				o.emit(fmt.Sprintf("!C08.dial-first-gap role=%s start=%d gap=2000", x.role, x.start), x.impl, x.pred)
			}
		}
		// a knock nobody answers (dial first, no accept), then a fresh pair in the same direction: later dials are not held up
		for _, role := range []string{"server", "client"} {
			impl, pred := boundedCell(90*time.Second, func() (string, string) { return runMuxLiveness(role, "dial-unmatched") })
			o.emit("!C08.after-failed-knock role="+role, impl, pred)
		}
		// a brokered connection that connects a second time by itself (its server retires transports by age)
		{
			rc := []*rd{{role: "server"}, {role: "client"}}
			parallel(len(rc), len(rc), func(i int) {
				rc[i].impl, rc[i].pred = boundedCell(90*time.Second, func() (string, string) { return runMuxReconnect(rc[i].role) })
			})
			for _, x := range rc {
				o.emit("!C08.reconnect role="+x.role, x.impl, x.pred)
			}
		}
		// … and accepted again WITHOUT a pause, eight times over
		for _, role := range []string{"server", "client"} {
			impl, pred := boundedCell(90*time.Second, func() (string, string) { return runMuxReacceptAtOnce(role, 8) })
			o.emit("!C08.reaccept-at-once role="+role+" rounds=8", impl, pred)
		}
		// the same id accepted again after its first brokered server was shut down
		for _, role := range []string{"server", "client"} {
			impl, pred := boundedCell(60*time.Second, func() (string, string) { return runMuxReaccept(role) })
			o.emit("!C08.reaccept role="+role, impl, pred)
		}
	})
}
