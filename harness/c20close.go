package main

// C20.close — GRPCBroker.Close racing with in-flight streamer Sends (Accept without multiplexing;
// knock and knock-ack with multiplexing), on REAL in-process GRPCClient / GRPCServer pairs
// (plugin.TestPluginGRPCConn), both brokers of the pair at once: the host side's streamer is
// gRPCBrokerClientImpl, the plugin side's gRPCBrokerServer.
//
// What is looked for is a panic in a LIBRARY goroutine (the stream goroutine of StartStream doing
// `se.ch <- err` on a reply channel its Send has already closed): nothing in this process can
// recover from that, so the scenario "C20close" runs in a process of its own — started by hostC20,
// which turns the crash into a result row
//
//	C20.close seed=… mux=… rounds=… n=…   panic <message> at=<frame>   FAIL:panic:<message>:<frame>
//
// instead of losing the run.  Model row for the same case: Oracle/C20.lean evaluates the
// reply-channel protocol (Model/ReplyChan.lean) at the extracted facts.

import (
	"bufio"
	"bytes"
	"context"
	"fmt"
	"os"
	"os/exec"
	"runtime"
	"strings"
	"sync"
	"sync/atomic"
	"syscall"
	"testing"
	"time"

	plugin "github.com/hashicorp/go-plugin"
	grpctest "github.com/hashicorp/go-plugin/test/grpc"
)

func init() { register("C20close", hostC20Close) }

const c20CloseMarker = "close-mode "

func c20CloseRounds(mux bool) int {
	n := map[bool]int{false: 120, true: 2}[mux]
	if tier() == "thorough" {
		n = map[bool]int{false: 500, true: 3}[mux]
	}
	if v := os.Getenv("VERIF_C20_CLOSE_ROUNDS"); v != "" {
		fmt.Sscanf(v, "%d", &n)
	}
	return n
}

func c20CloseCase(seed uint64, mux bool, rounds, n int) string {
	return fmt.Sprintf("C20.close seed=%d mux=%s rounds=%d n=%d", seed, b01(mux), rounds, n)
}

// ---------------------------------------------------------------- the workload (own process, -race binary)

func hostC20Close(o *out, replay string) {
	seed := seedFromEnv()
	modes := []bool{false, true}
	if replay != "" {
		_, kv := kvLine(replay)
		if v, ok := kv["mux"]; ok {
			modes = []bool{v == "1"}
		}
	}
	if !strings.Contains(replay, "C20.close-mid") {
		for _, mux := range modes {
			c20CloseMode(o, seed, mux, newRng(seed^0xC105E).fork(map[bool]uint64{false: 1, true: 2}[mux]))
			o.flush()
		}
		if strings.Contains(replay, "seed=") {
			return // the replay of one C20.close row (a bare "C20.close mux=…" is the quick tier's selection of modes)
		}
	}
	// a brokered listener of the plugin closed while a dial for it is in flight (between the knock's acknowledgement and
	// the arrival of the stream at the plugin's main accept loop): no library goroutine panics
	const midRounds = 6
	caseLine := fmt.Sprintf("!C20.close-mid rounds=%d", midRounds)
	o.note("%s%s", c20CloseMarker, caseLine)
	o.flush()
	impl, pred := "ok", "ok"
	for i := 0; i < midRounds && pred == "ok"; i++ {
		ri, rp := runMuxAcceptorClosesMid()
		if rp != "ok" {
			impl, pred = fmt.Sprintf("round=%d %s", i, ri), rp
		}
	}
	o.emit(caseLine, impl, pred)
	o.flush()
	// a multiplexing plugin that dies right after its handshake line while several goroutines connect
	caseLine = "!C20.mux-connect-fails goroutines=4"
	o.note("%s%s", c20CloseMarker, caseLine)
	o.flush()
	impl, pred = runMuxConnectFails()
	o.emit(caseLine, impl, pred)
	o.flush()
}

func c20CloseMode(o *out, seed uint64, mux bool, r *rng) {
	const n = 6 // goroutines per broker
	rounds := c20CloseRounds(mux)
	caseLine := c20CloseCase(seed, mux, rounds, n)
	o.note("%s%s", c20CloseMarker, caseLine) // so that the parent can name the case if this process dies
	o.flush()
	t := newTally()
	var accepted, turnedAway, inFlightAtClose int64
	hungRound := -1
	teardownHung := 0
	t0 := time.Now()
	for round := 0; round < rounds && hungRound < 0; round++ {
		var tb testing.TB
		var client *plugin.GRPCClient
		var server *plugin.GRPCServer
		func() {
			defer func() {
				if p := recover(); p != nil {
					t.panic("setup", p)
				}
			}()
			client, server = plugin.TestPluginGRPCConn(tb, mux, map[string]plugin.Plugin{})
		}()
		if client == nil || server == nil {
			o.emit(caseLine, "err setup", "FAIL:setup")
			return
		}
		cb, sb := client.VerifBroker(), server.VerifBroker()
		var busy int64
		start := make(chan struct{})
		var wg sync.WaitGroup
		worker := func(acc, dial *plugin.GRPCBroker, dir int) {
			defer wg.Done()
			<-start
			for k := 0; k < 40; k++ {
				id := acc.NextId()
				if dir == 1 {
					id |= 1 << 30
				}
				stop := false
				t.guarded("Accept", func() error {
					atomic.AddInt64(&busy, 1)
					defer atomic.AddInt64(&busy, -1)
					if !mux {
						// advertises the listener through streamer.Send
						ln, err := acc.Accept(id)
						if err != nil {
							atomic.AddInt64(&turnedAway, 1)
							stop = true
							return err
						}
						atomic.AddInt64(&accepted, 1)
						ln.Close()
						return nil
					}
					// multiplexed: the Sends are the dialling side's knock and the accepting side's ack
					go func() {
						defer func() {
							if p := recover(); p != nil {
								t.panic("AcceptAndServe", p)
							}
						}()
						servePingPong(acc, id)
					}()
					time.Sleep(2 * time.Millisecond)
					conn, err := dial.Dial(id)
					if err != nil {
						atomic.AddInt64(&turnedAway, 1)
						stop = true
						return err
					}
					defer conn.Close()
					ctx, cancel := context.WithTimeout(context.Background(), 300*time.Millisecond)
					defer cancel()
					if _, err := grpctest.NewPingPongClient(conn).Ping(ctx, &grpctest.PingRequest{}); err != nil {
						atomic.AddInt64(&turnedAway, 1)
						stop = true
						return err
					}
					atomic.AddInt64(&accepted, 1)
					return nil
				})
				if stop {
					return
				}
			}
		}
		for g := 0; g < n; g++ {
			wg.Add(2)
			go worker(cb, sb, 1)
			go worker(sb, cb, 0)
		}
		close(start)
		// Close lands somewhere in the stream of Sends (the first ones need the stream to be up: ≥ ~0.3 ms)
		delay := time.Duration(200+r.intn(2500)) * time.Microsecond
		if mux {
			delay = time.Duration(3000+r.intn(12000)) * time.Microsecond
		}
		time.Sleep(delay)
		atomic.AddInt64(&inFlightAtClose, atomic.LoadInt64(&busy))
		var cw sync.WaitGroup
		for _, b := range []*plugin.GRPCBroker{cb, sb, cb, sb} {
			cw.Add(1)
			go func(b *plugin.GRPCBroker) {
				defer cw.Done()
				t.guarded("Close", func() error { return b.Close() })
			}(b)
		}
		_, hung, _ := withTimeout(30*time.Second, func() error { cw.Wait(); wg.Wait(); return nil })
		if hung {
			hungRound = round
			break
		}
		if _, hung, _ := withTimeout(20*time.Second, func() error { client.Close(); server.Stop(); return nil }); hung {
			teardownHung++
			if os.Getenv("C20_DEBUG") != "" {
				buf := make([]byte, 8<<20)
				os.Stderr.Write(buf[:runtime.Stack(buf, true)])
			}
		}
	}
	// a reply that is still on its way finds its channel (closed or not) within this
	time.Sleep(300 * time.Millisecond)
	impl, pred := "ok", "ok"
	switch {
	case hungRound >= 0:
		impl, pred = "hang", "FAIL:hang"
		o.note("%s: Accept/Close did not return in round %d", caseLine, hungRound)
	case len(t.panics) > 0:
		impl, pred = "panic "+strings.ReplaceAll(strings.Join(t.panics, ";"), " ", "-"), "FAIL:panic"
	}
	o.note("%s: %d rounds in %.1fs, %d goroutines per broker on both brokers; operations completed=%d turned away after Close=%d; in flight at the moment of Close (sum over rounds)=%d; teardown (GRPCClient.Close + GRPCServer.Stop) slower than 20 s: %d; %s",
		caseLine, rounds, time.Since(t0).Seconds(), n, accepted, turnedAway, inFlightAtClose, teardownHung, t.summary())
	o.emit(caseLine, impl, pred)
}

// ---------------------------------------------------------------- the parent's side (called by hostC20)

// c20RunClose runs the "C20close" scenario of the -race binary in a process of its own and forwards its rows.
// A crash of that process (a panic in a library goroutine) becomes the result row of the mode that was running.
func c20RunClose(o *out, bin, work string, seed uint64, logPrefix, replay string) {
	args := []string{"host", "C20close"}
	if replay != "" {
		args = append(args, "--replay", replay)
	}
	cmd := exec.Command(bin, args...)
	cmd.Dir = work
	cmd.SysProcAttr = &syscall.SysProcAttr{Setpgid: true}
	env := []string{}
	for _, kv := range os.Environ() {
		if strings.HasPrefix(kv, "VERIF_GPV=") || strings.HasPrefix(kv, "VERIF_SEED=") || strings.HasPrefix(kv, "GORACE=") {
			continue
		}
		env = append(env, kv)
	}
	cmd.Env = append(env, "VERIF_GPV="+bin, fmt.Sprintf("VERIF_SEED=%d", seed),
		"GORACE=halt_on_error=0 exitcode=0 history_size=5 log_path="+logPrefix)
	var stdout, stderr bytes.Buffer
	cmd.Stdout, cmd.Stderr = &stdout, &stderr
	limit := 150 * time.Second
	if tier() == "thorough" {
		limit = 400 * time.Second
	}
	if err := cmd.Start(); err != nil {
		o.emit(fmt.Sprintf("!C20.close seed=%d", seed), "err", "FAIL:close-run-start")
		return
	}
	done := make(chan error, 1)
	go func() { done <- cmd.Wait() }()
	var runErr error
	select {
	case runErr = <-done:
	case <-time.After(limit):
		syscall.Kill(-cmd.Process.Pid, syscall.SIGKILL)
		<-done
		runErr = fmt.Errorf("timeout")
	}
	syscall.Kill(-cmd.Process.Pid, syscall.SIGKILL)
	current := ""
	finished := map[string]bool{}
	sc := bufio.NewScanner(&stdout)
	sc.Buffer(make([]byte, 1<<20), 1<<24)
	for sc.Scan() {
		line := sc.Text()
		if strings.HasPrefix(line, "# "+c20CloseMarker) {
			current = line[len("# "+c20CloseMarker):]
			continue
		}
		if strings.HasPrefix(line, "# ") {
			o.note("%s", line[2:])
			continue
		}
		if parts := strings.Split(line, "\t"); len(parts) == 3 {
			o.emit(parts[0], parts[1], parts[2])
			finished[parts[0]] = true
		}
	}
	if runErr == nil && (current == "" || finished[current]) {
		return
	}
	// the process died (or was killed) in the middle of mode `current`
	if current == "" || finished[current] {
		current = fmt.Sprintf("!C20.close seed=%d", seed)
	}
	se := stderr.String()
	o.note("%s: process ended with %v; stderr tail: %s", current, runErr, strings.ReplaceAll(tailStr(se, 900), "\n", " | "))
	if msg, at, ok := c20CrashInfo(se); ok {
		o.emit(current, "panic "+msg+" at="+at, "FAIL:panic:"+msg+":"+at)
	} else if runErr != nil && runErr.Error() == "timeout" {
		o.emit(current, "hang", "FAIL:hang")
	} else {
		o.emit(current, "err crashed", "FAIL:close-run-crashed")
	}
}
