package main

// C01 / C05 correspondence: the real Client.Start driven through a scripted
// runner, on generated first lines × client configurations.

import (
	"crypto/ecdsa"
	"crypto/elliptic"
	"crypto/rand"
	"crypto/tls"
	"crypto/x509"
	"crypto/x509/pkix"
	"encoding/base64"
	"errors"
	"fmt"
	"math/big"
	"net"
	"os"
	"os/exec"
	"reflect"
	"strings"
	"time"

	hclog "github.com/hashicorp/go-hclog"
	plugin "github.com/hashicorp/go-plugin"
	"github.com/hashicorp/go-plugin/runner"
)

type hsCase struct {
	versions   []int
	allowed    []string // effective list (after NewClient's default)
	allowedNil bool     // pass nil to NewClient
	tls        string   // none | static | auto
	mux        bool
	kind       string // stream | exited
	stream     []byte // bytes written to the plugin's stdout
	eof        bool   // stdout closed after the bytes
	tr         string // id | err | const:<net>:<addr> (hex)
}

var validCertB64 string

func init() {
	key, err := ecdsa.GenerateKey(elliptic.P256(), rand.Reader)
	if err != nil {
		panic(err)
	}
	tpl := &x509.Certificate{
		SerialNumber: big.NewInt(7), Subject: pkix.Name{CommonName: "localhost"},
		NotBefore: time.Now().Add(-time.Hour), NotAfter: time.Now().Add(24 * time.Hour),
		IsCA: true, BasicConstraintsValid: true, DNSNames: []string{"localhost"},
	}
	der, err := x509.CreateCertificate(rand.Reader, tpl, tpl, key.Public(), key)
	if err != nil {
		panic(err)
	}
	validCertB64 = base64.RawStdEncoding.EncodeToString(der)
}

func (c *hsCase) line() string {
	return fmt.Sprintf("C01 versions=%s allowed=%s anil=%s tls=%s mux=%s kind=%s stream=%s eof=%s tr=%s %s",
		joinInts(c.versions), joinHex(c.allowed), b01(c.allowedNil), c.tls, b01(c.mux),
		c.kind, hx(c.stream), b01(c.eof), c.tr, c.ext())
}

func hsCaseFromLine(m map[string]string) *hsCase {
	c := &hsCase{tls: m["tls"], mux: m["mux"] == "1", kind: m["kind"], stream: unhx(m["stream"]),
		eof: m["eof"] == "1", tr: m["tr"], allowedNil: m["anil"] == "1"}
	for _, v := range splitComma(m["versions"]) {
		var x int
		fmt.Sscanf(v, "%d", &x)
		c.versions = append(c.versions, x)
	}
	for _, a := range splitComma(m["allowed"]) {
		c.allowed = append(c.allowed, string(unhx(a)))
	}
	return c
}

func (c *hsCase) translate(n, a string) (string, string, error) {
	switch {
	case c.tr == "id":
		return n, a, nil
	case c.tr == "panic":
		panic("translator panicked")
	case c.tr == "err":
		return "", "", errTranslate
	case strings.HasPrefix(c.tr, "const:"):
		p := strings.Split(c.tr, ":")
		return string(unhx(p[1])), string(unhx(p[2])), nil
	}
	return n, a, nil
}

// ext evaluates the *real* library functions on this case's data, so that the
// model never has to guess their behaviour: the resolvers on the (translated)
// address field and the certificate parser on field 6.
func (c *hsCase) ext() string {
	tok, ok := goFirstToken(c.stream, c.eof)
	if !ok {
		return "xaddr=- xtcp=err xunix=err xcert=0"
	}
	parts := strings.Split(strings.TrimSpace(tok), "|")
	addr := ""
	if len(parts) >= 4 && c.tr != "panic" {
		_, a, err := c.translate(parts[2], parts[3])
		if err == nil {
			addr = a
		}
	}
	res := func(a net.Addr, err error) string {
		if err != nil || a == nil || reflect.ValueOf(a).IsNil() {
			return "err"
		}
		return "ok:" + hxs(a.Network()) + ":" + hxs(a.String())
	}
	var xt, xu string
	{
		a, err := net.ResolveTCPAddr("tcp", addr)
		xt = res(a, err)
	}
	{
		a, err := net.ResolveUnixAddr("unix", addr)
		xu = res(a, err)
	}
	certOK := false
	if len(parts) >= 6 {
		if der, err := base64.RawStdEncoding.DecodeString(parts[5]); err == nil {
			if _, err := x509.ParseCertificate(der); err == nil {
				certOK = true
			}
		}
	}
	return fmt.Sprintf("xaddr=%s xtcp=%s xunix=%s xcert=%s", hxs(addr), xt, xu, b01(certOK))
}

// goFirstToken is what bufio.Scanner(ScanLines) would deliver first, computed
// with plain Go (used only to know which address/cert to feed the real resolvers).
func goFirstToken(s []byte, eof bool) (string, bool) {
	i := strings.IndexByte(string(s), '\n')
	if i < 0 {
		if !eof || len(s) == 0 || len(s) >= 65536 {
			return "", false
		}
		i = len(s)
	} else if i >= 65536 {
		return "", false
	}
	t := s[:i]
	if len(t) > 0 && t[len(t)-1] == '\r' {
		t = t[:len(t)-1]
	}
	return string(t), true
}

type hsResult struct {
	impl string
	pred string
}

const hsStartTimeout = 150 * time.Millisecond

func runHsCase(c *hsCase) hsResult {
	fr := newFakeRunner()
	fr.translate = c.translate
	vp := map[int]plugin.PluginSet{}
	for _, v := range c.versions {
		vp[v] = plugin.PluginSet{}
	}
	cfg := &plugin.ClientConfig{
		HandshakeConfig:     plugin.HandshakeConfig{MagicCookieKey: "K", MagicCookieValue: "V"},
		VersionedPlugins:    vp,
		StartTimeout:        hsStartTimeout,
		Logger:              nullLogger(),
		GRPCBrokerMultiplex: c.mux,
		SkipHostEnv:         true,
		RunnerFunc: func(l hclog.Logger, cmd *exec.Cmd, tmpDir string) (runner.Runner, error) {
			return fr, nil
		},
	}
	if !c.allowedNil {
		cfg.AllowedProtocols = []plugin.Protocol{}
		for _, a := range c.allowed {
			cfg.AllowedProtocols = append(cfg.AllowedProtocols, plugin.Protocol(a))
		}
	}
	switch c.tls {
	case "static":
		cfg.TLSConfig = &tls.Config{ServerName: "localhost"}
	case "auto":
		cfg.AutoMTLS = true
	}
	client := plugin.NewClient(cfg)

	// the scripted plugin process
	go func() {
		switch c.kind {
		case "exited":
			fr.exit()
		default:
			if len(c.stream) > 0 {
				fr.stdoutW.Write(c.stream)
			}
			if c.eof {
				fr.stdoutW.Close()
			}
		}
	}()

	type ret struct {
		addr     net.Addr
		err      error
		panicked interface{}
	}
	done := make(chan ret, 1)
	t0 := time.Now()
	go func() {
		var r ret
		defer func() {
			if p := recover(); p != nil {
				r.panicked = p
			}
			done <- r
		}()
		r.addr, r.err = client.Start()
	}()
	var r ret
	hang := false
	select {
	case r = <-done:
	case <-time.After(hsStartTimeout + 5*time.Second):
		hang = true
	}
	el := time.Since(t0)
	kills := fr.killCount()

	var impl, pred string
	pred = "ok"
	switch {
	case hang:
		impl = "hang"
		pred = "FAIL:start-did-not-return-within-timeout+5s"
	case r.panicked != nil:
		impl = fmt.Sprintf("panic killed=%s", b01(kills > 0))
		pred = "FAIL:host-panic:" + strings.ReplaceAll(fmt.Sprint(r.panicked), " ", "_")
		if c.tr == "panic" {
			// the runner's own panic, not go-plugin's: what is demanded is that it reaches the caller AFTER the kill
			pred = "ok"
			if kills == 0 {
				pred = "FAIL:panic-in-start-left-the-process-running"
			}
		}
	case r.err != nil:
		sent := "none"
		if errors.Is(r.err, plugin.ErrGRPCBrokerMuxNotSupported) {
			sent = "mux"
		}
		// a failed Start stays failed: a second Start on the same client must not succeed
		again := "err"
		{
			var a2 net.Addr
			err2, hung2, pp2 := withTimeout(hsStartTimeout+5*time.Second, func() error { var e error; a2, e = client.Start(); return e })
			switch {
			case hung2:
				again = "hang"
			case pp2 != nil:
				again = "panic"
			case err2 == nil:
				again = "ok"
				_ = a2
			}
		}
		impl = fmt.Sprintf("err sentinel=%s killed=%s again=%s", sent, b01(kills > 0), again)
		if kills == 0 {
			pred = "FAIL:start-error-without-kill"
		} else if again != "err" {
			pred = "FAIL:second-start-after-failed-start-" + again
		}
	default:
		if r.addr == nil || (reflect.ValueOf(r.addr).Kind() == reflect.Ptr && reflect.ValueOf(r.addr).IsNil()) {
			impl = "oknoaddr"
			pred = "FAIL:nil-error-with-nil-address"
		} else {
			impl = fmt.Sprintf("ok net=%s str=%s proto=%s ver=%d", hxs(r.addr.Network()), hxs(r.addr.String()),
				hxs(string(client.Protocol())), client.NegotiatedVersion())
			if kills != 0 {
				pred = "FAIL:killed-on-success"
			}
		}
	}
	if !hang && el > hsStartTimeout+3*time.Second {
		pred = "FAIL:start-exceeded-start-timeout"
	}

	// cleanup: Kill must return promptly and remove the runner's socket dir (C05)
	if !hang {
		kd := make(chan struct{})
		go func() {
			defer func() { recover(); close(kd) }()
			client.Kill()
		}()
		select {
		case <-kd:
		case <-time.After(5 * time.Second):
			if pred == "ok" {
				pred = "FAIL:kill-after-start-hung"
			}
		}
	}
	fr.exit()
	return hsResult{impl, pred}
}

// ---------------------------------------------------------------- generator

type fieldClass struct {
	name string
	vals []string
}

func hsFieldClasses() []fieldClass {
	long := strings.Repeat("9", 20)
	return []fieldClass{
		{"core", []string{"1", "01", "+1", "-1", "0", "2", "", "x", "1x", long, " 1", "1 ", "１"}},
		{"version", []string{"1", "2", "+2", "02", "3", "", "x", long, "-1", "0", "1.0", "0x1"}},
		{"network", []string{"tcp", "unix", "", "TCP", "udp", "tcp4", "foo", "unix "}},
		{"address", []string{":1234", "127.0.0.1:80", ":99999", "nonsense:abc", "", "/tmp/plugin123", "/tmp/a b", "bar", "[::1]:53", "127.0.0.1", "localhost:http"}},
		{"protocol", []string{"\x00absent", "netrpc", "grpc", "", "GRPC", "junk", "netrpc "}},
		{"cert", []string{"\x00absent", "", strings.Repeat("A", 50), strings.Repeat("A", 51), "\x00valid", "\x00truncated", strings.Repeat("!", 60), strings.Repeat("A", 200)}},
		{"mux", []string{"\x00absent", "true", "false", "1", "0", "t", "T", "TRUE", "True", "f", "F", "FALSE", "False", "yes", "", "true "}},
	}
}

var hsWrappers = []string{"plain", "crlf", "lead-sp", "trail-sp", "lead-nbsp", "trail-u2003", "trail-u3000", "lead-bad-utf8", "extra-field", "no-newline-eof", "no-newline-open", "trail-nel", "lead-e280", "trail-c2"}

func hsCompose(fields []string, wrapper string) (stream []byte, eof bool) {
	// fields: 7 entries; "\x00absent" truncates the line at that field
	var fs []string
	for _, f := range fields {
		if f == "\x00absent" {
			break
		}
		switch f {
		case "\x00valid":
			f = validCertB64
		case "\x00truncated":
			f = validCertB64[:len(validCertB64)-8]
		}
		fs = append(fs, f)
	}
	l := strings.Join(fs, "|")
	switch wrapper {
	case "plain":
		return []byte(l + "\n"), false
	case "crlf":
		return []byte(l + "\r\n"), false
	case "lead-sp":
		return []byte(" \t" + l + "\n"), false
	case "trail-sp":
		return []byte(l + " \v\f\n"), false
	case "lead-nbsp":
		return []byte("\u00a0" + l + "\n"), false
	case "trail-u2003":
		return []byte(l + "\u2003\n"), false
	case "trail-u3000":
		return []byte(l + "\u3000 \n"), false
	case "trail-nel":
		return []byte(l + "\u0085\n"), false
	case "lead-bad-utf8":
		return []byte("\xc2 " + l + "\n"), false
	case "lead-e280":
		return []byte("\xe2\x80" + l + "\n"), false
	case "trail-c2":
		return []byte(l + "\xc2\n"), false
	case "extra-field":
		return []byte(l + "|extra\n"), false
	case "no-newline-eof":
		return []byte(l), true
	case "no-newline-open":
		return []byte(l), false
	}
	return []byte(l + "\n"), false
}

type hsCfg struct {
	versions   []int
	allowed    []string
	allowedNil bool
	tls        string
	mux        bool
}

func hsConfigs() []hsCfg {
	var out []hsCfg
	verSets := [][]int{{1}, {1, 2}, {0}, {}, {-1, 3}}
	allowSets := []struct {
		a    []string
		nil_ bool
	}{{[]string{"netrpc"}, true}, {[]string{"grpc"}, false}, {[]string{"netrpc", "grpc"}, false}, {[]string{}, false}}
	for _, vs := range verSets {
		for _, as := range allowSets {
			for _, t := range []string{"none", "static"} {
				for _, m := range []bool{false, true} {
					out = append(out, hsCfg{vs, as.a, as.nil_, t, m})
				}
			}
		}
	}
	return out
}

func hsMk(cfg hsCfg, fields []string, wrapper, tr string) *hsCase {
	s, eof := hsCompose(fields, wrapper)
	return &hsCase{versions: cfg.versions, allowed: cfg.allowed, allowedNil: cfg.allowedNil, tls: cfg.tls, mux: cfg.mux,
		kind: "stream", stream: s, eof: eof, tr: tr}
}

// hsGenerate: (1) every single-field deviation from each valid baseline under
// every configuration (exhaustive for that slice), (2) wrappers and translator
// variants on baselines, (3) seeded random combinations, (4) special streams.
func hsGenerate(r *rng, nRandom int) []*hsCase {
	classes := hsFieldClasses()
	cfgs := hsConfigs()
	baselines := [][]string{
		{"1", "1", "tcp", ":1234", "netrpc", "", "\x00absent"},
		{"1", "2", "unix", "/tmp/plugin123", "grpc", "", "true"},
		{"1", "1", "tcp", "127.0.0.1:80", "grpc", "\x00valid", "true"},
		{"1", "1", "tcp", ":1234", "\x00absent", "\x00absent", "\x00absent"},
	}
	var cases []*hsCase
	for _, cfg := range cfgs {
		for _, b := range baselines {
			cases = append(cases, hsMk(cfg, b, "plain", "id"))
			for fi, cl := range classes {
				for _, v := range cl.vals {
					f := append([]string(nil), b...)
					f[fi] = v
					cases = append(cases, hsMk(cfg, f, "plain", "id"))
				}
			}
		}
	}
	for ci, cfg := range cfgs {
		if ci%4 != 0 {
			continue
		}
		for _, b := range baselines {
			for _, w := range hsWrappers {
				cases = append(cases, hsMk(cfg, b, w, "id"))
			}
			for _, tr := range []string{"err", "const:" + hxs("tcp") + ":" + hxs(":4321"), "const:" + hxs("foo") + ":" + hxs("bar"), "const:" + hxs("unix") + ":" + hxs("/x/y")} {
				cases = append(cases, hsMk(cfg, b, "plain", tr))
			}
		}
	}
	// a custom runner whose PluginToHost panics while the process exists: the panic reaches the caller after the kill
	for _, b := range baselines {
		cases = append(cases, hsMk(cfgs[0], b, "plain", "panic"))
	}
	// AutoMTLS (real certificate generation in Start) on a few
	for _, b := range baselines {
		cases = append(cases, hsMk(hsCfg{[]int{1, 2}, []string{"netrpc", "grpc"}, false, "auto", false}, b, "plain", "id"))
		cases = append(cases, hsMk(hsCfg{[]int{1, 2}, []string{"netrpc", "grpc"}, false, "auto", true}, b, "plain", "id"))
	}
	// special streams
	base := cfgs[0]
	for _, s := range []struct {
		b   []byte
		eof bool
	}{
		{nil, true}, {nil, false}, {[]byte("\n"), false}, {[]byte("\r\n"), false}, {[]byte("|||\n"), false}, {[]byte("||||||\n"), false},
		{[]byte("1|1|tcp\n"), false}, {[]byte("1|1|tcp|\n"), false}, {[]byte("1|1\n1|1|tcp|:1\n"), false},
		{append([]byte("1|1|tcp|:1|netrpc|"), append(bytesRepeat('A', 65535-18), '\n')...), false},
		{append([]byte("1|1|tcp|:1|netrpc|"), append(bytesRepeat('A', 65536-18), '\n')...), false},
		{append([]byte("1|1|tcp|:1|netrpc|"), append(bytesRepeat('A', 70000), '\n')...), false},
		{bytesRepeat('x', 65536), true}, {bytesRepeat('x', 65535), true},
	} {
		cases = append(cases, &hsCase{versions: base.versions, allowed: base.allowed, allowedNil: base.allowedNil, tls: "none", kind: "stream", stream: s.b, eof: s.eof, tr: "id"})
		cases = append(cases, &hsCase{versions: []int{1}, allowed: []string{"netrpc", "grpc"}, tls: "static", mux: true, kind: "stream", stream: s.b, eof: s.eof, tr: "id"})
	}
	// long first lines: blanks before (and after) an acceptable line, sized so that a reader's buffer boundary
	// (512 … 64 Ki) falls inside each field of the line — the whole line must be used, never a fragment of it
	for bi, b := range baselines {
		l, _ := hsCompose(b, "no-newline-eof")
		for _, B := range []int{512, 4096, 8192, 32768, 65536} {
			for k := 1; k < len(l)+2; k += 1 + len(l)/7 {
				lead := append(append(bytesRepeat(' ', B-k), l...), '\n')
				cfg := cfgs[(bi*7+k)%len(cfgs)]
				cases = append(cases, &hsCase{versions: cfg.versions, allowed: cfg.allowed, allowedNil: cfg.allowedNil, tls: cfg.tls, mux: cfg.mux, kind: "stream", stream: lead, tr: "id"})
				cases = append(cases, &hsCase{versions: []int{1, 2}, allowed: []string{"netrpc", "grpc"}, tls: "static", mux: true, kind: "stream", stream: lead, tr: "id"})
			}
			trail := append(append(append([]byte{}, l...), bytesRepeat(' ', B)...), '\n')
			cases = append(cases, &hsCase{versions: []int{1, 2}, allowed: []string{"netrpc", "grpc"}, tls: "static", mux: true, kind: "stream", stream: trail, tr: "id"})
		}
	}
	cases = append(cases, &hsCase{versions: []int{1}, allowed: []string{"netrpc"}, allowedNil: true, tls: "none", kind: "exited", tr: "id"})
	// random combinations
	for i := 0; i < nRandom; i++ {
		q := r.fork(uint64(i))
		cfg := pick(q, cfgs)
		f := make([]string, len(classes))
		b := pick(q, baselines)
		for fi, cl := range classes {
			if q.intn(3) == 0 {
				f[fi] = pick(q, cl.vals)
			} else {
				f[fi] = b[fi]
			}
		}
		w := "plain"
		if q.intn(4) == 0 {
			w = pick(q, hsWrappers)
		}
		tr := "id"
		if q.intn(12) == 0 {
			tr = pick(q, []string{"err", "const:" + hxs("tcp") + ":" + hxs(":4321"), "const:" + hxs("") + ":" + hxs("")})
		}
		cases = append(cases, hsMk(cfg, f, w, tr))
	}
	return cases
}

func bytesRepeat(b byte, n int) []byte {
	if n < 0 {
		n = 0
	}
	s := make([]byte, n)
	for i := range s {
		s[i] = b
	}
	return s
}

func init() { register("C01", hostC01) }

func hostC01(o *out, replay string) {
	if replay != "" {
		_, m := kvLine(replay)
		c := hsCaseFromLine(m)
		res := runHsCase(c)
		o.emit(c.line(), res.impl, res.pred)
		return
	}
	r := newRng(seedFromEnv())
	n := 15000
	if tier() == "thorough" {
		n = 300000
	}
	if v := os.Getenv("VERIF_C01_RANDOM"); v != "" {
		fmt.Sscanf(v, "%d", &n)
	}
	cases := hsGenerate(r, n)
	results := make([]hsResult, len(cases))
	parallel(len(cases), 32, func(i int) { results[i] = runHsCase(cases[i]) })
	for i, c := range cases {
		o.emit(c.line(), results[i].impl, results[i].pred)
	}
	// the same bound with a REAL process behind the stock command runner (its Diagnose / Kill / Wait are on the path):
	// a process that prints a rejected first line and stays alive
	for _, l := range []string{"lolinvalid\n", "\n", "1|1|tcp\n", "1|9|tcp|127.0.0.1:1|netrpc\n", "1|3|bogus|x\n"} {
		impl, pred := runHsRealProcess(l, false)
		o.emit("!C01.real line="+hxs(l), impl, pred)
	}
	// … and when the plugin "binary" is a launcher script (not an ELF file: the runner's diagnosis of the command takes other paths)
	for _, l := range []string{"lolinvalid\n", "1|1|tcp\n"} {
		impl, pred := runHsRealProcess(l, true)
		o.emit("!C01.script line="+hxs(l), impl, pred)
	}
}

// runHsRealProcess: Start against a real child that prints `line` and then hangs.
func runHsRealProcess(line string, script bool) (impl, pred string) {
	cmd := kitCmd(kitServeCfg{Sets: map[string]string{"3": "netrpc"}, PreServe: "printhang:" + hxs(line)})
	if script {
		work := os.Getenv("VERIF_WORK")
		if work == "" {
			work = os.TempDir()
		}
		f, err := os.CreateTemp(work, "launcher-*.sh")
		if err != nil {
			return "setup-error", "FAIL:setup"
		}
		fmt.Fprintf(f, "#!/bin/sh\nprintf '%%s' '%s'\nexec sleep 30\n", strings.ReplaceAll(line, "'", ""))
		f.Close()
		os.Chmod(f.Name(), 0o755)
		defer os.Remove(f.Name())
		cmd = exec.Command(f.Name())
	}
	client := plugin.NewClient(&plugin.ClientConfig{
		HandshakeConfig:  kitHandshake(),
		VersionedPlugins: kitHostSets(map[int]string{3: "netrpc"}, nil, nil),
		Cmd:              cmd,
		Logger:           nullLogger(),
		StartTimeout:     1500 * time.Millisecond,
	})
	t0 := time.Now()
	var serr error
	_, hung, pp := withTimeout(8*time.Second, func() error { _, serr = client.Start(); return nil })
	el := time.Since(t0)
	defer func() {
		withTimeout(5*time.Second, func() error { client.Kill(); return nil })
		if cmd.Process != nil {
			cmd.Process.Kill()
		}
	}()
	dead := true
	if cmd.Process != nil {
		dead = waitDead(cmd.Process.Pid, 2*time.Second)
	}
	impl = fmt.Sprintf("ret=%s err=%s dead=%s", b01(!hung), b01(serr != nil), b01(dead))
	switch {
	case hung:
		return impl, "FAIL:start-did-not-return-within-timeout+5s"
	case pp != nil:
		return impl, "FAIL:host-panic"
	case serr == nil:
		return impl, "FAIL:start-succeeded-on-rejected-line"
	case el > 1500*time.Millisecond+3*time.Second:
		return impl, "FAIL:start-exceeded-start-timeout"
	case !dead:
		return impl, "FAIL:start-error-without-kill"
	}
	return impl, "ok"
}
