package main

// C11: a second host connection.  The plugin's first connection comes and goes without a shutdown request (a host that
// died, a probe); then a host attaches through the reattach configuration.  What the plugin writes from then on must
// reach THAT host's sync writers — the connection that is alive.

import (
	"bytes"
	"fmt"
	"time"

	plugin "github.com/hashicorp/go-plugin"
)

func runSecondConn(proto string, firstConn bool) (impl, pred string) {
	cmd := kitCmd(kitServeCfg{Sets: map[string]string{"3": proto}, GRPCServer: proto == "grpc"})
	launcher := plugin.NewClient(&plugin.ClientConfig{
		HandshakeConfig:  kitHandshake(),
		VersionedPlugins: kitHostSets(map[int]string{3: proto}, nil, nil),
		Cmd:              cmd,
		AllowedProtocols: []plugin.Protocol{plugin.ProtocolNetRPC, plugin.ProtocolGRPC},
		Logger:           nullLogger(),
		StartTimeout:     30 * time.Second,
	})
	defer func() {
		withTimeout(8*time.Second, func() error { launcher.Kill(); return nil })
		if cmd.Process != nil {
			cmd.Process.Kill()
		}
	}()
	if _, err := launcher.Start(); err != nil {
		return "setup-error", "FAIL:setup-start"
	}
	rc := launcher.ReattachConfig()
	if firstConn {
		dropHostConnection(rc, proto)
		time.Sleep(300 * time.Millisecond)
	}
	var bo, be lockedBuf
	host := plugin.NewClient(&plugin.ClientConfig{
		HandshakeConfig:  kitHandshake(),
		Plugins:          kitHostSets(map[int]string{3: proto}, nil, nil)[3],
		AllowedProtocols: []plugin.Protocol{plugin.ProtocolNetRPC, plugin.ProtocolGRPC},
		Reattach:         rc,
		Logger:           nullLogger(),
		SyncStdout:       &bo,
		SyncStderr:       &be,
	})
	cp, err := host.Client()
	if err != nil {
		return "setup-error", "FAIL:setup-reattach"
	}
	raw, err := cp.Dispense("kit")
	if err != nil {
		return "setup-error", "FAIL:setup-dispense"
	}
	k := raw.(Kit)
	var wantO, wantE bytes.Buffer
	for i := 0; i < 12; i++ {
		o := []byte(fmt.Sprintf("second host stdout %03d|", i))
		e := []byte(fmt.Sprintf("second host stderr %03d|", i))
		wantO.Write(o)
		wantE.Write(e)
		if err := k.Emit(o, e); err != nil {
			return "emit-error", "FAIL:emit"
		}
		time.Sleep(40 * time.Millisecond)
	}
	deadline := time.Now().Add(5 * time.Second)
	for time.Now().Before(deadline) && (len(bo.snapshot()) < wantO.Len() || len(be.snapshot()) < wantE.Len()) {
		time.Sleep(50 * time.Millisecond)
	}
	go0, ge0 := bo.snapshot(), be.snapshot()
	impl = fmt.Sprintf("out=%d/%d err=%d/%d", len(go0), wantO.Len(), len(ge0), wantE.Len())
	switch {
	case bytes.Equal(go0, wantO.Bytes()) && bytes.Equal(ge0, wantE.Bytes()):
		return impl, "ok"
	case len(go0) < wantO.Len() || len(ge0) < wantE.Len():
		return impl, "FAIL:second-connection-output-dropped"
	}
	return impl, "FAIL:second-connection-output-altered"
}

// faultyWriter refuses exactly its n-th Write (a full disk for a moment, a closed pipe) and accepts the others.
type faultyWriter struct {
	lockedBuf
	failAt, calls int
}

func (w *faultyWriter) Write(p []byte) (int, error) {
	w.mu.Lock()
	w.calls++
	fail := w.calls == w.failAt
	w.mu.Unlock()
	if fail {
		return 0, fmt.Errorf("sink refused this write")
	}
	return w.lockedBuf.Write(p)
}

// runSinkFaultOtherStream: the host's SyncStdout writer refuses one write; everything the plugin writes to STDERR, before
// and after, must still reach SyncStderr (and the connection stays usable).
func runSinkFaultOtherStream(proto string) (impl, pred string) {
	cmd := kitCmd(kitServeCfg{Sets: map[string]string{"3": proto}, GRPCServer: proto == "grpc"})
	bo := &faultyWriter{failAt: 2}
	var be lockedBuf
	client := plugin.NewClient(&plugin.ClientConfig{
		HandshakeConfig:  kitHandshake(),
		VersionedPlugins: kitHostSets(map[int]string{3: proto}, nil, nil),
		Cmd:              cmd,
		AllowedProtocols: []plugin.Protocol{plugin.ProtocolNetRPC, plugin.ProtocolGRPC},
		Logger:           nullLogger(),
		StartTimeout:     30 * time.Second,
		SyncStdout:       bo,
		SyncStderr:       &be,
	})
	defer func() {
		withTimeout(8*time.Second, func() error { client.Kill(); return nil })
		if cmd.Process != nil {
			cmd.Process.Kill()
		}
	}()
	cp, err := client.Client()
	if err != nil {
		return "setup-error", "FAIL:setup-client"
	}
	raw, err := cp.Dispense("kit")
	if err != nil {
		return "setup-error", "FAIL:setup-dispense"
	}
	k := raw.(Kit)
	var wantE bytes.Buffer
	for i := 0; i < 6; i++ {
		o := []byte(fmt.Sprintf("out-%d|", i))
		e := []byte(fmt.Sprintf("err-%d|", i))
		wantE.Write(e)
		if err := k.Emit(o, e); err != nil {
			return "emit-error", "FAIL:connection-unusable-after-sink-fault"
		}
		time.Sleep(60 * time.Millisecond)
	}
	deadline := time.Now().Add(4 * time.Second)
	for time.Now().Before(deadline) && be.Len() < wantE.Len() {
		time.Sleep(50 * time.Millisecond)
	}
	got := be.snapshot()
	impl = fmt.Sprintf("err=%d/%d out=%d", len(got), wantE.Len(), bo.Len())
	if !bytes.Equal(got, wantE.Bytes()) {
		return impl, "FAIL:fault-of-the-stdout-writer-stopped-stderr-delivery"
	}
	return impl, "ok"
}
