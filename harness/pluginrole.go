package main

import "os"

func pluginMain(args []string) {
	os.Exit(2)
}
