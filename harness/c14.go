package main

// C14 correspondence: the real host x plugin configuration matrix.

import (
	"bytes"
	"crypto/tls"
	"encoding/json"
	"errors"
	"fmt"
	"net"
	"os"
	"os/exec"
	"path/filepath"
	"sync/atomic"
	"time"

	hclog "github.com/hashicorp/go-hclog"
	plugin "github.com/hashicorp/go-plugin"
	"github.com/hashicorp/go-plugin/runner"
)

type ioCase struct {
	allowed, sec string
	mux          bool
	launch       string
	pproto, psec string
	padv         bool
	pnoauto      bool // the plugin ignores AutoMTLS (drops PLUGIN_CLIENT_CERT before Serve)
}

func (c *ioCase) line() string {
	return fmt.Sprintf("C14 allowed=%s sec=%s mux=%s launch=%s pproto=%s psec=%s padv=%s pnoauto=%s", c.allowed, c.sec, b01(c.mux), c.launch, c.pproto, c.psec, b01(c.padv), b01(c.pnoauto))
}

func ioCaseFromLine(m map[string]string) *ioCase {
	return &ioCase{m["allowed"], m["sec"], m["mux"] == "1", m["launch"], m["pproto"], m["psec"], m["padv"] == "1", m["pnoauto"] == "1"}
}

var c14Cert, c14Key string
var c14Seq int64

func runIoCase(c *ioCase) (impl, pred string) {
	work := os.Getenv("VERIF_WORK")
	base := filepath.Join(work, fmt.Sprintf("c14-%d-%d", os.Getpid(), atomic.AddInt64(&c14Seq, 1)))
	os.MkdirAll(base, 0o755)
	defer os.RemoveAll(base)
	kc := kitServeCfg{Sets: map[string]string{"3": c.pproto}, GRPCServer: c.pproto == "grpc", NoMuxAdvert: !c.padv, NoAutoMTLS: c.pnoauto}
	if c.psec == "static" {
		kc.TLS, kc.CertPEM, kc.KeyPEM = "static", c14Cert, c14Key
	}
	cmd := kitCmd(kc, "TMPDIR="+base)
	hostProto := c.pproto
	if c.pproto == "legacy" {
		// a plugin from before the protocol field: four-field line, net/rpc
		cmd.Args = []string{cmd.Args[0], "plugin", "legacy"}
		hostProto = "netrpc"
	}
	hostSets := kitHostSets(map[int]string{3: hostProto}, nil, nil)
	cfg := &plugin.ClientConfig{
		HandshakeConfig:     kitHandshake(),
		VersionedPlugins:    hostSets,
		GRPCBrokerMultiplex: c.mux,
		Logger:              nullLogger(),
		StartTimeout:        8 * time.Second,
	}
	switch c.allowed {
	case "grpc":
		cfg.AllowedProtocols = []plugin.Protocol{plugin.ProtocolGRPC}
	case "both":
		cfg.AllowedProtocols = []plugin.Protocol{plugin.ProtocolNetRPC, plugin.ProtocolGRPC}
	}
	switch c.sec {
	case "static":
		tc, err := staticTLS(c14Cert, c14Key)
		if err != nil {
			return "setup-error", "FAIL:setup-tls"
		}
		cfg.TLSConfig = tc
	case "auto":
		cfg.AutoMTLS = true
	}
	var launcher *plugin.Client
	switch c.launch {
	case "cmd":
		cfg.Cmd = cmd
	case "runner":
		cfg.UnixSocketConfig = &plugin.UnixSocketConfig{TempDir: base}
		cfg.RunnerFunc = func(l hclog.Logger, cm *exec.Cmd, tmpDir string) (runner.Runner, error) {
			cmd.Env = append(cmd.Env, cm.Env...)
			pr, err := newLcProcRunner(cmd)
			if err != nil {
				return nil, err
			}
			// a runner with a non-identity address translation: the plugin sees the socket directory under another name
			nsRoot, err := os.MkdirTemp(base, "ns")
			if err != nil {
				return nil, err
			}
			if nsRoot, err = filepath.EvalSymlinks(nsRoot); err != nil {
				return nil, err
			}
			entry, err := pr.namespaced(tmpDir, nsRoot)
			if err != nil {
				return nil, err
			}
			cmd.Env = append(cmd.Env, entry) // the last value of a variable wins
			return pr, nil
		}
	case "reattach":
		launcher = plugin.NewClient(&plugin.ClientConfig{
			HandshakeConfig: kitHandshake(), VersionedPlugins: hostSets,
			AllowedProtocols: []plugin.Protocol{plugin.ProtocolNetRPC, plugin.ProtocolGRPC},
			Cmd:              cmd, Logger: nullLogger(), StartTimeout: 8 * time.Second,
		})
		if _, err := launcher.Start(); err != nil {
			return "setup-error", "FAIL:setup-launcher"
		}
		defer withTimeout(6*time.Second, func() error { launcher.Kill(); return nil })
		cfg.Reattach = launcher.ReattachConfig()
		cfg.Plugins = hostSets[3]
		cfg.VersionedPlugins = nil
	}
	client := plugin.NewClient(cfg)
	pred = "ok"
	// Transport security the host asked for and that applies to this launch (Reattach documents that
	// AutoMTLS does not apply), and whether the plugin's listener is plaintext — both known from the
	// configuration alone, independent of anything the library reports.
	hostWantsTLS := c.sec == "static" || (c.sec == "auto" && c.launch != "reattach")
	pluginPlaintext := c.psec != "static" && !(c.sec == "auto" && c.launch != "reattach" && !c.pnoauto)
	var startErr error
	_, hung, pp := withTimeout(15*time.Second, func() error { _, startErr = client.Start(); return nil })
	pid := 0
	if cmd.Process != nil {
		pid = cmd.Process.Pid
	}
	cleanup := func() {
		withTimeout(8*time.Second, func() error { client.Kill(); return nil })
		if cmd.Process != nil {
			cmd.Process.Kill()
		}
	}
	switch {
	case hung:
		cleanup()
		return "hang", "FAIL:start-hung"
	case pp != nil:
		cleanup()
		return "panic", "FAIL:start-panicked"
	case startErr != nil:
		sent := "none"
		if errors.Is(startErr, plugin.ErrGRPCBrokerMuxNotSupported) {
			sent = "mux"
		}
		if c.launch != "reattach" && pid != 0 && !waitDead(pid, 2*time.Second) {
			pred = "FAIL:plugin-alive-after-start-error"
		}
		cleanup()
		return "starterr sentinel=" + sent, pred
	}
	// the client must not speak a protocol outside its allowed list (whatever the launch method)
	{
		okp := false
		for _, a := range cfg.AllowedProtocols {
			if a == client.Protocol() {
				okp = true
			}
		}
		if !okp {
			pred = "FAIL:protocol-outside-allowed-list"
		}
	}
	// an AutoMTLS host holds a TLS configuration once Start has returned, whatever the plugin answered
	if c.sec == "auto" && c.launch != "reattach" && client.VerifTLSConfig() == nil && pred == "ok" {
		pred = "FAIL:automtls-host-without-tls-config-after-start"
	}
	// first use: connect, dispense, call, brokered callback, ping; unknown plugin name must be an error
	var useErr error
	_, hung, pp = withTimeout(15*time.Second, func() error {
		cp, err := client.Client()
		if err != nil {
			useErr = err
			return nil
		}
		if _, err := cp.Dispense("no-such-plugin"); err == nil && pred == "ok" {
			pred = "FAIL:unknown-plugin-name-dispensed"
		}
		// a name the PLUGIN serves but this host's plugin set does not contain: an error as well (never a panic)
		if _, err := cp.Dispense("plugin-only"); err == nil && pred == "ok" {
			pred = "FAIL:name-unknown-to-the-host-dispensed"
		}
		raw, err := cp.Dispense("kit")
		if err != nil {
			useErr = err
			return nil
		}
		k := raw.(Kit)
		v, err := k.Double(5)
		if err != nil {
			useErr = err
			return nil
		}
		if v != 13 {
			useErr = fmt.Errorf("double=%d", v)
			return nil
		}
		if err := k.Callback(); err != nil {
			useErr = fmt.Errorf("callback: %w", err)
			return nil
		}
		if err := k.Emit(make([]byte, 300000), nil); err != nil { // a large request
			useErr = fmt.Errorf("large: %w", err)
			return nil
		}
		useErr = cp.Ping()
		return nil
	})
	defer cleanup()
	switch {
	case hung:
		return "hang", "FAIL:first-use-hung"
	case pp != nil:
		return "panic", "FAIL:first-use-panicked"
	case useErr != nil:
		// the error of the first use stays an error: asking the same client again (and using whatever it returns) and
		// killing it neither succeeds nor panics
		_, h2, p2 := withTimeout(15*time.Second, func() error {
			cp, err := client.Client()
			if err == nil {
				if cp == nil {
					return fmt.Errorf("nil client without an error")
				}
				if perr := cp.Ping(); perr == nil && hostWantsTLS != pluginPlaintext == false {
					return nil
				}
			}
			client.Kill()
			return nil
		})
		if pred == "ok" && h2 {
			pred = "FAIL:second-use-hung"
		}
		if pred == "ok" && p2 != nil {
			pred = "FAIL:second-use-panicked"
		}
		return "firstuse", pred
	}
	if hostWantsTLS && pluginPlaintext {
		// every step of the session completed against a plaintext listener although the host asked for TLS
		return "downgraded", "FAIL:silent-downgrade-to-plaintext"
	}
	return "works", pred
}

// pluginLegacy is a plugin built against a go-plugin from before the protocol field existed: it
// serves net/rpc (the library's own RPCServer) on a unix socket and announces itself with the
// four-field line CORE|APP|NETWORK|ADDR.  It knows neither AutoMTLS nor multiplexing; a static
// TLS provider (cfg.TLS) wraps its listener.
func pluginLegacy(args []string) {
	var cfg kitServeCfg
	if err := json.Unmarshal([]byte(os.Getenv("GPV_PLUGIN_CFG")), &cfg); err != nil {
		fmt.Fprintln(os.Stderr, "gpv plugin legacy: bad GPV_PLUGIN_CFG:", err)
		os.Exit(2)
	}
	if os.Getenv(cfg.CookieKey) != cfg.CookieVal {
		os.Exit(1)
	}
	// like go-plugin's own listener: in the directory the host's runner names, when it names one
	dir, err := os.MkdirTemp(os.Getenv(plugin.EnvUnixSocketDir), "legacy")
	if err != nil {
		fmt.Fprintln(os.Stderr, "gpv plugin legacy:", err)
		os.Exit(2)
	}
	defer os.RemoveAll(dir)
	path := filepath.Join(dir, "s")
	var lis net.Listener
	if lis, err = net.Listen("unix", path); err != nil {
		fmt.Fprintln(os.Stderr, "gpv plugin legacy:", err)
		os.Exit(2)
	}
	if cfg.TLS == "static" {
		tc, err := staticTLS(cfg.CertPEM, cfg.KeyPEM)
		if err != nil {
			os.Exit(2)
		}
		lis = tls.NewListener(lis, tc)
	}
	doneCh := make(chan struct{})
	srv := &plugin.RPCServer{
		Plugins: map[string]plugin.Plugin{"kit": &kitPlugin{tag: 3}},
		Stdout:  new(bytes.Buffer), Stderr: new(bytes.Buffer), DoneCh: doneCh,
	}
	fmt.Fprintf(os.Stdout, "%d|3|unix|%s\n", plugin.CoreProtocolVersion, path)
	os.Stdout.Sync()
	go srv.Serve(lis)
	<-doneCh
	lis.Close()
}

func init() {
	registerPlugin("legacy", pluginLegacy)
	register("C14", func(o *out, replay string) {
		c14Cert, c14Key = genStaticCert()
		if replay != "" {
			_, m := kvLine(replay)
			c := ioCaseFromLine(m)
			impl, pred := runIoCase(c)
			o.emit(c.line(), impl, pred)
			return
		}
		// the host's own environment carries the conditional negotiation variables (before anything else launches plugins)
		for _, proto := range []string{"netrpc", "grpc"} {
			impl, pred := runAmbientNegotiationVars(proto)
			o.emit("!C14.ambient-negotiation-vars proto="+proto, impl, pred)
		}
		r := newRng(seedFromEnv())
		var all []*ioCase
		for _, a := range []string{"dflt", "grpc", "both"} {
			for _, s := range []string{"none", "static", "auto"} {
				for _, m := range []bool{false, true} {
					for _, l := range []string{"cmd", "runner", "reattach"} {
						for _, pp := range []string{"netrpc", "grpc"} {
							for _, ps := range []string{"none", "static"} {
								for _, pa := range []bool{true, false} {
									for _, pn := range []bool{false, true} {
										all = append(all, &ioCase{a, s, m, l, pp, ps, pa, pn})
									}
								}
							}
						}
					}
				}
			}
		}
		// the legacy-line plugin: every host configuration x {no TLS, static TLS provider}
		for _, a := range []string{"dflt", "grpc", "both"} {
			for _, s := range []string{"none", "static", "auto"} {
				for _, m := range []bool{false, true} {
					for _, l := range []string{"cmd", "runner", "reattach"} {
						for _, ps := range []string{"none", "static"} {
							all = append(all, &ioCase{a, s, m, l, "legacy", ps, false, true})
						}
					}
				}
			}
		}
		cases := all // the whole matrix, every run
		_ = r
		impls := make([]string, len(cases))
		preds := make([]string, len(cases))
		parallel(len(cases), 16, func(i int) { impls[i], preds[i] = runIoCase(cases[i]) })
		hist := map[string]int{}
		for i, c := range cases {
			o.emit(c.line(), impls[i], preds[i])
			hist[impls[i]]++
		}
		for _, mux := range []bool{false, true} {
			impl, pred := runBigBrokered(mux)
			o.emit("!C14.bigbrokered mux="+b01(mux), impl, pred)
		}
		// option conflicts: more than one launch method (or none)
		for _, kind := range []string{"cmd+runnerfunc", "cmd+reattach", "runnerfunc+reattach", "all-three", "none"} {
			impl, pred := runLaunchConflict(kind)
			o.emit("!C14.launch-conflict kind="+kind, impl, pred)
		}
		o.note("C14: %d of %d matrix cells; verdicts %v", len(cases), len(all), hist)
	})
}
