package main

// Cells added after the eighth round of seeded changes: real-process brokered callbacks on net/rpc (C06), launch-method
// conflicts (C14), a rejected handshake line that is followed by more output (C10).

import (
	"bytes"
	"crypto/rand"
	"errors"
	"fmt"
	"os"
	"os/exec"
	"path/filepath"
	"sync/atomic"
	"time"

	hclog "github.com/hashicorp/go-hclog"
	plugin "github.com/hashicorp/go-plugin"
	"github.com/hashicorp/go-plugin/runner"
)

// runRealCallbacks: a REAL net/rpc (or gRPC) plugin process; the host dispenses and runs `n` callbacks, each of which
// brokers one connection host->plugin... and one plugin->host (the plugin dials an id the host accepted, then accepts an
// id the host dials): both ends of a real connection open streams.
func runRealCallbacks(proto string, n int) (impl, pred string) {
	base := filepath.Join(os.Getenv("VERIF_WORK"), fmt.Sprintf("r8-cb-%d-%s", os.Getpid(), proto))
	os.MkdirAll(base, 0o755)
	defer os.RemoveAll(base)
	cmd := kitCmd(kitServeCfg{Sets: map[string]string{"3": proto}, GRPCServer: proto == "grpc"}, "TMPDIR="+base)
	client := plugin.NewClient(&plugin.ClientConfig{
		HandshakeConfig:  kitHandshake(),
		VersionedPlugins: kitHostSets(map[int]string{3: proto}, nil, nil),
		AllowedProtocols: []plugin.Protocol{plugin.ProtocolNetRPC, plugin.ProtocolGRPC},
		Cmd:              cmd,
		Logger:           nullLogger(),
		StartTimeout:     10 * time.Second,
	})
	defer func() {
		withTimeout(8*time.Second, func() error { client.Kill(); return nil })
		if cmd.Process != nil {
			cmd.Process.Kill()
		}
	}()
	cp, err := client.Client()
	if err != nil {
		return "setup-error", "FAIL:setup-client"
	}
	raw, err := cp.Dispense("kit")
	if err != nil {
		return "setup-error", "FAIL:setup-dispense"
	}
	kit, ok := raw.(interface {
		Callback() error
		Double(int) (int, error)
	})
	if !ok {
		return "setup-error", "FAIL:setup-type"
	}
	okN := 0
	firstErr := ""
	for i := 0; i < n; i++ {
		var cerr error
		if _, hung, pp := withTimeout(12*time.Second, func() error { cerr = kit.Callback(); return nil }); hung || pp != nil {
			firstErr = "hang-or-panic"
			break
		}
		if cerr != nil {
			if firstErr == "" {
				firstErr = "err"
			}
			continue
		}
		okN++
	}
	// the connection as a whole is still fine afterwards
	after := "ok"
	if v, err := kit.Double(5); err != nil || v != 13 { // (the kit plugin of set 3 answers 2n+3)
		after = "failed"
	}
	impl = fmt.Sprintf("callbacks=%d/%d after=%s", okN, n, after)
	switch {
	case okN != n:
		return impl + " first=" + firstErr, "FAIL:brokered-callback-failed-on-a-real-connection"
	case after != "ok":
		return impl, "FAIL:dispensed-client-dead-after-callbacks"
	}
	return impl, "ok"
}

// runLaunchConflict: more than one launch method configured (or none): Start reports an error, nothing is launched, no
// runner function is called.
func runLaunchConflict(kind string) (impl, pred string) {
	base := filepath.Join(os.Getenv("VERIF_WORK"), fmt.Sprintf("r8-lc-%d-%s", os.Getpid(), kind))
	os.MkdirAll(base, 0o755)
	defer os.RemoveAll(base)
	cmd := kitCmd(kitServeCfg{Sets: map[string]string{"3": "netrpc"}}, "TMPDIR="+base)
	var rfCalls int32
	rf := func(l hclog.Logger, cm *exec.Cmd, tmpDir string) (runner.Runner, error) {
		atomic.AddInt32(&rfCalls, 1)
		return nil, fmt.Errorf("runner function must not be called")
	}
	tp, err := startTestServerProc("netrpc", base)
	if err != nil {
		return "setup-error", "FAIL:setup-testserver"
	}
	defer tp.stop()
	cfg := &plugin.ClientConfig{
		HandshakeConfig: kitHandshake(),
		Plugins:         kitHostSets(map[int]string{3: "netrpc"}, nil, nil)[3],
		Logger:          nullLogger(),
		StartTimeout:    5 * time.Second,
	}
	switch kind {
	case "cmd+runnerfunc":
		cfg.Cmd, cfg.RunnerFunc = cmd, rf
	case "cmd+reattach":
		cfg.Cmd, cfg.Reattach = cmd, tp.rc
	case "runnerfunc+reattach":
		cfg.RunnerFunc, cfg.Reattach = rf, tp.rc
	case "all-three":
		cfg.Cmd, cfg.RunnerFunc, cfg.Reattach = cmd, rf, tp.rc
	case "none":
	}
	client := plugin.NewClient(cfg)
	var serr error
	_, hung, pp := withTimeout(10*time.Second, func() error { _, serr = client.Start(); return nil })
	defer withTimeout(8*time.Second, func() error { client.Kill(); return nil })
	launched := cmd.Process != nil
	if launched {
		defer cmd.Process.Kill()
	}
	impl = fmt.Sprintf("err=%s launched=%s rfcalls=%d", b01(serr != nil), b01(launched), atomic.LoadInt32(&rfCalls))
	switch {
	case hung || pp != nil:
		return impl, "FAIL:start-hung-or-panicked"
	case serr == nil:
		return impl, "FAIL:conflicting-launch-methods-accepted"
	case launched || atomic.LoadInt32(&rfCalls) != 0:
		return impl, "FAIL:something-launched-despite-the-conflict"
	}
	return impl, "ok"
}

type failingEntropy struct{}

func (failingEntropy) Read([]byte) (int, error) {
	return 0, errors.New("gpv: entropy source unavailable")
}

// runAutoMTLSCertFault: AutoMTLS is on and the host cannot produce its certificate (the process-wide entropy source
// fails for the duration of Start): Start reports an error and nothing is launched — in particular not a plugin WITHOUT
// PLUGIN_CLIENT_CERT, which would serve without TLS.  (Swaps a process-wide variable: runs while nothing else does.)
func runAutoMTLSCertFault() (impl, pred string) {
	old := rand.Reader
	rand.Reader = failingEntropy{}
	restore := func() { rand.Reader = old }
	defer restore()
	var calls int32
	withCert := false
	client := plugin.NewClient(&plugin.ClientConfig{
		HandshakeConfig:  kitHandshake(),
		VersionedPlugins: kitHostSets(map[int]string{3: "grpc"}, nil, nil),
		AllowedProtocols: []plugin.Protocol{plugin.ProtocolGRPC},
		AutoMTLS:         true,
		Logger:           nullLogger(),
		StartTimeout:     2 * time.Second,
		Cmd:              nil,
		RunnerFunc: func(l hclog.Logger, cm *exec.Cmd, tmpDir string) (runner.Runner, error) {
			atomic.AddInt32(&calls, 1)
			for _, kv := range cm.Env {
				if len(kv) > 19 && kv[:19] == "PLUGIN_CLIENT_CERT=" {
					withCert = true
				}
			}
			return nil, fmt.Errorf("not launching")
		},
	})
	var serr error
	_, hung, pp := withTimeout(8*time.Second, func() error { _, serr = client.Start(); return nil })
	restore()
	withTimeout(5*time.Second, func() error { client.Kill(); return nil })
	n := atomic.LoadInt32(&calls)
	impl = fmt.Sprintf("err=%s launches=%d withcert=%s", b01(serr != nil), n, b01(withCert))
	switch {
	case hung || pp != nil:
		return impl, "FAIL:start-hung-or-panicked"
	case n > 0 && !withCert:
		return impl, "FAIL:automtls-plugin-launched-without-client-certificate"
	case n > 0:
		return "fault-not-injected " + impl, "ok" // this toolchain's certificate generation does not read the swapped source
	case serr == nil:
		return impl, "FAIL:start-succeeded-without-certificate"
	}
	return impl, "ok"
}

func init() { registerPlugin("servemux", pluginServeMux) }

// pluginServeMux: a plugin binary built on plugin.ServeMux (one binary, the plugin type named on the command line).
// `gpv plugin servemux <args…>` is such a binary invoked with <args…>.
func pluginServeMux(args []string) {
	os.Args = append([]string{os.Args[0]}, args...)
	vp, _ := kitSets(&kitServeCfg{Sets: map[string]string{"3": "netrpc"}})
	plugin.ServeMux(plugin.ServeMuxMap{
		"kit": &plugin.ServeConfig{HandshakeConfig: kitHandshake(), VersionedPlugins: vp, Logger: nullLogger()},
	})
}

// runServeMuxRefusal: a ServeMux binary started by hand — without the magic cookie, with whatever command line: it prints
// nothing on stdout and exits with status 1 (also when the command line itself is wrong).
func runServeMuxRefusal(args []string, cookieEnv []string) (impl, pred string) {
	cmd := exec.Command(selfExe(), append([]string{"plugin", "servemux"}, args...)...)
	cmd.Env = append([]string{"TMPDIR=" + os.Getenv("VERIF_WORK")}, cookieEnv...)
	var so, se bytes.Buffer
	cmd.Stdout, cmd.Stderr = &so, &se
	done := make(chan error, 1)
	if err := cmd.Start(); err != nil {
		return "setup-error", "FAIL:setup-start"
	}
	go func() { done <- cmd.Wait() }()
	var werr error
	select {
	case werr = <-done:
	case <-time.After(8 * time.Second):
		cmd.Process.Kill()
		<-done
		return "still-running", "FAIL:cookie-less-plugin-kept-running"
	}
	code := 0
	if ee, ok := werr.(*exec.ExitError); ok {
		code = ee.ExitCode()
	} else if werr != nil {
		code = -1
	}
	impl = fmt.Sprintf("exit=%d stdout=%d", code, so.Len())
	switch {
	case so.Len() != 0:
		return impl, "FAIL:cookie-less-plugin-wrote-to-stdout"
	case code != 1:
		return impl, "FAIL:cookie-less-plugin-exit-status-not-1"
	}
	return impl, "ok"
}
