package main

// C06 / C07: the ID allocator under concurrent callers, and concurrent net/rpc Dispense calls each reaching the server
// object created for THAT dispense (predicate-only cases; the Lean side is Model/IdAlloc.lean).

import (
	"fmt"
	"net/rpc"
	"sync"
	"sync/atomic"
	"testing"
	"time"

	plugin "github.com/hashicorp/go-plugin"
)

// idsDistinct: g goroutines x calls NextId on one broker, released together; no value may come out twice.
func idsDistinct(o *out, caseLine string, next func() uint32) {
	const g, calls = 64, 2000
	res := make([][]uint32, g)
	var wg sync.WaitGroup
	start := make(chan struct{})
	for i := 0; i < g; i++ {
		wg.Add(1)
		go func(i int) {
			defer wg.Done()
			<-start
			r := make([]uint32, calls)
			for k := range r {
				r[k] = next()
			}
			res[i] = r
		}(i)
	}
	close(start)
	wg.Wait()
	seen := make(map[uint32]bool, g*calls)
	dups := 0
	for _, r := range res {
		for _, v := range r {
			if seen[v] || v == 0 {
				dups++
			}
			seen[v] = true
		}
	}
	impl, pred := "distinct", "ok"
	if dups > 0 {
		impl, pred = fmt.Sprintf("duplicates %d", dups), "FAIL:duplicate-ids"
	}
	o.emit(fmt.Sprintf("%s n=%d calls=%d", caseLine, g, calls), impl, pred)
}

// seqPlugin: every Server() call creates an object with a number of its own; the client asks which one it reached.
type seqPlugin struct{ ctr *int32 }
type seqServer struct{ n int32 }

func (s *seqServer) Which(_ struct{}, out *int32) error { *out = s.n; return nil }
func (p *seqPlugin) Server(*plugin.MuxBroker) (interface{}, error) {
	return &seqServer{n: atomic.AddInt32(p.ctr, 1)}, nil
}
func (p *seqPlugin) Client(b *plugin.MuxBroker, c *rpc.Client) (interface{}, error) { return c, nil }

// concurrentDispense: g goroutines x k Dispense calls on one net/rpc client; every call must succeed and every
// dispensed client must talk to a server object of its own.
func concurrentDispense(o *out, g, k int) {
	caseLine := fmt.Sprintf("!C06.dispense g=%d k=%d", g, k)
	var ctr int32
	var tb testing.TB
	var client *plugin.RPCClient
	func() {
		defer func() { recover() }()
		client, _ = plugin.TestPluginRPCConn(tb, map[string]plugin.Plugin{"seq": &seqPlugin{ctr: &ctr}}, nil)
	}()
	if client == nil {
		o.emit(caseLine, "setup-error", "FAIL:setup")
		return
	}
	defer client.Close()
	type res struct {
		n   int32
		err string
	}
	out := make([][]res, g)
	var wg sync.WaitGroup
	start := make(chan struct{})
	for i := 0; i < g; i++ {
		wg.Add(1)
		go func(i int) {
			defer wg.Done()
			<-start
			for j := 0; j < k; j++ {
				raw, err := client.Dispense("seq")
				if err != nil {
					out[i] = append(out[i], res{err: "dispense"})
					continue
				}
				c := raw.(*rpc.Client)
				var n int32
				call := c.Go("Plugin.Which", struct{}{}, &n, nil)
				select {
				case <-call.Done:
					if call.Error != nil {
						out[i] = append(out[i], res{err: "call"})
					} else {
						out[i] = append(out[i], res{n: n})
					}
				case <-time.After(10 * time.Second):
					out[i] = append(out[i], res{err: "call-hung"})
				}
				c.Close()
			}
		}(i)
	}
	t0 := time.Now()
	close(start)
	wg.Wait()
	seen := map[int32]int{}
	errs, shared := map[string]int{}, 0
	for _, rs := range out {
		for _, r := range rs {
			if r.err != "" {
				errs[r.err]++
				continue
			}
			seen[r.n]++
			if seen[r.n] > 1 {
				shared++
			}
		}
	}
	impl, pred := fmt.Sprintf("ok reached=%d", len(seen)), "ok"
	switch {
	case len(errs) > 0:
		impl, pred = fmt.Sprintf("errors %v", errs), "FAIL:concurrent-dispense-failed"
	case shared > 0:
		impl, pred = fmt.Sprintf("shared %d", shared), "FAIL:dispense-reached-another-dispenses-server"
	case len(seen) != g*k:
		impl, pred = fmt.Sprintf("reached %d of %d", len(seen), g*k), "FAIL:dispense-count"
	case time.Since(t0) > 20*time.Second:
		pred = "FAIL:concurrent-dispense-slow"
	}
	o.emit(caseLine, impl, pred)
}
