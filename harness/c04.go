package main

// C04 correspondence: Client.Kill against real plugin processes in every shutdown behaviour.

import (
	"fmt"
	"os"
	"os/exec"
	"path/filepath"
	"strings"
	"sync"
	"syscall"
	"sync/atomic"
	"time"

	hclog "github.com/hashicorp/go-hclog"
	plugin "github.com/hashicorp/go-plugin"
	"github.com/hashicorp/go-plugin/runner"
)

type killCase struct {
	proto   string // netrpc | grpc | grpcmux
	beh     string // fast | fast500 | slow | ignores | frozen | dead | neverstarted
	launch  string // cmd | runner | reattach
	pattern string // single | repeat | concurrent | cleanup
}

func (c *killCase) line() string {
	return fmt.Sprintf("C04 proto=%s beh=%s launch=%s pattern=%s", c.proto, c.beh, c.launch, c.pattern)
}

func killCaseFromLine(m map[string]string) *killCase {
	return &killCase{m["proto"], m["beh"], m["launch"], m["pattern"]}
}

var c04Seq int64

func runKillCase(c *killCase) (impl, pred string) {
	work := os.Getenv("VERIF_WORK")
	base := filepath.Join(work, fmt.Sprintf("c04-%d-%d", os.Getpid(), atomic.AddInt64(&c04Seq, 1)))
	os.MkdirAll(base, 0o755)
	defer os.RemoveAll(base)
	marker := filepath.Join(base, "clean-exit")
	wire := "netrpc"
	if c.proto != "netrpc" {
		wire = "grpc"
	}
	kc := kitServeCfg{Sets: map[string]string{"3": wire}, GRPCServer: wire == "grpc", Marker: marker}
	switch c.beh {
	case "fast500":
		kc.AfterServe = "delay:500"
	case "busy1000":
		kc.AfterServe = "delay:1000"
	case "slow":
		kc.AfterServe = "delay:4500"
	case "ignores":
		kc.AfterServe = "hang"
	case "neverstarted":
		kc.PreServe = "printhang:" + hxs("not a handshake\n")
	case "neverstarted2":
		// the rejected line is followed by more stdout output (a banner, a stray Println)
		kc.PreServe = "printhang:" + hxs("not a handshake\nsecond line\nthird line\n")
	}
	extra := []string{"TMPDIR=" + base}
	if c.beh == "fastlost" {
		// the plugin's Quit handler pauses after ending the server: the process is gone before the reply is written
		extra = append(extra, "GOPLUGIN_VERIF_POINTS=rpcserver.quit.after-done=sleep:400ms")
	}
	cmd := kitCmd(kc, extra...)
	cfg := &plugin.ClientConfig{
		HandshakeConfig:     kitHandshake(),
		VersionedPlugins:    kitHostSets(map[int]string{3: wire}, nil, nil),
		AllowedProtocols:    []plugin.Protocol{plugin.ProtocolNetRPC, plugin.ProtocolGRPC},
		GRPCBrokerMultiplex: c.proto == "grpcmux",
		Logger:              nullLogger(),
		StartTimeout:        5 * time.Second,
		Managed:             c.pattern == "cleanup",
		UnixSocketConfig:    &plugin.UnixSocketConfig{TempDir: base},
	}
	var pr *lcProcRunner
	var launcher *plugin.Client
	farPid := 0
	switch c.launch {
	case "cmd":
		cfg.Cmd = cmd
	case "cmdattr":
		// the host configured process attributes of its own on the command (no new session or group)
		cmd.SysProcAttr = &syscall.SysProcAttr{}
		cfg.Cmd = cmd
	case "runner":
		cfg.RunnerFunc = func(l hclog.Logger, cm *exec.Cmd, tmpDir string) (runner.Runner, error) {
			cmd.Env = append(cmd.Env, cm.Env...)
			var err error
			pr, err = newLcProcRunner(cmd)
			if pr != nil {
				pr.failAfterLaunch = c.beh == "startfails"
			}
			return pr, err
		}
	case "reattach-far":
		// the plugin was launched by ANOTHER process: it is not a child of this host
		det, derr := startDetachedPlugin(kc, wire, extra...)
		if derr != nil {
			return "setup-error", "FAIL:setup-detached"
		}
		defer det.stop()
		farPid = det.rc.Pid
		cfg.Reattach = det.rc
		cfg.Plugins = cfg.VersionedPlugins[3]
		cfg.VersionedPlugins = nil
		cfg.UnixSocketConfig = nil
		cfg.GRPCBrokerMultiplex = false
	case "reattach":
		launcher = plugin.NewClient(&plugin.ClientConfig{
			HandshakeConfig: kitHandshake(), VersionedPlugins: kitHostSets(map[int]string{3: wire}, nil, nil),
			AllowedProtocols: []plugin.Protocol{plugin.ProtocolNetRPC, plugin.ProtocolGRPC},
			Cmd:              cmd, Logger: nullLogger(), StartTimeout: 5 * time.Second,
		})
		if _, err := launcher.Start(); err != nil {
			return "setup-error", "FAIL:setup"
		}
		cfg.Reattach = launcher.ReattachConfig()
		cfg.Plugins = cfg.VersionedPlugins[3]
		cfg.VersionedPlugins = nil
		cfg.UnixSocketConfig = nil
		cfg.GRPCBrokerMultiplex = false
	}
	client := plugin.NewClient(cfg)
	var kit Kit
	if strings.HasPrefix(c.beh, "neverstarted") || c.beh == "startfails" {
		if _, err := client.Start(); err == nil {
			return "setup-error", "FAIL:setup-start-succeeded"
		}
	} else {
		cp, err := client.Client()
		if err != nil {
			client.Kill()
			return "setup-error", "FAIL:setup:" + strings.ReplaceAll(err.Error(), " ", "_")
		}
		raw, err := cp.Dispense("kit")
		if err != nil {
			client.Kill()
			return "setup-error", "FAIL:setup-dispense"
		}
		kit = raw.(Kit)
		if v, err := kit.Double(2); err != nil || v != 7 {
			client.Kill()
			return "setup-error", "FAIL:setup-double"
		}
	}
	pid := 0
	if cmd.Process != nil {
		pid = cmd.Process.Pid
	}
	if farPid != 0 {
		pid = farPid
		// a reattached plugin that is alive is not reported as exited (before anything was done to it)
		time.Sleep(300 * time.Millisecond)
		if client.Exited() {
			return "exited-while-running", "FAIL:reattached-plugin-reported-exited-while-running"
		}
	}
	switch c.beh {
	case "busy1000":
		// a request that is still being served when Kill is called (and for long after)
		go kit.Cmd("sleep", 30000)
		time.Sleep(300 * time.Millisecond)
	case "frozen":
		go kit.Cmd("stop", 0)
		time.Sleep(300 * time.Millisecond)
	case "dead":
		go kit.Cmd("kill", 0)
		waitDead(pid, 3*time.Second)
		time.Sleep(100 * time.Millisecond)
	}
	// ---- the Kill pattern
	watchdog := 12 * time.Second
	if c.beh == "frozen" && c.proto == "netrpc" {
		watchdog = 60 * time.Second
	}
	t0 := time.Now()
	var hung bool
	var pp interface{}
	var earlyReturn atomic.Value
	switch c.pattern {
	case "single":
		_, hung, pp = withTimeout(watchdog, func() error { client.Kill(); return nil })
	case "repeat":
		_, hung, pp = withTimeout(watchdog, func() error { client.Kill(); client.Kill(); client.Kill(); return nil })
	case "concurrent":
		_, hung, pp = withTimeout(watchdog, func() error {
			var wg sync.WaitGroup
			var perr atomic.Value
			for i := 0; i < 4; i++ {
				wg.Add(1)
				go func(i int) {
					defer wg.Done()
					defer func() {
						if r := recover(); r != nil {
							perr.Store(fmt.Sprint(r))
						}
					}()
					// staggered, so that later calls begin while the first is inside its procedure
					time.Sleep(time.Duration(i) * 120 * time.Millisecond)
					client.Kill()
					// EVERY Kill that returns must find the process gone and reported as exited
					if pid != 0 && pidAlive(pid) {
						earlyReturn.Store(fmt.Sprintf("kill#%d-returned-while-plugin-alive", i))
					} else if !client.Exited() && c.beh != "startfails" {
						earlyReturn.Store(fmt.Sprintf("kill#%d-returned-before-exited-was-set", i))
					}
				}(i)
			}
			wg.Wait()
			if v := perr.Load(); v != nil {
				panic(v)
			}
			return nil
		})
	case "cleanup":
		_, hung, pp = withTimeout(watchdog, func() error { plugin.CleanupClients(); return nil })
	}
	lat := time.Since(t0)
	forced := client.VerifKilled()
	exited := client.Exited()
	dead := pid == 0 || !pidAlive(pid)
	reaped := true
	if pid != 0 && c.launch != "reattach" && c.launch != "reattach-far" {
		_, err := os.Stat(fmt.Sprintf("/proc/%d", pid))
		reaped = err != nil
	}
	_, merr := os.Stat(marker)
	clean := merr == nil
	// a frozen process must be resumed/killed by us if Kill hung
	if hung && pid != 0 {
		if p, err := os.FindProcess(pid); err == nil {
			p.Kill()
		}
	}
	pred = "ok"
	switch {
	case hung:
		pred = "FAIL:kill-hung"
	case pp != nil:
		pred = "FAIL:kill-panicked"
	case earlyReturn.Load() != nil:
		pred = "FAIL:" + earlyReturn.Load().(string)
	case !dead:
		pred = "FAIL:process-alive-after-kill"
	case !reaped:
		pred = "FAIL:process-not-reaped-after-kill"
	case c.beh == "startfails" && (pr == nil || atomic.LoadInt32(&pr.kills) == 0):
		pred = "FAIL:runner-of-failed-start-never-killed"
	case !exited && c.beh != "startfails":
		// (startfails: go-plugin never got to watch that process; only its end is claimed)
		pred = "FAIL:exited-false-after-kill"
	case (c.beh == "fast" || c.beh == "fast500" || c.beh == "fastlost" || c.beh == "busy1000") && c.pattern != "cleanup" && forced && (c.proto != "netrpc" || !clean):
		// (net/rpc: a force kill issued after the plugin had already finished its clean-up and left is the harmless
		// shutdown race of RPCClient.Close; the clean-up marker tells the two apart)
		pred = "FAIL:graceful-plugin-force-killed"
	case (c.beh == "fast" || c.beh == "fast500" || c.beh == "fastlost" || c.beh == "busy1000") && c.pattern != "cleanup" && !clean:
		// (whatever the call pattern: a Kill that overlaps an earlier one must not cut the plugin's clean-up short)
		pred = "FAIL:graceful-plugin-did-not-finish-cleanup"
	case (c.beh == "slow" || c.beh == "ignores" || c.beh == "frozen") && !forced:
		pred = "FAIL:unresponsive-plugin-not-force-killed"
	}
	impl = fmt.Sprintf("ret=%s forced=%s dead=%s exited=%s lat=%d", b01(!hung), b01(forced), b01(dead), b01(exited), lat.Milliseconds())
	if launcher != nil {
		withTimeout(5*time.Second, func() error { launcher.Kill(); return nil })
	}
	if cmd.Process != nil {
		cmd.Process.Kill()
	}
	return impl, pred
}

func init() {
	register("C04", func(o *out, replay string) {
		idleHostStdin()
		if replay != "" {
			_, m := kvLine(replay)
			c := killCaseFromLine(m)
			impl, pred := runKillCase(c)
			o.emit(c.line(), impl, pred)
			return
		}
		var cases, managed []*killCase
		behs := []string{"fast", "fast500", "slow", "ignores", "frozen", "dead", "neverstarted", "neverstarted2"}
		for _, proto := range []string{"netrpc", "grpc", "grpcmux"} {
			for _, beh := range behs {
				if beh == "frozen" && proto == "netrpc" && tier() != "thorough" {
					continue // bounded by the yamux keep-alive (~40 s): thorough tier only
				}
				cases = append(cases, &killCase{proto, beh, "cmd", "single"})
				if proto != "grpcmux" {
					cases = append(cases, &killCase{proto, beh, "runner", "single"})
				}
				if beh == "fast500" && tier() != "thorough" {
					// a plugin inside its grace period when the second, third, fourth Kill begin
					cases = append(cases, &killCase{proto, beh, "cmd", "concurrent"})
				}
				if beh == "fast" || beh == "ignores" || beh == "dead" {
					cases = append(cases, &killCase{proto, beh, "cmd", "repeat"}, &killCase{proto, beh, "cmd", "concurrent"})
					if proto != "grpcmux" && beh != "dead" {
						cases = append(cases, &killCase{proto, beh, "reattach", "single"})
					}
				}
				if tier() == "thorough" {
					cases = append(cases, &killCase{proto, beh, "cmd", "repeat"}, &killCase{proto, beh, "cmd", "concurrent"})
				}
			}
			managed = append(managed, &killCase{proto, "fast", "cmd", "cleanup"}, &killCase{proto, "ignores", "cmd", "cleanup"})
			if proto != "grpcmux" {
				// managed clients of every launch method are ended by CleanupClients
				managed = append(managed, &killCase{proto, "fast", "reattach", "cleanup"}, &killCase{proto, "fast", "runner", "cleanup"})
			}
		}
		// the graceful path is a race on net/rpc (reply to Control.Quit vs the plugin's exit): repeat it
		reps := 12
		if tier() == "thorough" {
			reps = 60
		}
		for i := 0; i < reps; i++ {
			cases = append(cases, &killCase{"netrpc", "fast", "cmd", "single"})
		}
		cases = append(cases, &killCase{"netrpc", "fastlost", "cmd", "single"}, &killCase{"netrpc", "fastlost", "runner", "single"})
		// reattached to a plugin that another process launched (not a child of this host)
		for _, proto := range []string{"netrpc", "grpc"} {
			cases = append(cases, &killCase{proto, "fast", "reattach-far", "single"}, &killCase{proto, "ignores", "reattach-far", "single"},
				&killCase{proto, "ignores", "reattach-far", "concurrent"})
			managed = append(managed, &killCase{proto, "ignores", "reattach-far", "cleanup"})
		}
		// a plugin that is busy (a request in flight) when Kill arrives and needs 1 s of clean-up of its own
		for _, proto := range []string{"netrpc", "grpc", "grpcmux"} {
			cases = append(cases, &killCase{proto, "busy1000", "cmd", "single"})
		}
		cases = append(cases, &killCase{"grpc", "busy1000", "runner", "single"}, &killCase{"grpc", "busy1000", "reattach", "single"})
		for _, proto := range []string{"netrpc", "grpc"} {
			cases = append(cases, &killCase{proto, "ignores", "cmdattr", "single"}, &killCase{proto, "neverstarted", "cmdattr", "single"})
		}
		// a custom runner whose Start fails after it has created the process: Kill / CleanupClients must still end it
		for _, proto := range []string{"netrpc", "grpc"} {
			cases = append(cases, &killCase{proto, "startfails", "runner", "single"}, &killCase{proto, "startfails", "runner", "repeat"},
				&killCase{proto, "startfails", "runner", "concurrent"})
			managed = append(managed, &killCase{proto, "startfails", "runner", "cleanup"})
		}
		impls := make([]string, len(cases))
		preds := make([]string, len(cases))
		parallel(len(cases), 24, func(i int) { impls[i], preds[i] = runKillCase(cases[i]) })
		for i, c := range cases {
			o.emit(c.line(), impls[i], preds[i])
		}
		// CleanupClients acts on the process-wide list of managed clients: one at a time
		for _, c := range managed {
			impl, pred := runKillCase(c)
			o.emit(c.line(), impl, pred)
		}
		// … and over eight managed clients in eight different states with ONE call
		{
			cl, impl, pred := runCleanupMixed()
			o.emit(cl, impl, pred)
		}
		o.note("C04: %d kill cells (+%d managed/CleanupClients, +1 mixed)", len(cases), len(managed))
	})
}
