package main

// Cells added after the ninth round of seeded changes.

import (
	"bufio"
	"bytes"
	"fmt"
	"net"
	"os"
	"os/exec"
	"path/filepath"
	"runtime"
	"strings"
	"sync"
	"sync/atomic"
	"syscall"
	"time"

	hclog "github.com/hashicorp/go-hclog"
	plugin "github.com/hashicorp/go-plugin"
	"github.com/hashicorp/go-plugin/runner"
	grpctest "github.com/hashicorp/go-plugin/test/grpc"
	"google.golang.org/grpc"
)

func goroutinesWith(substr string) int {
	buf := make([]byte, 16<<20)
	n := runtime.Stack(buf, true)
	c := 0
	for _, g := range strings.Split(string(buf[:n]), "\n\n") {
		if strings.Contains(g, substr) {
			c++
		}
	}
	return c
}

// runMuxOpenListenerThenClose (C09, "closing the client ends the broker's goroutines"): a multiplexed pair; each side
// accepts an id that nobody ever dials and keeps the listener open; the pair is closed: no knock loop is left.
// (Counts process-wide: runs while no other multiplexed pair exists.)
func runMuxOpenListenerThenClose() (impl, pred string) {
	before := goroutinesWith("listenForKnocks")
	p, err := newGrpcPair(true)
	if err != nil {
		return "setup-error", "FAIL:setup"
	}
	for _, b := range []*plugin.GRPCBroker{p.host, p.plug} {
		if _, err := b.Accept(b.NextId()); err != nil {
			p.close()
			return "accept-err", "FAIL:setup-accept"
		}
	}
	time.Sleep(200 * time.Millisecond)
	during := goroutinesWith("listenForKnocks") - before
	withTimeout(15*time.Second, func() error { p.close(); return nil })
	left := -1
	for dl := time.Now().Add(4 * time.Second); time.Now().Before(dl); time.Sleep(100 * time.Millisecond) {
		if left = goroutinesWith("listenForKnocks") - before; left <= 0 {
			break
		}
	}
	impl = fmt.Sprintf("loops-while-open=%d left-after-close=%d", during, left)
	if left > 0 {
		return impl, "FAIL:knock-loop-left-after-the-pair-was-closed"
	}
	return impl, "ok"
}

// runAmbientNegotiationVars (C14): the HOST's own environment carries go-plugin's conditional negotiation variables (it is
// itself a plugin of an AutoMTLS / multiplexing host); a client that asks for neither launches a compatible plugin: the
// pair works.  (Sets process-wide variables: runs while nothing else launches plugins.)
func runAmbientNegotiationVars(proto string) (impl, pred string) {
	base := filepath.Join(os.Getenv("VERIF_WORK"), fmt.Sprintf("r9-amb-%d-%s", os.Getpid(), proto))
	os.MkdirAll(base, 0o755)
	defer os.RemoveAll(base)
	certPEM, _ := genStaticCert()
	os.Setenv("PLUGIN_CLIENT_CERT", certPEM)
	os.Setenv("PLUGIN_MULTIPLEX_GRPC", "true")
	defer os.Unsetenv("PLUGIN_CLIENT_CERT")
	defer os.Unsetenv("PLUGIN_MULTIPLEX_GRPC")
	cmd := kitCmd(kitServeCfg{Sets: map[string]string{"3": proto}, GRPCServer: proto == "grpc"}, "TMPDIR="+base)
	client := plugin.NewClient(&plugin.ClientConfig{
		HandshakeConfig:  kitHandshake(),
		VersionedPlugins: kitHostSets(map[int]string{3: proto}, nil, nil),
		AllowedProtocols: []plugin.Protocol{plugin.ProtocolNetRPC, plugin.ProtocolGRPC},
		Cmd:              cmd,
		Logger:           nullLogger(),
		StartTimeout:     10 * time.Second,
	})
	defer func() {
		withTimeout(8*time.Second, func() error { client.Kill(); return nil })
		if cmd.Process != nil {
			cmd.Process.Kill()
		}
	}()
	var v int
	var werr error
	_, hung, pp := withTimeout(20*time.Second, func() error {
		cp, err := client.Client()
		if err != nil {
			werr = err
			return nil
		}
		raw, err := cp.Dispense("kit")
		if err != nil {
			werr = err
			return nil
		}
		v, werr = raw.(Kit).Double(5)
		return nil
	})
	switch {
	case hung || pp != nil:
		return "hang-or-panic", "FAIL:compatible-pair-hung-or-panicked"
	case werr != nil || v != 13:
		return "failed", "FAIL:compatible-pair-does-not-work-under-ambient-negotiation-variables"
	}
	return "works", "ok"
}

// runReattachKillFrozen (C15, "killing it terminates that plugin"): a live plugin, a client reattached to it, the plugin is
// frozen (SIGSTOP) when Kill is called on the reattached client: Kill returns in bounded time and the plugin is gone.
func runReattachKillFrozen(proto string) (impl, pred string) {
	base := filepath.Join(os.Getenv("VERIF_WORK"), fmt.Sprintf("r9-rkf-%d-%s", os.Getpid(), proto))
	os.MkdirAll(base, 0o755)
	defer os.RemoveAll(base)
	allowed := []plugin.Protocol{plugin.ProtocolNetRPC, plugin.ProtocolGRPC}
	hostSets := kitHostSets(map[int]string{3: proto}, nil, nil)
	cmd := kitCmd(kitServeCfg{Sets: map[string]string{"3": proto}, GRPCServer: proto == "grpc"}, "TMPDIR="+base)
	launcher := plugin.NewClient(&plugin.ClientConfig{HandshakeConfig: kitHandshake(), VersionedPlugins: hostSets, AllowedProtocols: allowed,
		Cmd: cmd, Logger: nullLogger(), StartTimeout: 10 * time.Second})
	defer func() {
		if cmd.Process != nil {
			syscall.Kill(cmd.Process.Pid, syscall.SIGCONT)
			cmd.Process.Kill()
		}
	}()
	if _, err := launcher.Start(); err != nil {
		return "setup-error", "FAIL:setup-start"
	}
	rc := launcher.ReattachConfig()
	client := plugin.NewClient(&plugin.ClientConfig{HandshakeConfig: kitHandshake(), Plugins: hostSets[3], AllowedProtocols: allowed, Reattach: rc, Logger: nullLogger()})
	cp, err := client.Client()
	if err != nil {
		return "setup-error", "FAIL:setup-reattach"
	}
	if err := cp.Ping(); err != nil {
		return "setup-error", "FAIL:setup-ping"
	}
	syscall.Kill(rc.Pid, syscall.SIGSTOP)
	t0 := time.Now()
	_, hung, pp := withTimeout(60*time.Second, func() error { client.Kill(); return nil })
	lat := time.Since(t0)
	dead := waitDead(rc.Pid, 2*time.Second)
	impl = fmt.Sprintf("ret=%s dead=%s", b01(!hung), b01(dead))
	switch {
	case hung:
		return impl, "FAIL:kill-of-a-frozen-reattached-plugin-did-not-return"
	case pp != nil:
		return impl, "FAIL:kill-panicked"
	case !dead:
		return impl, "FAIL:reattached-plugin-alive-after-kill"
	case lat > 50*time.Second:
		return impl, "FAIL:kill-not-bounded"
	}
	return impl, "ok"
}

// runDeepSocketDir (C16, "the announced address is already accepting connections when the line appears"): the socket
// directory's path is long (the socket path comes close to the limit of a Unix socket address): the address on the line is
// dialled the moment the line has been read.
func runDeepSocketDir(n int) (impl, pred string) {
	dir := filepath.Join(os.TempDir(), fmt.Sprintf("gpv-r9-deep-%d", os.Getpid()))
	for len(dir) < n {
		dir = filepath.Join(dir, "ddddddddd")
	}
	dir = strings.TrimRight(dir[:n], "/")
	if err := os.MkdirAll(dir, 0o755); err != nil {
		return "setup-error", "FAIL:setup-mkdir"
	}
	defer os.RemoveAll(filepath.Join(os.TempDir(), fmt.Sprintf("gpv-r9-deep-%d", os.Getpid())))
	cmd := kitCmd(kitServeCfg{Sets: map[string]string{"3": "netrpc"}}, "TMPDIR="+dir, kitCookieKey+"="+kitCookieVal)
	cmd.Dir = "/"
	so, err := cmd.StdoutPipe()
	if err != nil {
		return "setup-error", "FAIL:setup-pipe"
	}
	if err := cmd.Start(); err != nil {
		return "setup-error", "FAIL:setup-start"
	}
	defer func() { cmd.Process.Kill(); cmd.Wait() }()
	lineCh := make(chan string, 1)
	go func() {
		sc := bufio.NewScanner(so)
		if sc.Scan() {
			lineCh <- sc.Text()
		} else {
			lineCh <- ""
		}
	}()
	var line string
	select {
	case line = <-lineCh:
	case <-time.After(10 * time.Second):
		return "no-line", "FAIL:no-handshake-line"
	}
	f := strings.Split(line, "|")
	if len(f) < 4 || f[2] != "unix" {
		return fmt.Sprintf("line-fields=%d line=%s", len(f), hxs(line)), "FAIL:unexpected-line"
	}
	c, derr := net.Dial("unix", f[3])
	if c != nil {
		c.Close()
	}
	impl = fmt.Sprintf("dirlen=%d addrlen=%d absolute=%s dial=%s", len(dir), len(f[3]), b01(filepath.IsAbs(f[3])), b01(derr == nil))
	if derr != nil {
		return impl, "FAIL:announced-address-not-accepting"
	}
	return impl, "ok"
}

// runRefusalWithFullStderr (C16): the cookie-less plugin cannot even write its warning (stderr is /dev/full): it still
// exits with status 1 and prints nothing on stdout.
func runRefusalWithFullStderr(cookieEnv []string) (impl, pred string) {
	full, err := os.OpenFile("/dev/full", os.O_WRONLY, 0)
	if err != nil {
		return "no-dev-full", "ok"
	}
	defer full.Close()
	cmd := kitCmd(kitServeCfg{Sets: map[string]string{"3": "netrpc"}}, "TMPDIR="+os.Getenv("VERIF_WORK"))
	var env []string
	for _, kv := range cmd.Env {
		if !strings.HasPrefix(kv, kitCookieKey+"=") {
			env = append(env, kv)
		}
	}
	cmd.Env = append(env, cookieEnv...)
	var so bytes.Buffer
	cmd.Stdout, cmd.Stderr = &so, full
	done := make(chan error, 1)
	if err := cmd.Start(); err != nil {
		return "setup-error", "FAIL:setup-start"
	}
	go func() { done <- cmd.Wait() }()
	var werr error
	select {
	case werr = <-done:
	case <-time.After(8 * time.Second):
		cmd.Process.Kill()
		<-done
		return "still-running", "FAIL:cookie-less-plugin-kept-running"
	}
	code := 0
	if ee, ok := werr.(*exec.ExitError); ok {
		code = ee.ExitCode()
	} else if werr != nil {
		code = -1
	}
	impl = fmt.Sprintf("exit=%d stdout=%d", code, so.Len())
	switch {
	case so.Len() != 0:
		return impl, "FAIL:cookie-less-plugin-wrote-to-stdout"
	case code != 1:
		return impl, "FAIL:cookie-less-plugin-exit-status-not-1"
	}
	return impl, "ok"
}

// runTimeoutThenRetry (C19, "launched at most once"): the first Start launches the plugin and fails BY TIMEOUT (the plugin
// stays silent); every later Start / Client / Protocol, and a Start after Kill, launches nothing.
func runTimeoutThenRetry() (impl, pred string) {
	var rfCalls int32
	var mu sync.Mutex
	var fakes []*fakeRunner
	client := plugin.NewClient(&plugin.ClientConfig{
		HandshakeConfig:  kitHandshake(),
		VersionedPlugins: kitHostSets(map[int]string{3: "netrpc"}, nil, nil),
		Logger:           nullLogger(),
		StartTimeout:     300 * time.Millisecond,
		RunnerFunc: func(l hclog.Logger, cm *exec.Cmd, tmpDir string) (runner.Runner, error) {
			atomic.AddInt32(&rfCalls, 1)
			fr := newFakeRunner()
			mu.Lock()
			fakes = append(fakes, fr)
			mu.Unlock()
			return fr, nil
		},
	})
	defer func() {
		mu.Lock()
		for _, f := range fakes {
			f.exit()
		}
		mu.Unlock()
	}()
	var outs []string
	step := func(name string, f func() error) bool {
		var err error
		_, hung, pp := withTimeout(15*time.Second, func() error { err = f(); return nil })
		switch {
		case hung:
			outs = append(outs, name+":hang")
			return false
		case pp != nil:
			outs = append(outs, name+":panic")
			return false
		case err != nil:
			outs = append(outs, name+":e")
		default:
			outs = append(outs, name+":ok")
		}
		return true
	}
	ok := step("S", func() error { _, err := client.Start(); return err }) &&
		step("S", func() error { _, err := client.Start(); return err }) &&
		step("C", func() error { _, err := client.Client(); return err }) &&
		step("P", func() error {
			if client.Protocol() == plugin.ProtocolInvalid {
				return fmt.Errorf("invalid")
			}
			return nil
		}) &&
		step("K", func() error { client.Kill(); return nil }) &&
		step("S", func() error { _, err := client.Start(); return err })
	n := atomic.LoadInt32(&rfCalls)
	impl = fmt.Sprintf("%s launches=%d", strings.Join(outs, ","), n)
	switch {
	case !ok:
		return impl, "FAIL:call-hung-or-panicked"
	case n != 1:
		return impl, "FAIL:launched-more-than-once-after-a-start-timeout"
	case !strings.HasPrefix(impl, "S:e,S:e,C:e,P:e,K:ok,S:e"):
		return impl, "FAIL:a-call-after-the-failed-start-did-not-fail"
	}
	return impl, "ok"
}

// runMuxConnectFails (C20, "shutdown racing with in-flight operations … no call panics"): a multiplexing gRPC plugin dies
// right after its handshake line; several goroutines call Client() (and again): errors, not a crash of the host.
func runMuxConnectFails() (impl, pred string) {
	base := filepath.Join(os.Getenv("VERIF_WORK"), fmt.Sprintf("r9-mcf-%d", os.Getpid()))
	os.MkdirAll(base, 0o755)
	defer os.RemoveAll(base)
	cmd := kitCmd(kitServeCfg{Sets: map[string]string{"3": "grpc"}, GRPCServer: true}, "TMPDIR="+base, "GOPLUGIN_VERIF_POINTS=serve.after-line=exit:3")
	client := plugin.NewClient(&plugin.ClientConfig{
		HandshakeConfig:     kitHandshake(),
		VersionedPlugins:    kitHostSets(map[int]string{3: "grpc"}, nil, nil),
		AllowedProtocols:    []plugin.Protocol{plugin.ProtocolGRPC},
		GRPCBrokerMultiplex: true,
		Cmd:                 cmd,
		Logger:              nullLogger(),
		StartTimeout:        10 * time.Second,
	})
	defer func() {
		withTimeout(8*time.Second, func() error { client.Kill(); return nil })
		if cmd.Process != nil {
			cmd.Process.Kill()
		}
	}()
	if _, err := client.Start(); err != nil {
		return "start-err", "ok" // the plugin was gone before its line was read: nothing to race with
	}
	var wg sync.WaitGroup
	var errs, oks int32
	_, hung, pp := withTimeout(40*time.Second, func() error {
		for g := 0; g < 4; g++ {
			wg.Add(1)
			go func() {
				defer wg.Done()
				for k := 0; k < 2; k++ {
					if _, err := client.Client(); err != nil {
						atomic.AddInt32(&errs, 1)
					} else {
						atomic.AddInt32(&oks, 1)
					}
				}
			}()
		}
		wg.Wait()
		return nil
	})
	impl = fmt.Sprintf("errs=%d oks=%d", errs, oks)
	switch {
	case hung:
		return impl, "FAIL:client-hung"
	case pp != nil:
		return impl, "FAIL:client-panicked"
	}
	return impl, "ok"
}

// runMuxReacceptAtOnce (C08): an id is accepted, dialled and served; its listener is closed and the id is accepted again
// WITHOUT a pause — and only then is the old gRPC server stopped, which closes the old listener a second time (a listener
// can be closed more than once: by its user and by the server it was served by).  Every round's first call is answered by
// that round's listener, and the main connection lives.
func runMuxReacceptAtOnce(role string, rounds int) (impl, pred string) {
	p, err := newGrpcPair(true)
	if err != nil {
		return "setup-error", "FAIL:setup"
	}
	defer p.close()
	acceptor, dialler := p.plug, p.host
	if role == "client" {
		acceptor, dialler = p.host, p.plug
	}
	okRounds := 0
	var prevSrv *grpc.Server
	for r := 0; r < rounds; r++ {
		ln, err := acceptor.Accept(43)
		if err != nil {
			break
		}
		srv := grpc.NewServer()
		grpctest.RegisterPingPongServer(srv, &pingPong{id: 43})
		go srv.Serve(ln)
		if prevSrv != nil {
			prevSrv.Stop() // the second close of the PREVIOUS round's listener, after this round's accept
		}
		time.Sleep(100 * time.Millisecond)
		ans, conn, err := pingKeep(dialler, 43, 7*time.Second)
		if conn != nil {
			conn.Close()
		}
		ln.Close() // the first close of this round's listener
		prevSrv = srv
		if err != nil || ans != "43" {
			break
		}
		okRounds++
	}
	if prevSrv != nil {
		prevSrv.Stop()
	}
	mainOK := true
	if err, hung, pp := withTimeout(5*time.Second, p.client.Ping); err != nil || hung || pp != nil {
		mainOK = false
	}
	impl = fmt.Sprintf("rounds=%d/%d main=%s", okRounds, rounds, b01(mainOK))
	switch {
	case okRounds != rounds:
		return impl, "FAIL:re-accepted-id-not-served"
	case !mainOK:
		return impl, "FAIL:main-connection-dead"
	}
	return impl, "ok"
}

// runMuxDupDialUnserved (C09, "repeated dials to one ID … cannot block the broker"): multiplexed; one side accepted id 70 and
// is not serving it; the other side dials 70 TWICE and gives up; the listener is closed; then a fresh pair on id 80 in
// the same direction must work, and the main connection too.
func runMuxDupDialUnserved(role string) (impl, pred string) {
	p, err := newGrpcPair(true)
	if err != nil {
		return "setup-error", "FAIL:setup"
	}
	defer func() { withTimeout(15*time.Second, func() error { p.close(); return nil }) }()
	acceptor, dialler := p.plug, p.host
	if role == "client" {
		acceptor, dialler = p.host, p.plug
	}
	ln, err := acceptor.Accept(70)
	if err != nil {
		return "accept-err", "FAIL:setup-accept"
	}
	var wg sync.WaitGroup
	for k := 0; k < 2; k++ {
		wg.Add(1)
		go func() {
			defer wg.Done()
			_, conn, _ := pingKeep(dialler, 70, 1500*time.Millisecond)
			if conn != nil {
				conn.Close()
			}
		}()
		time.Sleep(100 * time.Millisecond)
	}
	wg.Wait()
	// the unserved listener is given up (while it is open and unserved, the announced streams wait for it — and, the
	// establishments being sequential by design, so does everything behind them)
	ln.Close()
	time.Sleep(400 * time.Millisecond)
	fresh := "ok"
	r, hung, pp := "", false, interface{}(nil)
	_, hung, pp = withTimeout(20*time.Second, func() error {
		go func() {
			defer func() { recover() }()
			servePingPong(acceptor, 80)
		}()
		time.Sleep(150 * time.Millisecond)
		ans, conn2, err := pingKeep(dialler, 80, 8*time.Second)
		if conn2 != nil {
			conn2.Close()
		}
		if err != nil || ans != "80" {
			r = "failed"
		}
		return nil
	})
	if hung || pp != nil || r != "" {
		fresh = "failed"
	}
	mainOK := true
	if err, hung, pp := withTimeout(5*time.Second, p.client.Ping); err != nil || hung || pp != nil {
		mainOK = false
	}
	impl = fmt.Sprintf("fresh=%s main=%s", fresh, b01(mainOK))
	switch {
	case fresh != "ok":
		return impl, "FAIL:fresh-pair-failed-after-two-dials-of-an-unserved-id"
	case !mainOK:
		return impl, "FAIL:main-connection-dead"
	}
	return impl, "ok"
}
