package main

// Facts of the stock command runner (internal/cmdrunner/cmd_runner.go), Model/CmdRunner.lean:
//
//	killsOwnHandle   the only call in CmdRunner.Kill that signals anything is `c.cmd.Process.Kill()`
//	startLeavesCmd   CmdRunner.Start assigns to no field of the command and hands the command to nothing but its own Start

import (
	"fmt"
	"go/ast"
	"strings"
)

func init() {
	registerExtractor("cmdrunner", []string{"GoPlugin.Model.CmdRunner"}, extractCmdRunner)
}

func extractCmdRunner(p *pkgs, f *facts) {
	own, leaves := false, false
	if k := p.fn("CmdRunner", "Kill"); k != nil {
		direct, other := 0, 0
		ast.Inspect(k.Body, func(n ast.Node) bool {
			ce, ok := n.(*ast.CallExpr)
			if !ok {
				return true
			}
			s := exprString(ce.Fun)
			switch {
			case s == "c.cmd.Process.Kill":
				direct++
			case strings.Contains(s, "Kill") || strings.Contains(s, "Signal") || strings.Contains(s, "Release") || strings.HasPrefix(s, "syscall.") || strings.HasPrefix(s, "unix."):
				other++
			default:
				// a call that is given the process or the command could signal it too
				for _, a := range ce.Args {
					if as := exprString(a); strings.Contains(as, "c.cmd") {
						other++
					}
				}
			}
			return true
		})
		own = direct >= 1 && other == 0
	} else {
		f.miss = append(f.miss, "CmdRunner.Kill")
	}
	if st := p.fn("CmdRunner", "Start"); st != nil {
		bad := 0
		ast.Inspect(st.Body, func(n ast.Node) bool {
			switch v := n.(type) {
			case *ast.AssignStmt:
				for _, l := range v.Lhs {
					if strings.HasPrefix(exprString(l), "c.cmd.") || exprString(l) == "c.cmd" {
						bad++
					}
				}
			case *ast.CallExpr:
				for _, a := range v.Args {
					if as := exprString(a); as == "c.cmd" || as == "&c.cmd" {
						bad++
					}
				}
			}
			return true
		})
		leaves = bad == 0 && strings.Contains(nodeCalls(st.Body), "c.cmd.Start()")
	} else {
		f.miss = append(f.miss, "CmdRunner.Start")
	}
	f.lean = append(f.lean, fmt.Sprintf("def cmdRunner : CmdRunner.Params := ⟨%s, %s⟩", leanBool(own), leanBool(leaves)))
	f.set("cmdRunner", map[string]interface{}{"killsOwnHandle": own, "startLeavesCmd": leaves})
}
