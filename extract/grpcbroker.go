package main

import (
	"fmt"
	"go/ast"
	"go/token"
	"strings"
)

func init() {
	registerExtractor("grpcbroker", []string{"GoPlugin.Model.GrpcBroker", "GoPlugin.Model.GrpcMux"}, extractGrpcBroker)
}

// callIndex: index (in a flat pre-order walk of fn's body) of the first call whose rendering contains `needle`; -1 if none.
func callPos(fn ast.Node, needle string) int {
	pos, i := -1, 0
	ast.Inspect(fn, func(n ast.Node) bool {
		if ce, ok := n.(*ast.CallExpr); ok {
			i++
			if pos < 0 && strings.Contains(exprString(ce.Fun), needle) {
				pos = i
			}
		}
		return true
	})
	return pos
}

func extractGrpcBroker(p *pkgs, f *facts) {
	// ---- non-mux facts
	files, dialsRecv := false, false
	var dialWin, expiryWin int64
	if run := p.fn("GRPCBroker", "Run"); run != nil {
		// the non-knock branch obtains its slot from getClientStream(msg.ServiceId) and that is where timeoutWait is started
		ast.Inspect(run.Body, func(n ast.Node) bool {
			is, ok := n.(*ast.IfStmt)
			if !ok || is.Else == nil {
				return true
			}
			if !strings.Contains(exprString(is.Cond), "Knock") {
				return true
			}
			els := nodeCalls(is.Else)
			if strings.Contains(els, "getClientStream(msg.ServiceId)") && strings.Contains(els, "timeoutWait") &&
				!strings.Contains(els, "getServerStream") {
				files = true
			}
			return true
		})
	} else {
		f.miss = append(f.miss, "GRPCBroker.Run")
	}
	dial := p.fn("GRPCBroker", "DialWithOptions")
	if dial != nil {
		txt := nodeCalls(dial.Body)
		// p := b.getClientStream(id); c = <-p.ch; network, address := c.Network, c.Address
		hasSlot := strings.Contains(txt, "getClientStream(id)")
		usesAddr := false
		ast.Inspect(dial.Body, func(n ast.Node) bool {
			as, ok := n.(*ast.AssignStmt)
			if !ok {
				return true
			}
			var r []string
			for _, e := range as.Rhs {
				r = append(r, exprString(e))
			}
			if strings.Join(r, ",") == "c.Network,c.Address" {
				usesAddr = true
			}
			return true
		})
		recvFromSlot := false
		sels, _ := selectsOf(p, dial)
		for _, si := range sels {
			for _, c := range si.comms {
				if c == "<-p.ch" {
					recvFromSlot = true
				}
			}
			if len(si.timers) > 0 {
				dialWin = si.timers[0]
			}
		}
		dialsRecv = hasSlot && usesAddr && recvFromSlot
	} else {
		f.miss = append(f.miss, "GRPCBroker.DialWithOptions")
	}
	if tw := p.fn("GRPCBroker", "timeoutWait"); tw != nil {
		sels, _ := selectsOf(p, tw)
		for _, si := range sels {
			if len(si.timers) > 0 {
				expiryWin = si.timers[0]
			}
		}
	}
	cap := chanCap(p, p.fn("GRPCBroker", "getClientStream"), "ch")
	// Run hands the message over with a non-blocking send
	nonBlocking := false
	if run := p.fn("GRPCBroker", "Run"); run != nil {
		rs, _ := selectsOf(p, run)
		for _, si := range rs {
			for _, c := range si.comms {
				if strings.HasPrefix(c, "p.ch<-") && si.hasDefault {
					nonBlocking = true
				}
			}
		}
	}
	// getClientStream / getServerStream: one critical section (Lock; defer Unlock; nothing else)
	atomic := true
	for _, name := range []string{"getClientStream", "getServerStream"} {
		if !singleCriticalSection(p.fn("GRPCBroker", name)) {
			atomic = false
		}
	}
	f.lean = append(f.lean, fmt.Sprintf("def grpcBroker : GrpcBroker.Params := ⟨%s, %s, %s, %s, %d, %d, %d⟩",
		leanBool(files), leanBool(dialsRecv), leanBool(nonBlocking), leanBool(atomic), max64(cap, 0), dialWin, expiryWin))
	f.set("grpcBroker", map[string]interface{}{"filesUnderServiceId": files, "dialsReceivedAddr": dialsRecv,
		"runParkNonBlocking": nonBlocking, "getStreamAtomic": atomic, "slotCap": cap, "dialWindowMs": dialWin, "expiryWindowMs": expiryWin})

	// ---- mux facts
	registerFirst := false
	if acc := p.fn("GRPCBroker", "Accept"); acc != nil {
		// inside the `if b.muxer.Enabled()` block: position of muxer.Listener(...) vs listenForKnocks(...)
		ast.Inspect(acc.Body, func(n ast.Node) bool {
			is, ok := n.(*ast.IfStmt)
			if !ok || !strings.Contains(exprString(is.Cond), "muxer.Enabled()") {
				return true
			}
			reg := callPos(is.Body, "muxer.Listener")
			kn := callPos(is.Body, "listenForKnocks")
			registerFirst = reg > 0 && kn > 0 && reg < kn
			return false
		})
	} else {
		f.miss = append(f.miss, "GRPCBroker.Accept")
	}
	tokCapS := chanCap(p, p.fn("", "NewGRPCServerMuxer"), "knockCh")
	tokCapC := chanCap(p, p.fn("", "newBlockedClientListener"), "waitCh")
	// (the model's token is the server muxer's `knockCh`: "the most recent knocked id", one slot; the host side's listener
	// remembers at least one acknowledged knock — sequential establishments never have more than one outstanding)
	tokCap := tokCapS
	if tokCapC < 1 {
		tokCap = -1
	}
	// dialGRPCConn: `opts` is a slice of its own and the caller's variadic slice is only ever spread INTO it
	optsFresh := false
	if dg := p.fn("", "dialGRPCConn"); dg != nil && dg.Type.Params != nil {
		variadic := ""
		for _, fld := range dg.Type.Params.List {
			if _, ok := fld.Type.(*ast.Ellipsis); ok && len(fld.Names) == 1 {
				variadic = fld.Names[0].Name
			}
		}
		ok := variadic != ""
		fresh := map[string]bool{}
		ast.Inspect(dg.Body, func(n ast.Node) bool {
			switch x := n.(type) {
			case *ast.AssignStmt:
				for i, l := range x.Lhs {
					if i >= len(x.Rhs) {
						continue
					}
					name := exprString(l)
					rhs := x.Rhs[i]
					isFreshSlice := false
					switch r := rhs.(type) {
					case *ast.CallExpr:
						if id, isId := r.Fun.(*ast.Ident); isId && id.Name == "make" && len(r.Args) >= 1 {
							_, isFreshSlice = r.Args[0].(*ast.ArrayType)
						}
					case *ast.CompositeLit:
						_, isFreshSlice = r.Type.(*ast.ArrayType)
					}
					if isFreshSlice {
						if x.Tok.String() == ":=" {
							fresh[name] = true
						}
						continue
					}
					if id, isId := rhs.(*ast.Ident); isId && id.Name == variadic {
						ok = false // aliasing the caller's slice
					}
					if sl, isSl := rhs.(*ast.SliceExpr); isSl && exprString(sl.X) == variadic {
						ok = false
					}
					if ce, isCall := rhs.(*ast.CallExpr); isCall {
						if id, isId := ce.Fun.(*ast.Ident); isId && id.Name == "append" && len(ce.Args) > 0 {
							if !fresh[exprString(ce.Args[0])] {
								ok = false // appending onto something that is not this function's own slice
							}
						}
					}
				}
			case *ast.IndexExpr:
				if exprString(x.X) == variadic {
					// element writes are caught above; reads are harmless
				}
			}
			return true
		})
		// the slice handed to grpc.Dial is a fresh one
		dialOK := false
		ast.Inspect(dg.Body, func(n ast.Node) bool {
			if ce, isCall := n.(*ast.CallExpr); isCall && exprString(ce.Fun) == "grpc.Dial" && len(ce.Args) == 2 && ce.Ellipsis.IsValid() {
				if fresh[exprString(ce.Args[1])] {
					dialOK = true
				}
			}
			return true
		})
		optsFresh = ok && dialOK
	} else {
		f.miss = append(f.miss, "dialGRPCConn")
	}
	// DialWithOptions: no Lock() call outside function literals (the multiplexed dialer's own closure takes dialMutex)
	waitsUnlocked := false
	if dw := p.fn("GRPCBroker", "DialWithOptions"); dw != nil {
		waitsUnlocked = true
		ast.Inspect(dw.Body, func(n ast.Node) bool {
			if _, isLit := n.(*ast.FuncLit); isLit {
				return false
			}
			if ce, ok := n.(*ast.CallExpr); ok {
				if r := exprString(ce.Fun); strings.HasSuffix(r, ".Lock") || strings.HasSuffix(r, ".RLock") {
					waitsUnlocked = false
				}
			}
			return true
		})
	} else {
		f.miss = append(f.miss, "GRPCBroker.DialWithOptions")
	}
	// `clientStreams` (where a side files / awaits the connection info for the IDs it DIALS) is referred to only by the
	// constructor, getClientStream and timeoutWait: in particular nothing on the accept path reads or clears it
	acceptLeaves, refs := true, 0
	for _, file := range p.files {
		for _, d := range file.Decls {
			fd, ok := d.(*ast.FuncDecl)
			if !ok || fd.Body == nil {
				continue
			}
			ast.Inspect(fd.Body, func(n ast.Node) bool {
				if se, ok := n.(*ast.SelectorExpr); ok && se.Sel.Name == "clientStreams" {
					refs++
					switch fd.Name.Name {
					case "newGRPCBroker", "getClientStream", "timeoutWait":
					default:
						acceptLeaves = false
					}
				}
				if kv, ok := n.(*ast.KeyValueExpr); ok && exprString(kv.Key) == "clientStreams" {
					refs++
					if fd.Name.Name != "newGRPCBroker" {
						acceptLeaves = false
					}
				}
				return true
			})
		}
	}
	acceptLeaves = acceptLeaves && refs > 0
	// GRPCClientMuxer.Listener / GRPCServerMuxer.Listener: a listener built by new…Listener(…) in the call itself is stored
	// under the id, and the only `return` with a non-nil listener is the last statement (no early hand-out of an existing one)
	replaces := true
	for _, t := range []struct{ recv, ctor, field string }{{"GRPCClientMuxer", "newBlockedClientListener", "acceptListeners"}, {"GRPCServerMuxer", "newBlockedServerListener", "acceptChannels"}} {
		fd := p.fn(t.recv, "Listener")
		if fd == nil {
			f.miss = append(f.miss, t.recv+".Listener")
			replaces = false
			continue
		}
		lnVar, stored, okRets, badRets := "", false, 0, 0
		ast.Inspect(fd.Body, func(n ast.Node) bool {
			switch v := n.(type) {
			case *ast.AssignStmt:
				if len(v.Lhs) == 1 && len(v.Rhs) == 1 {
					if strings.HasPrefix(exprString(v.Rhs[0]), t.ctor+"(") {
						lnVar = exprString(v.Lhs[0])
					}
					if strings.HasSuffix(exprString(v.Lhs[0]), "."+t.field+"[id]") && lnVar != "" && strings.HasPrefix(exprString(v.Rhs[0]), lnVar) {
						stored = true
					}
				}
			case *ast.ReturnStmt:
				if len(v.Results) == 2 && exprString(v.Results[0]) != "nil" {
					if exprString(v.Results[0]) == lnVar && stored {
						okRets++
					} else {
						badRets++
					}
				}
			}
			return true
		})
		if !(stored && okRets == 1 && badRets == 0) {
			replaces = false
		}
	}
	f.lean = append(f.lean, fmt.Sprintf("def grpcMuxListener : GrpcMux.ListenerParams := ⟨%s⟩", leanBool(replaces)))
	f.set("grpcMuxListener", map[string]interface{}{"listenerReplaces": replaces})
	// knockPerTransport: every function literal that opens a stream on the muxer (`….muxer.Dial()`) — that is the dialer
	// gRPC calls for EVERY transport of a brokered connection — sends the knock (`….knock(…)`) itself, before it, and
	// there is such a literal; muxer.Dial() is called nowhere outside such a literal
	perTransport, nDialLits, bareDials := true, 0, 0
	for _, file := range p.files {
		ast.Inspect(file, func(n ast.Node) bool {
			fl, ok := n.(*ast.FuncLit)
			if !ok {
				return true
			}
			calls := nodeCalls(fl.Body)
			if di := strings.Index(calls, ".muxer.Dial()"); di >= 0 {
				nDialLits++
				if ki := strings.Index(calls, ".knock("); ki < 0 || ki > di {
					perTransport = false
				}
			}
			return true
		})
		for _, d := range file.Decls {
			fd, ok := d.(*ast.FuncDecl)
			if !ok || fd.Body == nil {
				continue
			}
			var walk func(n ast.Node) bool
			walk = func(n ast.Node) bool {
				switch v := n.(type) {
				case *ast.FuncLit:
					return false
				case *ast.CallExpr:
					if strings.HasSuffix(exprString(v.Fun), ".muxer.Dial") {
						bareDials++
					}
				}
				return true
			}
			ast.Inspect(fd.Body, walk)
		}
	}
	perTransport = perTransport && nDialLits >= 1 && bareDials == 0
	f.lean = append(f.lean, fmt.Sprintf("def grpcMuxDialer : GrpcMux.DialerParams := ⟨%s⟩", leanBool(perTransport)))
	f.set("grpcMuxDialer", map[string]interface{}{"knockPerTransport": perTransport, "dialerLiterals": nDialLits})
	// both streamer constructors build `send` with make(chan *sendErr) — one argument, no capacity
	unbuf, nCtor := true, 0
	for _, ctor := range []string{"newGRPCBrokerServer", "newGRPCBrokerClient"} {
		fd := p.fn("", ctor)
		if fd == nil {
			f.miss = append(f.miss, ctor)
			unbuf = false
			continue
		}
		found := false
		ast.Inspect(fd.Body, func(n ast.Node) bool {
			kv, ok := n.(*ast.KeyValueExpr)
			if !ok || exprString(kv.Key) != "send" {
				return true
			}
			found = true
			ce, ok := kv.Value.(*ast.CallExpr)
			if !ok || exprString(ce.Fun) != "make" || len(ce.Args) != 1 {
				unbuf = false
			}
			return true
		})
		if !found {
			unbuf = false
		}
		nCtor++
	}
	f.lean = append(f.lean, fmt.Sprintf("def grpcStreamer : GrpcBroker.StreamerParams := ⟨%s⟩", leanBool(unbuf && nCtor == 2)))
	f.set("grpcStreamer", map[string]interface{}{"sendUnbuffered": unbuf && nCtor == 2})
	// dialGRPCConn: some option appended is exactly grpc.FailOnNonTempDialError(true)
	failsFast := false
	if dg := p.fn("", "dialGRPCConn"); dg != nil {
		failsFast = strings.Contains(nodeCalls(dg.Body), "grpc.FailOnNonTempDialError(true)")
	}
	f.lean = append(f.lean, fmt.Sprintf("def grpcDial : GrpcBroker.DialParams := ⟨%s, %s, %s, %s⟩", leanBool(optsFresh), leanBool(waitsUnlocked), leanBool(acceptLeaves), leanBool(failsFast)))
	f.set("grpcDial", map[string]interface{}{"optsFresh": optsFresh, "waitsUnlocked": waitsUnlocked, "acceptLeavesDialState": acceptLeaves, "dialFailsFast": failsFast})
	// GRPCServerMuxer.Accept: the hand-off `acceptCh <- acceptResult{…}` waits for the listener: it is a plain send
	// statement, or the send arm of a select whose only other arm receives from the listener's done channel (no default, no
	// timer).  releasedOnClose: it is the second form, that channel was read from m.<D>[id] in the same critical section as
	// acceptCh, and Listener stores its doneCh parameter — the one it builds the listener with — under m.<D>[id]
	handoffBlocks, releasedOnClose := false, false
	if acc := p.fn("GRPCServerMuxer", "Accept"); acc != nil {
		plain, inSelect := 0, 0
		doneVar := ""
		ast.Inspect(acc.Body, func(n ast.Node) bool {
			switch x := n.(type) {
			case *ast.SelectStmt:
				sends, others, okOther := 0, 0, ""
				for _, c := range x.Body.List {
					cc := c.(*ast.CommClause)
					if cc.Comm == nil {
						others += 2 // a default arm
						continue
					}
					if ss, ok := cc.Comm.(*ast.SendStmt); ok && exprString(ss.Chan) == "acceptCh" {
						sends++
						continue
					}
					others++
					if es, ok := cc.Comm.(*ast.ExprStmt); ok {
						if ue, ok := es.X.(*ast.UnaryExpr); ok && ue.Op == token.ARROW {
							if id, ok := ue.X.(*ast.Ident); ok {
								okOther = id.Name
							}
						}
					}
				}
				if sends > 0 {
					inSelect += sends
					if sends == 1 && others == 1 && okOther != "" {
						doneVar = okOther
					} else {
						doneVar = "?"
					}
				}
			case *ast.SendStmt:
				if exprString(x.Chan) == "acceptCh" {
					plain++
				}
			}
			return true
		})
		// a send inside a select arm is visited twice (as the arm and as a SendStmt): discount
		switch {
		case plain-inSelect == 1 && inSelect == 0:
			handoffBlocks = true
		case plain-inSelect == 0 && inSelect == 1 && doneVar != "" && doneVar != "?":
			handoffBlocks = true
			// where doneVar comes from, and what Listener stores there
			field := ""
			ast.Inspect(acc.Body, func(n ast.Node) bool {
				if as, ok := n.(*ast.AssignStmt); ok && len(as.Lhs) >= 1 && len(as.Rhs) == 1 && exprString(as.Lhs[0]) == doneVar {
					if ix, ok := as.Rhs[0].(*ast.IndexExpr); ok && exprString(ix.Index) == "id" && strings.HasPrefix(exprString(ix.X), "m.") {
						field = exprString(ix.X)
					} else {
						field = "?"
					}
				}
				return true
			})
			if lf := p.fn("GRPCServerMuxer", "Listener"); lf != nil && field != "" && field != "?" && lf.Type.Params != nil && len(lf.Type.Params.List) == 2 && len(lf.Type.Params.List[1].Names) == 1 {
				param := lf.Type.Params.List[1].Names[0].Name
				stores, builds := 0, false
				ast.Inspect(lf.Body, func(n ast.Node) bool {
					switch v := n.(type) {
					case *ast.AssignStmt:
						if len(v.Lhs) == 1 && len(v.Rhs) == 1 && exprString(v.Lhs[0]) == field+"[id]" {
							if exprString(v.Rhs[0]) == param {
								stores++
							} else {
								stores += 2
							}
						}
					case *ast.CallExpr:
						if exprString(v.Fun) == "newBlockedServerListener" && len(v.Args) == 2 && exprString(v.Args[1]) == param {
							builds = true
						}
					}
					return true
				})
				releasedOnClose = stores == 1 && builds && writesTo(lf.Body, param) == 0
			}
		}
	} else {
		f.miss = append(f.miss, "GRPCServerMuxer.Accept")
	}
	// blockedClientListener.Close: takes the listener's pending tokens out WITHOUT waiting (a select with an arm receiving
	// `<-<recv>.waitCh` and a default arm) and takes streams off the session (`<recv>.session.Accept()`, then `.Close()`)
	// for them.  blockedClientListener.unblock: never blocks — its body is one select with the send arm
	// `<recv>.waitCh <- …` and a default arm (it is called with the muxer's lock held)
	discards, unblockFree := false, false
	if cl := p.fn("blockedClientListener", "Close"); cl != nil && len(cl.Recv.List[0].Names) == 1 {
		recv := cl.Recv.List[0].Names[0].Name
		drains := false
		ast.Inspect(cl.Body, func(n ast.Node) bool {
			sel, ok := n.(*ast.SelectStmt)
			if !ok {
				return true
			}
			hasDefault, tokenArm := false, false
			for _, c := range sel.Body.List {
				cc := c.(*ast.CommClause)
				if cc.Comm == nil {
					hasDefault = true
					continue
				}
				if es, ok := cc.Comm.(*ast.ExprStmt); ok && exprString(es.X) == "<-"+recv+".waitCh" {
					tokenArm = true
				}
			}
			if hasDefault && tokenArm {
				drains = true
			}
			return true
		})
		calls := nodeCalls(cl.Body)
		ai := strings.Index(calls, recv+".session.Accept()")
		discards = drains && ai >= 0 && strings.Contains(calls[ai:], ".Close()") && !strings.Contains(calls, "len("+recv+".waitCh)")
	} else {
		f.miss = append(f.miss, "blockedClientListener.Close")
	}
	if ub := p.fn("blockedClientListener", "unblock"); ub != nil && len(ub.Recv.List[0].Names) == 1 && len(ub.Body.List) == 1 {
		recv := ub.Recv.List[0].Names[0].Name
		if sel, ok := ub.Body.List[0].(*ast.SelectStmt); ok && len(sel.Body.List) == 2 {
			hasDefault, sendArm := false, false
			for _, c := range sel.Body.List {
				cc := c.(*ast.CommClause)
				if cc.Comm == nil {
					hasDefault = true
				} else if ss, ok := cc.Comm.(*ast.SendStmt); ok && exprString(ss.Chan) == recv+".waitCh" {
					sendArm = true
				}
			}
			unblockFree = hasDefault && sendArm
		}
	} else if ub == nil {
		f.miss = append(f.miss, "blockedClientListener.unblock")
	}
	// the knock loop works on the slot Accept registered the listener with: Accept's `go` literal calls
	// `b.listenForKnocks(id, <P>)` with <P> the variable Accept assigned from getServerStream(id), and listenForKnocks itself
	// never looks a slot up (no getServerStream / getClientStream call in its body)
	usesSlot := false
	if acc, lk := p.fn("GRPCBroker", "Accept"), p.fn("GRPCBroker", "listenForKnocks"); acc != nil && lk != nil {
		slotVar := ""
		ast.Inspect(acc.Body, func(n ast.Node) bool {
			if as, ok := n.(*ast.AssignStmt); ok && len(as.Lhs) == 1 && len(as.Rhs) == 1 && exprString(as.Rhs[0]) == "b.getServerStream(id)" && slotVar == "" {
				slotVar = exprString(as.Lhs[0])
			}
			return true
		})
		passes := false
		ast.Inspect(acc.Body, func(n ast.Node) bool {
			if ce, ok := n.(*ast.CallExpr); ok && exprString(ce.Fun) == "b.listenForKnocks" {
				passes = slotVar != "" && len(ce.Args) == 2 && exprString(ce.Args[1]) == slotVar
			}
			return true
		})
		lookups := strings.Count(nodeCalls(lk.Body), "getServerStream(") + strings.Count(nodeCalls(lk.Body), "getClientStream(")
		usesSlot = passes && lookups == 0 && writesTo(acc.Body, slotVar) <= 1
	} else {
		f.miss = append(f.miss, "GRPCBroker.Accept / listenForKnocks")
	}
	// the close hook of a multiplexed listener removes the id's pending entry only while it is still ITS entry: the delete
	// sits under `if b.serverStreams[id] == <P>` (<P> the variable Accept assigned from getServerStream)
	ownOnly := false
	if acc := p.fn("GRPCBroker", "Accept"); acc != nil {
		slotVar := ""
		ast.Inspect(acc.Body, func(n ast.Node) bool {
			if as, ok := n.(*ast.AssignStmt); ok && len(as.Lhs) == 1 && len(as.Rhs) == 1 && exprString(as.Rhs[0]) == "b.getServerStream(id)" && slotVar == "" {
				slotVar = exprString(as.Lhs[0])
			}
			return true
		})
		guarded, bare := 0, 0
		var walk func(n ast.Node, underGuard bool)
		walk = func(n ast.Node, underGuard bool) {
			ast.Inspect(n, func(m ast.Node) bool {
				switch v := m.(type) {
				case *ast.IfStmt:
					c := exprString(v.Cond)
					g := underGuard || (slotVar != "" && (c == "b.serverStreams[id]=="+slotVar || c == slotVar+"==b.serverStreams[id]"))
					walk(v.Body, g)
					if v.Else != nil {
						walk(v.Else, underGuard)
					}
					return false
				case *ast.CallExpr:
					if exprString(v.Fun) == "delete" && len(v.Args) == 2 && exprString(v.Args[0]) == "b.serverStreams" {
						if underGuard {
							guarded++
						} else {
							bare++
						}
					}
				}
				return true
			})
		}
		walk(acc.Body, false)
		ownOnly = guarded >= 1 && bare == 0
	}
	f.lean = append(f.lean, fmt.Sprintf("def grpcKnockLoop : GrpcMux.KnockLoopParams := ⟨%s, %s⟩", leanBool(usesSlot), leanBool(ownOnly)))
	f.set("grpcKnockLoop", map[string]interface{}{"usesAcceptSlot": usesSlot, "closeRemovesOwnEntryOnly": ownOnly})
	f.lean = append(f.lean, fmt.Sprintf("def grpcMuxClientClose : GrpcMux.ClientCloseParams := ⟨%s, %s⟩", leanBool(discards), leanBool(unblockFree)))
	f.set("grpcMuxClientClose", map[string]interface{}{"discardsAnnounced": discards, "unblockNeverBlocks": unblockFree})
	f.lean = append(f.lean, fmt.Sprintf("def grpcMuxHandoff : GrpcMux.HandoffParams := ⟨%s⟩", leanBool(releasedOnClose)))
	f.set("grpcMuxHandoff", map[string]interface{}{"handoffBlocks": handoffBlocks, "releasedOnClose": releasedOnClose})
	// knocksExpire: in Run's knock branch (`msg.Knock != nil && … && !msg.Knock.Ack`) a goroutine `go m.<E>(p, msg)` is
	// started whose method E waits on a timer SHORTER than the dialler's wait for the ack (the time.After arm of the select
	// in `knock`) and then receives from `p.ch`
	knocksExpire := false
	if run := p.fn("GRPCBroker", "Run"); run != nil {
		var knockWait int64 = -1
		if kn := p.fn("GRPCBroker", "knock"); kn != nil {
			ks, _ := selectsOf(p, kn)
			for _, si := range ks {
				if len(si.timers) > 0 {
					knockWait = si.timers[0]
				}
			}
			// "its dialler is still waiting" means the WHOLE window: the wait for the ack is the only select of `knock`, it has
			// exactly two arms (the ack, the timer; no default, no arm that ends the wait early), and nothing else in `knock`
			// receives from a channel (an ack taken out of the slot anywhere else is an ack the wait never sees)
			recvs := 0
			ast.Inspect(kn.Body, func(n ast.Node) bool {
				if ue, ok := n.(*ast.UnaryExpr); ok && ue.Op == token.ARROW {
					recvs++
				}
				return true
			})
			if len(ks) != 1 || len(ks[0].stmt.Body.List) != 2 || recvs != 2 {
				knockWait = -1
			}
		}
		ast.Inspect(run.Body, func(n ast.Node) bool {
			is, ok := n.(*ast.IfStmt)
			if !ok {
				return true
			}
			c := exprString(is.Cond)
			if !(strings.Contains(c, "Knock") && strings.Contains(c, "!") && strings.Contains(c, "Ack")) {
				return true
			}
			for _, st := range is.Body.List {
				g, ok := st.(*ast.GoStmt)
				if !ok {
					continue
				}
				se, ok := g.Call.Fun.(*ast.SelectorExpr)
				if !ok || len(g.Call.Args) != 2 {
					continue
				}
				e := p.fn("GRPCBroker", se.Sel.Name)
				if e == nil || e.Type.Params == nil || len(e.Type.Params.List) == 0 {
					continue
				}
				slotParam := ""
				if len(e.Type.Params.List[0].Names) == 1 {
					slotParam = e.Type.Params.List[0].Names[0].Name
				}
				es, _ := selectsOf(p, e)
				var expiry int64 = -1
				drains := false
				for _, si := range es {
					if len(si.timers) > 0 && expiry < 0 {
						expiry = si.timers[0]
					}
					for _, cm := range si.comms {
						if strings.Contains(cm, "<-"+slotParam+".ch") && !strings.HasPrefix(cm, slotParam+".ch<-") {
							drains = true
						}
					}
				}
				if slotParam != "" && drains && expiry > 0 && knockWait > 0 && expiry < knockWait {
					knocksExpire = true
				}
			}
			return true
		})
	}
	f.lean = append(f.lean, fmt.Sprintf("def grpcMux : GrpcMux.Params := ⟨%s, %d, true, %s, %s⟩", leanBool(registerFirst), max64(tokCap, 0), leanBool(handoffBlocks), leanBool(knocksExpire)))
	f.set("grpcMux", map[string]interface{}{"registerFirst": registerFirst, "knocksExpire": knocksExpire, "knockChCap": tokCapS, "waitChCap": tokCapC})
}

// nodeCalls renders every call expression under n.
func nodeCalls(n ast.Node) string {
	var out []string
	ast.Inspect(n, func(m ast.Node) bool {
		if ce, ok := m.(*ast.CallExpr); ok {
			out = append(out, exprString(ce))
		}
		return true
	})
	return strings.Join(out, " ")
}

// singleCriticalSection: the function's body is `X.Lock(); defer X.Unlock(); …` (or Lock … single Unlock at the end)
// with no other lock operation of any kind inside.
func singleCriticalSection(fn *ast.FuncDecl) bool {
	if fn == nil || len(fn.Body.List) < 2 {
		return false
	}
	first, ok := fn.Body.List[0].(*ast.ExprStmt)
	if !ok || !strings.HasSuffix(exprString(first.X), ".Lock()") {
		return false
	}
	locks, unlocks, other := 0, 0, 0
	ast.Inspect(fn.Body, func(n ast.Node) bool {
		if ce, ok := n.(*ast.CallExpr); ok {
			f := exprString(ce.Fun)
			switch {
			case strings.HasSuffix(f, ".Lock"):
				locks++
			case strings.HasSuffix(f, ".Unlock"):
				unlocks++
			case strings.HasSuffix(f, ".RLock"), strings.HasSuffix(f, ".RUnlock"), strings.HasSuffix(f, ".TryLock"):
				other++
			}
		}
		return true
	})
	if locks != 1 || unlocks != 1 || other != 0 {
		return false
	}
	// the single Unlock is deferred right after the Lock, or is the last statement before the return(s)
	if d, ok := fn.Body.List[1].(*ast.DeferStmt); ok && strings.HasSuffix(exprString(d.Call.Fun), ".Unlock") {
		return true
	}
	// explicit unlock: it must come after every map access; accept only "… ; X.Unlock(); return v" at top level
	n := len(fn.Body.List)
	if n >= 2 {
		if es, ok := fn.Body.List[n-2].(*ast.ExprStmt); ok && strings.HasSuffix(exprString(es.X), ".Unlock()") {
			if _, ok := fn.Body.List[n-1].(*ast.ReturnStmt); ok {
				// no return before it
				early := false
				for _, st := range fn.Body.List[:n-2] {
					ast.Inspect(st, func(m ast.Node) bool {
						if _, ok := m.(*ast.ReturnStmt); ok {
							early = true
						}
						return true
					})
				}
				return !early
			}
		}
	}
	return false
}
