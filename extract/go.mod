module extract

go 1.24
