package main

import (
	"fmt"
	"go/ast"
	"go/token"
	"strings"
)

func init() {
	registerExtractor("secure", []string{"GoPlugin.Model.Secure"}, extractSecure)
}

// extractSecure: facts of Client.Start about the SecureConfig check (C13).
//
//	reattachGuard     an `if … SecureConfig != nil && … Reattach != nil { return …, ErrSecureConfigAndReattach }`
//	                  precedes the c.reattach() call
//	checkBeforeLaunch the top-level statement of Start that calls SecureConfig.Check precedes every
//	                  top-level statement that creates (RunnerFunc(…), NewCmdRunner(…)) or starts
//	                  (runner.Start(…)) the runner
//	errReturns        inside that statement the `err != nil` arm ends in a return of a non-nil error
//	mismatchReturns   inside that statement the `!ok` arm ends in a return of a non-nil error
//	checksCmdPath     Check's argument is cmd.Path and `cmd` is what RunnerFunc / NewCmdRunner receive
func extractSecure(p *pkgs, f *facts) {
	start := p.fn("Client", "Start")
	reattachGuard, checkBeforeLaunch, errReturns, mismatchReturns, checksCmdPath := false, false, false, false, false
	detail := map[string]interface{}{}
	if start == nil || start.Body == nil {
		f.miss = append(f.miss, "Client.Start(secure)")
	} else {
		list := start.Body.List
		iCheck, iLaunch, iGuard, iReattach := -1, -1, -1, -1
		var checkCall *ast.CallExpr
		launchArgsOK := true
		sawRunnerCtor := false
		for i, s := range list {
			ast.Inspect(s, func(n ast.Node) bool {
				switch x := n.(type) {
				case *ast.CallExpr:
					sel, ok := x.Fun.(*ast.SelectorExpr)
					if !ok {
						return true
					}
					recv := exprString(sel.X)
					switch {
					case sel.Sel.Name == "Check" && strings.Contains(recv, "SecureConfig"):
						if iCheck < 0 {
							iCheck, checkCall = i, x
						}
					case sel.Sel.Name == "RunnerFunc" || sel.Sel.Name == "NewCmdRunner":
						if iLaunch < 0 {
							iLaunch = i
						}
						sawRunnerCtor = true
						if len(x.Args) < 2 || exprString(x.Args[1]) != "cmd" {
							launchArgsOK = false
						}
					case sel.Sel.Name == "Start" && (recv == "runner" || recv == "c.runner"):
						if iLaunch < 0 {
							iLaunch = i
						}
					case sel.Sel.Name == "reattach" && recv == "c":
						if iReattach < 0 {
							iReattach = i
						}
					}
				case *ast.IfStmt:
					c := exprString(x.Cond)
					if strings.Contains(c, "SecureConfig!=nil") && strings.Contains(c, "Reattach!=nil") &&
						strings.Contains(c, "&&") && returnsNonNilErr(x.Body) &&
						strings.Contains(nodeIdents(x.Body), "ErrSecureConfigAndReattach") && iGuard < 0 {
						iGuard = i
					}
				}
				return true
			})
		}
		detail["stmtIndex"] = map[string]int{"guard": iGuard, "reattach": iReattach, "check": iCheck, "launch": iLaunch}
		reattachGuard = iGuard >= 0 && iReattach >= 0 && iGuard < iReattach
		checkBeforeLaunch = iCheck >= 0 && iLaunch >= 0 && iCheck < iLaunch
		if checkCall != nil {
			checksCmdPath = len(checkCall.Args) == 1 && isCmdPathExpr(list[iCheck], checkCall.Args[0]) && launchArgsOK && sawRunnerCtor
			// failure arms inside the statement that holds the call
			// (the error arm is the FIRST thing decided about Check's result: it is not the else-branch of another test —
			// "if this kind of error, carry on; else if err != nil …" lets that kind of error through to the launch; the
			// mismatch arm may only follow the error arm)
			errArm, okArm := false, false
			elseOf := map[*ast.IfStmt]string{}
			ast.Inspect(list[iCheck], func(n ast.Node) bool {
				if is, ok := n.(*ast.IfStmt); ok {
					if e, ok := is.Else.(*ast.IfStmt); ok {
						elseOf[e] = exprString(is.Cond)
					}
				}
				return true
			})
			ast.Inspect(list[iCheck], func(n ast.Node) bool {
				is, ok := n.(*ast.IfStmt)
				if !ok {
					return true
				}
				parent, nested := elseOf[is]
				switch exprString(is.Cond) {
				case "err!=nil":
					if returnsNonNilErr(is.Body) && !nested {
						errArm = true
					}
				case "!ok":
					if returnsNonNilErr(is.Body) && (!nested || parent == "err!=nil") {
						okArm = true
					}
				}
				return true
			})
			errReturns, mismatchReturns = errArm, okArm
		}
		if iCheck < 0 {
			f.miss = append(f.miss, "Client.Start: SecureConfig.Check call")
		}
		if iLaunch < 0 {
			f.miss = append(f.miss, "Client.Start: runner creation/start")
		}
	}
	// SecureConfig.Check: the only call that writes into the hasher is io.Copy(<recv>.Hash, F) with F the variable that
	// os.Open(<the path parameter>) was assigned to; F is not reassigned, nothing seeks it
	whole := false
	fieldDirect := true
	if ck := p.fn("SecureConfig", "Check"); ck != nil && len(ck.Recv.List[0].Names) == 1 {
		recv := ck.Recv.List[0].Names[0].Name
		fileVar := ""
		assigns := map[string]int{}
		copies, okCopies, seeks := 0, 0, 0
		ast.Inspect(ck.Body, func(n ast.Node) bool {
			switch v := n.(type) {
			case *ast.AssignStmt:
				for _, l := range v.Lhs {
					assigns[exprString(l)]++
				}
				if len(v.Rhs) == 1 && strings.HasPrefix(exprString(v.Rhs[0]), "os.Open(") && len(v.Lhs) >= 1 {
					fileVar = exprString(v.Lhs[0])
				}
			case *ast.CallExpr:
				fn := exprString(v.Fun)
				if fn == "io.Copy" || fn == "io.CopyN" || fn == "io.CopyBuffer" || strings.HasSuffix(fn, ".Hash.Write") {
					copies++
					if fn == "io.Copy" && len(v.Args) == 2 && exprString(v.Args[0]) == recv+".Hash" && fileVar != "" && exprString(v.Args[1]) == fileVar {
						okCopies++
					}
				}
				if strings.HasSuffix(fn, ".Seek") {
					seeks++
				}
			}
			return true
		})
		whole = copies == 1 && okCopies == 1 && seeks == 0 && assigns[fileVar] == 1
		// the checksum compared is the receiver's field ITSELF: every mention of <recv>.Checksum in Check is the argument of
		// len(…) or of the one comparison (subtle.ConstantTimeCompare / bytes.Equal) — no local "normalised" copy of it
		allowed := map[ast.Node]bool{}
		cmps := 0
		ast.Inspect(ck.Body, func(n ast.Node) bool {
			if c, ok := n.(*ast.CallExpr); ok {
				fn := exprString(c.Fun)
				if fn == "len" || fn == "subtle.ConstantTimeCompare" || fn == "bytes.Equal" {
					for _, a := range c.Args {
						if exprString(a) == recv+".Checksum" {
							allowed[a] = true
							if fn != "len" {
								cmps++
							}
						}
					}
				}
			}
			return true
		})
		ast.Inspect(ck.Body, func(n ast.Node) bool {
			if se, ok := n.(*ast.SelectorExpr); ok && exprString(se) == recv+".Checksum" && !allowed[se] {
				fieldDirect = false
			}
			return true
		})
		if cmps != 1 {
			fieldDirect = false
		}
	} else {
		f.miss = append(f.miss, "SecureConfig.Check")
	}
	// the `if` of Start that holds the Check call has the condition `c.config.SecureConfig != nil` and nothing else
	everyStart := false
	if start != nil && start.Body != nil {
		for _, st := range start.Body.List {
			is, ok := st.(*ast.IfStmt)
			if !ok || !strings.Contains(nodeCalls(is), "SecureConfig.Check(") {
				continue
			}
			everyStart = is.Init == nil && exprString(is.Cond) == "c.config.SecureConfig!=nil"
		}
	}
	detail["checkGuardIsConfigOnly"] = everyStart
	// nothing in the package writes to a SecureConfig's Checksum or Hash (an assignment, or &x.Checksum handed on): the
	// checksum compared is the byte string the caller configured
	asGiven := true
	for _, file := range p.files {
		ast.Inspect(file, func(n ast.Node) bool {
			switch v := n.(type) {
			case *ast.AssignStmt:
				for _, l := range v.Lhs {
					if ls := exprString(l); strings.HasSuffix(ls, ".Checksum") || strings.HasSuffix(ls, ".SecureConfig.Hash") || strings.HasSuffix(ls, ".SecureConfig") {
						asGiven = false
					}
				}
			case *ast.UnaryExpr:
				if v.Op == token.AND && strings.HasSuffix(exprString(v.X), ".Checksum") {
					asGiven = false
				}
			}
			return true
		})
	}
	detail["checksumFieldComparedDirectly"] = fieldDirect
	asGiven = asGiven && fieldDirect
	detail["checksumAsGiven"] = asGiven
	f.lean = append(f.lean, fmt.Sprintf("def secureCheck : Secure.CheckParams := ⟨%s, 0, %s, %s⟩", leanBool(whole), leanBool(everyStart), leanBool(asGiven)))
	detail["checkHashesWholeFile"] = whole
	f.lean = append(f.lean, fmt.Sprintf("def secure : Secure.Params := ⟨%s, %s, %s, %s, %s⟩",
		leanBool(reattachGuard), leanBool(checkBeforeLaunch), leanBool(errReturns), leanBool(mismatchReturns), leanBool(checksCmdPath)))
	detail["reattachGuard"] = reattachGuard
	detail["checkBeforeLaunch"] = checkBeforeLaunch
	detail["errReturns"] = errReturns
	detail["mismatchReturns"] = mismatchReturns
	detail["checksCmdPath"] = checksCmdPath
	f.set("secure", detail)
}

// returnsNonNilErr: the block ends in `return …, e` with e not the identifier nil
// (a naked return is not accepted: it would need the named result to be set).
func returnsNonNilErr(b *ast.BlockStmt) bool {
	if b == nil || len(b.List) == 0 {
		return false
	}
	r, ok := b.List[len(b.List)-1].(*ast.ReturnStmt)
	if !ok || len(r.Results) == 0 {
		return false
	}
	last := r.Results[len(r.Results)-1]
	if id, ok := last.(*ast.Ident); ok && id.Name == "nil" {
		return false
	}
	return true
}

// isCmdPathExpr: the expression is cmd.Path, or a local that is only ever assigned
// cmd.Path or filepath.Join(cmd.Dir, <itself or cmd.Path>) inside the statement `scope`
// (the path os/exec will actually execute: a relative Path is evaluated relative to Dir).
func isCmdPathExpr(scope ast.Node, e ast.Expr) bool {
	if exprString(e) == "cmd.Path" {
		return true
	}
	id, ok := e.(*ast.Ident)
	if !ok {
		return false
	}
	assigned, good := false, true
	ast.Inspect(scope, func(n ast.Node) bool {
		as, ok := n.(*ast.AssignStmt)
		if !ok || len(as.Lhs) != 1 || len(as.Rhs) != 1 || exprString(as.Lhs[0]) != id.Name {
			return true
		}
		assigned = true
		r := exprString(as.Rhs[0])
		// Dir and Path are put together the way the kernel will see them after os/exec's chdir(Dir): plain concatenation with
		// a separator — NOT filepath.Join / Clean, which remove ".." lexically (wrong when Dir is a symbolic link)
		sep := "string(filepath.Separator)"
		if r != "cmd.Path" && r != "cmd.Dir+"+sep+"+"+id.Name && r != "cmd.Dir+"+sep+"+cmd.Path" &&
			r != "cmd.Dir+string(os.PathSeparator)+"+id.Name && r != "cmd.Dir+string(os.PathSeparator)+cmd.Path" {
			good = false
		}
		return true
	})
	return assigned && good
}
