package main

import (
	"bytes"
	"go/ast"
	"go/parser"
	"go/printer"
	"go/token"
	"regexp"
	"strings"
	"testing"
)

// normText normalises one single-file package and returns its text with all white space collapsed.
func normText(t *testing.T, src string) (string, []string) {
	t.Helper()
	fset := token.NewFileSet()
	f, err := parser.ParseFile(fset, "a.go", "package p\n"+src, parser.ParseComments)
	if err != nil {
		t.Fatalf("parse: %v", err)
	}
	files := map[string]*ast.File{"a.go": f}
	inl, _ := normalizePackage(fset, files, func(k string) string { return k })
	var buf bytes.Buffer
	if err := printer.Fprint(&buf, fset, files["a.go"]); err != nil {
		t.Fatalf("print: %v", err)
	}
	return regexp.MustCompile(`\s+`).ReplaceAllString(buf.String(), " "), inl
}

func TestNormalize(t *testing.T) {
	type tc struct {
		name    string
		src     string
		inlined int
		has     []string // substrings of the normal form
		hasNot  []string
	}
	cases := []tc{
		{"go method, receiver captured", `
type C struct{ n int }
func (c *C) Start() { go c.watch(1) }
func (c *C) watch(k int) { c.n = k }`, 1,
			[]string{"go func(k int) { c.n = k }(1)"}, []string{"func (c *C) watch"}},
		{"go method, differently named receiver and parameter", `
type C struct{ n int }
func (c *C) Start(r int) { go c.watch(r) }
func (cl *C) watch(k int) { cl.n = k }`, 1,
			[]string{"go func(r int) { c.n = r }(r)"}, nil},
		{"go method on a variable that is reassigned: receiver passed like an argument", `
type C struct{ n int }
func Start(a, b *C) { x := a; x = b; go x.watch() }
func (c *C) watch() { c.n = 1 }`, 1,
			[]string{"go func(x *C) { x.n = 1 }(x)"}, nil},
		{"value receiver is a copy: never captured", `
type V struct{ n int }
func Start(v V) { go v.watch() }
func (w V) watch() { w.n = 1 }`, 1,
			[]string{"go func(v V) { v.n = 1 }(v)"}, nil},
		{"defer helper", `
import "os"
type C struct{ n int }
func (c *C) Kill() { dir := "x"; defer c.cleanup(dir); c.n = 2 }
func (k *C) cleanup(d string) { os.RemoveAll(d); k.n = 0 }`, 1,
			[]string{"defer func(dir string) { os.RemoveAll(dir) c.n = 0 }(dir)"}, nil},
		{"two call sites: a unit of its own", `
type C struct{ n int }
func (c *C) A() { go c.watch() }
func (c *C) B() { go c.watch() }
func (c *C) watch() { c.n = 1 }`, 0, []string{"func (c *C) watch()"}, nil},
		{"exported: a unit of its own", `
type C struct{ n int }
func (c *C) A() { go c.Watch() }
func (c *C) Watch() { c.n = 1 }`, 0, []string{"go c.Watch()"}, nil},
		{"used as a value: a unit of its own", `
type C struct{ n int }
func (c *C) A() { f := c.watch; go f() }
func (c *C) watch() { c.n = 1 }`, 0, []string{"func (c *C) watch()"}, nil},
		{"a rule names it (anchor): a unit of its own", `
type C struct{ n int }
func (c *C) Start() error { return c.reattach() }
func (c *C) reattach() error { c.n = 1; return nil }`, 0, []string{"return c.reattach()"}, nil},
		{"method name also in an interface: a unit of its own", `
type I interface{ watch() }
type C struct{ n int }
func (c *C) A() { go c.watch() }
func (c *C) watch() { c.n = 1 }`, 0, []string{"go c.watch()"}, nil},
		{"recursion: a unit of its own", `
func walk(n int) { if n > 0 { walk(n - 1) } }`, 0, []string{"walk(n - 1)"}, nil},
		{"call inside an expression: left alone", `
func A() int { return 1 + one() }
func one() int { return 1 }`, 0, []string{"1 + one()"}, nil},
		{"tail call", `
type S struct{ m map[string]int }
func (s *S) Init() error { s.m = map[string]int{}; return s.register() }
func (s *S) register() error { for k := range s.m { if k == "" { return nil } }; return nil }`, 1,
			[]string{"s.m = map[string]int{} for k := range s.m {"}, []string{"register"}},
		{"tail call, name clash: the body keeps its scope", `
import "os"
func A() error { err := os.Chdir("a"); if err != nil { return err }; return tail() }
func tail() error { err := os.Chdir("b"); return err }`, 1, []string{"{ err := os.Chdir(\"b\") return err }"}, nil},
		{"assignment from a call: the result variable of the helper IS the assigned variable", `
import "os"
func A() int { vs := parse(); return len(vs) }
func parse() []int { var out []int; if os.Getenv("X") != "" { out = append(out, 1) }; return out }`, 1,
			[]string{"var vs []int", "vs = append(vs, 1)", "return len(vs)"}, []string{"parse", "out"}},
		{"assignment from a call: general result", `
func A(n int) int { v, ok := half(n); if ok { return v }; return 0 }
func half(k int) (int, bool) { r := k / 2; return r, r*2 == k }`, 1,
			[]string{"r := n / 2 v, ok := r, r*2 == n"}, nil},
		{"assignment from a call with an early return: left alone", `
func A(n int) int { v := pick(n); return v }
func pick(k int) int { if k > 0 { return 1 }; return 2 }`, 0, []string{"v := pick(n)"}, nil},
		{"statement call, plain body", `
type L struct{ ch chan int }
type M struct{ ls map[int]*L }
func (m *M) Knock(id int) { l := m.ls[id]; l.unblock(); }
func (b *L) unblock() { b.ch <- 1 }`, 1,
			[]string{"var b *L = l b.ch <- 1"}, nil}, // the type of the receiver is not lost
		{"statement call whose body defers: immediately invoked literal", `
import "sync"
type C struct{ mu sync.Mutex; n int }
func (c *C) A() { c.bump(2); c.n++ }
func (c *C) bump(k int) { c.mu.Lock(); defer c.mu.Unlock(); c.n += k }`, 1,
			[]string{"func(k int) { c.mu.Lock() defer c.mu.Unlock() c.n += k }(2)"}, nil},
		{"value parameter written through: stays a copy", `
type P struct{ n int }
func A(p P) int { bump(p); return p.n }
func bump(q P) { q.n++ }`, 1, []string{"var q P = p q.n++"}, nil},
		{"tagless switch = if/else chain", `
func A(a, b bool) int { x := 0; switch { case a: x = 1; case b, !a: x = 2; default: x = 3 }; return x }`, 0,
			[]string{"if a { x = 1 } else if b || !a { x = 2 } else { x = 3 }"}, []string{"switch"}},
		{"switch with a break that targets it: left alone", `
func A(a bool) int { x := 0; for { switch { case a: if x > 0 { break }; x = 1; default: x = 2 }; return x } }`, 0,
			[]string{"switch {"}, nil},
		{"break inside an inner loop of a case is not the switch's", `
func A(a bool) int { x := 0; switch { case a: for { break }; default: x = 2 }; return x }`, 0,
			[]string{"if a { for { break } } else { x = 2 }"}, []string{"switch"}},
		{"switch with fallthrough / tagged switch: left alone", `
func A(a bool, n int) int { x := 0; switch { case a: x = 1; fallthrough; default: x = 2 }; switch n { case 1: x = 3 }; return x }`, 0,
			[]string{"switch {", "switch n {"}, nil},
		{"helpers of helpers", `
type C struct{ n int }
func (c *C) Start() { go c.outer() }
func (c *C) outer() { c.n = 1; c.inner() }
func (c *C) inner() { c.n = 2 }`, 2, []string{"go func() { c.n = 1 c.n = 2 }()"}, nil},
	}
	for _, c := range cases {
		got, inl := normText(t, c.src)
		if len(inl) != c.inlined {
			t.Errorf("%s: %d helpers analysed in place (%v), want %d\n%s", c.name, len(inl), inl, c.inlined, got)
		}
		for _, h := range c.has {
			if !strings.Contains(got, h) {
				t.Errorf("%s: normal form lacks %q\n%s", c.name, h, got)
			}
		}
		for _, h := range c.hasNot {
			if strings.Contains(got, h) {
				t.Errorf("%s: normal form still contains %q\n%s", c.name, h, got)
			}
		}
	}
}

func TestNormalizeHygiene(t *testing.T) {
	// the helper's package-level name `limit` is a local of the caller: the call is left alone
	got, inl := normText(t, `
var limit = 3
func A() int { limit := 1; go report(); return limit }
func report() { println(limit) }`)
	if len(inl) != 0 || !strings.Contains(got, "go report()") {
		t.Errorf("captured a caller local: %v\n%s", inl, got)
	}
}
