package main

import (
	"fmt"
	"go/ast"
	"go/token"
	"strings"
)

func init() {
	registerExtractor("muxbroker", []string{"GoPlugin.Model.MuxBroker", "GoPlugin.Model.MuxFrame"}, extractMuxBroker)
}

// selectInfo describes one select statement.
type selectInfo struct {
	stmt       *ast.SelectStmt
	hasDefault bool
	comms      []string // rendered comm statements of the non-default arms
	defaultTxt string   // identifiers in the default arm's body
	timers     []int64  // time.After(<const>) arms, ms
}

func describeSelect(p *pkgs, sel *ast.SelectStmt) selectInfo {
	si := selectInfo{stmt: sel}
	for _, c := range sel.Body.List {
		cc := c.(*ast.CommClause)
		if cc.Comm == nil {
			si.hasDefault = true
			var sb strings.Builder
			for _, s := range cc.Body {
				sb.WriteString(stmtCalls(s) + " ")
			}
			si.defaultTxt = sb.String()
			continue
		}
		si.comms = append(si.comms, commString(cc.Comm))
		// timer arm?
		ast.Inspect(cc.Comm, func(n ast.Node) bool {
			if ce, ok := n.(*ast.CallExpr); ok && exprString(ce.Fun) == "time.After" && len(ce.Args) == 1 {
				if v, ok := p.evalInt(ce.Args[0]); ok {
					si.timers = append(si.timers, v)
				}
			}
			return true
		})
	}
	return si
}

func commString(s ast.Stmt) string {
	switch x := s.(type) {
	case *ast.SendStmt:
		return exprString(x.Chan) + "<-" + exprString(x.Value)
	case *ast.ExprStmt:
		return exprString(x.X)
	case *ast.AssignStmt:
		var r []string
		for _, e := range x.Rhs {
			r = append(r, exprString(e))
		}
		return strings.Join(r, ",")
	}
	return "?"
}

// stmtCalls lists the call expressions in a statement, rendered.
func stmtCalls(s ast.Stmt) string {
	var out []string
	ast.Inspect(s, func(n ast.Node) bool {
		if ce, ok := n.(*ast.CallExpr); ok {
			out = append(out, exprString(ce))
		}
		return true
	})
	return strings.Join(out, " ")
}

// selectsOf returns every select in fn with its nesting: the chain of enclosing if-conditions.
func selectsOf(p *pkgs, fn *ast.FuncDecl) (sels []selectInfo, conds [][]string) {
	var walk func(n ast.Node, cs []string)
	walk = func(n ast.Node, cs []string) {
		switch x := n.(type) {
		case nil:
			return
		case *ast.SelectStmt:
			sels = append(sels, describeSelect(p, x))
			conds = append(conds, append([]string(nil), cs...))
			for _, c := range x.Body.List {
				for _, s := range c.(*ast.CommClause).Body {
					walk(s, cs)
				}
			}
		case *ast.IfStmt:
			c2 := append(append([]string(nil), cs...), exprString(x.Cond))
			walk(x.Body, c2)
			if x.Else != nil {
				walk(x.Else, append(append([]string(nil), cs...), "!"+exprString(x.Cond)))
			}
		case *ast.BlockStmt:
			for _, s := range x.List {
				walk(s, cs)
			}
		case *ast.ForStmt:
			walk(x.Body, cs)
		case *ast.RangeStmt:
			walk(x.Body, cs)
		case *ast.SwitchStmt:
			walk(x.Body, cs)
		case *ast.CaseClause:
			for _, s := range x.Body {
				walk(s, cs)
			}
		case *ast.LabeledStmt:
			walk(x.Stmt, cs)
		}
	}
	if fn != nil {
		walk(fn.Body, nil)
	}
	return
}

// chanCap finds make(chan T, n) assigned to a field named `field` in a composite literal inside fn.
func chanCap(p *pkgs, fn *ast.FuncDecl, field string) int64 {
	cap := int64(-1)
	if fn == nil {
		return cap
	}
	ast.Inspect(fn.Body, func(n ast.Node) bool {
		kv, ok := n.(*ast.KeyValueExpr)
		if !ok || exprString(kv.Key) != field {
			return true
		}
		if ce, ok := kv.Value.(*ast.CallExpr); ok && exprString(ce.Fun) == "make" {
			if len(ce.Args) == 1 {
				cap = 0
			} else if len(ce.Args) == 2 {
				if v, ok := p.evalInt(ce.Args[1]); ok {
					cap = v
				}
			}
		}
		return true
	})
	return cap
}

func extractMuxBroker(p *pkgs, f *facts) {
	hasDefault, drainsAlways, runCloses := false, false, false
	var acceptWin, expiryWin int64 = 0, 0
	tw := p.fn("MuxBroker", "timeoutWait")
	if tw == nil {
		f.miss = append(f.miss, "MuxBroker.timeoutWait")
	}
	sels, conds := selectsOf(p, tw)
	foundRecv := false
	for i, si := range sels {
		for _, c := range si.comms {
			if strings.HasSuffix(c, "<-p.ch") || c == "<-p.ch" {
				foundRecv = true
				hasDefault = si.hasDefault
				drainsAlways = len(conds[i]) == 0
			}
		}
		if len(si.timers) > 0 {
			expiryWin = si.timers[0]
		}
	}
	if !foundRecv {
		// no receive from the slot at all: nothing is ever drained, nothing can block
		hasDefault = true
		drainsAlways = false
	}
	run := p.fn("MuxBroker", "Run")
	if run == nil {
		f.miss = append(f.miss, "MuxBroker.Run")
	}
	rsels, _ := selectsOf(p, run)
	for _, si := range rsels {
		for _, c := range si.comms {
			if strings.HasPrefix(c, "p.ch<-") {
				if si.hasDefault && strings.Contains(si.defaultTxt, "stream.Close()") {
					runCloses = true
				}
			}
		}
	}
	// the failed header read: `if err := binary.Read(stream, …); err != nil { …; continue }` directly in Run's loop
	hdrContinues := false
	if run != nil {
		ast.Inspect(run.Body, func(n ast.Node) bool {
			fs, ok := n.(*ast.ForStmt)
			if !ok {
				return true
			}
			for _, st := range fs.Body.List {
				is, ok := st.(*ast.IfStmt)
				if !ok || is.Init == nil || !strings.Contains(stmtCalls(is.Init), "binary.Read(") {
					continue
				}
				leaves := false
				ast.Inspect(is.Body, func(m ast.Node) bool {
					switch y := m.(type) {
					case *ast.ReturnStmt:
						leaves = true
					case *ast.BranchStmt:
						if y.Tok.String() != "continue" || y.Label != nil {
							leaves = true
						}
					case *ast.CallExpr:
						if exprString(y.Fun) == "panic" {
							leaves = true
						}
					}
					return true
				})
				if n := len(is.Body.List); n > 0 && !leaves {
					if br, ok := is.Body.List[n-1].(*ast.BranchStmt); ok && br.Tok.String() == "continue" {
						hdrContinues = true
					}
				}
			}
			return false
		})
	}
	acc := p.fn("MuxBroker", "Accept")
	asels, _ := selectsOf(p, acc)
	for _, si := range asels {
		if len(si.timers) > 0 {
			acceptWin = si.timers[0]
		}
	}
	cap := chanCap(p, p.fn("MuxBroker", "getStream"), "ch")
	f.lean = append(f.lean, fmt.Sprintf("def muxBroker : MuxBroker.Params := ⟨%s, %s, %s, %s, %d, %d, %d⟩",
		leanBool(hasDefault), leanBool(drainsAlways), leanBool(runCloses), leanBool(hdrContinues), max64(cap, 0), acceptWin, expiryWin))
	f.set("muxBroker", map[string]interface{}{"expiryRecvHasDefault": hasDefault, "expiryDrainsAlways": drainsAlways,
		"runClosesDropped": runCloses, "headerErrorContinues": hdrContinues, "slotCap": cap, "acceptWindowMs": acceptWin, "expiryWindowMs": expiryWin})
	// ---- byte-level facts (Model/MuxFrame.lean)
	// the 4-byte header/ack is read with binary.Read directly on the stream identifier that is then handed on
	exact := true
	for _, spec := range []struct{ fn, how string }{{"Dial", "return"}, {"Run", "send"}} {
		fn := p.fn("MuxBroker", spec.fn)
		if fn == nil {
			exact = false
			continue
		}
		v := ""
		ast.Inspect(fn.Body, func(n ast.Node) bool {
			if ce, ok := n.(*ast.CallExpr); ok && exprString(ce.Fun) == "binary.Read" && len(ce.Args) == 3 {
				if id, ok := ce.Args[0].(*ast.Ident); ok {
					v = id.Name
				}
			}
			return true
		})
		handed := false
		ast.Inspect(fn.Body, func(n ast.Node) bool {
			switch x := n.(type) {
			case *ast.ReturnStmt:
				if spec.how == "return" && len(x.Results) == 2 && exprString(x.Results[0]) == v && exprString(x.Results[1]) == "nil" {
					handed = true
				}
			case *ast.SendStmt:
				if spec.how == "send" && exprString(x.Value) == v {
					handed = true
				}
			}
			return true
		})
		if v == "" || !handed || strings.Contains(nodeCalls(fn.Body), "bufio.") {
			exact = false
		}
	}
	noDeadline := true
	for _, name := range []string{"Accept", "Dial", "Run", "AcceptAndServe", "timeoutWait"} {
		if fn := p.fn("MuxBroker", name); fn != nil {
			c := nodeCalls(fn.Body)
			if strings.Contains(c, "SetDeadline(") || strings.Contains(c, "SetWriteDeadline(") || strings.Contains(c, "SetReadDeadline(") {
				noDeadline = false
			}
		}
	}
	// MuxBroker.Accept's timer arm: only ExprStmt / DeferStmt / ReturnStmt / plain statements without any channel operation,
	// select, for or go; `delete(m.streams, …)` only there and in timeoutWait
	straight, mapOwned := false, true
	if acc := p.fn("MuxBroker", "Accept"); acc != nil {
		sels, _ := selectsOf(p, acc)
		for _, si := range sels {
			for _, c := range si.stmt.Body.List {
				cc := c.(*ast.CommClause)
				if cc.Comm == nil || !strings.Contains(commString(cc.Comm), "time.After") {
					continue
				}
				straight = true
				for _, b := range cc.Body {
					ast.Inspect(b, func(n ast.Node) bool {
						switch v := n.(type) {
						case *ast.SelectStmt, *ast.ForStmt, *ast.RangeStmt, *ast.GoStmt, *ast.SendStmt:
							straight = false
						case *ast.UnaryExpr:
							if v.Op == token.ARROW {
								straight = false
							}
						}
						return true
					})
				}
			}
		}
	}
	nDel := 0
	for _, file := range p.files {
		for _, d := range file.Decls {
			fd, ok := d.(*ast.FuncDecl)
			if !ok || fd.Body == nil || recvTypeName(fd) != "MuxBroker" {
				continue
			}
			ast.Inspect(fd.Body, func(n ast.Node) bool {
				if ce, ok := n.(*ast.CallExpr); ok && exprString(ce.Fun) == "delete" && len(ce.Args) == 2 && strings.HasSuffix(exprString(ce.Args[0]), ".streams") {
					nDel++
					if fd.Name.Name != "Accept" && fd.Name.Name != "timeoutWait" {
						mapOwned = false
					}
				}
				return true
			})
		}
	}
	// within Accept the delete sits in the timer arm only
	if acc := p.fn("MuxBroker", "Accept"); acc != nil {
		inArm, total := 0, 0
		ast.Inspect(acc.Body, func(n ast.Node) bool {
			if ce, ok := n.(*ast.CallExpr); ok && exprString(ce.Fun) == "delete" {
				total++
			}
			return true
		})
		sels, _ := selectsOf(p, acc)
		for _, si := range sels {
			for _, c := range si.stmt.Body.List {
				cc := c.(*ast.CommClause)
				if cc.Comm != nil && strings.Contains(commString(cc.Comm), "time.After") {
					for _, b := range cc.Body {
						ast.Inspect(b, func(n ast.Node) bool {
							if ce, ok := n.(*ast.CallExpr); ok && exprString(ce.Fun) == "delete" {
								inArm++
							}
							return true
						})
					}
				}
			}
		}
		if inArm != total {
			mapOwned = false
		}
	}
	mapOwned = mapOwned && nDel >= 2
	f.lean = append(f.lean, fmt.Sprintf("def muxAccept : MuxBroker.AcceptParams := ⟨%s, %s⟩", leanBool(straight), leanBool(mapOwned)))
	f.set("muxAccept", map[string]interface{}{"timeoutArmStraight": straight, "mapOwnedByAcceptSide": mapOwned})
	f.lean = append(f.lean, fmt.Sprintf("def muxFrame : MuxFrame.Params := ⟨%s, %s⟩", leanBool(exact), leanBool(noDeadline)))
	f.set("muxFrame", map[string]interface{}{"headerReadExact": exact, "noDeadlineLeft": noDeadline})
}

func max64(a, b int64) int64 {
	if a > b {
		return a
	}
	return b
}
