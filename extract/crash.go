package main

import (
	"fmt"
	"go/ast"
	"strings"
)

func init() {
	registerExtractor("crash", []string{"GoPlugin.Model.Crash"}, extractCrash)
}

// funcLitsWith returns the function literals under n whose body contains a call rendered with needle.
func funcLitsWith(n ast.Node, needle string) []*ast.FuncLit {
	var out []*ast.FuncLit
	ast.Inspect(n, func(m ast.Node) bool {
		if fl, ok := m.(*ast.FuncLit); ok && strings.Contains(nodeCalls(fl.Body), needle) {
			out = append(out, fl)
		}
		return true
	})
	return out
}

func hasDeferCall(b *ast.BlockStmt, needle string) bool {
	for _, s := range b.List {
		if d, ok := s.(*ast.DeferStmt); ok && strings.Contains(exprString(d.Call), needle) {
			return true
		}
	}
	return false
}

func assignsTrue(n ast.Node, lhs string) bool {
	found := false
	ast.Inspect(n, func(m ast.Node) bool {
		if as, ok := m.(*ast.AssignStmt); ok && len(as.Lhs) == 1 && len(as.Rhs) == 1 && exprString(as.Lhs[0]) == lhs && exprString(as.Rhs[0]) == "true" {
			found = true
		}
		return true
	})
	return found
}

func extractCrash(p *pkgs, f *facts) {
	cancels, exits, drains, watches, timeout := true, true, false, false, false
	nWait := 0
	for _, name := range []string{"Start", "reattach"} {
		fn := p.fn("Client", name)
		if fn == nil {
			f.miss = append(f.miss, "Client."+name+"(crash)")
			cancels, exits = false, false
			continue
		}
		for _, fl := range funcLitsWith(fn.Body, ".Wait(context.Background())") {
			// only the goroutine that waits for the process (not nested literals that contain it)
			inner := funcLitsWith(fl.Body, ".Wait(context.Background())")
			if len(inner) > 1 {
				continue
			}
			nWait++
			if !hasDeferCall(fl.Body, "c.ctxCancel()") {
				cancels = false
			}
			if !assignsTrue(fl.Body, "c.exited") {
				exits = false
			}
		}
	}
	if nWait < 2 {
		cancels, exits = false, false
	}
	if start := p.fn("Client", "Start"); start != nil {
		for _, fl := range funcLitsWith(start.Body, "bufio.NewScanner(") {
			if strings.Contains(nodeCalls(fl.Body), "io.Copy(io.Discard,") {
				drains = true
			}
		}
		// the first-line select: arms on doneCtx and on a timer
		timerVars := map[string]bool{}
		ast.Inspect(start.Body, func(n ast.Node) bool {
			if as, ok := n.(*ast.AssignStmt); ok && len(as.Lhs) == 1 && len(as.Rhs) == 1 && strings.HasPrefix(exprString(as.Rhs[0]), "time.After(") {
				timerVars[exprString(as.Lhs[0])] = true
			}
			return true
		})
		sels, _ := selectsOf(p, start)
		for _, si := range sels {
			hasLines := false
			for _, c := range si.comms {
				if strings.Contains(c, "<-linesCh") {
					hasLines = true
				}
			}
			if !hasLines {
				continue
			}
			for _, c := range si.comms {
				if strings.Contains(c, "c.doneCtx.Done()") {
					watches = true
				}
				if strings.Contains(c, "time.After(") {
					timeout = true
				}
				for v := range timerVars {
					if c == "<-"+v {
						timeout = true
					}
				}
			}
		}
	}
	// the drain of linesCh: a top-level `defer func() { go func() { for range linesCh {} }() }()` registered before
	// the statement holding the first-line select, so that it runs on every way out of Start
	linesDrained := false
	if start := p.fn("Client", "Start"); start != nil {
		deferIdx, selIdx := -1, -1
		for i, st := range start.Body.List {
			if d, ok := st.(*ast.DeferStmt); ok && deferIdx < 0 {
				if fl, ok := d.Call.Fun.(*ast.FuncLit); ok {
					ast.Inspect(fl.Body, func(n ast.Node) bool {
						g, ok := n.(*ast.GoStmt)
						if !ok {
							return true
						}
						ast.Inspect(g.Call, func(m ast.Node) bool {
							if r, ok := m.(*ast.RangeStmt); ok && exprString(r.X) == "linesCh" {
								deferIdx = i
							}
							return true
						})
						return true
					})
				}
			}
			if selIdx < 0 {
				ast.Inspect(st, func(n ast.Node) bool {
					if _, isLit := n.(*ast.FuncLit); isLit {
						return false
					}
					if sel, ok := n.(*ast.SelectStmt); ok {
						for _, c := range describeSelect(p, sel).comms {
							if strings.Contains(c, "<-linesCh") {
								selIdx = i
							}
						}
					}
					return true
				})
			}
		}
		linesDrained = deferIdx >= 0 && selIdx >= 0 && deferIdx < selIdx
	}
	// both broker StartStream loops: a top-level `defer s.Close()` before the first statement that contains a return
	quitClosed := true
	for _, recv := range []string{"gRPCBrokerClientImpl", "gRPCBrokerServer"} {
		fn := p.fn(recv, "StartStream")
		if fn == nil {
			f.miss = append(f.miss, recv+".StartStream")
			quitClosed = false
			continue
		}
		ok := false
		for _, st := range fn.Body.List {
			if d, isDefer := st.(*ast.DeferStmt); isDefer && exprString(d.Call) == "s.Close()" {
				ok = true
				break
			}
			hasReturn := false
			ast.Inspect(st, func(n ast.Node) bool {
				if _, isLit := n.(*ast.FuncLit); isLit {
					return false
				}
				if _, isRet := n.(*ast.ReturnStmt); isRet {
					hasReturn = true
				}
				return true
			})
			if hasReturn {
				break
			}
		}
		if !ok {
			quitClosed = false
		}
	}
	// Client.Start: every assignment to cmd.Stdin has the right-hand side `os.Stdin` (the *os.File itself), and there is one
	stdinFile := false
	if st := p.fn("Client", "Start"); st != nil {
		n, bad := 0, 0
		ast.Inspect(st.Body, func(m ast.Node) bool {
			if as, ok := m.(*ast.AssignStmt); ok {
				for i, l := range as.Lhs {
					if strings.HasSuffix(exprString(l), ".Stdin") && exprString(l) != "os.Stdin" {
						n++
						if i >= len(as.Rhs) || exprString(as.Rhs[i]) != "os.Stdin" {
							bad++
						}
					}
				}
			}
			return true
		})
		stdinFile = n >= 1 && bad == 0
	}
	f.lean = append(f.lean, fmt.Sprintf("def crash : Crash.Params := ⟨%s, %s, %s, %s, %s, %s, %s, %s⟩",
		leanBool(cancels), leanBool(exits), leanBool(drains), leanBool(watches), leanBool(timeout), leanBool(linesDrained), leanBool(quitClosed), leanBool(stdinFile)))
	f.set("crash", map[string]interface{}{"waitCancelsCtx": cancels, "waitSetsExited": exits, "drainsAfterScannerError": drains,
		"startWatchesExit": watches, "startHasTimeout": timeout, "linesAlwaysDrained": linesDrained, "streamEndClosesQuit": quitClosed, "waitOnlyForProcess": stdinFile, "waitGoroutines": nWait})
}
