package main

import (
	"fmt"
	"go/ast"
	"go/token"
)

func init() {
	registerExtractor("negotiate", []string{"GoPlugin.Model.Negotiate"}, extractNegotiate)
}

// sortDirection looks, among the statements before `limit`, for the last sort
// call applied to the slice named `name`: +1 descending (sort.Reverse), -1
// ascending, 0 not found / not understood.
func sortDirection(stmts []ast.Stmt, name string) int {
	dir := 0
	for _, s := range stmts {
		es, ok := s.(*ast.ExprStmt)
		if !ok {
			continue
		}
		switch exprString(es.X) {
		case "sort.Sort(sort.Reverse(sort.IntSlice(" + name + ")))":
			dir = 1
		case "sort.Sort(sort.IntSlice(" + name + "))", "sort.Ints(" + name + ")", "slices.Sort(" + name + ")":
			dir = -1
		}
	}
	return dir
}

func containsReturn(n ast.Node) bool {
	found := false
	ast.Inspect(n, func(m ast.Node) bool {
		if _, ok := m.(*ast.ReturnStmt); ok {
			found = true
		}
		if _, ok := m.(*ast.FuncLit); ok {
			return false
		}
		return !found
	})
	return found
}

// extractNegotiate: facts of protocolVersion (server.go) and checkProtoVersion (client.go) for C02.
func extractNegotiate(p *pkgs, f *facts) {
	versionsDesc, clientDesc, fallbackLast, clientEq := false, false, false, false

	if pv := p.fn("", "protocolVersion"); pv != nil && pv.Body != nil {
		body := pv.Body.List
		// the outer loop: the top-level `for _, version := range <ident>` that can return
		for i, s := range body {
			rs, ok := s.(*ast.RangeStmt)
			if !ok || !containsReturn(rs.Body) {
				continue
			}
			xs, ok1 := rs.X.(*ast.Ident)
			val, ok2 := rs.Value.(*ast.Ident)
			if !ok1 || !ok2 {
				break
			}
			versionsDesc = sortDirection(body[:i], xs.Name) == 1
			// the inner loop over the client's list
			for _, t := range rs.Body.List {
				irs, ok := t.(*ast.RangeStmt)
				if !ok || !containsReturn(irs.Body) {
					continue
				}
				if ix, ok := irs.X.(*ast.Ident); ok {
					clientDesc = sortDirection(body[:i], ix.Name) == 1
				}
			}
			// the fallback: the function's last statement returns three plain
			// variables, the first assigned from the loop variable and the
			// third from the map entry of the loop variable, at the top of the loop body
			if ret, ok := body[len(body)-1].(*ast.ReturnStmt); ok && len(ret.Results) == 3 && i < len(body)-1 {
				a, okA := ret.Results[0].(*ast.Ident)
				c, okC := ret.Results[2].(*ast.Ident)
				if okA && okC {
					setA, setC := false, false
					for _, t := range rs.Body.List {
						as, ok := t.(*ast.AssignStmt)
						if !ok || as.Tok != token.ASSIGN || len(as.Lhs) != 1 || len(as.Rhs) != 1 {
							continue
						}
						l := exprString(as.Lhs[0])
						r := exprString(as.Rhs[0])
						if l == a.Name && r == val.Name {
							setA = true
						}
						if l == c.Name && r == "opts.VersionedPlugins["+val.Name+"]" {
							setC = true
						}
					}
					// the fallback return must follow the loop immediately
					clean := i+1 == len(body)-1
					fallbackLast = setA && setC && clean
				}
			}
			break
		}
	} else {
		f.miss = append(f.miss, "protocolVersion")
	}

	if cp := p.fn("Client", "checkProtoVersion"); cp != nil && cp.Body != nil {
		ast.Inspect(cp.Body, func(n ast.Node) bool {
			rs, ok := n.(*ast.RangeStmt)
			if !ok || exprString(rs.X) != "c.config.VersionedPlugins" {
				return true
			}
			key, ok := rs.Key.(*ast.Ident)
			if !ok {
				return false
			}
			guarded := false
			for _, t := range rs.Body.List {
				switch st := t.(type) {
				case *ast.IfStmt:
					be, ok := st.Cond.(*ast.BinaryExpr)
					if !ok || st.Init != nil {
						continue
					}
					x, y := exprString(be.X), exprString(be.Y)
					mentionsKey := (x == key.Name) != (y == key.Name)
					_, xi := be.X.(*ast.Ident)
					_, yi := be.Y.(*ast.Ident)
					if !mentionsKey || !xi || !yi {
						continue
					}
					if be.Op == token.NEQ && len(st.Body.List) == 1 && st.Else == nil {
						if br, ok := st.Body.List[0].(*ast.BranchStmt); ok && br.Tok == token.CONTINUE {
							guarded = true
						}
					}
					if be.Op == token.EQL && endsInReturn(st.Body) && st.Else == nil {
						clientEq = true
					}
				case *ast.ReturnStmt:
					if guarded {
						clientEq = true
					}
				}
			}
			return false
		})
	} else {
		f.miss = append(f.miss, "Client.checkProtoVersion")
	}

	f.lean = append(f.lean, fmt.Sprintf("def negotiate : Negotiate.Params := ⟨%s, %s, %s, %s⟩",
		leanBool(versionsDesc), leanBool(clientDesc), leanBool(fallbackLast), leanBool(clientEq)))
	f.set("negotiate", map[string]interface{}{"versionsDesc": versionsDesc, "clientDesc": clientDesc,
		"fallbackLast": fallbackLast, "clientEq": clientEq})
}
