package main

import (
	"fmt"
	"go/ast"
	"strings"
)

func init() {
	registerExtractor("kill", []string{"GoPlugin.Model.Kill"}, extractKill)
}

func extractKill(p *pkgs, f *facts) {
	var grace int64
	forceAfter, deadline, eofGraceful, waits := false, false, false, false
	if kill := p.fn("Client", "Kill"); kill != nil {
		list := kill.Body.List
		// the grace select: an if-block whose body holds a select with a doneCtx arm and a timer arm
		graceIdx, killIdx := -1, -1
		timerArmReturns := false
		for i, s := range list {
			if is, ok := s.(*ast.IfStmt); ok && exprString(is.Cond) == "graceful" {
				sels, _ := selectsOf(p, &ast.FuncDecl{Body: is.Body})
				for _, si := range sels {
					if len(si.timers) > 0 {
						grace = si.timers[0]
						graceIdx = i
						// does the timer arm return?
						for _, c := range si.stmt.Body.List {
							cc := c.(*ast.CommClause)
							if cc.Comm != nil && strings.Contains(commString(cc.Comm), "time.After") {
								for _, b := range cc.Body {
									if _, ok := b.(*ast.ReturnStmt); ok {
										timerArmReturns = true
									}
								}
							}
						}
					}
				}
			}
			if strings.Contains(nodeCalls(s), "runner.Kill(") && killIdx < 0 {
				if _, isDefer := s.(*ast.DeferStmt); !isDefer {
					killIdx = i
				}
			}
		}
		forceAfter = graceIdx >= 0 && killIdx > graceIdx && !timerArmReturns
		for _, s := range list {
			if d, ok := s.(*ast.DeferStmt); ok && strings.Contains(nodeCalls(d), "c.clientWaitGroup.Wait()") {
				waits = true
			}
		}
	} else {
		f.miss = append(f.miss, "Client.Kill(kill)")
	}
	if cl := p.fn("GRPCClient", "Close"); cl != nil {
		// the context passed to controller.Shutdown comes from context.WithTimeout / WithDeadline
		ctxVar := ""
		ast.Inspect(cl.Body, func(n ast.Node) bool {
			if ce, ok := n.(*ast.CallExpr); ok && strings.HasSuffix(exprString(ce.Fun), "controller.Shutdown") && len(ce.Args) >= 1 {
				ctxVar = exprString(ce.Args[0])
			}
			return true
		})
		if strings.HasPrefix(ctxVar, "context.WithTimeout") || strings.HasPrefix(ctxVar, "context.WithDeadline") {
			deadline = true
		}
		ast.Inspect(cl.Body, func(n ast.Node) bool {
			if as, ok := n.(*ast.AssignStmt); ok && len(as.Lhs) >= 1 && len(as.Rhs) == 1 && exprString(as.Lhs[0]) == ctxVar {
				r := exprString(as.Rhs[0])
				if strings.HasPrefix(r, "context.WithTimeout(") || strings.HasPrefix(r, "context.WithDeadline(") {
					deadline = true
				}
			}
			return true
		})
	} else {
		f.miss = append(f.miss, "GRPCClient.Close")
	}
	if cl := p.fn("RPCClient", "Close"); cl != nil {
		// v := c.control.Call("Control.Quit", …); if <mentions io.ErrUnexpectedEOF and io.EOF> { v = nil }
		v := ""
		ast.Inspect(cl.Body, func(n ast.Node) bool {
			if as, ok := n.(*ast.AssignStmt); ok && len(as.Lhs) == 1 && len(as.Rhs) == 1 && strings.Contains(exprString(as.Rhs[0]), `c.control.Call("Control.Quit"`) {
				v = exprString(as.Lhs[0])
			}
			return true
		})
		ast.Inspect(cl.Body, func(n ast.Node) bool {
			is, ok := n.(*ast.IfStmt)
			if !ok || v == "" {
				return true
			}
			c := exprString(is.Cond)
			if strings.Contains(c, "io.ErrUnexpectedEOF") && strings.Contains(c, "io.EOF") && strings.Contains(c, v) {
				for _, b := range is.Body.List {
					if as, ok := b.(*ast.AssignStmt); ok && len(as.Lhs) == 1 && exprString(as.Lhs[0]) == v && exprString(as.Rhs[0]) == "nil" {
						eofGraceful = true
					}
				}
			}
			return true
		})
	} else {
		f.miss = append(f.miss, "RPCClient.Close")
	}
	// `c.runner = nil`: only inside Kill's deferred function literal, after the clientWaitGroup.Wait() statement
	clearedLate := false
	if kill := p.fn("Client", "Kill"); kill != nil {
		total, late := 0, 0
		ast.Inspect(kill.Body, func(n ast.Node) bool {
			if as, ok := n.(*ast.AssignStmt); ok && len(as.Lhs) == 1 && exprString(as.Lhs[0]) == "c.runner" {
				total++
			}
			return true
		})
		for _, st := range kill.Body.List {
			d, ok := st.(*ast.DeferStmt)
			if !ok {
				continue
			}
			fl, ok := d.Call.Fun.(*ast.FuncLit)
			if !ok {
				continue
			}
			waited := false
			for _, b := range fl.Body.List {
				if strings.Contains(stmtCalls(b), "c.clientWaitGroup.Wait()") {
					waited = true
				}
				if waited {
					ast.Inspect(b, func(n ast.Node) bool {
						if as, ok := n.(*ast.AssignStmt); ok && len(as.Lhs) == 1 && exprString(as.Lhs[0]) == "c.runner" && exprString(as.Rhs[0]) == "nil" {
							late++
						}
						return true
					})
				}
			}
		}
		clearedLate = total > 0 && total == late
	}
	// NewRPCClient: the yamux session is created with `yamux.Client(conn, nil)` (default config: keep-alive on) or with a
	// config variable that comes from yamux.DefaultConfig() and whose EnableKeepAlive is never assigned
	keepAlive := false
	if nc := p.fn("", "NewRPCClient"); nc != nil {
		cfgVar, found := "", false
		ast.Inspect(nc.Body, func(n ast.Node) bool {
			if ce, ok := n.(*ast.CallExpr); ok && exprString(ce.Fun) == "yamux.Client" && len(ce.Args) == 2 {
				found = true
				cfgVar = exprString(ce.Args[1])
			}
			return true
		})
		if found && cfgVar == "nil" {
			keepAlive = true
		} else if found {
			fromDefault, touched := false, false
			ast.Inspect(nc.Body, func(n ast.Node) bool {
				if as, ok := n.(*ast.AssignStmt); ok {
					for i, l := range as.Lhs {
						if exprString(l) == cfgVar && i < len(as.Rhs) && exprString(as.Rhs[i]) == "yamux.DefaultConfig()" {
							fromDefault = true
						}
						if strings.HasPrefix(exprString(l), cfgVar+".") && strings.Contains(exprString(l), "KeepAlive") {
							touched = true
						}
					}
				}
				return true
			})
			keepAlive = fromDefault && !touched
		}
	} else {
		f.miss = append(f.miss, "NewRPCClient")
	}
	// Client.Start: `c.runner = <x>` is a statement of Start's own body that comes before the statement calling <x>.Start(…)
	keptBefore := false
	if st := p.fn("Client", "Start"); st != nil {
		assignIdx, startIdx := -1, -1
		for i, s := range st.Body.List {
			if as, ok := s.(*ast.AssignStmt); ok && len(as.Lhs) == 1 && len(as.Rhs) == 1 && exprString(as.Lhs[0]) == "c.runner" && exprString(as.Rhs[0]) != "nil" {
				if assignIdx < 0 {
					assignIdx = i
				}
			}
			if startIdx < 0 && strings.Contains(nodeCalls(s), "runner.Start(") {
				startIdx = i
			}
		}
		keptBefore = assignIdx >= 0 && startIdx >= 0 && assignIdx < startIdx
	} else {
		f.miss = append(f.miss, "Client.Start(kill)")
	}
	// grpcControllerServer.Shutdown: `s.server.Stop()` is a statement of the handler's own body (not in a goroutine or a
	// function literal) and nothing in the handler calls GracefulStop
	stopNow := false
	if sh := p.fn("grpcControllerServer", "Shutdown"); sh != nil {
		for _, s := range sh.Body.List {
			if es, ok := s.(*ast.ExprStmt); ok && exprString(es.X) == "s.server.Stop()" {
				stopNow = true
			}
		}
		if strings.Contains(nodeCalls(sh.Body), "GracefulStop(") {
			stopNow = false
		}
	} else {
		f.miss = append(f.miss, "grpcControllerServer.Shutdown")
	}
	// CleanupClients / NewClient: the managed-client list
	regs, each, waits := false, false, false
	if nc := p.fn("", "NewClient"); nc != nil {
		// `if config.Managed { … managedClients = append(managedClients, c) … }` with c the client NewClient returns
		ast.Inspect(nc.Body, func(n ast.Node) bool {
			is, ok := n.(*ast.IfStmt)
			if !ok || exprString(is.Cond) != "config.Managed" {
				return true
			}
			for _, st := range is.Body.List {
				if as, ok := st.(*ast.AssignStmt); ok && len(as.Lhs) == 1 && len(as.Rhs) == 1 && exprString(as.Lhs[0]) == "managedClients" &&
					strings.HasPrefix(exprString(as.Rhs[0]), "append(managedClients,") {
					regs = true
				}
			}
			return true
		})
	} else {
		f.miss = append(f.miss, "NewClient(kill)")
	}
	if cc := p.fn("", "CleanupClients"); cc != nil {
		loopIdx, waitIdx := -1, -1
		for i, st := range cc.Body.List {
			if rs, ok := st.(*ast.RangeStmt); ok && exprString(rs.X) == "managedClients" && rs.Value != nil {
				v := exprString(rs.Value)
				added, killed := false, false
				early := false
				for _, b := range rs.Body.List {
					switch x := b.(type) {
					case *ast.ExprStmt:
						if exprString(x.X) == "wg.Add(1)" {
							added = true
						}
					case *ast.GoStmt:
						// go func(client *Client){ client.Kill(); wg.Done() }(v)
						if fl, ok := x.Call.Fun.(*ast.FuncLit); ok && len(x.Call.Args) == 1 && exprString(x.Call.Args[0]) == v &&
							fl.Type.Params != nil && len(fl.Type.Params.List) == 1 && len(fl.Type.Params.List[0].Names) == 1 {
							pn := fl.Type.Params.List[0].Names[0].Name
							cs := nodeCalls(fl.Body)
							killed = strings.Contains(cs, pn+".Kill()") && strings.Contains(cs, "wg.Done()")
						}
					case *ast.BranchStmt, *ast.ReturnStmt, *ast.IfStmt:
						early = true // anything that can skip an element
					}
				}
				if added && killed && !early {
					loopIdx = i
				}
			}
			if es, ok := st.(*ast.ExprStmt); ok && exprString(es.X) == "wg.Wait()" {
				waitIdx = i
			}
		}
		each = loopIdx >= 0
		waits = waitIdx > loopIdx && loopIdx >= 0
	} else {
		f.miss = append(f.miss, "CleanupClients")
	}
	// Kill is serialised: its body begins with `c.<M>.Lock()` followed by `defer c.<M>.Unlock()`, <M> is not the client's
	// field lock `l`, and nothing else in the package locks <M> (so nothing can hold it while waiting for a Kill)
	serialised := false
	if kf := p.fn("Client", "Kill"); kf != nil && len(kf.Body.List) >= 2 {
		if es, ok := kf.Body.List[0].(*ast.ExprStmt); ok {
			call := exprString(es.X)
			if strings.HasPrefix(call, "c.") && strings.HasSuffix(call, ".Lock()") && call != "c.l.Lock()" {
				mu := strings.TrimSuffix(call, ".Lock()")
				if ds, ok := kf.Body.List[1].(*ast.DeferStmt); ok && exprString(ds.Call) == mu+".Unlock()" {
					locks := 0
					for _, file := range p.files {
						ast.Inspect(file, func(n ast.Node) bool {
							if ce, ok := n.(*ast.CallExpr); ok {
								if fn := exprString(ce.Fun); strings.HasSuffix(fn, strings.TrimPrefix(mu, "c")+".Lock") || strings.HasSuffix(fn, strings.TrimPrefix(mu, "c")+".TryLock") {
									locks++
								}
							}
							return true
						})
					}
					serialised = locks == 1
				}
			}
		}
	}
	f.lean = append(f.lean, fmt.Sprintf("def killOverlap : Kill.OverlapParams := ⟨%s⟩", leanBool(serialised)))
	f.set("killOverlap", map[string]interface{}{"serialised": serialised})
	f.lean = append(f.lean, fmt.Sprintf("def cleanupClients : Kill.CleanupParams := ⟨%s, %s, %s⟩", leanBool(regs), leanBool(each), leanBool(waits)))
	f.set("cleanupClients", map[string]interface{}{"registersAtConstruction": regs, "killsEach": each, "waitsAll": waits})
	f.lean = append(f.lean, fmt.Sprintf("def kill : Kill.Params := ⟨%d, %s, %s, %s, %s, %s, %s, %s, %s⟩",
		grace, leanBool(forceAfter), leanBool(deadline), leanBool(eofGraceful), leanBool(waits), leanBool(clearedLate), leanBool(keepAlive), leanBool(keptBefore), leanBool(stopNow)))
	f.set("kill", map[string]interface{}{"graceMs": grace, "forceAfterGrace": forceAfter, "shutdownRpcHasDeadline": deadline,
		"quitEofIsGraceful": eofGraceful, "waitsForGoroutines": waits, "runnerClearedAfterWait": clearedLate, "rpcKeepAlive": keepAlive, "runnerKeptBeforeStart": keptBefore, "grpcStopImmediate": stopNow})
}
