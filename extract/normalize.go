package main

// normalize.go — ONE behaviour-preserving normal form of the parsed source, computed
// once in load() (and in goSites), before any rule looks at the tree.  The rules stay
// syntactic and conservative; what changes is that they all see the same tree for
// programs that differ only by the refactorings below, instead of each rule having
// to anticipate them.
//
//  1. tagless switch = if/else chain.
//     `switch [init;] { case a, b: A  case c: C  default: D }`  becomes
//     `if [init;] a || b { A } else if c { C } else { D }`
//     provided no clause falls through and no unlabelled `break` targets the switch
//     (inside an `if` such a break would leave an enclosing loop).  The conditions
//     are evaluated in the same order, exactly one of the same bodies runs.
//
//  2. single-use helpers are analysed in place.
//     An UNEXPORTED function or method of the same package that is referenced exactly
//     once in the package's non-test files, that reference being a direct call, and
//     that no rule / instance policy names (see normAnchors), is not a unit of its
//     own: nobody else can run its body, so its body is part of its only caller.  The
//     call is replaced by the body, as the Go spec defines the call:
//
//       go X.m(a)  / defer X.m(a)   ->  go/defer func(p T) { body }(a)
//                                       (a function literal at the call site; the receiver is
//                                       captured when X is a variable that is never reassigned,
//                                       otherwise it is passed like an argument)
//       return X.m(a)               ->  body            (tail call: the body's returns ARE the caller's)
//       X.m(a)          (statement) ->  body            (no defer/return/recover in the body)
//                                   ->  func(p T) { body }(a)   (otherwise)
//       v := f(a) / v = f(a)        ->  body-without-its-final-return ; v := result
//                                       (the body has one return, its last statement, no defer)
//
//     Parameters whose argument is a plain variable are renamed to that variable (only if
//     the body never assigns them — or, for literals, always: a literal's parameter is a
//     copy anyway); other arguments are bound by `var p T = a` in front of the body.  When a
//     name of the helper would collide with a name of the caller the call is left alone
//     (statement position falls back to the function literal, which has its own scope).
//     Whatever is not recognised is left as it is: the rules then see the call and stay
//     conservative.  For the C18 go-site list and the C20 access table this means that
//     `go c.helper(x)` is the site / unit `Owner:func#k` / `Owner$go<k>` exactly as the
//     literal `go func(){…}()` is, and the rows of a tail-called helper are rows of its caller.
//
// Files that were changed are printed and parsed again, so that every position in the
// tree is consistent with the statement order the rules compare.

import (
	"bytes"
	"fmt"
	"go/ast"
	"go/parser"
	"go/printer"
	"go/token"
	"os"
	"path/filepath"
	"sort"
	"strconv"
	"strings"
)

// normAnchors: functions that rules (p.fn look-ups, name lists, the go-site table) or the
// instance policies (Instance/C20.lean: M_<Type>_<method>) mention BY NAME.  They stay units of
// their own even when they have a single call site.  Matching is on the bare name: a superset
// only means fewer in-place analyses.  (p.fn reports a look-up of a function that was analysed
// in place as a missing fact, so a forgotten entry cannot go unnoticed.)
var normAnchors = map[string]bool{}

func init() {
	for _, n := range strings.Fields(`
		copyChan copyStream dialGRPCConn generateCert newBlockedClientListener newDeleteFileListener
		newGRPCBroker newGRPCClient newGRPCStdioClient newGRPCStdioServer newRPCClient parseJSON
		protocolVersion serve serverListener serverListener_unix
		checkProtoVersion dialer getGRPCMuxer loadServerCert logStderr reattach
		getClientStream getServerStream knock listenForKnocks timeoutWait
		acceptSession session getStream done closeBroker trackListener killed
		newMuxBroker hostEnviron knockExpiry unblock copyChanStream pidWait newGRPCBrokerServer newGRPCBrokerClient newBlockedServerListener flattenKVPairs flattenKVPairs
	`) {
		normAnchors[n] = true
	}
}

// normalize brings every loaded file into the normal form described above.
func (p *pkgs) normalize() {
	byDir := map[string]map[string]*ast.File{}
	for k, f := range p.files {
		d := filepath.Dir(k)
		if byDir[d] == nil {
			byDir[d] = map[string]*ast.File{}
		}
		byDir[d][k] = f
	}
	var dirs []string
	for d := range byDir {
		dirs = append(dirs, d)
	}
	sort.Strings(dirs)
	for _, d := range dirs {
		inl, notes := normalizePackage(p.fset, byDir[d], func(k string) string { return filepath.Join(p.repo, k) })
		for k, f := range byDir[d] {
			p.files[k] = f
		}
		for _, k := range inl {
			p.inlined[k] = true
		}
		p.notes = append(p.notes, notes...)
	}
}

// normalizePackage normalises the files of ONE package in place (the map's values are replaced
// for files that changed).  It returns the keys ("Recv.name" / "name") of the functions that were
// analysed in place, and notes for facts.json.
func normalizePackage(fset *token.FileSet, files map[string]*ast.File, pathOf func(key string) string) (inlined, notes []string) {
	changed := map[string]bool{}
	var keys []string
	for k := range files {
		keys = append(keys, k)
	}
	sort.Strings(keys)
	for _, k := range keys {
		if n := switchesToIfs(files[k]); n > 0 {
			changed[k] = true
			notes = append(notes, fmt.Sprintf("%s: %d tagless switch(es) read as if/else", k, n))
		}
	}
	for iter := 0; iter < 500; iter++ {
		key, note := inlineOne(files, keys, changed)
		if key == "" {
			break
		}
		inlined = append(inlined, key)
		notes = append(notes, note)
	}
	for _, k := range keys {
		if !changed[k] {
			continue
		}
		nf, err := reprint(fset, files[k], pathOf(k))
		if err != nil {
			fmt.Fprintln(os.Stderr, "extract: normalize:", k, err)
			notes = append(notes, k+": NOT REPARSED: "+err.Error())
			continue
		}
		files[k] = nf
	}
	return inlined, notes
}

// reprint prints the (comment-free) file and parses the text again.
func reprint(fset *token.FileSet, f *ast.File, path string) (*ast.File, error) {
	f.Comments = nil
	f.Doc = nil
	ast.Inspect(f, func(n ast.Node) bool {
		switch x := n.(type) {
		case *ast.FuncDecl:
			x.Doc = nil
		case *ast.GenDecl:
			x.Doc = nil
		case *ast.Field:
			x.Doc, x.Comment = nil, nil
		case *ast.ValueSpec:
			x.Doc, x.Comment = nil, nil
		case *ast.TypeSpec:
			x.Doc, x.Comment = nil, nil
		case *ast.ImportSpec:
			x.Doc, x.Comment = nil, nil
		}
		return true
	})
	var buf bytes.Buffer
	if err := (&printer.Config{Mode: printer.UseSpaces | printer.TabIndent, Tabwidth: 8}).Fprint(&buf, token.NewFileSet(), f); err != nil {
		return nil, err
	}
	if dir := os.Getenv("EXTRACT_DUMP_NORMALIZED"); dir != "" {
		// for inspection: the text the rules actually read
		name := strings.ReplaceAll(strings.TrimPrefix(path, string(filepath.Separator)), string(filepath.Separator), "__")
		os.MkdirAll(dir, 0o755)
		os.WriteFile(filepath.Join(dir, name), buf.Bytes(), 0o644)
	}
	return parser.ParseFile(fset, path, buf.Bytes(), parser.ParseComments)
}

// ------------------------------------------------------------------ 1. switch -> if

// stmtLists calls fn on every statement list under n (blocks, case and comm clauses), outermost first;
// fn may replace the list, the walk continues into the replacement.
func stmtLists(n ast.Node, fn func(list []ast.Stmt) []ast.Stmt) {
	ast.Inspect(n, func(m ast.Node) bool {
		switch x := m.(type) {
		case *ast.BlockStmt:
			x.List = fn(x.List)
		case *ast.CaseClause:
			x.Body = fn(x.Body)
		case *ast.CommClause:
			x.Body = fn(x.Body)
		}
		return true
	})
}

func switchesToIfs(f *ast.File) int {
	n := 0
	stmtLists(f, func(list []ast.Stmt) []ast.Stmt {
		for i, s := range list {
			if sw, ok := s.(*ast.SwitchStmt); ok && sw.Tag == nil {
				if is := switchAsIf(sw); is != nil {
					list[i] = is
					n++
				}
			}
		}
		return list
	})
	return n
}

// breaksOut: does the statement list contain an unlabelled break that targets the enclosing switch?
func breaksOut(list []ast.Stmt) bool {
	found := false
	var visit func(n ast.Node) bool
	visit = func(n ast.Node) bool {
		switch x := n.(type) {
		case *ast.FuncLit, *ast.ForStmt, *ast.RangeStmt, *ast.SwitchStmt, *ast.TypeSwitchStmt, *ast.SelectStmt:
			return false
		case *ast.BranchStmt:
			if x.Tok == token.BREAK && x.Label == nil {
				found = true
			}
			if x.Tok == token.FALLTHROUGH {
				found = true
			}
		}
		return true
	}
	for _, s := range list {
		ast.Inspect(s, visit)
	}
	return found
}

func switchAsIf(sw *ast.SwitchStmt) ast.Stmt {
	var cases []*ast.CaseClause
	var def *ast.CaseClause
	for _, c := range sw.Body.List {
		cc, ok := c.(*ast.CaseClause)
		if !ok || breaksOut(cc.Body) {
			return nil
		}
		if cc.List == nil {
			if def != nil {
				return nil
			}
			def = cc
			continue
		}
		cases = append(cases, cc)
	}
	if len(cases) == 0 {
		return nil
	}
	var els ast.Stmt
	if def != nil {
		els = &ast.BlockStmt{List: def.Body}
	}
	for i := len(cases) - 1; i >= 0; i-- {
		cc := cases[i]
		var cond ast.Expr
		for _, e := range cc.List {
			if len(cc.List) > 1 {
				if _, isBin := e.(*ast.BinaryExpr); isBin {
					e = &ast.ParenExpr{X: e}
				}
			}
			if cond == nil {
				cond = e
			} else {
				cond = &ast.BinaryExpr{X: cond, Op: token.LOR, Y: e}
			}
		}
		is := &ast.IfStmt{Cond: cond, Body: &ast.BlockStmt{List: cc.Body}, Else: els}
		if i == 0 {
			is.Init = sw.Init
		}
		els = is
	}
	return els
}

// ------------------------------------------------------------------ 2. single-use helpers

type normDecl struct {
	file string
	fd   *ast.FuncDecl
}

func declKey(fd *ast.FuncDecl) string {
	if fd.Recv != nil {
		return recvTypeName(fd) + "." + fd.Name.Name
	}
	return fd.Name.Name
}

// callSite: where the single reference of a candidate sits.
type callSite struct {
	file  string
	call  *ast.CallExpr
	stmt  ast.Stmt    // the go / defer / expression / return / assignment statement that IS the call
	list  *[]ast.Stmt // the list holding stmt (nil if stmt is not directly in a list)
	setL  func([]ast.Stmt)
	idx   int
	outer *ast.FuncDecl // enclosing declaration
	inner ast.Node      // innermost enclosing function (FuncDecl or FuncLit)
}

// inlineOne performs one in-place analysis (the first candidate in file/declaration order); "" when there is none.
func inlineOne(files map[string]*ast.File, keys []string, changed map[string]bool) (string, string) {
	// ---- declarations and names of the package
	var decls []normDecl
	funcDecls, methDecls := map[string]int{}, map[string]int{}
	other := map[string]bool{} // interface methods, struct fields, type names: a selector .m may mean those
	types := map[string]bool{}
	refTypes := map[string]bool{} // types of the package whose values share what they refer to when copied
	for _, k := range keys {
		for _, d := range files[k].Decls {
			switch x := d.(type) {
			case *ast.FuncDecl:
				if x.Recv != nil {
					methDecls[x.Name.Name]++
				} else {
					funcDecls[x.Name.Name]++
				}
				if x.Body != nil {
					decls = append(decls, normDecl{k, x})
				}
			}
		}
		ast.Inspect(files[k], func(n ast.Node) bool {
			switch x := n.(type) {
			case *ast.TypeSpec:
				types[x.Name.Name] = true
				if !x.Assign.IsValid() && refLikeLiteral(x.Type) {
					refTypes[x.Name.Name] = true
				}
			case *ast.InterfaceType:
				for _, m := range x.Methods.List {
					for _, id := range m.Names {
						other[id.Name] = true
					}
				}
			case *ast.StructType:
				for _, fl := range x.Fields.List {
					for _, id := range fl.Names {
						other[id.Name] = true
					}
				}
			}
			return true
		})
	}
	for _, d := range decls {
		fd := d.fd
		name := fd.Name.Name
		if exportedName(name) || normAnchors[name] || name == "init" || name == "main" || name == "_" {
			continue
		}
		if fd.Type.TypeParams != nil {
			continue
		}
		isMethod := fd.Recv != nil
		if isMethod {
			if len(fd.Recv.List) != 1 || recvTypeName(fd) == "?" || methDecls[name] != 1 || other[name] || funcDecls[name] != 0 {
				continue
			}
		} else if funcDecls[name] != 1 || methDecls[name] != 0 || types[name] {
			continue
		}
		if hasVariadic(fd) {
			continue
		}
		site := findSingleCall(files, keys, fd, isMethod, types)
		if site == nil {
			continue
		}
		if note := inlineAt(files, d, site, types, refTypes); note != "" {
			// remove the declaration
			f := files[d.file]
			for i, dd := range f.Decls {
				if dd == ast.Decl(fd) {
					f.Decls = append(f.Decls[:i:i], f.Decls[i+1:]...)
					break
				}
			}
			changed[d.file], changed[site.file] = true, true
			return declKey(fd), fmt.Sprintf("%s analysed in place in %s: %s", declKey(fd), declKey(site.outer), note)
		}
	}
	return "", ""
}

func hasVariadic(fd *ast.FuncDecl) bool {
	if fd.Type.Params == nil {
		return false
	}
	for _, f := range fd.Type.Params.List {
		if _, ok := f.Type.(*ast.Ellipsis); ok {
			return true
		}
	}
	return false
}

// findSingleCall: the only reference to fd in the package, if it is a direct call in a supported position.
func findSingleCall(files map[string]*ast.File, keys []string, fd *ast.FuncDecl, isMethod bool, types map[string]bool) *callSite {
	name := fd.Name.Name
	refs := 0
	var site *callSite
	for _, k := range keys {
		var stack []ast.Node
		ast.Inspect(files[k], func(n ast.Node) bool {
			if n == nil {
				stack = stack[:len(stack)-1]
				return true
			}
			stack = append(stack, n)
			var ref ast.Expr
			switch x := n.(type) {
			case *ast.SelectorExpr:
				if x.Sel.Name == name {
					if isMethod {
						ref = x
					}
				}
			case *ast.Ident:
				if x.Name == name && x != fd.Name {
					if len(stack) >= 2 {
						if se, ok := stack[len(stack)-2].(*ast.SelectorExpr); ok && se.Sel == x {
							break // counted (or not) at the selector
						}
					}
					if isMethod {
						break // a plain identifier never denotes a method
					}
					ref = x
				}
			}
			if ref == nil {
				return true
			}
			refs++
			if refs > 1 {
				site = nil
				return true
			}
			// the reference must be the Fun of a call …
			if len(stack) < 3 {
				return true
			}
			call, ok := stack[len(stack)-2].(*ast.CallExpr)
			if !ok || call.Fun != ref || call.Ellipsis.IsValid() {
				return true
			}
			if se, ok := ref.(*ast.SelectorExpr); ok {
				// … on a value, not a method expression T.m / (*T).m
				if id, isId := se.X.(*ast.Ident); isId && types[id.Name] {
					return true
				}
				if pe, isP := se.X.(*ast.ParenExpr); isP {
					if _, isStar := pe.X.(*ast.StarExpr); isStar {
						return true
					}
				}
			}
			// … which is itself a statement (or the single operand of one)
			cs := &callSite{file: k, call: call}
			par := stack[len(stack)-3]
			switch st := par.(type) {
			case *ast.GoStmt:
				cs.stmt = st
			case *ast.DeferStmt:
				cs.stmt = st
			case *ast.ExprStmt:
				cs.stmt = st
			case *ast.ReturnStmt:
				if len(st.Results) == 1 {
					cs.stmt = st
				}
			case *ast.AssignStmt:
				if len(st.Rhs) == 1 {
					cs.stmt = st
				}
			}
			if cs.stmt == nil {
				return true
			}
			// the list holding the statement, and the enclosing functions
			if len(stack) >= 4 {
				switch h := stack[len(stack)-4].(type) {
				case *ast.BlockStmt:
					cs.list, cs.setL = &h.List, func(l []ast.Stmt) { h.List = l }
				case *ast.CaseClause:
					cs.list, cs.setL = &h.Body, func(l []ast.Stmt) { h.Body = l }
				case *ast.CommClause:
					if h.Comm != cs.stmt {
						cs.list, cs.setL = &h.Body, func(l []ast.Stmt) { h.Body = l }
					}
				}
			}
			if cs.list != nil {
				cs.idx = -1
				for i, s := range *cs.list {
					if s == cs.stmt {
						cs.idx = i
					}
				}
				if cs.idx < 0 {
					cs.list = nil
				}
			}
			for i := len(stack) - 1; i >= 0; i-- {
				switch fn := stack[i].(type) {
				case *ast.FuncLit:
					if cs.inner == nil {
						cs.inner = fn
					}
				case *ast.FuncDecl:
					if cs.inner == nil {
						cs.inner = fn
					}
					cs.outer = fn
				}
			}
			if cs.outer == nil || cs.outer == fd {
				return true // package-level initialiser, or recursion
			}
			site = cs
			return true
		})
	}
	if refs != 1 {
		return nil
	}
	return site
}

// ---- name helpers

// identsIn: every identifier name used under n that is not the selector of a selector expression.
func identsIn(n ast.Node) map[string]bool {
	out := map[string]bool{}
	if n == nil {
		return out
	}
	var stack []ast.Node
	ast.Inspect(n, func(m ast.Node) bool {
		if m == nil {
			stack = stack[:len(stack)-1]
			return true
		}
		stack = append(stack, m)
		if id, ok := m.(*ast.Ident); ok {
			if len(stack) >= 2 {
				if se, ok := stack[len(stack)-2].(*ast.SelectorExpr); ok && se.Sel == id {
					return true
				}
			}
			out[id.Name] = true
		}
		return true
	})
	return out
}

// writesTo: how often name is (re)assigned under n: each assignment / definition counts 1;
// ++/--, &name and range variables count 2 ("more than a single definition").
func writesTo(n ast.Node, name string) int {
	w := 0
	is := func(e ast.Expr) bool {
		id, ok := e.(*ast.Ident)
		return ok && id.Name == name
	}
	ast.Inspect(n, func(m ast.Node) bool {
		switch x := m.(type) {
		case *ast.AssignStmt:
			for _, l := range x.Lhs {
				if is(l) {
					w++
				}
			}
		case *ast.IncDecStmt:
			if is(x.X) {
				w += 2
			}
		case *ast.UnaryExpr:
			if x.Op == token.AND && is(x.X) {
				w += 2
			}
		case *ast.RangeStmt:
			if (x.Key != nil && is(x.Key)) || (x.Value != nil && is(x.Value)) {
				w += 2
			}
		case *ast.ValueSpec:
			for _, id := range x.Names {
				if id.Name == name {
					w++
				}
			}
		}
		return true
	})
	return w
}

func paramNamesOfType(ft *ast.FuncType, recv *ast.FieldList) map[string]bool {
	out := map[string]bool{}
	for _, fl := range []*ast.FieldList{recv, ft.Params, ft.Results} {
		if fl == nil {
			continue
		}
		for _, f := range fl.List {
			for _, id := range f.Names {
				out[id.Name] = true
			}
		}
	}
	return out
}

// stableVar: X is a variable of the enclosing declaration that holds one value for its whole life
// (a receiver / parameter that is never assigned, or a local with its single definition).
func stableVar(outer *ast.FuncDecl, name string) bool {
	if name == "_" {
		return false
	}
	w := writesTo(outer.Body, name)
	if paramNamesOfType(outer.Type, outer.Recv)[name] {
		return w == 0
	}
	return w == 1
}

// declaredType: the type the enclosing declaration gives the variable `name` in its own text (receiver,
// parameter — also of a literal inside it — or `var name T`), rendered; "" when it has none, more than one,
// or is (also) defined by `:=`.  Renaming a typed parameter of a helper to a caller variable must not
// lose the type the rules (the C20 walker) learn from the parameter list.
func declaredType(outer *ast.FuncDecl, name string) string {
	ts := map[string]bool{}
	fields := func(fl *ast.FieldList) {
		if fl == nil {
			return
		}
		for _, f := range fl.List {
			for _, id := range f.Names {
				if id.Name == name {
					ts[exprString(f.Type)] = true
				}
			}
		}
	}
	fields(outer.Recv)
	fields(outer.Type.Params)
	fields(outer.Type.Results)
	ast.Inspect(outer.Body, func(n ast.Node) bool {
		switch x := n.(type) {
		case *ast.FuncLit:
			fields(x.Type.Params)
			fields(x.Type.Results)
		case *ast.ValueSpec:
			for _, id := range x.Names {
				if id.Name == name {
					if x.Type != nil {
						ts[exprString(x.Type)] = true
					} else {
						ts["?"] = true
					}
				}
			}
		case *ast.AssignStmt:
			if x.Tok == token.DEFINE {
				for _, l := range x.Lhs {
					if id, ok := l.(*ast.Ident); ok && id.Name == name {
						ts["?:="] = true
					}
				}
			}
		case *ast.RangeStmt:
			if x.Tok == token.DEFINE {
				for _, l := range []ast.Expr{x.Key, x.Value} {
					if id, ok := l.(*ast.Ident); ok && id.Name == name {
						ts["?range"] = true
					}
				}
			}
		}
		return true
	})
	if len(ts) != 1 {
		return ""
	}
	for t := range ts {
		if strings.Contains(t, "?") {
			return ""
		}
		return t
	}
	return ""
}

// refLikeLiteral: a type literal whose values share their referent when copied (so that using the
// caller's variable instead of the parameter's copy makes no difference).
func refLikeLiteral(t ast.Expr) bool {
	switch x := t.(type) {
	case *ast.StarExpr, *ast.MapType, *ast.ChanType, *ast.FuncType, *ast.InterfaceType:
		return true
	case *ast.ArrayType:
		return x.Len == nil
	case *ast.ParenExpr:
		return refLikeLiteral(x.X)
	}
	return false
}

// usesThrough: does the body write a component of `name` (name.f = …, name[i] = …, name.f++), take the address
// of name or a component, or (withCalls) call a method on it?  For a parameter that is a COPY of the
// argument such uses act on the copy; after renaming they would act on the caller's variable.
func usesThrough(body ast.Node, name string, withCalls bool) bool {
	rooted := func(e ast.Expr) bool { // e = name.<something> / name[<i>] …, strictly longer than name
		n := 0
		for {
			switch x := e.(type) {
			case *ast.SelectorExpr:
				e, n = x.X, n+1
				continue
			case *ast.IndexExpr:
				e, n = x.X, n+1
				continue
			case *ast.ParenExpr:
				e = x.X
				continue
			case *ast.StarExpr:
				e = x.X
				continue
			case *ast.Ident:
				return x.Name == name && n > 0
			}
			return false
		}
	}
	found := false
	ast.Inspect(body, func(m ast.Node) bool {
		switch x := m.(type) {
		case *ast.AssignStmt:
			for _, l := range x.Lhs {
				if rooted(l) {
					found = true
				}
			}
		case *ast.IncDecStmt:
			if rooted(x.X) {
				found = true
			}
		case *ast.UnaryExpr:
			if x.Op == token.AND && rooted(x.X) {
				found = true
			}
		case *ast.CallExpr:
			if withCalls && rooted(x.Fun) {
				found = true
			}
		}
		return true
	})
	return found
}

// canRename: can every occurrence of `from` under n be renamed?  (not when it is used as the key of
// a composite literal — that may be a field name — or as a label)
func canRename(n ast.Node, from string) bool {
	ok := true
	ast.Inspect(n, func(m ast.Node) bool {
		switch x := m.(type) {
		case *ast.CompositeLit:
			for _, el := range x.Elts {
				if kv, isKV := el.(*ast.KeyValueExpr); isKV {
					if id, isId := kv.Key.(*ast.Ident); isId && id.Name == from {
						ok = false
					}
				}
			}
		case *ast.LabeledStmt:
			if x.Label.Name == from {
				ok = false
			}
		}
		return true
	})
	return ok
}

func renameIdent(n ast.Node, from, to string) {
	var stack []ast.Node
	ast.Inspect(n, func(m ast.Node) bool {
		if m == nil {
			stack = stack[:len(stack)-1]
			return true
		}
		stack = append(stack, m)
		if id, ok := m.(*ast.Ident); ok && id.Name == from {
			if len(stack) >= 2 {
				if se, ok := stack[len(stack)-2].(*ast.SelectorExpr); ok && se.Sel == id {
					return true
				}
			}
			id.Name = to
		}
		return true
	})
}

// declaredIn: every name a function declares anywhere in its text (receiver, parameters, results, := and var /
// const / type declarations, range and type-switch variables, parameters of literals inside it).
func declaredIn(recv *ast.FieldList, ft *ast.FuncType, body ast.Node) map[string]bool {
	out := map[string]bool{}
	fields := func(fl *ast.FieldList) {
		if fl == nil {
			return
		}
		for _, f := range fl.List {
			for _, id := range f.Names {
				out[id.Name] = true
			}
		}
	}
	lhs := func(es ...ast.Expr) {
		for _, e := range es {
			if id, ok := e.(*ast.Ident); ok {
				out[id.Name] = true
			}
		}
	}
	fields(recv)
	if ft != nil {
		fields(ft.Params)
		fields(ft.Results)
	}
	ast.Inspect(body, func(n ast.Node) bool {
		switch x := n.(type) {
		case *ast.FuncLit:
			fields(x.Type.Params)
			fields(x.Type.Results)
		case *ast.AssignStmt:
			if x.Tok == token.DEFINE {
				lhs(x.Lhs...)
			}
		case *ast.RangeStmt:
			if x.Tok == token.DEFINE {
				lhs(x.Key, x.Value)
			}
		case *ast.ValueSpec:
			for _, id := range x.Names {
				out[id.Name] = true
			}
		case *ast.TypeSpec:
			out[x.Name.Name] = true
		case *ast.LabeledStmt:
			out[x.Label.Name] = true
		}
		return true
	})
	return out
}

// topDeclared: names declared by the top-level statements of a body (they would land in the caller's scope).
func topDeclared(list []ast.Stmt) map[string]bool {
	out := map[string]bool{}
	for _, s := range list {
		switch x := s.(type) {
		case *ast.AssignStmt:
			if x.Tok == token.DEFINE {
				for _, l := range x.Lhs {
					if id, ok := l.(*ast.Ident); ok && id.Name != "_" {
						out[id.Name] = true
					}
				}
			}
		case *ast.DeclStmt:
			if gd, ok := x.Decl.(*ast.GenDecl); ok {
				for _, sp := range gd.Specs {
					switch v := sp.(type) {
					case *ast.ValueSpec:
						for _, id := range v.Names {
							out[id.Name] = true
						}
					case *ast.TypeSpec:
						out[v.Name.Name] = true
					}
				}
			}
		case *ast.LabeledStmt:
			out[x.Label.Name] = true
		}
	}
	return out
}

// bodyShape: defers, returns (outside literals), recover, labels of a body.
type bodyShape struct {
	defers, returns int
	recovers        bool
	labels          bool
	lastIsReturn    bool
}

func shapeOf(body *ast.BlockStmt) bodyShape {
	var sh bodyShape
	ast.Inspect(body, func(n ast.Node) bool {
		switch x := n.(type) {
		case *ast.FuncLit:
			// a recover inside a deferred literal still refers to the frame the defer belongs to
			ast.Inspect(x, func(m ast.Node) bool {
				if id, ok := m.(*ast.Ident); ok && id.Name == "recover" {
					sh.recovers = true
				}
				return true
			})
			return false
		case *ast.DeferStmt:
			sh.defers++
		case *ast.ReturnStmt:
			sh.returns++
		case *ast.LabeledStmt:
			sh.labels = true
		case *ast.BranchStmt:
			if x.Tok == token.GOTO {
				sh.labels = true
			}
		case *ast.Ident:
			if x.Name == "recover" {
				sh.recovers = true
			}
		}
		return true
	})
	if n := len(body.List); n > 0 {
		_, sh.lastIsReturn = body.List[n-1].(*ast.ReturnStmt)
	}
	return sh
}

func fieldCount(fl *ast.FieldList) int {
	if fl == nil {
		return 0
	}
	n := 0
	for _, f := range fl.List {
		if len(f.Names) == 0 {
			n++
		} else {
			n += len(f.Names)
		}
	}
	return n
}

func namedResults(fl *ast.FieldList) bool {
	if fl == nil {
		return false
	}
	for _, f := range fl.List {
		if len(f.Names) > 0 {
			return true
		}
	}
	return false
}

// importsOf: local package name -> import path.
func importsOf(f *ast.File) map[string]string {
	out := map[string]string{}
	for _, im := range f.Imports {
		path, err := strconv.Unquote(im.Path.Value)
		if err != nil {
			continue
		}
		name := ""
		if im.Name != nil {
			name = im.Name.Name
		} else {
			parts := strings.Split(path, "/")
			name = parts[len(parts)-1]
			if len(parts) > 1 && len(name) >= 2 && name[0] == 'v' && strings.Trim(name[1:], "0123456789") == "" {
				name = parts[len(parts)-2]
			}
			name = strings.TrimPrefix(name, "go-")
		}
		out[name] = path
	}
	return out
}

// importsCompatible: every package name the body uses means the same package in the destination file
// (missing imports are added to the destination).
func importsCompatible(src, dst *ast.File, body ast.Node) bool {
	if src == dst {
		return true
	}
	si, di := importsOf(src), importsOf(dst)
	used := map[string]bool{}
	ast.Inspect(body, func(n ast.Node) bool {
		if se, ok := n.(*ast.SelectorExpr); ok {
			if id, ok := se.X.(*ast.Ident); ok && id.Obj == nil {
				if _, isPkg := si[id.Name]; isPkg {
					used[id.Name] = true
				}
			}
		}
		return true
	})
	var add []string
	for name := range used {
		if dp, ok := di[name]; ok {
			if dp != si[name] {
				return false
			}
			continue
		}
		add = append(add, name)
	}
	sort.Strings(add)
	for _, name := range add {
		for _, im := range src.Imports {
			path, _ := strconv.Unquote(im.Path.Value)
			if path != si[name] {
				continue
			}
			spec := &ast.ImportSpec{Path: &ast.BasicLit{Kind: token.STRING, Value: im.Path.Value}}
			if im.Name != nil {
				spec.Name = ast.NewIdent(im.Name.Name)
			}
			dst.Imports = append(dst.Imports, spec)
			placed := false
			for _, d := range dst.Decls {
				if gd, ok := d.(*ast.GenDecl); ok && gd.Tok == token.IMPORT {
					gd.Specs = append(gd.Specs, spec)
					if !gd.Lparen.IsValid() {
						gd.Lparen, gd.Rparen = gd.Pos(), gd.End()
					}
					placed = true
					break
				}
			}
			if !placed {
				dst.Decls = append([]ast.Decl{&ast.GenDecl{Tok: token.IMPORT, Specs: []ast.Spec{spec}}}, dst.Decls...)
			}
			break
		}
	}
	return true
}

// ---- the transformation

type binding struct {
	name string   // parameter (or receiver) name in the body; "" / "_" = unnamed
	typ  ast.Expr // its declared type
	arg  ast.Expr // the argument at the call
}

func bindingsOf(fd *ast.FuncDecl, call *ast.CallExpr) (recv *binding, params []binding, ok bool) {
	if fd.Recv != nil {
		se, isSel := call.Fun.(*ast.SelectorExpr)
		if !isSel {
			return nil, nil, false
		}
		b := &binding{typ: fd.Recv.List[0].Type, arg: se.X}
		if len(fd.Recv.List[0].Names) == 1 {
			b.name = fd.Recv.List[0].Names[0].Name
		}
		recv = b
	}
	if fd.Type.Params != nil {
		for _, f := range fd.Type.Params.List {
			if len(f.Names) == 0 {
				params = append(params, binding{typ: f.Type})
				continue
			}
			for _, id := range f.Names {
				params = append(params, binding{name: id.Name, typ: f.Type})
			}
		}
	}
	if len(params) != len(call.Args) {
		return nil, nil, false
	}
	for i := range params {
		params[i].arg = call.Args[i]
	}
	return recv, params, true
}

func isPointerType(t ast.Expr) bool {
	if p, ok := t.(*ast.ParenExpr); ok {
		return isPointerType(p.X)
	}
	_, ok := t.(*ast.StarExpr)
	return ok
}

func bareIdent(e ast.Expr) string {
	if id, ok := e.(*ast.Ident); ok && id.Name != "_" && id.Name != "nil" && id.Name != "true" && id.Name != "false" && id.Name != "iota" {
		return id.Name
	}
	return ""
}

func inlineAt(files map[string]*ast.File, d normDecl, site *callSite, types, refTypes map[string]bool) string {
	fd := d.fd
	recv, params, ok := bindingsOf(fd, site.call)
	if !ok {
		return ""
	}
	if !importsCompatible(files[d.file], files[site.file], fd.Body) {
		return ""
	}
	sh := shapeOf(fd.Body)
	callerNames := identsIn(site.outer)
	bodyNames := identsIn(fd.Body)
	// hygiene: a name the helper takes from the package level (a function, variable, type, imported package —
	// also in its parameter types) must not be a local name of the caller, where it would mean something else
	{
		own := declaredIn(fd.Recv, fd.Type, fd.Body)
		callerLocals := declaredIn(site.outer.Recv, site.outer.Type, site.outer.Body)
		free := map[string]bool{}
		for n := range bodyNames {
			free[n] = true
		}
		for n := range identsIn(fd.Type) {
			free[n] = true
		}
		if fd.Recv != nil {
			for n := range identsIn(fd.Recv.List[0].Type) {
				free[n] = true
			}
		}
		for n := range free {
			if !own[n] && callerLocals[n] && n != "_" {
				return ""
			}
		}
	}

	var all []*binding
	if recv != nil {
		all = append(all, recv)
	}
	for i := range params {
		all = append(all, &params[i])
	}
	// aliasSafe: the body behaves the same on the caller's variable as on the parameter's copy of it.
	// Reference-like types always; another package's type (taken to be an interface, or a value used
	// read-only through its methods) unless a component is written or its address taken; a struct /
	// array / unknown type of this package only if the body neither writes through it nor calls methods on it.
	aliasSafe := func(b *binding) bool {
		t := b.typ
		for {
			if p, ok := t.(*ast.ParenExpr); ok {
				t = p.X
				continue
			}
			break
		}
		if refLikeLiteral(t) {
			return true
		}
		switch x := t.(type) {
		case *ast.Ident:
			if refTypes[x.Name] || !types[x.Name] {
				return refTypes[x.Name] || !usesThrough(fd.Body, b.name, false) // builtin types have no components
			}
			return !usesThrough(fd.Body, b.name, true)
		case *ast.SelectorExpr:
			return !usesThrough(fd.Body, b.name, false)
		}
		return !usesThrough(fd.Body, b.name, true)
	}
	// the name the parameter b gets when it is renamed to its argument variable ("" = it keeps its name)
	// needType: the variable takes the parameter's place without a declaration of its own in the literal / body,
	// so — if the type is one declared in this package — the caller must declare it with the same type
	renameTarget := func(b *binding, needUnassigned, needType bool) string {
		a := bareIdent(b.arg)
		if a == "" || b.name == "" || b.name == "_" {
			return ""
		}
		if tn, _ := typeName(b.typ); needType && types[tn] && declaredType(site.outer, a) != exprString(b.typ) {
			return "" // a type of this package: the rules can see into it, the declaration must not get lost
		}
		if a == b.name {
			return a
		}
		if bodyNames[a] || !canRename(fd.Body, b.name) {
			return ""
		}
		for _, o := range all {
			if o != b && o.name == a {
				return ""
			}
		}
		if needUnassigned && (writesTo(fd.Body, b.name) > 0 || !aliasSafe(b)) {
			return ""
		}
		return a
	}
	// two parameters are never renamed to the same variable
	distinctTargets := func(bs []*binding, needUnassigned, needType bool) bool {
		seen := map[string]bool{}
		for _, b := range bs {
			if t := renameTarget(b, needUnassigned, needType); t != "" && t != b.name {
				if seen[t] {
					return false
				}
				seen[t] = true
			}
		}
		return true
	}

	// ---------- function-literal form: go / defer, and statement calls whose body defers / returns
	literal := func() *ast.FuncLit {
		if !distinctTargets(all, false, false) {
			return nil
		}
		ft := &ast.FuncType{Params: &ast.FieldList{}, Results: fd.Type.Results}
		var args []ast.Expr
		addParam := func(name string, typ, arg ast.Expr) {
			if name == "" {
				name = "_"
			}
			ft.Params.List = append(ft.Params.List, &ast.Field{Names: []*ast.Ident{ast.NewIdent(name)}, Type: typ})
			args = append(args, arg)
		}
		type ren struct{ from, to string }
		var rens []ren
		if recv != nil {
			a := bareIdent(recv.arg)
			switch {
			case a != "" && isPointerType(recv.typ) && stableVar(site.outer, a) && (recv.name == "" || recv.name == "_" || renameTarget(recv, false, true) != ""):
				// captured, like a literal written at the call site captures it (a pointer that never changes:
				// the literal sees the same object whenever it runs; a value receiver is a copy made at the
				// go / defer statement and stays a parameter)
				if recv.name != "" && recv.name != "_" && recv.name != a {
					rens = append(rens, ren{recv.name, a})
				}
			default:
				name := recv.name
				if t := renameTarget(recv, false, false); t != "" {
					if name != t {
						rens = append(rens, ren{name, t})
					}
					name = t
				}
				addParam(name, recv.typ, recv.arg)
			}
		}
		for i := range params {
			b := &params[i]
			name := b.name
			if t := renameTarget(b, false, false); t != "" {
				if name != t {
					rens = append(rens, ren{name, t})
				}
				name = t
			}
			addParam(name, b.typ, b.arg)
		}
		for _, r := range rens {
			renameIdent(fd.Body, r.from, r.to)
		}
		site.call.Args = args
		return &ast.FuncLit{Type: ft, Body: fd.Body}
	}

	switch st := site.stmt.(type) {
	case *ast.GoStmt, *ast.DeferStmt:
		fl := literal()
		if fl == nil {
			return ""
		}
		site.call.Fun = fl
		if _, isGo := st.(*ast.GoStmt); isGo {
			return "go statement, as a function literal"
		}
		return "defer statement, as a function literal"
	}

	// ---------- spliced forms
	if site.list == nil {
		return ""
	}
	// argument bindings: rename to the argument variable, or `var p T = arg` in front
	prepare := func() (pre []ast.Stmt, rens [][2]string, ok bool) {
		if !distinctTargets(all, true, true) {
			return nil, nil, false
		}
		for _, b := range all {
			if t := renameTarget(b, true, true); t != "" {
				if t != b.name {
					rens = append(rens, [2]string{b.name, t})
				}
				continue
			}
			if b.name == "" || b.name == "_" {
				if bareIdent(b.arg) != "" {
					continue
				}
				if _, isLit := b.arg.(*ast.BasicLit); isLit {
					continue
				}
				pre = append(pre, &ast.AssignStmt{Lhs: []ast.Expr{ast.NewIdent("_")}, Tok: token.ASSIGN, Rhs: []ast.Expr{b.arg}})
				continue
			}
			if callerNames[b.name] {
				return nil, nil, false
			}
			pre = append(pre, &ast.DeclStmt{Decl: &ast.GenDecl{Tok: token.VAR, Specs: []ast.Spec{
				&ast.ValueSpec{Names: []*ast.Ident{ast.NewIdent(b.name)}, Type: b.typ, Values: []ast.Expr{b.arg}}}}})
		}
		return pre, rens, true
	}
	splice := func(repl []ast.Stmt) {
		old := *site.list
		nl := make([]ast.Stmt, 0, len(old)+len(repl))
		nl = append(nl, old[:site.idx]...)
		nl = append(nl, repl...)
		nl = append(nl, old[site.idx+1:]...)
		site.setL(nl)
	}
	collides := func(except string) bool {
		for n := range topDeclared(fd.Body.List) {
			if n != except && callerNames[n] {
				return true
			}
		}
		return false
	}

	switch st := site.stmt.(type) {
	case *ast.ReturnStmt:
		// tail call: the results of the body are the results of the caller
		var innerType *ast.FuncType
		switch fn := site.inner.(type) {
		case *ast.FuncDecl:
			innerType = fn.Type
		case *ast.FuncLit:
			innerType = fn.Type
		}
		if innerType == nil || sh.recovers || sh.labels || namedResults(fd.Type.Results) || namedResults(innerType.Results) ||
			fieldCount(fd.Type.Results) == 0 || fieldCount(fd.Type.Results) != fieldCount(innerType.Results) {
			return ""
		}
		pre, rens, ok := prepare()
		if !ok {
			return ""
		}
		for _, r := range rens {
			renameIdent(fd.Body, r[0], r[1])
		}
		if collides("") {
			// a name the body declares at its top level is also a name of the caller: keep the body's own scope
			splice(append(pre, &ast.BlockStmt{List: fd.Body.List}))
			return "tail call (`return f(…)`), body in place as a block (name clash)"
		}
		splice(append(pre, fd.Body.List...))
		return "tail call (`return f(…)`), body in place"

	case *ast.ExprStmt:
		trailingBare := false
		if sh.returns == 1 && sh.lastIsReturn {
			if r := fd.Body.List[len(fd.Body.List)-1].(*ast.ReturnStmt); len(r.Results) == 0 {
				trailingBare = true
			}
		}
		if sh.defers == 0 && (sh.returns == 0 || trailingBare) && !sh.recovers && !sh.labels {
			if pre, rens, ok := prepare(); ok {
				for _, r := range rens {
					renameIdent(fd.Body, r[0], r[1])
				}
				body := fd.Body.List
				if trailingBare {
					body = body[:len(body)-1]
				}
				if collides("") {
					splice(append(pre, &ast.BlockStmt{List: body}))
					return "statement call, body in place as a block (name clash)"
				}
				splice(append(pre, body...))
				return "statement call, body in place"
			}
		}
		fl := literal()
		if fl == nil {
			return ""
		}
		site.call.Fun = fl
		return "statement call, as an immediately invoked function literal"

	case *ast.AssignStmt:
		n := len(fd.Body.List)
		if sh.defers != 0 || sh.returns != 1 || !sh.lastIsReturn || sh.recovers || sh.labels || namedResults(fd.Type.Results) {
			return ""
		}
		ret := fd.Body.List[n-1].(*ast.ReturnStmt)
		if len(ret.Results) != len(st.Lhs) || len(ret.Results) == 0 {
			return ""
		}
		// `v := f()` where f returns its own local r: r IS v
		resultLocal := ""
		if len(st.Lhs) == 1 && st.Tok == token.DEFINE {
			v, r := bareIdent(st.Lhs[0]), bareIdent(ret.Results[0])
			if v != "" && r != "" && topDeclared(fd.Body.List[:n-1])[r] && !paramNamesOfType(fd.Type, fd.Recv)[r] &&
				(v == r || (!bodyNames[v] && canRename(fd.Body, r))) {
				resultLocal = r
			}
		}
		if collides(resultLocal) {
			return ""
		}
		pre, rens, ok := prepare()
		if !ok {
			return ""
		}
		for _, r := range rens {
			renameIdent(fd.Body, r[0], r[1])
		}
		body := append(pre, fd.Body.List[:n-1]...)
		if resultLocal != "" {
			if v := bareIdent(st.Lhs[0]); v != resultLocal {
				renameIdent(fd.Body, resultLocal, v)
			}
		} else {
			body = append(body, &ast.AssignStmt{Lhs: st.Lhs, Tok: st.Tok, Rhs: ret.Results})
		}
		splice(body)
		return "assignment from a call, body in place"
	}
	return ""
}
