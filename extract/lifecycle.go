package main

import (
	"fmt"
	"go/ast"
	"go/token"
	"strings"
)

func init() {
	registerExtractor("lifecycle", []string{"GoPlugin.Model.Lifecycle"}, extractLifecycle)
}

// returnsErr: block ends in a return whose last result is not the identifier nil.
func blockReturnsNonNilErr(b *ast.BlockStmt) bool {
	if b == nil || len(b.List) == 0 {
		return false
	}
	r, ok := b.List[len(b.List)-1].(*ast.ReturnStmt)
	if !ok || len(r.Results) == 0 {
		return false
	}
	if id, ok := r.Results[len(r.Results)-1].(*ast.Ident); ok && id.Name == "nil" {
		return false
	}
	return true
}

// firstCallStmt: index of the first top-level statement of fn containing a call rendered with `needle`.
func firstStmtWith(list []ast.Stmt, needle string) int {
	for i, s := range list {
		if strings.Contains(nodeCalls(s), needle) {
			return i
		}
	}
	return -1
}

func extractLifecycle(p *pkgs, f *facts) {
	retryGuard, addrSC, clientCached, killRemovesDir, testNoRunner := false, false, false, false, false
	if start := p.fn("Client", "Start"); start != nil {
		list := start.Body.List
		launch := firstStmtWith(list, "RunnerFunc(")
		if l2 := firstStmtWith(list, "NewCmdRunner("); l2 >= 0 && (launch < 0 || l2 < launch) {
			launch = l2
		}
		// address short circuit: `if c.address != nil { return c.address, nil }` before any other statement but Lock/defer Unlock
		for i, s := range list {
			if is, ok := s.(*ast.IfStmt); ok && exprString(is.Cond) == "c.address!=nil" && len(is.Body.List) == 1 {
				if r, ok := is.Body.List[0].(*ast.ReturnStmt); ok && len(r.Results) == 2 && exprString(r.Results[0]) == "c.address" && exprString(r.Results[1]) == "nil" {
					addrSC = i <= 2
				}
				break
			}
			if _, ok := s.(*ast.ExprStmt); ok {
				continue
			}
			if _, ok := s.(*ast.DeferStmt); ok {
				continue
			}
			break
		}
		// retry guard: a bool field X with `if c.X { return …, err }` before the launch and `c.X = true` before the launch
		guards := map[string]int{}
		sets := map[string]int{}
		for i, s := range list {
			if launch >= 0 && i >= launch {
				break
			}
			if is, ok := s.(*ast.IfStmt); ok && is.Init == nil {
				c := exprString(is.Cond)
				if strings.HasPrefix(c, "c.") && !strings.ContainsAny(c[2:], ".!=<>&|( ") && blockReturnsNonNilErr(is.Body) {
					guards[c] = i
				}
			}
			if as, ok := s.(*ast.AssignStmt); ok && as.Tok == token.ASSIGN && len(as.Lhs) == 1 && len(as.Rhs) == 1 && exprString(as.Rhs[0]) == "true" {
				sets[exprString(as.Lhs[0])] = i
			}
		}
		for x, gi := range guards {
			if si, ok := sets[x]; ok && gi < si {
				retryGuard = true
			}
		}
	} else {
		f.miss = append(f.miss, "Client.Start(lifecycle)")
	}
	if cl := p.fn("Client", "Client"); cl != nil {
		sw := -1
		for i, s := range cl.Body.List {
			if _, ok := s.(*ast.SwitchStmt); ok && sw < 0 {
				sw = i
			}
		}
		for i, s := range cl.Body.List {
			if is, ok := s.(*ast.IfStmt); ok && exprString(is.Cond) == "c.client!=nil" && len(is.Body.List) == 1 && (sw < 0 || i < sw) {
				if r, ok := is.Body.List[0].(*ast.ReturnStmt); ok && len(r.Results) == 2 && exprString(r.Results[0]) == "c.client" && exprString(r.Results[1]) == "nil" {
					clientCached = true
				}
			}
		}
	} else {
		f.miss = append(f.miss, "Client.Client")
	}
	if kill := p.fn("Client", "Kill"); kill != nil {
		// hostSocketDir := c.unixSocketCfg.socketDir …; defer func(){ … os.RemoveAll(hostSocketDir) … }()
		snap := ""
		ast.Inspect(kill.Body, func(n ast.Node) bool {
			if as, ok := n.(*ast.AssignStmt); ok && len(as.Lhs) == 1 && len(as.Rhs) == 1 && exprString(as.Rhs[0]) == "c.unixSocketCfg.socketDir" {
				snap = exprString(as.Lhs[0])
			}
			return true
		})
		for _, s := range kill.Body.List {
			if d, ok := s.(*ast.DeferStmt); ok {
				calls := nodeCalls(d)
				if snap != "" && strings.Contains(calls, "os.RemoveAll("+snap+")") {
					killRemovesDir = true
				}
			}
		}
	} else {
		f.miss = append(f.miss, "Client.Kill")
	}
	if re := p.fn("Client", "reattach"); re != nil {
		// `c.runner = r` occurs only in the else branch of `if c.config.Reattach.Test`
		inElse, elsewhere := false, false
		var walk func(n ast.Node, ctx string)
		walk = func(n ast.Node, ctx string) {
			switch x := n.(type) {
			case nil:
			case *ast.IfStmt:
				c := exprString(x.Cond)
				if c == "c.config.Reattach.Test" {
					walk(x.Body, "then")
					if x.Else != nil {
						walk(x.Else, "else")
					}
					return
				}
				if c == "!c.config.Reattach.Test" {
					walk(x.Body, "else")
					if x.Else != nil {
						walk(x.Else, "then")
					}
					return
				}
				walk(x.Body, ctx)
				if x.Else != nil {
					walk(x.Else, ctx)
				}
			case *ast.BlockStmt:
				for _, s := range x.List {
					walk(s, ctx)
				}
			case *ast.AssignStmt:
				if len(x.Lhs) == 1 && exprString(x.Lhs[0]) == "c.runner" {
					if ctx == "else" {
						inElse = true
					} else {
						elsewhere = true
					}
				}
			}
		}
		walk(re.Body, "")
		testNoRunner = inElse && !elsewhere
	} else {
		f.miss = append(f.miss, "Client.reattach")
	}
	keepsTest, keepsWhy := reattachConfigKeepsTest(p)
	// Start: `c.l.Lock()` is its first statement, `defer c.l.Unlock()` its second, and c.l is not touched again
	// anywhere in its body (deferred function literals included; goroutines it starts are other threads)
	startAtomic := false
	if st := p.fn("Client", "Start"); st != nil && len(st.Body.List) >= 2 {
		first, ok1 := st.Body.List[0].(*ast.ExprStmt)
		second, ok2 := st.Body.List[1].(*ast.DeferStmt)
		if ok1 && ok2 && exprString(first.X) == "c.l.Lock()" && exprString(second.Call) == "c.l.Unlock()" {
			n := 0
			ast.Inspect(st.Body, func(m ast.Node) bool {
				if _, isGo := m.(*ast.GoStmt); isGo {
					return false // other goroutines started by Start take the lock for themselves
				}
				if ce, ok := m.(*ast.CallExpr); ok {
					if r := exprString(ce); strings.HasPrefix(r, "c.l.") {
						n++
					}
				}
				return true
			})
			startAtomic = n == 2
		}
	}
	f.lean = append(f.lean, fmt.Sprintf("def lifecycle : Lifecycle.Params := ⟨%s, %s, %s, %s, %s, %s, %s⟩",
		leanBool(retryGuard), leanBool(addrSC), leanBool(clientCached), leanBool(killRemovesDir), leanBool(testNoRunner), leanBool(keepsTest), leanBool(startAtomic)))
	f.set("lifecycle", map[string]interface{}{"retryGuard": retryGuard, "addrShortCircuit": addrSC, "clientCached": clientCached,
		"killRemovesDir": killRemovesDir, "startAtomic": startAtomic, "testModeNoRunner": testNoRunner, "reattachConfigKeepsTest": keepsTest, "reattachConfigKeepsTestWhy": keepsWhy})
}

// reattachConfigKeepsTest: Client.ReattachConfig of a client that was itself created by
// reattaching hands back the configuration it was given (hence its Test flag).
//
// Accepted shapes (anything else = false).  Among the TOP-LEVEL statements of ReattachConfig,
// before any statement that mentions a ReattachConfig composite literal, there is
// `if <recv>.config.Reattach != nil { … }` (no init, no else) whose body is
//
//	(a) the single statement `return <recv>.config.Reattach`, or
//	(b) `X := *<recv>.config.Reattach` followed only by assignments to fields of X other than
//	    Test, and `return &X`;
//
// and every top-level statement before it is a Lock call, a defer, or an `if` whose body is the
// single statement `return nil`.
func reattachConfigKeepsTest(p *pkgs) (bool, string) {
	fn := p.fn("Client", "ReattachConfig")
	if fn == nil || recvName(fn) == "" {
		return false, "Client.ReattachConfig not found"
	}
	cfg := recvName(fn) + ".config.Reattach"
	mentionsLit := func(n ast.Node) bool {
		found := false
		ast.Inspect(n, func(m ast.Node) bool {
			if cl, ok := m.(*ast.CompositeLit); ok && cl.Type != nil && exprString(cl.Type) == "ReattachConfig" {
				found = true
			}
			return true
		})
		return found
	}
	for _, s := range fn.Body.List {
		if mentionsLit(s) {
			return false, "a ReattachConfig literal is built before (or instead of) returning " + cfg
		}
		switch x := s.(type) {
		case *ast.ExprStmt, *ast.DeferStmt:
			continue
		case *ast.IfStmt:
			if x.Init != nil || x.Else != nil {
				return false, "unrecognised conditional before the reattach branch"
			}
			c := exprString(x.Cond)
			if c == cfg+"!=nil" || c == "nil!="+cfg {
				body := x.Body.List
				if len(body) == 1 {
					if r, ok := body[0].(*ast.ReturnStmt); ok && len(r.Results) == 1 && exprString(r.Results[0]) == cfg {
						return true, "returns " + cfg + " as-is"
					}
				}
				if len(body) >= 2 {
					as, ok := body[0].(*ast.AssignStmt)
					r, ok2 := body[len(body)-1].(*ast.ReturnStmt)
					if ok && ok2 && as.Tok == token.DEFINE && len(as.Lhs) == 1 && len(as.Rhs) == 1 && exprString(as.Rhs[0]) == "*"+cfg &&
						len(r.Results) == 1 && exprString(r.Results[0]) == "&"+exprString(as.Lhs[0]) {
						v := exprString(as.Lhs[0])
						good := true
						for _, m := range body[1 : len(body)-1] {
							a2, ok := m.(*ast.AssignStmt)
							if !ok || a2.Tok != token.ASSIGN || len(a2.Lhs) != 1 {
								good = false
								break
							}
							l := exprString(a2.Lhs[0])
							if !strings.HasPrefix(l, v+".") || l == v+".Test" {
								good = false
							}
						}
						if good {
							return true, "returns a copy of *" + cfg
						}
					}
				}
				return false, "the reattach branch does not return the given configuration"
			}
			if len(x.Body.List) == 1 {
				if r, ok := x.Body.List[0].(*ast.ReturnStmt); ok && len(r.Results) == 1 && exprString(r.Results[0]) == "nil" {
					continue
				}
			}
			return false, "unrecognised conditional before the reattach branch"
		default:
			return false, "unrecognised statement before the reattach branch"
		}
	}
	return false, "no `if " + cfg + " != nil` branch"
}

func init() {
	registerExtractor("rpcserver", []string{"GoPlugin.Model.Lifecycle"}, extractRPCServerDone)
}

// extractRPCServerDone: every call `<x>.done()` (the method that closes RPCServer.DoneCh) sits in controlServer.Quit
// or is Serve's own deferred call for a failed listener — never in per-connection code.
func extractRPCServerDone(p *pkgs, f *facts) {
	callers := map[string]int{}
	for _, file := range p.files {
		for _, d := range file.Decls {
			fd, ok := d.(*ast.FuncDecl)
			if !ok || fd.Body == nil {
				continue
			}
			name := fd.Name.Name
			if r := recvTypeName(fd); r != "" {
				name = r + "." + name
			}
			ast.Inspect(fd.Body, func(n ast.Node) bool {
				if ce, ok := n.(*ast.CallExpr); ok && len(ce.Args) == 0 {
					if se, ok := ce.Fun.(*ast.SelectorExpr); ok && se.Sel.Name == "done" {
						callers[name]++
					}
				}
				return true
			})
		}
	}
	// allowed: Control.Quit, and Serve's own `defer s.done()` (the listener failed: nothing can connect any more)
	only := callers["controlServer.Quit"] >= 1
	for k := range callers {
		if k != "controlServer.Quit" && k != "RPCServer.Serve" {
			only = false
		}
	}
	if p.fn("RPCServer", "done") == nil {
		f.miss = append(f.miss, "RPCServer.done")
		only = false
	}
	// cmdrunner.ReattachFunc: net.Dial(addr.Network(), addr.String()) is called, its error leads to ErrProcessNotFound, and
	// nothing in the function looks at the file system (os.Stat / os.Lstat / os.Open)
	probe := false
	if rf := p.fn("", "ReattachFunc"); rf != nil {
		cs := nodeCalls(rf.Body)
		dial := strings.Contains(cs, "net.Dial(addr.Network(),addr.String())")
		fsLook := strings.Contains(cs, "os.Stat(") || strings.Contains(cs, "os.Lstat(") || strings.Contains(cs, "os.Open(") || strings.Contains(cs, "os.ReadDir(")
		probe = dial && !fsLook
	} else {
		f.miss = append(f.miss, "cmdrunner.ReattachFunc")
	}
	// CmdAttachedRunner.Wait returns pidWait(<recv>.pid) and nothing else; pidWait is `ticker := time.NewTicker(<const>)` +
	// `for range ticker.C { if !pidAlive(pid) { break } }` (no Sleep, no interval variable that changes)
	waitPolls := false
	var pollMs int64
	if w := p.fn("CmdAttachedRunner", "Wait"); w != nil && len(w.Body.List) == 1 {
		if rs, ok := w.Body.List[0].(*ast.ReturnStmt); ok && len(rs.Results) == 1 && strings.HasPrefix(exprString(rs.Results[0]), "pidWait(") {
			waitPolls = true
		}
	}
	if pw := p.fn("", "pidWait"); pw != nil {
		cs := nodeCalls(pw.Body)
		ok := !strings.Contains(cs, "time.Sleep(") && !strings.Contains(cs, "time.After(")
		nAssign := 0
		ast.Inspect(pw.Body, func(n ast.Node) bool {
			switch v := n.(type) {
			case *ast.AssignStmt:
				if v.Tok != token.DEFINE {
					nAssign++
				}
			case *ast.IncDecStmt:
				nAssign++
			case *ast.CallExpr:
				if exprString(v.Fun) == "time.NewTicker" && len(v.Args) == 1 {
					if ms, good := p.evalInt(v.Args[0]); good {
						pollMs = ms
					}
				}
			}
			return true
		})
		hasRange := false
		for _, st := range pw.Body.List {
			if rs, isR := st.(*ast.RangeStmt); isR && strings.HasSuffix(exprString(rs.X), ".C") {
				hasRange = true
			}
		}
		if !ok || nAssign != 0 || !hasRange {
			pollMs = 0
		}
	} else {
		f.miss = append(f.miss, "cmdrunner.pidWait")
	}
	f.lean = append(f.lean, fmt.Sprintf("def reattachProbe : Lifecycle.ReattachParams := ⟨%s, %s, %d⟩", leanBool(probe), leanBool(waitPolls), pollMs))
	f.set("reattachProbe", map[string]interface{}{"probeConnects": probe, "waitPolls": waitPolls, "pollMs": pollMs})
	f.lean = append(f.lean, fmt.Sprintf("def rpcServer : Lifecycle.ServerParams := ⟨%s⟩", leanBool(only)))
	f.set("rpcServer", map[string]interface{}{"doneOnlyOnQuit": only, "doneCallers": fmt.Sprint(callers)})
}
