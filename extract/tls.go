package main

// Facts of the AutoMTLS trust policy (C12), Model/TlsPolicy.lean `Params`.
//
// Located semantically, never by line number:
//
//   - the two tls.Config composite literals (plugin: the one assigned in Serve to the
//     variable that reaches tls.NewListener / GRPCServer{TLS: …}; host: the one assigned
//     to <…>.TLSConfig under `if … AutoMTLS`), followed through one level of helper
//     function (`tlsConfig = newServerTLS(cert, pool)`) and through later field
//     assignments (`c.config.TLSConfig.RootCAs = certPool` in loadServerCert);
//   - what each certificate pool is filled from, by data flow
//     (x509.NewCertPool → AddCert/AppendCertsFromPEM ← … ← os.Getenv("PLUGIN_CLIENT_CERT")
//     resp. ← handshake field 6);
//   - the call sites that put the configuration on the wire, with the conditions
//     guarding them (only `cfg != nil` is accepted).
//
// Anything that cannot be recognised yields the weak value (.unknown / .other /
// false), which makes Instance/C12.lean fail.

import (
	"fmt"
	"go/ast"
	"go/token"
	"strconv"
	"strings"
)

func init() {
	registerExtractor("tls", []string{"GoPlugin.Model.TlsPolicy"}, extractTLS)
}

// ---------------------------------------------------------------- generic helpers

// walkStack is ast.Inspect with the stack of ancestors (outermost first, n excluded).
func walkStack(root ast.Node, f func(n ast.Node, stack []ast.Node) bool) {
	if root == nil {
		return
	}
	var stack []ast.Node
	ast.Inspect(root, func(n ast.Node) bool {
		if n == nil {
			stack = stack[:len(stack)-1]
			return true
		}
		ok := f(n, stack)
		if ok {
			stack = append(stack, n)
		}
		return ok
	})
}

type guard struct {
	cond   string
	inThen bool
}

// guardsOf lists the if-conditions a node sits under (then- or else-branch).
func guardsOf(n ast.Node, stack []ast.Node) []guard {
	var gs []guard
	for i, a := range stack {
		is, ok := a.(*ast.IfStmt)
		if !ok {
			continue
		}
		var child ast.Node = n
		if i+1 < len(stack) {
			child = stack[i+1]
		}
		switch child {
		case ast.Node(is.Body):
			gs = append(gs, guard{exprString(is.Cond), true})
		case is.Else:
			gs = append(gs, guard{exprString(is.Cond), false})
		}
	}
	return gs
}

// onlyNilGuards: every guard is `x != nil` (then) or `x == nil` (else).
func onlyNilGuards(gs []guard, x string) bool {
	for _, g := range gs {
		switch {
		case g.inThen && (g.cond == x+"!=nil" || g.cond == "nil!="+x):
		case !g.inThen && (g.cond == x+"==nil" || g.cond == "nil=="+x):
		default:
			return false
		}
	}
	return true
}

func allFuncs(p *pkgs) []*ast.FuncDecl {
	var out []*ast.FuncDecl
	for _, f := range p.files {
		for _, d := range f.Decls {
			if fd, ok := d.(*ast.FuncDecl); ok && fd.Body != nil {
				out = append(out, fd)
			}
		}
	}
	return out
}

// anyFn finds a function or method by name regardless of receiver.
func anyFn(p *pkgs, name string) *ast.FuncDecl {
	for _, fd := range allFuncs(p) {
		if fd.Name.Name == name {
			return fd
		}
	}
	return nil
}

func recvName(fd *ast.FuncDecl) string {
	if fd != nil && fd.Recv != nil && len(fd.Recv.List) == 1 && len(fd.Recv.List[0].Names) == 1 {
		return fd.Recv.List[0].Names[0].Name
	}
	return ""
}

func stripAddr(e ast.Expr) ast.Expr {
	for {
		switch x := e.(type) {
		case *ast.ParenExpr:
			e = x.X
		case *ast.UnaryExpr:
			if x.Op != token.AND {
				return e
			}
			e = x.X
		default:
			return e
		}
	}
}

// sexpr is an expression together with the function it has to be read in.
type sexpr struct {
	e  ast.Expr
	fn *ast.FuncDecl
}

// defOf finds the defining right-hand side of identifier name in fn: the single
// assignment / var declaration that has it on the left (idx = its position there).
func defOf(fn *ast.FuncDecl, name string) (rhs ast.Expr, idx int, n int) {
	if fn == nil {
		return nil, 0, 0
	}
	ast.Inspect(fn.Body, func(m ast.Node) bool {
		switch x := m.(type) {
		case *ast.AssignStmt:
			for i, l := range x.Lhs {
				if id, ok := l.(*ast.Ident); ok && id.Name == name {
					n++
					if len(x.Rhs) == len(x.Lhs) {
						rhs, idx = x.Rhs[i], 0
					} else if len(x.Rhs) == 1 {
						rhs, idx = x.Rhs[0], i
					}
				}
			}
		case *ast.ValueSpec:
			for i, id := range x.Names {
				if id.Name == name && len(x.Values) > 0 {
					n++
					if len(x.Values) == len(x.Names) {
						rhs, idx = x.Values[i], 0
					} else {
						rhs, idx = x.Values[0], i
					}
				}
			}
		}
		return true
	})
	return
}

// ---------------------------------------------------------------- tls.Config literals

type tlsLit struct {
	fields map[string]sexpr
	multi  map[string]bool // field assigned more than once (ambiguous)
	how    string
	bind   map[string]sexpr // helper parameter -> argument at the call site (when resolved through a helper)
}

func isTLSConfigLit(e ast.Expr) *ast.CompositeLit {
	cl, ok := stripAddr(e).(*ast.CompositeLit)
	if ok && cl.Type != nil && exprString(cl.Type) == "tls.Config" {
		return cl
	}
	return nil
}

// resolveTLS resolves e (read in fn) to a tls.Config literal: the literal itself,
// a local variable holding one, or a call of a same-package function returning one.
func resolveTLS(p *pkgs, fn *ast.FuncDecl, e ast.Expr, depth int) *tlsLit {
	if cl := isTLSConfigLit(e); cl != nil {
		l := &tlsLit{fields: map[string]sexpr{}, multi: map[string]bool{}, how: "literal"}
		for _, el := range cl.Elts {
			if kv, ok := el.(*ast.KeyValueExpr); ok {
				l.fields[exprString(kv.Key)] = sexpr{kv.Value, fn}
			}
		}
		return l
	}
	if depth <= 0 {
		return nil
	}
	switch x := stripAddr(e).(type) {
	case *ast.Ident:
		rhs, _, n := defOf(fn, x.Name)
		if rhs == nil {
			return nil
		}
		l := resolveTLS(p, fn, rhs, depth-1)
		if l == nil {
			return nil
		}
		if n > 1 {
			// several assignments to the variable: only tolerated if exactly one of them is a config
			cnt := 0
			ast.Inspect(fn.Body, func(m ast.Node) bool {
				if as, ok := m.(*ast.AssignStmt); ok && len(as.Lhs) == len(as.Rhs) {
					for i, lh := range as.Lhs {
						if id, ok := lh.(*ast.Ident); ok && id.Name == x.Name && resolveTLS(p, fn, as.Rhs[i], depth-1) != nil {
							cnt++
						}
					}
				}
				return true
			})
			if cnt != 1 {
				return nil
			}
		}
		applyOverrides(l, fn, x.Name)
		l.how = "variable " + x.Name + " <- " + l.how
		return l
	case *ast.CallExpr:
		name := ""
		switch f := x.Fun.(type) {
		case *ast.Ident:
			name = f.Name
		case *ast.SelectorExpr:
			name = f.Sel.Name
		}
		callee := anyFn(p, name)
		if callee == nil || callee == fn {
			return nil
		}
		var found *tlsLit
		cnt := 0
		ast.Inspect(callee.Body, func(m ast.Node) bool {
			if _, ok := m.(*ast.FuncLit); ok {
				return false
			}
			if rs, ok := m.(*ast.ReturnStmt); ok && len(rs.Results) >= 1 {
				if exprString(rs.Results[0]) == "nil" {
					return true
				}
				cnt++
				if l := resolveTLS(p, callee, rs.Results[0], depth-1); l != nil {
					found = l
				} else {
					cnt += 100
				}
			}
			return true
		})
		if found == nil || cnt != 1 {
			return nil
		}
		// substitute the helper's parameters by the call's arguments
		ps := paramNames(callee)
		found.bind = map[string]sexpr{}
		for i, pn := range ps {
			if _, _, n := defOf(callee, pn); n == 0 && i < len(x.Args) {
				found.bind[pn] = sexpr{x.Args[i], fn}
			}
		}
		for k, v := range found.fields {
			if id, ok := v.e.(*ast.Ident); ok && v.fn == callee {
				if i := indexOf(ps, id.Name); i >= 0 && i < len(x.Args) {
					if _, _, n := defOf(callee, id.Name); n == 0 {
						found.fields[k] = sexpr{x.Args[i], fn}
					}
				}
			}
		}
		found.how = "helper " + name + "() <- " + found.how
		return found
	}
	return nil
}

// applyOverrides folds `v.Field = value` assignments of fn into the literal.
func applyOverrides(l *tlsLit, fn *ast.FuncDecl, v string) {
	ast.Inspect(fn.Body, func(m ast.Node) bool {
		as, ok := m.(*ast.AssignStmt)
		if !ok || len(as.Lhs) != len(as.Rhs) {
			return true
		}
		for i, lh := range as.Lhs {
			s := exprString(lh)
			if strings.HasPrefix(s, v+".") && !strings.Contains(s[len(v)+1:], ".") {
				f := s[len(v)+1:]
				if _, seen := l.fields[f]; seen {
					l.multi[f] = true
				}
				l.fields[f] = sexpr{as.Rhs[i], fn}
			}
		}
		return true
	})
}

var clientAuthNames = map[string]string{
	"tls.NoClientCert":               ".noClientCert",
	"tls.RequestClientCert":          ".requestClientCert",
	"tls.RequireAnyClientCert":       ".requireAnyClientCert",
	"tls.VerifyClientCertIfGiven":    ".verifyClientCertIfGiven",
	"tls.RequireAndVerifyClientCert": ".requireAndVerifyClientCert",
}

var tlsVersions = map[string]int64{"tls.VersionSSL30": 768, "tls.VersionTLS10": 769, "tls.VersionTLS11": 770,
	"tls.VersionTLS12": 771, "tls.VersionTLS13": 772}

// origin traces a byte/string value back to where it comes from:
// "env:NAME", "field:<i>" (element i of a slice: the split handshake line), "param:<i>", or "?".
func origin(p *pkgs, fn *ast.FuncDecl, e ast.Expr, depth int) string {
	if depth <= 0 || e == nil {
		return "?"
	}
	switch x := e.(type) {
	case *ast.ParenExpr:
		return origin(p, fn, x.X, depth)
	case *ast.IndexExpr:
		if v, ok := p.evalInt(x.Index); ok {
			return fmt.Sprintf("field:%d", v)
		}
	case *ast.CallExpr:
		f := exprString(x.Fun)
		if f == "os.Getenv" && len(x.Args) == 1 {
			if bl, ok := x.Args[0].(*ast.BasicLit); ok {
				if s, err := strconv.Unquote(bl.Value); err == nil {
					return "env:" + s
				}
			}
			return "env:?"
		}
		if len(x.Args) == 1 {
			if _, isArr := x.Fun.(*ast.ArrayType); isArr || f == "string" || f == "x509.ParseCertificate" ||
				strings.HasSuffix(f, ".DecodeString") || f == "pem.Decode" {
				return origin(p, fn, x.Args[0], depth-1)
			}
		}
	case *ast.Ident:
		if i := indexOf(paramNames(fn), x.Name); i >= 0 {
			if _, _, n := defOf(fn, x.Name); n == 0 {
				return fmt.Sprintf("param:%d", i)
			}
		}
		rhs, _, n := defOf(fn, x.Name)
		if n == 1 && rhs != nil {
			return origin(p, fn, rhs, depth-1)
		}
	case *ast.SelectorExpr:
		// block.Bytes of a pem.Decode result
		if x.Sel.Name == "Bytes" {
			return origin(p, fn, x.X, depth-1)
		}
	}
	return "?"
}

// poolSrc classifies the value of a RootCAs / ClientCAs field.  want = the origin
// that makes it "the other side's AutoMTLS certificate".
func poolSrc(p *pkgs, v sexpr, present bool, want string, js map[string]interface{}) string {
	if !present || exprString(v.e) == "nil" {
		js["pool"] = "nil"
		return ".none"
	}
	id, ok := v.e.(*ast.Ident)
	if !ok || v.fn == nil {
		js["pool"] = exprString(v.e)
		return ".other"
	}
	rhs, _, n := defOf(v.fn, id.Name)
	if n != 1 || rhs == nil || exprString(rhs) != "x509.NewCertPool()" {
		js["pool"] = id.Name + " (not a single x509.NewCertPool())"
		return ".other"
	}
	var adds []string
	ast.Inspect(v.fn.Body, func(m ast.Node) bool {
		c, ok := m.(*ast.CallExpr)
		if !ok {
			return true
		}
		f := exprString(c.Fun)
		if f == id.Name+".AddCert" || f == id.Name+".AppendCertsFromPEM" || f == id.Name+".AddCertWithConstraint" {
			o := "?"
			if len(c.Args) >= 1 {
				o = origin(p, v.fn, c.Args[0], 8)
			}
			if strings.HasPrefix(o, "param:") {
				// follow to the call sites of this function: every one must pass the same origin
				var i int
				fmt.Sscanf(o, "param:%d", &i)
				sites := map[string]bool{}
				for _, caller := range allFuncs(p) {
					for _, cs := range calls(caller.Body, v.fn.Name.Name, true) {
						if i < len(cs.Args) {
							sites[origin(p, caller, cs.Args[i], 8)] = true
						}
					}
					for _, cs := range calls(caller.Body, v.fn.Name.Name, false) {
						if i < len(cs.Args) {
							sites[origin(p, caller, cs.Args[i], 8)] = true
						}
					}
				}
				o = "?"
				if len(sites) == 1 {
					for s := range sites {
						o = s
					}
				}
			}
			adds = append(adds, o)
		}
		return true
	})
	js["pool"] = map[string]interface{}{"var": id.Name, "in": v.fn.Name.Name, "filledFrom": adds}
	if len(adds) == 1 && adds[0] == want {
		return ".peerCert"
	}
	return ".other"
}

// ownCert: Certificates: []tls.Certificate{V} with V from tls.X509KeyPair(a, b), a, b from generateCert().
func ownCert(v sexpr, present bool, bind map[string]sexpr) bool {
	if !present || v.fn == nil {
		return false
	}
	cl, ok := v.e.(*ast.CompositeLit)
	if !ok || len(cl.Elts) != 1 {
		return false
	}
	id, ok := cl.Elts[0].(*ast.Ident)
	if !ok {
		return false
	}
	if b, isParam := bind[id.Name]; isParam && indexOf(paramNames(v.fn), id.Name) >= 0 {
		// the literal lives in a helper and the element is the helper's parameter: continue at the call site
		if id, ok = b.e.(*ast.Ident); !ok {
			return false
		}
		v = sexpr{b.e, b.fn}
	}
	rhs, idx, n := defOf(v.fn, id.Name)
	c, ok := rhs.(*ast.CallExpr)
	if n != 1 || !ok || idx != 0 || exprString(c.Fun) != "tls.X509KeyPair" || len(c.Args) != 2 {
		return false
	}
	for i, a := range c.Args {
		aid, ok := a.(*ast.Ident)
		if !ok {
			return false
		}
		r, j, m := defOf(v.fn, aid.Name)
		if m != 1 || r == nil || exprString(r) != "generateCert()" || j != i {
			return false
		}
	}
	return true
}

// certDNSName: the single DNS name generateCert writes into its template.
func certDNSName(p *pkgs) (string, bool) {
	gc := p.fn("", "generateCert")
	if gc == nil {
		return "", false
	}
	name, ok := "", false
	ast.Inspect(gc.Body, func(m ast.Node) bool {
		kv, isKV := m.(*ast.KeyValueExpr)
		if !isKV || exprString(kv.Key) != "DNSNames" {
			return true
		}
		if cl, isCL := kv.Value.(*ast.CompositeLit); isCL && len(cl.Elts) == 1 {
			name, ok = stringValue(p, gc, cl.Elts[0])
		}
		return true
	})
	return name, ok
}

func stringValue(p *pkgs, fn *ast.FuncDecl, e ast.Expr) (string, bool) {
	switch x := e.(type) {
	case *ast.BasicLit:
		if x.Kind == token.STRING {
			s, err := strconv.Unquote(x.Value)
			return s, err == nil
		}
	case *ast.Ident:
		if rhs, _, n := defOf(fn, x.Name); n == 1 && rhs != nil {
			return stringValue(p, fn, rhs)
		}
		for _, f := range p.files {
			for _, d := range f.Decls {
				if gd, ok := d.(*ast.GenDecl); ok && (gd.Tok == token.CONST || gd.Tok == token.VAR) {
					for _, s := range gd.Specs {
						vs := s.(*ast.ValueSpec)
						for i, n := range vs.Names {
							if n.Name == x.Name && i < len(vs.Values) {
								return stringValue(p, nil, vs.Values[i])
							}
						}
					}
				}
			}
		}
	}
	return "", false
}

// tlsFacts turns a resolved literal into the Lean TlsFacts tuple.
func tlsFacts(p *pkgs, l *tlsLit, wantOrigin string, js map[string]interface{}) string {
	if l == nil {
		js["found"] = false
		return "⟨.unknown, .other, .other, false, 0, true, false⟩"
	}
	js["found"] = true
	js["via"] = l.how
	get := func(k string) (sexpr, bool) {
		v, ok := l.fields[k]
		return v, ok
	}
	ca := ".noClientCert"
	if v, ok := get("ClientAuth"); ok {
		ca = clientAuthNames[exprString(v.e)]
		if ca == "" || l.multi["ClientAuth"] {
			ca = ".unknown"
		}
		js["ClientAuth"] = exprString(v.e)
	}
	minV := int64(0)
	if v, ok := get("MinVersion"); ok {
		if n, known := tlsVersions[exprString(v.e)]; known {
			minV = n
		} else if n, known := p.evalInt(v.e); known && n >= 0 {
			minV = n
		}
		if l.multi["MinVersion"] {
			minV = 0
		}
		js["MinVersion"] = exprString(v.e)
	}
	skip := false
	if v, ok := get("InsecureSkipVerify"); ok && exprString(v.e) != "false" {
		skip = true
	}
	// verification hooks that could override the decision are treated like InsecureSkipVerify
	for _, k := range []string{"VerifyPeerCertificate", "VerifyConnection", "GetConfigForClient", "GetClientCertificate", "GetCertificate"} {
		if _, ok := get(k); ok {
			skip = true
			js["hook"] = k
		}
	}
	cjs, rjs := map[string]interface{}{}, map[string]interface{}{}
	cv, cok := get("ClientCAs")
	rv, rok := get("RootCAs")
	cpool := poolSrc(p, cv, cok, wantOrigin, cjs)
	rpool := poolSrc(p, rv, rok, wantOrigin, rjs)
	if l.multi["ClientCAs"] {
		cpool = ".other"
	}
	if l.multi["RootCAs"] {
		rpool = ".other"
	}
	js["ClientCAs"], js["RootCAs"] = cjs["pool"], rjs["pool"]
	certv, certok := get("Certificates")
	own := ownCert(certv, certok, l.bind) && !l.multi["Certificates"]
	nameOK := false
	if v, ok := get("ServerName"); ok && !l.multi["ServerName"] {
		sn, ok1 := stringValue(p, v.fn, v.e)
		dn, ok2 := certDNSName(p)
		nameOK = ok1 && ok2 && sn == dn
		js["ServerName"], js["certDNSName"] = sn, dn
	}
	js["params"] = map[string]interface{}{"clientAuth": ca, "clientCAs": cpool, "rootCAs": rpool, "hasOwnCert": own,
		"minVersion": minV, "insecureSkipVerify": skip, "serverNameIsCertName": nameOK}
	return fmt.Sprintf("⟨%s, %s, %s, %s, %d, %s, %s⟩", ca, cpool, rpool, leanBool(own), minV, leanBool(skip), leanBool(nameOK))
}

// ---------------------------------------------------------------- the extractor

func extractTLS(p *pkgs, f *facts) {
	js := map[string]interface{}{}

	// ------------------------------------------------------------ plugin side: Serve
	serve := p.fn("", "Serve")
	var srvLit *tlsLit
	srvVar := ""
	if serve != nil {
		cands := map[string]bool{}
		ast.Inspect(serve.Body, func(m ast.Node) bool {
			as, ok := m.(*ast.AssignStmt)
			if !ok || len(as.Lhs) != len(as.Rhs) {
				return true
			}
			for i, lh := range as.Lhs {
				if id, ok := lh.(*ast.Ident); ok && resolveTLS(p, serve, as.Rhs[i], 2) != nil {
					cands[id.Name] = true
				}
			}
			return true
		})
		if len(cands) == 1 {
			for v := range cands {
				srvVar = v
			}
			srvLit = resolveTLS(p, serve, ast.NewIdent(srvVar), 3)
		}
	} else {
		f.miss = append(f.miss, "Serve")
	}
	sjs := map[string]interface{}{"var": srvVar}
	srvFacts := tlsFacts(p, srvLit, "env:PLUGIN_CLIENT_CERT", sjs)
	js["serverTls"] = sjs

	// ------------------------------------------------------------ host side: <…>.TLSConfig = … under AutoMTLS
	var cliLit *tlsLit
	nCli := 0
	var cliFn *ast.FuncDecl
	for _, fd := range allFuncs(p) {
		fd := fd
		walkStack(fd.Body, func(n ast.Node, stack []ast.Node) bool {
			as, ok := n.(*ast.AssignStmt)
			if !ok || len(as.Lhs) != len(as.Rhs) {
				return true
			}
			for i, lh := range as.Lhs {
				if !strings.HasSuffix(exprString(lh), ".TLSConfig") {
					continue
				}
				l := resolveTLS(p, fd, as.Rhs[i], 2)
				if l == nil {
					continue
				}
				auto := false
				for _, g := range guardsOf(n, stack) {
					if g.inThen && strings.HasSuffix(g.cond, ".AutoMTLS") {
						auto = true
					}
				}
				if auto {
					nCli++
					cliLit, cliFn = l, fd
				}
			}
			return true
		})
	}
	if nCli != 1 {
		cliLit = nil
	}
	cjs := map[string]interface{}{"assignmentsUnderAutoMTLS": nCli}
	if cliLit != nil {
		cjs["in"] = cliFn.Name.Name
		// later field assignments anywhere in the package: <…>.TLSConfig.<Field> = value
		for _, fd := range allFuncs(p) {
			fd := fd
			ast.Inspect(fd.Body, func(m ast.Node) bool {
				as, ok := m.(*ast.AssignStmt)
				if !ok || len(as.Lhs) != len(as.Rhs) {
					return true
				}
				for i, lh := range as.Lhs {
					s := exprString(lh)
					j := strings.LastIndex(s, ".TLSConfig.")
					if j < 0 {
						continue
					}
					field := s[j+len(".TLSConfig."):]
					if strings.Contains(field, ".") {
						cliLit.multi[field] = true
						continue
					}
					if _, seen := cliLit.fields[field]; seen {
						cliLit.multi[field] = true
					}
					cliLit.fields[field] = sexpr{as.Rhs[i], fd}
					cliLit.how += "; ." + field + " set in " + fd.Name.Name
				}
				return true
			})
		}
	}
	cliFacts := tlsFacts(p, cliLit, "field:5", cjs)
	js["clientTls"] = cjs

	// ------------------------------------------------------------ net/rpc listener wrapped
	rpcListener := false
	if serve != nil && srvVar != "" {
		served := map[string]bool{}
		for _, c := range calls(serve.Body, "Serve", true) {
			if len(c.Args) == 1 {
				served[exprString(c.Args[0])] = true
			}
		}
		n := 0
		walkStack(serve.Body, func(m ast.Node, stack []ast.Node) bool {
			as, ok := m.(*ast.AssignStmt)
			if !ok || len(as.Lhs) != 1 || len(as.Rhs) != 1 {
				return true
			}
			c, ok := as.Rhs[0].(*ast.CallExpr)
			if !ok || exprString(c.Fun) != "tls.NewListener" || len(c.Args) != 2 {
				return true
			}
			n++
			l := exprString(as.Lhs[0])
			inRPCCase := true
			for _, a := range stack {
				if cc, ok := a.(*ast.CaseClause); ok {
					inRPCCase = false
					for _, e := range cc.List {
						if exprString(e) == "ProtocolNetRPC" {
							inRPCCase = true
						}
					}
				}
			}
			if as.Tok == token.ASSIGN && l == exprString(c.Args[0]) && exprString(c.Args[1]) == srvVar && served[l] &&
				inRPCCase && onlyNilGuards(guardsOf(m, stack), srvVar) {
				rpcListener = true
			}
			return true
		})
		if n != 1 {
			rpcListener = false
		}
	}

	// ------------------------------------------------------------ net/rpc dial wrapped
	rpcDial := false
	if nrc := p.fn("", "newRPCClient"); nrc != nil {
		connVar := ""
		var usePos token.Pos
		for _, c := range calls(nrc.Body, "NewRPCClient", false) {
			if len(c.Args) >= 1 {
				connVar, usePos = exprString(c.Args[0]), c.Pos()
			}
		}
		n := 0
		walkStack(nrc.Body, func(m ast.Node, stack []ast.Node) bool {
			as, ok := m.(*ast.AssignStmt)
			if !ok || len(as.Lhs) != 1 || len(as.Rhs) != 1 {
				return true
			}
			c, ok := as.Rhs[0].(*ast.CallExpr)
			if !ok || exprString(c.Fun) != "tls.Client" || len(c.Args) != 2 {
				return true
			}
			n++
			cfg := exprString(c.Args[1])
			if as.Tok == token.ASSIGN && connVar != "" && exprString(as.Lhs[0]) == connVar && exprString(c.Args[0]) == connVar &&
				strings.HasSuffix(cfg, ".TLSConfig") && as.Pos() < usePos && onlyNilGuards(guardsOf(m, stack), cfg) {
				rpcDial = true
			}
			return true
		})
		if n != 1 {
			rpcDial = false
		}
	} else {
		f.miss = append(f.miss, "newRPCClient")
	}

	// credsInto: a call creds(credentials.NewTLS(<cfg>)) stored into an options variable
	// (`O = append(O, …)` / `O = []T{…}` / `O := …`), only nil-guarded.  Returns O.
	credsInto := func(fd *ast.FuncDecl, credFn, cfg string) (optsVar string, ok bool) {
		n := 0
		walkStack(fd.Body, func(m ast.Node, stack []ast.Node) bool {
			c, isCall := m.(*ast.CallExpr)
			if !isCall || exprString(c.Fun) != credFn || len(c.Args) != 1 {
				return true
			}
			n++
			if exprString(c.Args[0]) != "credentials.NewTLS("+cfg+")" {
				return true
			}
			if !onlyNilGuards(guardsOf(m, stack), cfg) {
				return true
			}
			// nearest enclosing assignment
			for i := len(stack) - 1; i >= 0; i-- {
				if as, isAs := stack[i].(*ast.AssignStmt); isAs && len(as.Lhs) == 1 {
					optsVar, ok = exprString(as.Lhs[0]), true
					break
				}
			}
			return true
		})
		if n != 1 {
			return "", false
		}
		return
	}

	// ------------------------------------------------------------ main gRPC server creds
	grpcServer := false
	initFn := p.fn("GRPCServer", "Init")
	if serve != nil && srvVar != "" && initFn != nil && recvName(initFn) != "" {
		r := recvName(initFn)
		lf := literalFields(serve.Body, "GRPCServer")
		if o, ok := credsInto(initFn, "grpc.Creds", r+".TLS"); ok && lf["TLS"] == srvVar {
			for _, c := range calls(initFn.Body, r+".Server", false) {
				if len(c.Args) == 1 && exprString(c.Args[0]) == o {
					grpcServer = true
				}
			}
		}
	}
	if initFn == nil {
		f.miss = append(f.miss, "GRPCServer.Init")
	}

	// ------------------------------------------------------------ dialGRPCConn / newGRPCClient
	grpcDial := false
	dgc := p.fn("", "dialGRPCConn")
	ngc := p.fn("", "newGRPCClient")
	if dgc != nil && len(paramNames(dgc)) >= 1 {
		t := paramNames(dgc)[0]
		o, ok := credsInto(dgc, "grpc.WithTransportCredentials", t)
		insecureOK := true
		walkStack(dgc.Body, func(m ast.Node, stack []ast.Node) bool {
			c, isCall := m.(*ast.CallExpr)
			if !isCall {
				return true
			}
			fn := exprString(c.Fun)
			if fn == "grpc.WithInsecure" || fn == "insecure.NewCredentials" {
				gs := guardsOf(m, stack)
				good := len(gs) > 0
				for _, g := range gs {
					if !((g.inThen && (g.cond == t+"==nil" || g.cond == "nil=="+t)) || (!g.inThen && (g.cond == t+"!=nil" || g.cond == "nil!="+t))) {
						good = false
					}
				}
				if !good {
					insecureOK = false
				}
			}
			return true
		})
		dialed := false
		for _, c := range calls(dgc.Body, "grpc.Dial", false) {
			if c.Ellipsis != token.NoPos && len(c.Args) >= 2 && exprString(c.Args[len(c.Args)-1]) == o {
				dialed = true
			}
		}
		for _, c := range calls(dgc.Body, "grpc.DialContext", false) {
			if c.Ellipsis != token.NoPos && len(c.Args) >= 2 && exprString(c.Args[len(c.Args)-1]) == o {
				dialed = true
			}
		}
		_, _, tReassigned := defOf(dgc, t)
		if ok && insecureOK && dialed && tReassigned == 0 {
			grpcDial = true
		}
		js["dialGRPCConn"] = map[string]interface{}{"tlsParam": t, "transportCredsInto": o, "insecureOnlyWhenNil": insecureOK, "optsDialled": dialed}
	} else {
		f.miss = append(f.miss, "dialGRPCConn")
	}
	mainDial := false
	if ngc != nil {
		cs := calls(ngc.Body, "dialGRPCConn", false)
		mainDial = len(cs) >= 1
		for _, c := range cs {
			if len(c.Args) < 1 || !strings.HasSuffix(exprString(c.Args[0]), ".TLSConfig") {
				mainDial = false
			}
		}
	} else {
		f.miss = append(f.miss, "newGRPCClient")
	}
	grpcDialMain := grpcDial && mainDial

	// ------------------------------------------------------------ brokered servers
	brokerServe := false
	if aas := p.fn("GRPCBroker", "AcceptAndServe"); aas != nil && recvName(aas) != "" && len(paramNames(aas)) == 2 {
		b := recvName(aas)
		ctor := paramNames(aas)[1]
		if o, ok := credsInto(aas, "grpc.Creds", b+".tls"); ok {
			srv := ""
			ast.Inspect(aas.Body, func(m ast.Node) bool {
				as, isAs := m.(*ast.AssignStmt)
				if !isAs || len(as.Lhs) != 1 || len(as.Rhs) != 1 {
					return true
				}
				if c, isCall := as.Rhs[0].(*ast.CallExpr); isCall && exprString(c.Fun) == ctor && len(c.Args) == 1 && exprString(c.Args[0]) == o {
					srv = exprString(as.Lhs[0])
				}
				return true
			})
			if srv != "" && len(calls(aas.Body, srv+".Serve", false)) == 1 {
				brokerServe = true
			}
		}
	} else {
		f.miss = append(f.miss, "GRPCBroker.AcceptAndServe")
	}

	// ------------------------------------------------------------ brokered dials
	brokerDial, brokerMuxDial := false, false
	if dwo := p.fn("GRPCBroker", "DialWithOptions"); dwo != nil && recvName(dwo) != "" {
		b := recvName(dwo)
		nPlain, nMux, okPlain, okMux := 0, 0, true, true
		walkStack(dwo.Body, func(m ast.Node, stack []ast.Node) bool {
			c, isCall := m.(*ast.CallExpr)
			if !isCall || exprString(c.Fun) != "dialGRPCConn" {
				return true
			}
			mux := false
			for _, g := range guardsOf(m, stack) {
				if g.inThen && strings.HasSuffix(g.cond, "muxer.Enabled()") {
					mux = true
				}
			}
			good := len(c.Args) >= 1 && exprString(c.Args[0]) == b+".tls"
			if mux {
				nMux++
				okMux = okMux && good
			} else {
				nPlain++
				okPlain = okPlain && good
			}
			return true
		})
		brokerDial = nPlain >= 1 && okPlain
		brokerMuxDial = nMux >= 1 && okMux
		js["DialWithOptions"] = map[string]interface{}{"socketDials": nPlain, "muxDials": nMux}
	} else {
		f.miss = append(f.miss, "GRPCBroker.DialWithOptions")
	}

	// ------------------------------------------------------------ which config each broker gets
	pluginBroker, hostBroker := false, false
	if nb := p.fn("", "newGRPCBroker"); nb != nil {
		ps := paramNames(nb)
		lf := literalFields(nb.Body, "GRPCBroker")
		i := indexOf(ps, lf["tls"])
		_, _, reassigned := defOf(nb, lf["tls"])
		// no other writer of a `.tls` field anywhere
		otherWriters := 0
		for _, fd := range allFuncs(p) {
			ast.Inspect(fd.Body, func(m ast.Node) bool {
				if as, ok := m.(*ast.AssignStmt); ok {
					for _, lh := range as.Lhs {
						if se, ok := lh.(*ast.SelectorExpr); ok && se.Sel.Name == "tls" {
							otherWriters++
						}
					}
				}
				return true
			})
		}
		if i >= 0 && reassigned == 0 && otherWriters == 0 {
			if initFn != nil && recvName(initFn) != "" {
				cs := calls(initFn.Body, "newGRPCBroker", false)
				pluginBroker = len(cs) == 1 && i < len(cs[0].Args) && exprString(cs[0].Args[i]) == recvName(initFn)+".TLS"
			}
			if ngc != nil {
				cs := calls(ngc.Body, "newGRPCBroker", false)
				hostBroker = len(cs) == 1 && i < len(cs[0].Args) && strings.HasSuffix(exprString(cs[0].Args[i]), ".TLSConfig")
			}
		}
		js["newGRPCBroker"] = map[string]interface{}{"tlsParamIndex": i, "otherWritersOfTlsField": otherWriters}
	} else {
		f.miss = append(f.miss, "newGRPCBroker")
	}

	wrap := map[string]bool{"rpcListenerWrapped": rpcListener, "rpcDialWrapped": rpcDial, "grpcServerCreds": grpcServer,
		"grpcDialCreds": grpcDialMain, "brokerServeCreds": brokerServe, "brokerDialCreds": brokerDial,
		"brokerMuxDialCreds": brokerMuxDial, "pluginBrokerTls": pluginBroker, "hostBrokerTls": hostBroker}
	js["tlsWrap"] = wrap
	f.lean = append(f.lean, fmt.Sprintf("def tls : TlsPolicy.Params := ⟨%s, %s, %s, %s, %s, %s, %s, %s, %s, %s, %s⟩",
		srvFacts, cliFacts, leanBool(rpcListener), leanBool(rpcDial), leanBool(grpcServer), leanBool(grpcDialMain),
		leanBool(brokerServe), leanBool(brokerDial), leanBool(brokerMuxDial), leanBool(pluginBroker), leanBool(hostBroker)))
	f.set("tls", js)
}
