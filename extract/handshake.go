package main

import (
	"fmt"
	"go/ast"
	"go/token"
	"strings"
)

func init() {
	registerExtractor("handshake", []string{"GoPlugin.Model.Handshake"}, extractHandshake)
}

// extractHandshake: facts of Client.Start's line parsing (C01/C05).
func extractHandshake(p *pkgs, f *facts) {
	start := p.fn("Client", "Start")
	addrErrChecked := false
	minFields := int64(0)
	certMinLen := int64(0)
	if start != nil {
		// (1) the statement following `switch network {…}` is `if err != nil { return … }`
		ast.Inspect(start.Body, func(n ast.Node) bool {
			var list []ast.Stmt
			switch b := n.(type) {
			case *ast.BlockStmt:
				list = b.List
			case *ast.CaseClause:
				list = b.Body
			case *ast.CommClause:
				list = b.Body
			default:
				return true
			}
			for i, s := range list {
				sw, ok := s.(*ast.SwitchStmt)
				if !ok || sw.Tag == nil || exprString(sw.Tag) != "network" {
					continue
				}
				// does the switch assign err from the resolvers?
				if !strings.Contains(nodeIdents(sw), "ResolveTCPAddr") {
					continue
				}
				if i+1 < len(list) {
					if is, ok := list[i+1].(*ast.IfStmt); ok && is.Init == nil &&
						exprString(is.Cond) == "err!=nil" && endsInReturn(is.Body) {
						addrErrChecked = true
					}
				}
			}
			return true
		})
		// (2) len(parts) < N  and  len(parts[5]) > N
		ast.Inspect(start.Body, func(n ast.Node) bool {
			be, ok := n.(*ast.BinaryExpr)
			if !ok {
				return true
			}
			l := exprString(be.X)
			if l == "len(parts)" && be.Op == token.LSS && minFields == 0 {
				if v, ok := p.evalInt(be.Y); ok {
					minFields = v
				}
			}
			if l == "len(parts)" && be.Op == token.LEQ && minFields == 0 {
				if v, ok := p.evalInt(be.Y); ok {
					minFields = v + 1
				}
			}
			if l == "len(parts[5])" && be.Op == token.GTR {
				if v, ok := p.evalInt(be.Y); ok {
					certMinLen = v
				}
			}
			if l == "len(parts[5])" && be.Op == token.GEQ {
				if v, ok := p.evalInt(be.Y); ok {
					certMinLen = v - 1
				}
			}
			return true
		})
	} else {
		f.miss = append(f.miss, "Client.Start")
	}
	// (3) loadServerCert refuses a nil TLSConfig before touching it; or Start guards the call
	certNilGuard := false
	if lsc := p.fn("Client", "loadServerCert"); lsc != nil {
		for _, s := range lsc.Body.List {
			if is, ok := s.(*ast.IfStmt); ok {
				if strings.Contains(exprString(is.Cond), "TLSConfig==nil") && endsInReturn(is.Body) {
					certNilGuard = true
				}
			}
			if strings.Contains(nodeIdents(s), "RootCAs") {
				break
			}
		}
	} else {
		f.miss = append(f.miss, "Client.loadServerCert")
	}
	core, ok := p.constInt("CoreProtocolVersion")
	if !ok {
		f.miss = append(f.miss, "CoreProtocolVersion")
		core = -1
	}
	// (5) `c.address = …` occurs once in Start, as a top-level statement followed only by `return`
	addressLast := false
	if start != nil {
		total := 0
		ast.Inspect(start.Body, func(n ast.Node) bool {
			if as, ok := n.(*ast.AssignStmt); ok {
				for _, l := range as.Lhs {
					if exprString(l) == "c.address" {
						total++
					}
				}
			}
			return true
		})
		list := start.Body.List
		for i, st := range list {
			as, ok := st.(*ast.AssignStmt)
			if !ok || len(as.Lhs) != 1 || exprString(as.Lhs[0]) != "c.address" {
				continue
			}
			onlyReturns := true
			for _, rest := range list[i+1:] {
				if _, ok := rest.(*ast.ReturnStmt); !ok {
					onlyReturns = false
				}
			}
			addressLast = total == 1 && onlyReturns
		}
	}
	// (6) the deferred clean-up that kills the runner: `v := recover()`, the kill's condition mentions v, and `panic(v)` follows
	killOnPanic := false
	killCtxFresh := false
	if start != nil {
		for _, st := range start.Body.List {
			d, ok := st.(*ast.DeferStmt)
			if !ok {
				continue
			}
			fl, ok := d.Call.Fun.(*ast.FuncLit)
			if !ok || !strings.Contains(nodeCalls(fl.Body), ".Kill(") {
				continue
			}
			rv := ""
			ast.Inspect(fl.Body, func(n ast.Node) bool {
				if as, ok := n.(*ast.AssignStmt); ok && len(as.Lhs) == 1 && len(as.Rhs) == 1 && exprString(as.Rhs[0]) == "recover()" {
					rv = exprString(as.Lhs[0])
				}
				return true
			})
			if rv == "" {
				continue
			}
			killGuarded, repanics := false, false
			ast.Inspect(fl.Body, func(n ast.Node) bool {
				if is, ok := n.(*ast.IfStmt); ok {
					c := exprString(is.Cond)
					if strings.Contains(nodeCalls(is.Body), ".Kill(") && strings.Contains(c, rv+"!=nil") && strings.Contains(c, "||") {
						killGuarded = true
					}
					if strings.Contains(nodeCalls(is.Body), "panic("+rv+")") {
						repanics = true
					}
				}
				return true
			})
			killOnPanic = killGuarded && repanics
			// the Kill in this clean-up gets context.Background() (a context that cannot have expired already)
			ast.Inspect(fl.Body, func(n ast.Node) bool {
				if ce, ok := n.(*ast.CallExpr); ok && strings.HasSuffix(exprString(ce.Fun), ".Kill") && len(ce.Args) == 1 {
					killCtxFresh = exprString(ce.Args[0]) == "context.Background()"
				}
				return true
			})
		}
	}
	f.lean = append(f.lean, fmt.Sprintf("def handshake : Handshake.Params := ⟨%s, %s, %d, %d, %d, %s, %s, %s⟩",
		leanBool(addrErrChecked), leanBool(certNilGuard), minFields, certMinLen, core, leanBool(addressLast), leanBool(killOnPanic), leanBool(killCtxFresh)))
	f.set("handshake", map[string]interface{}{"addrErrChecked": addrErrChecked, "certNilGuard": certNilGuard, "addressAssignedLast": addressLast, "deferKillsOnPanic": killOnPanic, "cleanupKillCtxFresh": killCtxFresh,
		"minFields": minFields, "certMinLen": certMinLen, "coreVersion": core})
}

func endsInReturn(b *ast.BlockStmt) bool {
	if b == nil || len(b.List) == 0 {
		return false
	}
	_, ok := b.List[len(b.List)-1].(*ast.ReturnStmt)
	return ok
}

// nodeIdents returns all identifier and selector names below n, space separated.
func nodeIdents(n ast.Node) string {
	var sb strings.Builder
	ast.Inspect(n, func(m ast.Node) bool {
		if id, ok := m.(*ast.Ident); ok {
			sb.WriteString(id.Name + " ")
		}
		return true
	})
	return sb.String()
}
