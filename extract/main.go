// extract — tie T-A: reads the current go-plugin source (go/ast only) and
// regenerates the structural facts the Lean models are parametric in.
//
//	extract <repo> <Facts.lean> <facts.json>
//
// Facts are located semantically (receiver + method + the expression involved),
// never by line number.  A fact that cannot be found is emitted as its "unknown"
// value, which makes the generated instance lemma fail.
package main

import (
	"encoding/json"
	"fmt"
	"go/ast"
	"go/parser"
	"go/token"
	"os"
	"path/filepath"
	"sort"
	"strings"
)

type pkgs struct {
	fset  *token.FileSet
	files map[string]*ast.File // path relative to repo (in the normal form of normalize.go)
	repo  string
	// normalisation record: functions analysed in place at their single call site, notes, and
	// look-ups by name of such functions (a rule names a function that normAnchors does not list)
	inlined map[string]bool
	notes   []string
	lost    map[string]bool
}

func load(repo string, dirs ...string) *pkgs {
	p := &pkgs{fset: token.NewFileSet(), files: map[string]*ast.File{}, repo: repo, inlined: map[string]bool{}, lost: map[string]bool{}}
	for _, d := range dirs {
		ents, err := os.ReadDir(filepath.Join(repo, d))
		if err != nil {
			continue
		}
		for _, e := range ents {
			n := e.Name()
			if e.IsDir() || !strings.HasSuffix(n, ".go") || strings.HasSuffix(n, "_test.go") || strings.HasPrefix(n, "verif_") {
				continue
			}
			f, err := parser.ParseFile(p.fset, filepath.Join(repo, d, n), nil, parser.ParseComments)
			if err != nil {
				fmt.Fprintln(os.Stderr, "extract: parse error:", err)
				continue
			}
			p.files[filepath.Join(d, n)] = f
		}
	}
	p.normalize()
	return p
}

// fn finds a function or method by receiver type name ("" for plain funcs) and name.
func (p *pkgs) fn(recv, name string) *ast.FuncDecl {
	for _, f := range p.files {
		for _, d := range f.Decls {
			fd, ok := d.(*ast.FuncDecl)
			if !ok || fd.Name.Name != name {
				continue
			}
			r := ""
			if fd.Recv != nil && len(fd.Recv.List) == 1 {
				t := fd.Recv.List[0].Type
				if s, ok := t.(*ast.StarExpr); ok {
					t = s.X
				}
				if id, ok := t.(*ast.Ident); ok {
					r = id.Name
				}
			}
			if r == recv {
				return fd
			}
		}
	}
	k := name
	if recv != "" {
		k = recv + "." + name
	}
	if p.inlined[k] {
		p.lost[k] = true
	}
	return nil
}

// constInt resolves a package-level integer constant by name.
func (p *pkgs) constInt(name string) (int64, bool) {
	for _, f := range p.files {
		for _, d := range f.Decls {
			gd, ok := d.(*ast.GenDecl)
			if !ok || gd.Tok != token.CONST {
				continue
			}
			for _, s := range gd.Specs {
				vs := s.(*ast.ValueSpec)
				for i, n := range vs.Names {
					if n.Name == name && i < len(vs.Values) {
						return p.evalInt(vs.Values[i])
					}
				}
			}
		}
	}
	return 0, false
}

// evalInt folds integer literals, named constants, time.<Unit> (in ms) and * + -.
func (p *pkgs) evalInt(e ast.Expr) (int64, bool) {
	switch x := e.(type) {
	case *ast.BasicLit:
		if x.Kind == token.INT {
			var v int64
			if _, err := fmt.Sscanf(x.Value, "%v", &v); err == nil {
				return v, true
			}
		}
	case *ast.ParenExpr:
		return p.evalInt(x.X)
	case *ast.Ident:
		return p.constInt(x.Name)
	case *ast.SelectorExpr:
		if id, ok := x.X.(*ast.Ident); ok && id.Name == "time" {
			switch x.Sel.Name {
			case "Millisecond":
				return 1, true
			case "Second":
				return 1000, true
			case "Minute":
				return 60000, true
			case "Hour":
				return 3600000, true
			}
		}
	case *ast.BinaryExpr:
		a, ok1 := p.evalInt(x.X)
		b, ok2 := p.evalInt(x.Y)
		if ok1 && ok2 {
			switch x.Op {
			case token.MUL:
				return a * b, true
			case token.ADD:
				return a + b, true
			case token.SUB:
				return a - b, true
			}
		}
	case *ast.CallExpr:
		// conversions such as time.Duration(5)
		if len(x.Args) == 1 {
			return p.evalInt(x.Args[0])
		}
	}
	return 0, false
}

func src(fset *token.FileSet, n ast.Node) string {
	var sb strings.Builder
	ast.Fprint(&sb, fset, n, nil)
	return sb.String()
}

// exprString renders simple expressions (idents, selectors, calls, index) compactly.
func exprString(e ast.Expr) string {
	switch x := e.(type) {
	case *ast.Ident:
		return x.Name
	case *ast.SelectorExpr:
		return exprString(x.X) + "." + x.Sel.Name
	case *ast.CallExpr:
		var as []string
		for _, a := range x.Args {
			as = append(as, exprString(a))
		}
		return exprString(x.Fun) + "(" + strings.Join(as, ",") + ")"
	case *ast.IndexExpr:
		return exprString(x.X) + "[" + exprString(x.Index) + "]"
	case *ast.BasicLit:
		return x.Value
	case *ast.StarExpr:
		return "*" + exprString(x.X)
	case *ast.UnaryExpr:
		return x.Op.String() + exprString(x.X)
	case *ast.BinaryExpr:
		return exprString(x.X) + x.Op.String() + exprString(x.Y)
	case *ast.ParenExpr:
		return "(" + exprString(x.X) + ")"
	case *ast.CompositeLit:
		return "lit"
	case *ast.FuncLit:
		return "func"
	}
	return "?"
}

// ---------------------------------------------------------------- fact store

type facts struct {
	lean []string               // lines of Facts.lean (definitions)
	js   map[string]interface{} // facts.json
	miss []string
}

func (f *facts) set(name string, v interface{}) { f.js[name] = v }

func leanBool(b bool) string {
	if b {
		return "true"
	}
	return "false"
}

func main() {
	if len(os.Args) < 4 {
		fmt.Fprintln(os.Stderr, "usage: extract <repo> <Facts.lean> <facts.json>")
		os.Exit(2)
	}
	repo := os.Args[1]
	p := load(repo, ".", "internal/grpcmux", "internal/cmdrunner")
	f := &facts{js: map[string]interface{}{}}

	sort.Slice(extractors, func(i, j int) bool { return extractors[i].name < extractors[j].name })
	imports := map[string]bool{}
	for _, e := range extractors {
		e.fn(p, f)
		for _, im := range e.imports {
			imports[im] = true
		}
	}

	var sb strings.Builder
	var ims []string
	for im := range imports {
		ims = append(ims, im)
	}
	sort.Strings(ims)
	for _, im := range ims {
		sb.WriteString("import " + im + "\n")
	}
	sb.WriteString("/- REGENERATED from the go-plugin source on every run by /verif/extract — do not edit. -/\n")
	sb.WriteString("namespace GoPlugin.Facts\n")
	for _, l := range f.lean {
		sb.WriteString(l + "\n")
	}
	sb.WriteString("end GoPlugin.Facts\n")
	for k := range p.lost {
		f.miss = append(f.miss, "normalize: "+k+" was analysed in place but a rule looks it up by name (add it to normAnchors)")
		fmt.Fprintln(os.Stderr, "extract: normalize: a rule looks up "+k+", which was analysed in place; add it to normAnchors")
	}
	sort.Strings(f.miss)
	f.js["_missing"] = f.miss
	f.js["_normalized"] = p.notes

	writeIfChanged(os.Args[2], sb.String())
	js, _ := json.MarshalIndent(f.js, "", " ")
	os.WriteFile(os.Args[3], append(js, '\n'), 0o644)
}

// extractors are registered from init() functions of the per-topic files.
type extractor struct {
	name    string
	imports []string // Lean modules the emitted definitions need
	fn      func(p *pkgs, f *facts)
}

var extractors []extractor

func registerExtractor(name string, imports []string, fn func(p *pkgs, f *facts)) {
	extractors = append(extractors, extractor{name, imports, fn})
}

func writeIfChanged(path, content string) {
	old, err := os.ReadFile(path)
	if err == nil && string(old) == content {
		return
	}
	if err := os.WriteFile(path, []byte(content), 0o644); err != nil {
		fmt.Fprintln(os.Stderr, "extract:", err)
		os.Exit(1)
	}
}
