package main

import (
	"fmt"
	"go/ast"
	"go/token"
	"regexp"
	"sort"
	"strconv"
	"strings"
)

func init() {
	registerExtractor("env", []string{"GoPlugin.Model.Env"}, extractEnv)
}

// extractEnv: facts of the environment construction in Client.Start (C17).
//
//	hostGuardedBySkip  os.Environ() is reached only from the body of
//	                   `if !c.config.SkipHostEnv { … }` in Client.Start
//	stripped           names that are filtered out of os.Environ() before it is
//	                   appended to cmd.Env; empty when the host environment is
//	                   appended as it is (`append(cmd.Env, os.Environ()...)`)
//
//	filterPerElement   the filter loop examines every entry of os.Environ()
//	                   exactly once and copies the kept ones into a fresh slice
//	                   (see perElementFilter for the accepted shape); false for
//	                   every other loop, e.g. an index loop deleting in place
//
// A filter is recognised when the guarded block does not pass os.Environ()
// straight to append but goes through code (inline, or package-level helpers
// up to two calls deep) that loops over the entries (`range` or a three-clause
// `for`); the stripped names are the environment-variable-shaped string
// constants that code refers to (literals, named constants, elements/keys of
// package-level slice/map literals).  The correspondence run (tie T-B) checks
// the model instantiated with exactly these names and this loop shape against
// the real code.
func extractEnv(p *pkgs, f *facts) {
	guarded := false
	var stripped []string
	filterShape := "none"
	perElement := false
	loopNote := "no filter loop"

	start := p.fn("Client", "Start")
	if start == nil {
		f.miss = append(f.miss, "Client.Start(env)")
	} else {
		var site *ast.BlockStmt
		ast.Inspect(start.Body, func(n ast.Node) bool {
			is, ok := n.(*ast.IfStmt)
			if !ok || is.Init != nil || site != nil {
				return true
			}
			if exprString(is.Cond) == "!c.config.SkipHostEnv" && is.Else == nil && reachesEnviron(p, is.Body, 2) {
				site = is.Body
				return false
			}
			return true
		})
		if site != nil {
			// any way to os.Environ() that does not pass through the guarded block?
			guarded = !reachesEnvironOutside(p, start.Body, site, 2)
		} else {
			// no SkipHostEnv guard of the recognised shape: the facts about the filter are
			// still taken from the top-level statements of Start that reach os.Environ()
			f.miss = append(f.miss, "Client.Start: if !c.config.SkipHostEnv { … os.Environ() … }")
			site = &ast.BlockStmt{}
			for _, st := range start.Body.List {
				if reachesEnviron(p, st, 2) {
					site.List = append(site.List, st)
				}
			}
		}
		switch {
		case len(site.List) == 0:
			filterShape = "none"
		case directAppendOfEnviron(site):
			filterShape = "unfiltered"
		default:
			names, hasRange := filterNames(p, site, 2)
			if hasRange {
				filterShape = "filter"
				stripped = names
				perElement, loopNote = perElementFilter(p, site, 2)
			} else {
				filterShape = "unrecognised"
				f.miss = append(f.miss, "Client.Start: host environment neither appended directly nor through a recognisable filter")
			}
		}
	}
	sort.Strings(stripped)
	var lits []string
	for _, s := range stripped {
		lits = append(lits, leanBytesOfString(s))
	}
	// configuredLast: every assignment to cmd.Env in Start EXTENDS it (`cmd.Env = append(cmd.Env, …)`: the caller's entries
	// stay in front), and the extension by the host environment (`hostEnviron()...`) precedes all the others in the source
	// stdinFromStart: `cmd.Stdin = os.Stdin` is a statement of Start's own body (unconditional) and the only assignment to it
	configuredLast, stdinFromStart := false, false
	if start != nil {
		var hostPos token.Pos = token.NoPos
		var others []token.Pos
		pure := true
		nStdin, topStdin := 0, 0
		ast.Inspect(start.Body, func(n ast.Node) bool {
			as, ok := n.(*ast.AssignStmt)
			if !ok {
				return true
			}
			for i, l := range as.Lhs {
				switch exprString(l) {
				case "cmd.Env":
					if i >= len(as.Rhs) {
						pure = false
						continue
					}
					ce, ok := as.Rhs[i].(*ast.CallExpr)
					if !ok || exprString(ce.Fun) != "append" || len(ce.Args) < 2 || exprString(ce.Args[0]) != "cmd.Env" {
						pure = false
						continue
					}
					if strings.HasPrefix(exprString(ce.Args[1]), "hostEnviron(") {
						hostPos = as.Pos()
					} else {
						others = append(others, as.Pos())
					}
				case "cmd.Stdin":
					nStdin++
				}
			}
			return true
		})
		for _, st := range start.Body.List {
			if as, ok := st.(*ast.AssignStmt); ok && len(as.Lhs) == 1 && len(as.Rhs) == 1 && exprString(as.Lhs[0]) == "cmd.Stdin" && exprString(as.Rhs[0]) == "os.Stdin" {
				topStdin++
			}
		}
		configuredLast = pure && len(others) >= 1
		for _, o := range others {
			if hostPos != token.NoPos && o < hostPos {
				configuredLast = false
			}
		}
		stdinFromStart = nStdin == 1 && topStdin == 1
	}
	f.lean = append(f.lean, fmt.Sprintf("def env : Env.Params := ⟨%s, [%s], %s, %s, %s⟩", leanBool(guarded), strings.Join(lits, ", "), leanBool(perElement), leanBool(configuredLast), leanBool(stdinFromStart)))
	has := map[string]bool{}
	for _, s := range stripped {
		has[s] = true
	}
	stripsAll := has["PLUGIN_MULTIPLEX_GRPC"] && has["PLUGIN_CLIENT_CERT"] && has["PLUGIN_UNIX_SOCKET_GROUP"] && has["PLUGIN_UNIX_SOCKET_DIR"]
	if stripped == nil {
		stripped = []string{}
	}
	f.set("env", map[string]interface{}{"hostGuardedBySkip": guarded, "stripped": stripped,
		"hostEnvShape": filterShape, "stripsInheritedControls": stripsAll,
		"filterPerElement": perElement, "filterLoop": loopNote, "configuredLast": configuredLast, "stdinFromStart": stdinFromStart})
}

// envLoop is one loop statement of the filter code together with the scope it
// lives in (the body of the helper function, or the guarded block itself).
type envLoop struct {
	stmt  ast.Stmt
	scope *ast.BlockStmt
	fn    *ast.FuncDecl // nil when the loop is inline in Client.Start
}

// envLoops collects every `range` / `for` statement of the code under n,
// following package-level helpers `depth` calls deep.
func envLoops(p *pkgs, n *ast.BlockStmt, depth int) []envLoop {
	var out []envLoop
	visited := map[*ast.FuncDecl]bool{}
	var walk func(scope *ast.BlockStmt, fn *ast.FuncDecl, depth int)
	walk = func(scope *ast.BlockStmt, fn *ast.FuncDecl, depth int) {
		ast.Inspect(scope, func(m ast.Node) bool {
			switch x := m.(type) {
			case *ast.RangeStmt:
				out = append(out, envLoop{x, scope, fn})
			case *ast.ForStmt:
				out = append(out, envLoop{x, scope, fn})
			case *ast.CallExpr:
				if depth > 0 {
					if fd := pkgFuncOf(p, x); fd != nil && fd.Body != nil && !visited[fd] {
						visited[fd] = true
						walk(fd.Body, fd, depth-1)
					}
				}
			}
			return true
		})
	}
	walk(n, nil, depth)
	return out
}

func isBlankOrNil(e ast.Expr) bool {
	if e == nil {
		return true
	}
	id, ok := e.(*ast.Ident)
	return ok && id.Name == "_"
}

// perElementFilter decides, syntactically and conservatively, whether the
// filter code is a per-element copy into a fresh slice:
//
//	src := os.Environ()                       (or the call itself as the range operand)
//	dst := make([]string, 0, …)               (or `var dst []string`, `dst := []string{}`)
//	for _, v := range src {                   exactly one loop in the filter code; no index variable
//	    … if <test> { continue } …            no break / goto / return / nested loop / func literal
//	    dst = append(dst, v)                  the only assignment to dst, src or v in the loop
//	}
//	return dst                                (every return of the helper)
//
// src must not be used anywhere else except as the argument of len/cap, so the
// slice that is walked is never modified, re-sliced or aliased by dst.
// Anything else — an index loop, slices.Delete on the walked slice, dst :=
// src[:0], several loops — yields false with a note saying why.
func perElementFilter(p *pkgs, site *ast.BlockStmt, depth int) (bool, string) {
	loops := envLoops(p, site, depth)
	if len(loops) != 1 {
		return false, fmt.Sprintf("%d loops in the filter code (want exactly one range loop)", len(loops))
	}
	lp := loops[0]
	rs, ok := lp.stmt.(*ast.RangeStmt)
	if !ok {
		return false, "the filter loop is a three-clause for statement (index loop), not a range over os.Environ()"
	}
	if !isBlankOrNil(rs.Key) {
		return false, "the range loop binds the index"
	}
	vid, ok := rs.Value.(*ast.Ident)
	if !ok || vid.Name == "_" || rs.Tok != token.DEFINE {
		return false, "the range loop does not bind the entry with :="
	}
	v := vid.Name
	// ---- the walked slice
	src := ""
	switch x := rs.X.(type) {
	case *ast.CallExpr:
		if !isEnvironCall(x) {
			return false, "range operand is a call other than os.Environ()"
		}
	case *ast.Ident:
		src = x.Name
	default:
		return false, "range operand is neither os.Environ() nor a variable"
	}
	if src != "" {
		defs, other := 0, 0
		parentLenArg := map[*ast.Ident]bool{}
		ast.Inspect(lp.scope, func(m ast.Node) bool {
			if c, ok := m.(*ast.CallExpr); ok && len(c.Args) == 1 {
				if fn, ok := c.Fun.(*ast.Ident); ok && (fn.Name == "len" || fn.Name == "cap") {
					if id, ok := c.Args[0].(*ast.Ident); ok {
						parentLenArg[id] = true
					}
				}
			}
			return true
		})
		var defLhs *ast.Ident
		ast.Inspect(lp.scope, func(m ast.Node) bool {
			if as, ok := m.(*ast.AssignStmt); ok && as.Tok == token.DEFINE && len(as.Lhs) == 1 && len(as.Rhs) == 1 {
				if id, ok := as.Lhs[0].(*ast.Ident); ok && id.Name == src && isEnvironCall(as.Rhs[0]) {
					defs++
					defLhs = id
				}
			}
			return true
		})
		ast.Inspect(lp.scope, func(m ast.Node) bool {
			if id, ok := m.(*ast.Ident); ok && id.Name == src && id != defLhs && ast.Node(id) != ast.Node(rs.X) && !parentLenArg[id] {
				other++
			}
			return true
		})
		if defs != 1 {
			return false, "the walked slice is not defined exactly once by `" + src + " := os.Environ()`"
		}
		if other != 0 {
			return false, "the walked slice `" + src + "` is used outside len/cap (modified, re-sliced, aliased or passed on)"
		}
	}
	// ---- the loop body
	dst := ""
	appends := 0
	bad := ""
	ast.Inspect(rs.Body, func(m ast.Node) bool {
		if bad != "" {
			return false
		}
		switch x := m.(type) {
		case *ast.BranchStmt:
			if x.Tok != token.CONTINUE || x.Label != nil {
				bad = "the loop body leaves the loop (" + x.Tok.String() + ")"
			}
		case *ast.ReturnStmt:
			bad = "the loop body returns"
		case *ast.FuncLit, *ast.GoStmt, *ast.DeferStmt:
			bad = "the loop body contains a func literal / go / defer"
		case *ast.IncDecStmt:
			bad = "the loop body increments or decrements a variable"
		case *ast.AssignStmt:
			if x.Tok == token.ASSIGN && len(x.Lhs) == 1 && len(x.Rhs) == 1 {
				if l, ok := x.Lhs[0].(*ast.Ident); ok {
					if c, ok := x.Rhs[0].(*ast.CallExpr); ok && exprString(c.Fun) == "append" && c.Ellipsis == token.NoPos &&
						len(c.Args) == 2 && exprString(c.Args[0]) == l.Name && exprString(c.Args[1]) == v {
						if dst != "" && dst != l.Name {
							bad = "the loop appends to two slices"
						}
						dst = l.Name
						appends++
						return true
					}
				}
			}
			for _, l := range x.Lhs {
				id, ok := l.(*ast.Ident)
				if !ok {
					bad = "the loop body assigns through an index or selector (" + exprString(l) + ")"
					return false
				}
				if x.Tok != token.DEFINE && id.Name != "_" {
					bad = "the loop body assigns to `" + id.Name + "` other than by dst = append(dst, entry)"
					return false
				}
				if id.Name == v || (src != "" && id.Name == src) {
					bad = "the loop body redefines `" + id.Name + "`"
					return false
				}
			}
		}
		return true
	})
	if bad != "" {
		return false, bad
	}
	if appends != 1 || dst == "" {
		return false, fmt.Sprintf("%d statements `dst = append(dst, %s)` in the loop (want exactly one)", appends, v)
	}
	if dst == src || dst == v {
		return false, "the loop appends to the slice it walks"
	}
	// ---- the destination is a fresh slice, assigned nowhere else
	fresh, otherAssign := 0, 0
	ast.Inspect(lp.scope, func(m ast.Node) bool {
		switch x := m.(type) {
		case *ast.AssignStmt:
			for i, l := range x.Lhs {
				id, ok := l.(*ast.Ident)
				if !ok || id.Name != dst {
					continue
				}
				if x.Pos() >= rs.Body.Pos() && x.End() <= rs.Body.End() {
					continue // the append inside the loop, checked above
				}
				if x.Tok == token.DEFINE && len(x.Lhs) == len(x.Rhs) && isFreshStringSlice(x.Rhs[i]) {
					fresh++
				} else {
					otherAssign++
				}
			}
		case *ast.DeclStmt:
			if gd, ok := x.Decl.(*ast.GenDecl); ok && gd.Tok == token.VAR {
				for _, sp := range gd.Specs {
					vs := sp.(*ast.ValueSpec)
					for i, n := range vs.Names {
						if n.Name != dst {
							continue
						}
						if len(vs.Values) == 0 && exprString2(vs.Type) == "[]string" {
							fresh++
						} else if i < len(vs.Values) && isFreshStringSlice(vs.Values[i]) {
							fresh++
						} else {
							otherAssign++
						}
					}
				}
			}
		}
		return true
	})
	if fresh != 1 || otherAssign != 0 {
		return false, "the destination `" + dst + "` is not a fresh []string assigned only by the append in the loop"
	}
	// ---- the helper returns the destination
	if lp.fn != nil {
		rets, good := 0, 0
		ast.Inspect(lp.fn.Body, func(m ast.Node) bool {
			if _, ok := m.(*ast.FuncLit); ok {
				return false
			}
			if r, ok := m.(*ast.ReturnStmt); ok {
				rets++
				if len(r.Results) == 1 && exprString(r.Results[0]) == dst {
					good++
				}
			}
			return true
		})
		if rets == 0 || rets != good {
			return false, "the helper does not return the destination slice on every path"
		}
	}
	return true, "range over os.Environ() appending the kept entries to the fresh slice `" + dst + "`"
}

// exprString2 renders a type expression ([]string) that exprString does not cover.
func exprString2(e ast.Expr) string {
	if at, ok := e.(*ast.ArrayType); ok && at.Len == nil {
		return "[]" + exprString2(at.Elt)
	}
	if e == nil {
		return ""
	}
	return exprString(e)
}

// isFreshStringSlice: make([]string, 0[, n]) | []string{} | []string(nil) | nil
func isFreshStringSlice(e ast.Expr) bool {
	switch x := e.(type) {
	case *ast.CallExpr:
		if id, ok := x.Fun.(*ast.Ident); ok && id.Name == "make" && (len(x.Args) == 2 || len(x.Args) == 3) {
			if exprString2(x.Args[0]) != "[]string" {
				return false
			}
			bl, ok := x.Args[1].(*ast.BasicLit)
			return ok && bl.Value == "0"
		}
		if exprString2(x.Fun) == "[]string" && len(x.Args) == 1 && exprString(x.Args[0]) == "nil" {
			return true
		}
	case *ast.CompositeLit:
		return exprString2(x.Type) == "[]string" && len(x.Elts) == 0
	}
	return false
}

// leanBytesOfString renders a Go string as a Lean `List UInt8` literal.
func leanBytesOfString(s string) string {
	var bs []string
	for i := 0; i < len(s); i++ {
		bs = append(bs, strconv.Itoa(int(s[i])))
	}
	return "[" + strings.Join(bs, ", ") + "]"
}

func isEnvironCall(n ast.Node) bool {
	c, ok := n.(*ast.CallExpr)
	return ok && exprString(c.Fun) == "os.Environ" && len(c.Args) == 0
}

// pkgFuncOf resolves the callee of a call to a package-level function or a
// method of *Client (helpers a refactor would introduce); nil otherwise.
func pkgFuncOf(p *pkgs, c *ast.CallExpr) *ast.FuncDecl {
	switch fn := c.Fun.(type) {
	case *ast.Ident:
		return p.fn("", fn.Name)
	case *ast.SelectorExpr:
		if id, ok := fn.X.(*ast.Ident); ok && id.Name == "c" {
			return p.fn("Client", fn.Sel.Name)
		}
	}
	return nil
}

func reachesEnviron(p *pkgs, n ast.Node, depth int) bool {
	found := false
	ast.Inspect(n, func(m ast.Node) bool {
		if found {
			return false
		}
		if isEnvironCall(m) {
			found = true
			return false
		}
		if c, ok := m.(*ast.CallExpr); ok && depth > 0 {
			if fd := pkgFuncOf(p, c); fd != nil && fd.Body != nil && reachesEnviron(p, fd.Body, depth-1) {
				found = true
				return false
			}
		}
		return true
	})
	return found
}

// reachesEnvironOutside: like reachesEnviron over body, but skipping the subtree `skip`.
func reachesEnvironOutside(p *pkgs, body ast.Node, skip ast.Node, depth int) bool {
	found := false
	ast.Inspect(body, func(m ast.Node) bool {
		if found || m == skip {
			return false
		}
		if isEnvironCall(m) {
			found = true
			return false
		}
		if c, ok := m.(*ast.CallExpr); ok && depth > 0 {
			if fd := pkgFuncOf(p, c); fd != nil && fd.Body != nil && reachesEnviron(p, fd.Body, depth-1) {
				found = true
				return false
			}
		}
		return true
	})
	return found
}

// directAppendOfEnviron: the block contains `append(<x>, os.Environ()...)`.
func directAppendOfEnviron(b *ast.BlockStmt) bool {
	found := false
	ast.Inspect(b, func(m ast.Node) bool {
		c, ok := m.(*ast.CallExpr)
		if !ok {
			return true
		}
		if id, ok := c.Fun.(*ast.Ident); ok && id.Name == "append" && c.Ellipsis != token.NoPos && len(c.Args) == 2 && isEnvironCall(c.Args[1]) {
			found = true
		}
		return true
	})
	return found
}

var envNameRe = regexp.MustCompile(`^[A-Za-z_][A-Za-z0-9_]*$`)

// filterNames collects the environment-variable-shaped string constants the
// code under n refers to (following package-level helpers `depth` calls deep),
// and reports whether that code loops over something (the filter loop: a
// `range` or a three-clause `for`).
func filterNames(p *pkgs, n ast.Node, depth int) ([]string, bool) {
	seen := map[string]bool{}
	hasRange := false
	visitedFn := map[*ast.FuncDecl]bool{}
	var walk func(n ast.Node, depth int)
	add := func(s string) {
		if envNameRe.MatchString(s) {
			seen[s] = true
		}
	}
	addExpr := func(e ast.Expr) {
		switch x := e.(type) {
		case *ast.BasicLit:
			if x.Kind == token.STRING {
				if s, err := strconv.Unquote(x.Value); err == nil {
					add(s)
				}
			}
		case *ast.Ident:
			if s, ok := constStr(p, x.Name); ok {
				add(s)
			}
		}
	}
	walk = func(n ast.Node, depth int) {
		ast.Inspect(n, func(m ast.Node) bool {
			switch x := m.(type) {
			case *ast.RangeStmt, *ast.ForStmt:
				hasRange = true
			case *ast.BasicLit:
				addExpr(x)
			case *ast.Ident:
				if s, ok := constStr(p, x.Name); ok {
					add(s)
				} else if lit := pkgVarLit(p, x.Name); lit != nil {
					for _, el := range lit.Elts {
						if kv, ok := el.(*ast.KeyValueExpr); ok {
							addExpr(kv.Key)
							addExpr(kv.Value)
						} else {
							addExpr(el)
						}
					}
				}
			case *ast.CallExpr:
				if depth > 0 {
					if fd := pkgFuncOf(p, x); fd != nil && fd.Body != nil && !visitedFn[fd] {
						visitedFn[fd] = true
						walk(fd.Body, depth-1)
					}
				}
			}
			return true
		})
	}
	walk(n, depth)
	var out []string
	for s := range seen {
		out = append(out, s)
	}
	sort.Strings(out)
	return out, hasRange
}

// constStr resolves a package-level string constant by name.
func constStr(p *pkgs, name string) (string, bool) {
	for _, f := range p.files {
		for _, d := range f.Decls {
			gd, ok := d.(*ast.GenDecl)
			if !ok || gd.Tok != token.CONST {
				continue
			}
			for _, s := range gd.Specs {
				vs := s.(*ast.ValueSpec)
				for i, n := range vs.Names {
					if n.Name == name && i < len(vs.Values) {
						if bl, ok := vs.Values[i].(*ast.BasicLit); ok && bl.Kind == token.STRING {
							if v, err := strconv.Unquote(bl.Value); err == nil {
								return v, true
							}
						}
					}
				}
			}
		}
	}
	return "", false
}

// pkgVarLit returns the composite literal a package-level variable is initialised with.
func pkgVarLit(p *pkgs, name string) *ast.CompositeLit {
	for _, f := range p.files {
		for _, d := range f.Decls {
			gd, ok := d.(*ast.GenDecl)
			if !ok || gd.Tok != token.VAR {
				continue
			}
			for _, s := range gd.Specs {
				vs := s.(*ast.ValueSpec)
				for i, n := range vs.Names {
					if n.Name == name && i < len(vs.Values) {
						if cl, ok := vs.Values[i].(*ast.CompositeLit); ok {
							return cl
						}
					}
				}
			}
		}
	}
	return nil
}
