package main

import (
	"fmt"
	"go/ast"
	"go/token"
	"regexp"
	"sort"
	"strconv"
	"strings"
)

func init() {
	registerExtractor("env", []string{"GoPlugin.Model.Env"}, extractEnv)
}

// extractEnv: facts of the environment construction in Client.Start (C17).
//
//	hostGuardedBySkip  os.Environ() is reached only from the body of
//	                   `if !c.config.SkipHostEnv { … }` in Client.Start
//	stripped           names that are filtered out of os.Environ() before it is
//	                   appended to cmd.Env; empty when the host environment is
//	                   appended as it is (`append(cmd.Env, os.Environ()...)`)
//
// A filter is recognised when the guarded block does not pass os.Environ()
// straight to append but goes through code (inline, or package-level helpers
// up to two calls deep) that ranges over the entries; the stripped names are
// the environment-variable-shaped string constants that code refers to
// (literals, named constants, elements/keys of package-level slice/map
// literals).  The correspondence run (tie T-B) checks the model instantiated
// with exactly these names against the real code.
func extractEnv(p *pkgs, f *facts) {
	guarded := false
	var stripped []string
	filterShape := "none"

	start := p.fn("Client", "Start")
	if start == nil {
		f.miss = append(f.miss, "Client.Start(env)")
	} else {
		var site *ast.BlockStmt
		ast.Inspect(start.Body, func(n ast.Node) bool {
			is, ok := n.(*ast.IfStmt)
			if !ok || is.Init != nil || site != nil {
				return true
			}
			if exprString(is.Cond) == "!c.config.SkipHostEnv" && is.Else == nil && reachesEnviron(p, is.Body, 2) {
				site = is.Body
				return false
			}
			return true
		})
		if site != nil {
			// any way to os.Environ() that does not pass through the guarded block?
			guarded = !reachesEnvironOutside(p, start.Body, site, 2)
		} else {
			// no SkipHostEnv guard of the recognised shape: the facts about the filter are
			// still taken from the top-level statements of Start that reach os.Environ()
			f.miss = append(f.miss, "Client.Start: if !c.config.SkipHostEnv { … os.Environ() … }")
			site = &ast.BlockStmt{}
			for _, st := range start.Body.List {
				if reachesEnviron(p, st, 2) {
					site.List = append(site.List, st)
				}
			}
		}
		switch {
		case len(site.List) == 0:
			filterShape = "none"
		case directAppendOfEnviron(site):
			filterShape = "unfiltered"
		default:
			names, hasRange := filterNames(p, site, 2)
			if hasRange {
				filterShape = "filter"
				stripped = names
			} else {
				filterShape = "unrecognised"
				f.miss = append(f.miss, "Client.Start: host environment neither appended directly nor through a recognisable filter")
			}
		}
	}
	sort.Strings(stripped)
	var lits []string
	for _, s := range stripped {
		lits = append(lits, leanBytesOfString(s))
	}
	f.lean = append(f.lean, fmt.Sprintf("def env : Env.Params := ⟨%s, [%s]⟩", leanBool(guarded), strings.Join(lits, ", ")))
	has := map[string]bool{}
	for _, s := range stripped {
		has[s] = true
	}
	stripsAll := has["PLUGIN_MULTIPLEX_GRPC"] && has["PLUGIN_CLIENT_CERT"] && has["PLUGIN_UNIX_SOCKET_GROUP"] && has["PLUGIN_UNIX_SOCKET_DIR"]
	if stripped == nil {
		stripped = []string{}
	}
	f.set("env", map[string]interface{}{"hostGuardedBySkip": guarded, "stripped": stripped,
		"hostEnvShape": filterShape, "stripsInheritedControls": stripsAll})
}

// leanBytesOfString renders a Go string as a Lean `List UInt8` literal.
func leanBytesOfString(s string) string {
	var bs []string
	for i := 0; i < len(s); i++ {
		bs = append(bs, strconv.Itoa(int(s[i])))
	}
	return "[" + strings.Join(bs, ", ") + "]"
}

func isEnvironCall(n ast.Node) bool {
	c, ok := n.(*ast.CallExpr)
	return ok && exprString(c.Fun) == "os.Environ" && len(c.Args) == 0
}

// pkgFuncOf resolves the callee of a call to a package-level function or a
// method of *Client (helpers a refactor would introduce); nil otherwise.
func pkgFuncOf(p *pkgs, c *ast.CallExpr) *ast.FuncDecl {
	switch fn := c.Fun.(type) {
	case *ast.Ident:
		return p.fn("", fn.Name)
	case *ast.SelectorExpr:
		if id, ok := fn.X.(*ast.Ident); ok && id.Name == "c" {
			return p.fn("Client", fn.Sel.Name)
		}
	}
	return nil
}

func reachesEnviron(p *pkgs, n ast.Node, depth int) bool {
	found := false
	ast.Inspect(n, func(m ast.Node) bool {
		if found {
			return false
		}
		if isEnvironCall(m) {
			found = true
			return false
		}
		if c, ok := m.(*ast.CallExpr); ok && depth > 0 {
			if fd := pkgFuncOf(p, c); fd != nil && fd.Body != nil && reachesEnviron(p, fd.Body, depth-1) {
				found = true
				return false
			}
		}
		return true
	})
	return found
}

// reachesEnvironOutside: like reachesEnviron over body, but skipping the subtree `skip`.
func reachesEnvironOutside(p *pkgs, body ast.Node, skip ast.Node, depth int) bool {
	found := false
	ast.Inspect(body, func(m ast.Node) bool {
		if found || m == skip {
			return false
		}
		if isEnvironCall(m) {
			found = true
			return false
		}
		if c, ok := m.(*ast.CallExpr); ok && depth > 0 {
			if fd := pkgFuncOf(p, c); fd != nil && fd.Body != nil && reachesEnviron(p, fd.Body, depth-1) {
				found = true
				return false
			}
		}
		return true
	})
	return found
}

// directAppendOfEnviron: the block contains `append(<x>, os.Environ()...)`.
func directAppendOfEnviron(b *ast.BlockStmt) bool {
	found := false
	ast.Inspect(b, func(m ast.Node) bool {
		c, ok := m.(*ast.CallExpr)
		if !ok {
			return true
		}
		if id, ok := c.Fun.(*ast.Ident); ok && id.Name == "append" && c.Ellipsis != token.NoPos && len(c.Args) == 2 && isEnvironCall(c.Args[1]) {
			found = true
		}
		return true
	})
	return found
}

var envNameRe = regexp.MustCompile(`^[A-Za-z_][A-Za-z0-9_]*$`)

// filterNames collects the environment-variable-shaped string constants the
// code under n refers to (following package-level helpers `depth` calls deep),
// and reports whether that code ranges over something (the filter loop).
func filterNames(p *pkgs, n ast.Node, depth int) ([]string, bool) {
	seen := map[string]bool{}
	hasRange := false
	visitedFn := map[*ast.FuncDecl]bool{}
	var walk func(n ast.Node, depth int)
	add := func(s string) {
		if envNameRe.MatchString(s) {
			seen[s] = true
		}
	}
	addExpr := func(e ast.Expr) {
		switch x := e.(type) {
		case *ast.BasicLit:
			if x.Kind == token.STRING {
				if s, err := strconv.Unquote(x.Value); err == nil {
					add(s)
				}
			}
		case *ast.Ident:
			if s, ok := constStr(p, x.Name); ok {
				add(s)
			}
		}
	}
	walk = func(n ast.Node, depth int) {
		ast.Inspect(n, func(m ast.Node) bool {
			switch x := m.(type) {
			case *ast.RangeStmt:
				hasRange = true
			case *ast.BasicLit:
				addExpr(x)
			case *ast.Ident:
				if s, ok := constStr(p, x.Name); ok {
					add(s)
				} else if lit := pkgVarLit(p, x.Name); lit != nil {
					for _, el := range lit.Elts {
						if kv, ok := el.(*ast.KeyValueExpr); ok {
							addExpr(kv.Key)
							addExpr(kv.Value)
						} else {
							addExpr(el)
						}
					}
				}
			case *ast.CallExpr:
				if depth > 0 {
					if fd := pkgFuncOf(p, x); fd != nil && fd.Body != nil && !visitedFn[fd] {
						visitedFn[fd] = true
						walk(fd.Body, depth-1)
					}
				}
			}
			return true
		})
	}
	walk(n, depth)
	var out []string
	for s := range seen {
		out = append(out, s)
	}
	sort.Strings(out)
	return out, hasRange
}

// constStr resolves a package-level string constant by name.
func constStr(p *pkgs, name string) (string, bool) {
	for _, f := range p.files {
		for _, d := range f.Decls {
			gd, ok := d.(*ast.GenDecl)
			if !ok || gd.Tok != token.CONST {
				continue
			}
			for _, s := range gd.Specs {
				vs := s.(*ast.ValueSpec)
				for i, n := range vs.Names {
					if n.Name == name && i < len(vs.Values) {
						if bl, ok := vs.Values[i].(*ast.BasicLit); ok && bl.Kind == token.STRING {
							if v, err := strconv.Unquote(bl.Value); err == nil {
								return v, true
							}
						}
					}
				}
			}
		}
	}
	return "", false
}

// pkgVarLit returns the composite literal a package-level variable is initialised with.
func pkgVarLit(p *pkgs, name string) *ast.CompositeLit {
	for _, f := range p.files {
		for _, d := range f.Decls {
			gd, ok := d.(*ast.GenDecl)
			if !ok || gd.Tok != token.VAR {
				continue
			}
			for _, s := range gd.Specs {
				vs := s.(*ast.ValueSpec)
				for i, n := range vs.Names {
					if n.Name == name && i < len(vs.Values) {
						if cl, ok := vs.Values[i].(*ast.CompositeLit); ok {
							return cl
						}
					}
				}
			}
		}
	}
	return nil
}
