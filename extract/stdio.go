package main

// Facts of the stdout/stderr syncing path (C11), Model/Stdio.lean `Params`.
//
// Everything is traced by data flow through names, never by line number:
//
//   os.Stdout = W  ·  R, W := os.Pipe()  ·  &GRPCServer{Stdout: R}  ·  newGRPCStdioServer(_, s.Stdout, _)
//   ·  go copyChan(_, CH, srcParam)  ·  &grpcStdioServer{field: CH}  ·  case data.Data = <-s.field: data.Channel = TAG
//
// gives "the tag put on bytes written to os.Stdout"; the same for os.Stderr,
// for the host's switch (tag -> Run parameter -> ClientConfig.SyncStdxxx at the
// call site), and for the two yamux streams of the net/rpc path.  A link that
// cannot be found yields the "unknown" value (.invalid / .drop / 99 / 98),
// which makes Instance/C11.lean fail.

import (
	"fmt"
	"go/ast"
	"go/token"
	"strings"
)

func init() {
	registerExtractor("stdio", []string{"GoPlugin.Model.Stdio", "GoPlugin.Model.StdioConn"}, extractStdio)
}

const (
	unkSrv = 99
	unkCli = 98
)

// paramNames lists the parameter names of a function in order.
func paramNames(fd *ast.FuncDecl) []string {
	var ns []string
	if fd == nil || fd.Type.Params == nil {
		return ns
	}
	for _, f := range fd.Type.Params.List {
		if len(f.Names) == 0 {
			ns = append(ns, "_")
		}
		for _, n := range f.Names {
			ns = append(ns, n.Name)
		}
	}
	return ns
}

func indexOf(xs []string, x string) int {
	for i, y := range xs {
		if y == x {
			return i
		}
	}
	return -1
}

// stdName maps "Stdout"/"os.Stdout"/"c.config.SyncStdout" style suffixes to out/err.
func stdName(s string) string {
	switch {
	case strings.HasSuffix(s, "Stdout"):
		return "out"
	case strings.HasSuffix(s, "Stderr"):
		return "err"
	}
	return ""
}

// calls returns every call expression below n whose function renders as name
// (or ends in "."+name when method is true).
func calls(n ast.Node, name string, method bool) []*ast.CallExpr {
	var out []*ast.CallExpr
	if n == nil {
		return out
	}
	ast.Inspect(n, func(m ast.Node) bool {
		if c, ok := m.(*ast.CallExpr); ok {
			f := exprString(c.Fun)
			if f == name || (method && strings.HasSuffix(f, "."+name)) {
				out = append(out, c)
			}
		}
		return true
	})
	return out
}

// literalFields returns field -> rendered value for every composite literal of type typ below n
// (several literals: a field must agree in all of them, else it is dropped).
func literalFields(n ast.Node, typ string) map[string]string {
	res := map[string]string{}
	bad := map[string]bool{}
	if n == nil {
		return res
	}
	ast.Inspect(n, func(m ast.Node) bool {
		cl, ok := m.(*ast.CompositeLit)
		if !ok || cl.Type == nil || exprString(cl.Type) != typ {
			return true
		}
		for _, e := range cl.Elts {
			kv, ok := e.(*ast.KeyValueExpr)
			if !ok {
				continue
			}
			k, v := exprString(kv.Key), exprString(kv.Value)
			if old, seen := res[k]; seen && old != v {
				bad[k] = true
			}
			res[k] = v
		}
		return true
	})
	for k := range bad {
		delete(res, k)
	}
	return res
}

// serveFieldStreams: which process stream ("out"/"err") the reader stored in
// <typ>{Stdout: …, Stderr: …} by Serve carries: field -> out|err.
func serveFieldStreams(p *pkgs, typ string) map[string]string {
	res := map[string]string{}
	serve := p.fn("", "Serve")
	if serve == nil {
		return res
	}
	// R, W, err := os.Pipe()
	readerOfWriter := map[string]string{}
	ast.Inspect(serve.Body, func(m ast.Node) bool {
		as, ok := m.(*ast.AssignStmt)
		if !ok || len(as.Rhs) != 1 || len(as.Lhs) < 2 {
			return true
		}
		if c, ok := as.Rhs[0].(*ast.CallExpr); ok && exprString(c.Fun) == "os.Pipe" {
			readerOfWriter[exprString(as.Lhs[1])] = exprString(as.Lhs[0])
		}
		return true
	})
	// os.Stdout = W   (the last assignment in source order that is not a restore inside a func literal)
	streamOfReader := map[string]string{}
	var walk func(n ast.Node)
	walk = func(n ast.Node) {
		ast.Inspect(n, func(m ast.Node) bool {
			if _, ok := m.(*ast.FuncLit); ok {
				return false
			}
			as, ok := m.(*ast.AssignStmt)
			if !ok || as.Tok != token.ASSIGN || len(as.Lhs) != 1 || len(as.Rhs) != 1 {
				return true
			}
			l := exprString(as.Lhs[0])
			if l == "os.Stdout" || l == "os.Stderr" {
				if r, ok := readerOfWriter[exprString(as.Rhs[0])]; ok {
					if prev, seen := streamOfReader[r]; seen && prev != stdName(l) {
						streamOfReader[r] = "both"
					} else {
						streamOfReader[r] = stdName(l)
					}
				}
			}
			return true
		})
	}
	walk(serve.Body)
	for field, v := range literalFields(serve.Body, typ) {
		if s, ok := streamOfReader[v]; ok && (s == "out" || s == "err") {
			res[field] = s
		}
	}
	return res
}

func leanChan(tag string) string {
	switch tag {
	case "STDOUT":
		return ".stdout"
	case "STDERR":
		return ".stderr"
	}
	return ".invalid"
}

func leanSink(s string) string {
	switch s {
	case "out":
		return ".out"
	case "err":
		return ".err"
	}
	return ".drop"
}

func extractStdio(p *pkgs, f *facts) {
	js := map[string]interface{}{}

	// ------------------------------------------------------------ copyChan
	chunk := int64(0)
	sendsExact := false
	if cc := p.fn("", "copyChan"); cc != nil {
		ps := paramNames(cc)
		var dst, src string
		if len(ps) == 3 {
			dst, src = ps[1], ps[2]
		}
		reader, arr, nVar := "", "", ""
		readsFull := false
		nAssigns := 0
		var sends []*ast.SendStmt
		ast.Inspect(cc.Body, func(m ast.Node) bool {
			switch x := m.(type) {
			case *ast.AssignStmt:
				if len(x.Rhs) == 1 {
					if c, ok := x.Rhs[0].(*ast.CallExpr); ok {
						fn := exprString(c.Fun)
						if fn == "bufio.NewReader" && len(c.Args) == 1 && exprString(c.Args[0]) == src && len(x.Lhs) == 1 {
							reader = exprString(x.Lhs[0])
						}
						if reader != "" && fn == reader+".Read" && len(c.Args) == 1 && len(x.Lhs) == 2 {
							if se, ok := c.Args[0].(*ast.SliceExpr); ok && se.Low == nil && se.High == nil && !se.Slice3 {
								if exprString(se.X) == arr && arr != "" {
									readsFull = true
								}
							}
							nVar = exprString(x.Lhs[0])
						}
					}
				}
				for _, l := range x.Lhs {
					if nVar != "" && exprString(l) == nVar {
						nAssigns++
					}
				}
			case *ast.IncDecStmt:
				if nVar != "" && exprString(x.X) == nVar {
					nAssigns++
				}
			case *ast.DeclStmt:
				if gd, ok := x.Decl.(*ast.GenDecl); ok && gd.Tok == token.VAR {
					for _, s := range gd.Specs {
						vs := s.(*ast.ValueSpec)
						if at, ok := vs.Type.(*ast.ArrayType); ok && at.Len != nil && len(vs.Names) == 1 {
							if v, ok := p.evalInt(at.Len); ok {
								arr, chunk = vs.Names[0].Name, v
							}
						}
					}
				}
			case *ast.SendStmt:
				sends = append(sends, x)
			}
			return true
		})
		// the one send: inside `if n > 0`, value data[:n]
		guarded := false
		ast.Inspect(cc.Body, func(m ast.Node) bool {
			is, ok := m.(*ast.IfStmt)
			if !ok || is.Init != nil {
				return true
			}
			c := exprString(is.Cond)
			if nVar != "" && (c == nVar+">0" || c == "0<"+nVar || c == nVar+">=1" || c == nVar+"!=0") && len(is.Body.List) == 1 {
				if s, ok := is.Body.List[0].(*ast.SendStmt); ok && len(sends) == 1 && s == sends[0] {
					guarded = true
				}
			}
			return true
		})
		if len(sends) == 1 && guarded && readsFull && nAssigns == 1 && exprString(sends[0].Chan) == dst {
			if se, ok := sends[0].Value.(*ast.SliceExpr); ok && !se.Slice3 && exprString(se.X) == arr &&
				(se.Low == nil || exprString(se.Low) == "0") && se.High != nil && exprString(se.High) == nVar {
				sendsExact = true
			}
		}
		if !readsFull {
			chunk = 0
		}
		js["copyChan"] = map[string]interface{}{"array": arr, "chunk": chunk, "reader": reader, "readsFullArray": readsFull,
			"sends": len(sends), "guarded": guarded, "nAssigned": nAssigns}
	} else {
		f.miss = append(f.miss, "copyChan")
	}

	// ------------------------------------------------------------ server side of gRPC stdio
	// stream ("out"/"err") -> channel field of grpcStdioServer
	fieldOfStream := map[string]string{}
	gsrvFields := serveFieldStreams(p, "GRPCServer") // Stdout -> out …
	if ctor := p.fn("", "newGRPCStdioServer"); ctor != nil {
		ps := paramNames(ctor)
		// which process stream each parameter carries, via GRPCServer.init's call
		paramStream := map[string]string{}
		if ini := p.fn("GRPCServer", "Init"); ini != nil {
			for _, c := range calls(ini.Body, "newGRPCStdioServer", false) {
				for i, a := range c.Args {
					as := exprString(a)
					if j := strings.LastIndex(as, "."); j >= 0 && i < len(ps) {
						if s, ok := gsrvFields[as[j+1:]]; ok {
							paramStream[ps[i]] = s
						}
					}
				}
			}
		} else {
			f.miss = append(f.miss, "GRPCServer.Init")
		}
		chanStream := map[string]string{} // local channel var -> stream
		for _, c := range calls(ctor.Body, "copyChan", false) {
			if len(c.Args) == 3 {
				if s, ok := paramStream[exprString(c.Args[2])]; ok {
					ch := exprString(c.Args[1])
					if _, dup := chanStream[ch]; dup {
						chanStream[ch] = "both"
					} else {
						chanStream[ch] = s
					}
				}
			}
		}
		for field, v := range literalFields(ctor.Body, "grpcStdioServer") {
			if s, ok := chanStream[v]; ok && s != "both" {
				if _, dup := fieldOfStream[s]; dup {
					fieldOfStream[s] = "?"
				} else {
					fieldOfStream[s] = field
				}
			}
		}
	} else {
		f.miss = append(f.miss, "newGRPCStdioServer")
	}
	tagOf := map[string]string{} // channel field -> tag assigned in its select arm
	skipOnlyEmpty := false
	if ss := p.fn("grpcStdioServer", "StreamStdio"); ss != nil && len(ss.Recv.List[0].Names) == 1 {
		recv := ss.Recv.List[0].Names[0].Name
		dataExpr := ""
		ast.Inspect(ss.Body, func(m ast.Node) bool {
			cc, ok := m.(*ast.CommClause)
			if !ok || cc.Comm == nil {
				return true
			}
			as, ok := cc.Comm.(*ast.AssignStmt)
			if !ok || len(as.Lhs) != 1 || len(as.Rhs) != 1 {
				return true
			}
			ue, ok := as.Rhs[0].(*ast.UnaryExpr)
			if !ok || ue.Op != token.ARROW {
				return true
			}
			src := exprString(ue.X)
			if !strings.HasPrefix(src, recv+".") {
				return true
			}
			field := src[len(recv)+1:]
			lhs := exprString(as.Lhs[0]) // data.Data
			dataExpr = lhs
			base := lhs
			if j := strings.LastIndex(lhs, "."); j >= 0 {
				base = lhs[:j]
			}
			tag, n := "", 0
			for _, s := range cc.Body {
				ast.Inspect(s, func(k ast.Node) bool {
					if a, ok := k.(*ast.AssignStmt); ok && len(a.Lhs) == 1 && len(a.Rhs) == 1 && exprString(a.Lhs[0]) == base+".Channel" {
						r := exprString(a.Rhs[0])
						if j := strings.LastIndex(r, "StdioData_"); j >= 0 {
							tag = r[j+len("StdioData_"):]
						} else {
							tag = "?"
						}
						n++
					}
					return true
				})
			}
			if n == 1 {
				tagOf[field] = tag
			} else {
				tagOf[field] = "?"
			}
			return true
		})
		// every `if … { continue }` in the handler must be the len(data.Data)==0 test
		skipOnlyEmpty = dataExpr != ""
		ast.Inspect(ss.Body, func(m ast.Node) bool {
			is, ok := m.(*ast.IfStmt)
			if !ok {
				return true
			}
			hasContinue := false
			ast.Inspect(is.Body, func(k ast.Node) bool {
				if b, ok := k.(*ast.BranchStmt); ok && b.Tok == token.CONTINUE {
					hasContinue = true
				}
				return true
			})
			if !hasContinue {
				return true
			}
			c := exprString(is.Cond)
			l := "len(" + dataExpr + ")"
			if !(is.Init == nil && is.Else == nil && (c == l+"==0" || c == "0=="+l || c == l+"<1" || c == l+"<=0")) {
				skipOnlyEmpty = false
			}
			return true
		})
	} else {
		f.miss = append(f.miss, "grpcStdioServer.StreamStdio")
	}
	tagStdout := leanChan(tagOf[fieldOfStream["out"]])
	tagStderr := leanChan(tagOf[fieldOfStream["err"]])
	js["server"] = map[string]interface{}{"GRPCServerFields": gsrvFields, "channelFieldOfStream": fieldOfStream, "tagOfChannelField": tagOf,
		"skipOnlyEmpty": skipOnlyEmpty}

	// ------------------------------------------------------------ host side of gRPC stdio
	sinkOfTag := map[string]string{}
	if run := p.fn("grpcStdioClient", "Run"); run != nil {
		ps := paramNames(run)
		// which ClientConfig writer each parameter receives, via the call in newGRPCClient
		paramSink := map[string]string{}
		if ngc := p.fn("", "newGRPCClient"); ngc != nil {
			for _, c := range calls(ngc.Body, "Run", true) {
				if len(c.Args) != len(ps) {
					continue
				}
				for i, a := range c.Args {
					as := exprString(a)
					if strings.HasSuffix(as, "config.SyncStdout") || strings.HasSuffix(as, "config.SyncStderr") {
						paramSink[ps[i]] = stdName(as)
					}
				}
			}
		} else {
			f.miss = append(f.miss, "newGRPCClient")
		}
		wVar := ""
		tagWriter := map[string]string{}
		dataVar := ""
		ast.Inspect(run.Body, func(m ast.Node) bool {
			sw, ok := m.(*ast.SwitchStmt)
			if !ok || sw.Tag == nil || !strings.HasSuffix(exprString(sw.Tag), ".Channel") {
				return true
			}
			t := exprString(sw.Tag)
			dataVar = t[:len(t)-len(".Channel")]
			for _, s := range sw.Body.List {
				cc := s.(*ast.CaseClause)
				for _, e := range cc.List {
					r := exprString(e)
					j := strings.LastIndex(r, "StdioData_")
					if j < 0 {
						continue
					}
					tag := r[j+len("StdioData_"):]
					if len(cc.Body) == 1 {
						if a, ok := cc.Body[0].(*ast.AssignStmt); ok && len(a.Lhs) == 1 && len(a.Rhs) == 1 {
							wVar = exprString(a.Lhs[0])
							tagWriter[tag] = exprString(a.Rhs[0])
							continue
						}
					}
					tagWriter[tag] = "?"
				}
			}
			return false
		})
		// the whole message is written to the chosen writer: io.Copy(w, bytes.NewReader(data.Data)) or w.Write(data.Data)
		writesAll := false
		if wVar != "" {
			for _, c := range calls(run.Body, "io.Copy", false) {
				if len(c.Args) == 2 && exprString(c.Args[0]) == wVar && exprString(c.Args[1]) == "bytes.NewReader("+dataVar+".Data)" {
					writesAll = true
				}
			}
			for _, c := range calls(run.Body, wVar+".Write", false) {
				if len(c.Args) == 1 && exprString(c.Args[0]) == dataVar+".Data" {
					writesAll = true
				}
			}
		}
		for tag, w := range tagWriter {
			if s, ok := paramSink[w]; ok && writesAll {
				sinkOfTag[tag] = s
			}
		}
		js["client"] = map[string]interface{}{"writerOfTag": tagWriter, "configWriterOfParam": paramSink, "writesWholeMessage": writesAll}
	} else {
		f.miss = append(f.miss, "grpcStdioClient.Run")
	}

	// ------------------------------------------------------------ net/rpc
	// copyStream(name, dst, src) really copies src to dst
	copyOK := false
	if cs := p.fn("", "copyStream"); cs != nil {
		ps := paramNames(cs)
		if len(ps) == 3 {
			for _, c := range calls(cs.Body, "io.Copy", false) {
				if len(c.Args) == 2 && exprString(c.Args[0]) == ps[1] && exprString(c.Args[1]) == ps[2] {
					copyOK = true
				}
			}
		}
	} else {
		f.miss = append(f.miss, "copyStream")
	}
	// streamsInOrder: `X, err := M.<op>()` (control) followed by `for i := range S { S[i], err = M.<op>() }`,
	// M being the one variable that holds the yamux session (`M, err := yamux.<ctor>(…)`), whatever its name
	orderOK := func(fd *ast.FuncDecl, ctor, op string) (string, bool) {
		if fd == nil {
			return "", false
		}
		mux := ""
		nSess := 0
		ast.Inspect(fd.Body, func(m ast.Node) bool {
			if as, ok := m.(*ast.AssignStmt); ok && len(as.Rhs) == 1 && len(as.Lhs) >= 1 {
				if c, ok := as.Rhs[0].(*ast.CallExpr); ok && exprString(c.Fun) == "yamux."+ctor {
					if id, ok := as.Lhs[0].(*ast.Ident); ok {
						mux = id.Name
						nSess++
					}
				}
			}
			return true
		})
		if nSess != 1 || mux == "_" {
			return "", false
		}
		first := token.NoPos
		loopPos := token.NoPos
		slice := ""
		nCalls := 0
		ast.Inspect(fd.Body, func(m ast.Node) bool {
			switch x := m.(type) {
			case *ast.CallExpr:
				if exprString(x.Fun) == mux+"."+op {
					nCalls++
					if first == token.NoPos {
						first = x.Pos()
					}
				}
			case *ast.RangeStmt:
				if x.Key == nil {
					return true
				}
				k := exprString(x.Key)
				s := exprString(x.X)
				for _, st := range x.Body.List {
					if as, ok := st.(*ast.AssignStmt); ok && len(as.Lhs) >= 1 && len(as.Rhs) == 1 &&
						exprString(as.Lhs[0]) == s+"["+k+"]" && exprString(as.Rhs[0]) == mux+"."+op+"()" {
						slice, loopPos = s, x.Pos()
					}
				}
			}
			return true
		})
		return slice, nCalls == 2 && first != token.NoPos && loopPos != token.NoPos && first < loopPos
	}
	idxOf := func(expr, slice string) int {
		var i int
		if slice != "" && strings.HasPrefix(expr, slice+"[") {
			if _, err := fmt.Sscanf(expr[len(slice):], "[%d]", &i); err == nil {
				return i
			}
		}
		return -1
	}
	rpcSrv := map[string]int{"out": unkSrv, "err": unkSrv}
	rsrvFields := serveFieldStreams(p, "RPCServer")
	if sc := p.fn("RPCServer", "ServeConn"); sc != nil && len(sc.Recv.List[0].Names) == 1 {
		recv := sc.Recv.List[0].Names[0].Name
		slice, ok := orderOK(sc, "Server", "Accept")
		seen := map[string]int{}
		for _, c := range calls(sc.Body, "copyStream", false) {
			if len(c.Args) != 3 {
				continue
			}
			src := exprString(c.Args[2])
			if !strings.HasPrefix(src, recv+".") {
				continue
			}
			if s, found := rsrvFields[src[len(recv)+1:]]; found {
				seen[s]++
				if i := idxOf(exprString(c.Args[1]), slice); i >= 0 && ok && copyOK {
					rpcSrv[s] = i
				}
			}
		}
		// the two-step shape: the reader field is pumped into a channel field ONCE per server (`copyChan(_, recv.C, recv.Stdout)`
		// inside a sync.Once) and every connection copies that channel to one of its streams
		// (`copyChanStream(name, streams[i], recv.C, done)`, which writes exactly what it receives)
		chanOf := map[string]string{} // channel field -> "out"/"err"
		for _, c := range calls(sc.Body, "copyChan", false) {
			if len(c.Args) != 3 {
				continue
			}
			ch, src := exprString(c.Args[1]), exprString(c.Args[2])
			if !strings.HasPrefix(src, recv+".") || !strings.HasPrefix(ch, recv+".") {
				continue
			}
			if s, found := rsrvFields[src[len(recv)+1:]]; found {
				seen[s]++
				if _, dup := chanOf[ch]; dup {
					seen[s]++
				}
				chanOf[ch] = s
			}
		}
		ccsOK := false
		if cs := p.fn("", "copyChanStream"); cs != nil && cs.Type.Params != nil {
			var names []string
			for _, fl := range cs.Type.Params.List {
				for _, n := range fl.Names {
					names = append(names, n.Name)
				}
			}
			if len(names) == 4 {
				dst, src := names[1], names[2]
				recvVar, writes, otherRecv := "", 0, 0
				ast.Inspect(cs.Body, func(m ast.Node) bool {
					switch x := m.(type) {
					case *ast.AssignStmt:
						if len(x.Lhs) == 1 && len(x.Rhs) == 1 && exprString(x.Rhs[0]) == "<-"+src {
							recvVar = exprString(x.Lhs[0])
						}
					case *ast.UnaryExpr:
						if x.Op == token.ARROW && exprString(x.X) == src {
							otherRecv++
						}
					case *ast.CallExpr:
						if exprString(x.Fun) == dst+".Write" && len(x.Args) == 1 && recvVar != "" && exprString(x.Args[0]) == recvVar {
							writes++
						}
					}
					return true
				})
				ccsOK = recvVar != "" && writes == 1 && otherRecv == 1
			}
		}
		usedCh := map[string]int{}
		// (a connection's copier is started by a `go` statement of ServeConn's own body — once per CONNECTION, not inside
		// the Once that starts the per-server pumps)
		var perConn []*ast.CallExpr
		for _, st := range sc.Body.List {
			if g, ok := st.(*ast.GoStmt); ok && exprString(g.Call.Fun) == "copyChanStream" {
				perConn = append(perConn, g.Call)
			}
		}
		if len(perConn) != len(calls(sc.Body, "copyChanStream", false)) {
			perConn = nil
		}
		for _, c := range perConn {
			if len(c.Args) != 4 {
				continue
			}
			ch := exprString(c.Args[2])
			usedCh[ch]++
			if s, found := chanOf[ch]; found {
				if i := idxOf(exprString(c.Args[1]), slice); i >= 0 && ok && ccsOK {
					rpcSrv[s] = i
				}
			}
		}
		for ch, n := range usedCh {
			if s, found := chanOf[ch]; found && n != 1 {
				rpcSrv[s] = unkSrv
			}
		}
		for s, n := range seen {
			if n != 1 {
				rpcSrv[s] = unkSrv
			}
		}
	} else {
		f.miss = append(f.miss, "RPCServer.ServeConn")
	}
	rpcCli := map[string]int{"out": unkCli, "err": unkCli}
	if nc := p.fn("", "NewRPCClient"); nc != nil {
		slice, ok := orderOK(nc, "Client", "Open")
		fieldIdx := map[string]int{}
		for field, v := range literalFields(nc.Body, "RPCClient") {
			if i := idxOf(v, slice); i >= 0 {
				fieldIdx[field] = i
			}
		}
		if sy := p.fn("RPCClient", "SyncStreams"); sy != nil && len(sy.Recv.List[0].Names) == 1 {
			recv := sy.Recv.List[0].Names[0].Name
			ps := paramNames(sy)
			paramSink := map[string]string{}
			if nrc := p.fn("", "newRPCClient"); nrc != nil {
				for _, c := range calls(nrc.Body, "SyncStreams", true) {
					if len(c.Args) != len(ps) {
						continue
					}
					for i, a := range c.Args {
						as := exprString(a)
						if strings.HasSuffix(as, "config.SyncStdout") || strings.HasSuffix(as, "config.SyncStderr") {
							paramSink[ps[i]] = stdName(as)
						}
					}
				}
			} else {
				f.miss = append(f.miss, "newRPCClient")
			}
			seen := map[string]int{}
			for _, c := range calls(sy.Body, "copyStream", false) {
				if len(c.Args) != 3 {
					continue
				}
				sink, found := paramSink[exprString(c.Args[1])]
				src := exprString(c.Args[2])
				if !found || !strings.HasPrefix(src, recv+".") {
					continue
				}
				seen[sink]++
				if i, has := fieldIdx[src[len(recv)+1:]]; has && ok && copyOK {
					rpcCli[sink] = i
				}
			}
			for s, n := range seen {
				if n != 1 {
					rpcCli[s] = unkCli
				}
			}
		} else {
			f.miss = append(f.miss, "RPCClient.SyncStreams")
		}
	} else {
		f.miss = append(f.miss, "NewRPCClient")
	}
	js["netrpc"] = map[string]interface{}{"RPCServerFields": rsrvFields, "copyStreamCopiesSrcToDst": copyOK,
		"serverStreamOf": rpcSrv, "clientStreamOf": rpcCli}

	// ------------------------------------------------------------ lifetime of the gRPC stdio stream
	bound, chain := stdioStreamCtx(p)
	leanBound := "none"
	if bound >= 0 {
		leanBound = fmt.Sprintf("(some %d)", bound)
	}
	js["streamCtx"] = map[string]interface{}{"boundMs": bound, "chain": chain}

	// client keep-alive: any grpc.WithKeepaliveParams(…) among the options dialGRPCConn builds
	leanKA := "none"
	if dg := p.fn("", "dialGRPCConn"); dg != nil {
		ast.Inspect(dg.Body, func(n ast.Node) bool {
			ce, ok := n.(*ast.CallExpr)
			if !ok || exprString(ce.Fun) != "grpc.WithKeepaliveParams" {
				return true
			}
			ms := int64(0)
			ast.Inspect(ce, func(m ast.Node) bool {
				if kv, ok := m.(*ast.KeyValueExpr); ok && exprString(kv.Key) == "Time" {
					if d, ok := p.evalInt(kv.Value); ok {
						ms = d
					}
				}
				return true
			})
			leanKA = fmt.Sprintf("(some %d)", ms)
			return true
		})
	} else {
		f.miss = append(f.miss, "dialGRPCConn(stdio)")
	}
	// StdioConn: the net/rpc server's per-connection copier ends with its connection — copyChanStream returns on `<-done`
	// (a select arm of its own AND a non-blocking check before every receive), and ServeConn passes the session's CloseChan()
	endsWithConn := false
	if cs := p.fn("", "copyChanStream"); cs != nil && cs.Type.Params != nil {
		var names []string
		for _, fl := range cs.Type.Params.List {
			for _, n := range fl.Names {
				names = append(names, n.Name)
			}
		}
		if len(names) == 4 {
			done := names[3]
			arms, first := 0, false
			sels, _ := selectsOf(p, cs)
			for i, si := range sels {
				hasDone, hasDefault, returns := false, false, false
				for _, c := range si.stmt.Body.List {
					cc := c.(*ast.CommClause)
					if cc.Comm == nil {
						hasDefault = true
						continue
					}
					if strings.Contains(commString(cc.Comm), "<-"+done) {
						hasDone = true
						for _, b := range cc.Body {
							if _, ok := b.(*ast.ReturnStmt); ok {
								returns = true
							}
						}
					}
				}
				if hasDone && returns {
					arms++
					if i == 0 && hasDefault {
						first = true
					}
				}
			}
			endsWithConn = arms >= 2 && first
		}
		if sc := p.fn("RPCServer", "ServeConn"); sc != nil {
			n, ok := 0, 0
			for _, c := range calls(sc.Body, "copyChanStream", false) {
				n++
				if len(c.Args) == 4 && strings.HasSuffix(exprString(c.Args[3]), ".CloseChan()") {
					ok++
				}
			}
			// … and nothing in ServeConn copies the server's readers any other way
			if n == 0 || ok != n || len(calls(sc.Body, "copyStream", false)) > 0 || len(calls(sc.Body, "io.Copy", false)) > 0 {
				endsWithConn = false
			}
		} else {
			endsWithConn = false
		}
	}
	f.lean = append(f.lean, fmt.Sprintf("def stdioConn : StdioConn.Params := ⟨%s⟩", leanBool(endsWithConn)))
	js["copierEndsWithConn"] = endsWithConn
	js["clientKeepalive"] = leanKA
	f.lean = append(f.lean, fmt.Sprintf("def stdio : Stdio.Params := ⟨%d, %s, %s, %s, %s, %s, %s, %d, %d, %d, %d, %s, %s⟩",
		chunk, leanBool(sendsExact), tagStdout, tagStderr, leanBool(skipOnlyEmpty),
		leanSink(sinkOfTag["STDOUT"]), leanSink(sinkOfTag["STDERR"]),
		rpcSrv["out"], rpcSrv["err"], rpcCli["out"], rpcCli["err"], leanBound, leanKA))
	js["params"] = map[string]interface{}{"chunk": chunk, "sendsExactRead": sendsExact, "tagStdoutCh": tagStdout, "tagStderrCh": tagStderr,
		"skipOnlyEmpty": skipOnlyEmpty, "cliOnStdout": leanSink(sinkOfTag["STDOUT"]), "cliOnStderr": leanSink(sinkOfTag["STDERR"]),
		"rpcSrvOut": rpcSrv["out"], "rpcSrvErr": rpcSrv["err"], "rpcCliOut": rpcCli["out"], "rpcCliErr": rpcCli["err"],
		"streamCtxBound": leanBound}
	f.set("stdio", js)
}

// ---------------------------------------------------------------- context of the StreamStdio call

// ctxOrigin says where a context expression comes from, inside one function.
type ctxOrigin struct {
	kind  string // "param" | "field" | "bounded" | "unknown"
	index int    // param: position in the parameter list
	field string // field: rendered selector, e.g. c.doneCtx
	ms    int64  // bounded: the timeout in ms (0 = not evaluable / a deadline)
	note  string
}

// assignsTo counts the assignments (any token, also := shadowing, range and
// var declarations) to the identifier name below n.
func assignsTo(n ast.Node, name string) (count int, defs []*ast.AssignStmt) {
	ast.Inspect(n, func(m ast.Node) bool {
		switch x := m.(type) {
		case *ast.AssignStmt:
			for _, l := range x.Lhs {
				if id, ok := l.(*ast.Ident); ok && id.Name == name {
					count++
					defs = append(defs, x)
				}
			}
		case *ast.RangeStmt:
			for _, l := range []ast.Expr{x.Key, x.Value} {
				if id, ok := l.(*ast.Ident); ok && id.Name == name {
					count++
				}
			}
		case *ast.ValueSpec:
			for _, id := range x.Names {
				if id.Name == name {
					count++
				}
			}
		case *ast.FuncLit:
			for _, fl := range x.Type.Params.List {
				for _, id := range fl.Names {
					if id.Name == name {
						count++
					}
				}
			}
		}
		return true
	})
	return
}

// originOfCtx follows a context expression back through the body of fd:
// a parameter that is never assigned; a selector (a struct field); a local
// defined exactly once by context.WithCancel / WithValue / a plain copy of
// something that can be followed further; or a local defined by
// context.WithTimeout / WithDeadline (bounded).  Everything else is unknown.
func originOfCtx(p *pkgs, fd *ast.FuncDecl, e ast.Expr, depth int) ctxOrigin {
	if depth > 6 {
		return ctxOrigin{kind: "unknown", note: "derivation too deep"}
	}
	switch x := e.(type) {
	case *ast.ParenExpr:
		return originOfCtx(p, fd, x.X, depth+1)
	case *ast.SelectorExpr:
		return ctxOrigin{kind: "field", field: exprString(x)}
	case *ast.Ident:
		n, defs := assignsTo(fd.Body, x.Name)
		if i := indexOf(paramNames(fd), x.Name); i >= 0 {
			if n != 0 {
				return ctxOrigin{kind: "unknown", note: "parameter " + x.Name + " of " + fd.Name.Name + " is reassigned or shadowed"}
			}
			return ctxOrigin{kind: "param", index: i}
		}
		if n != 1 || len(defs) != 1 || defs[0].Tok != token.DEFINE || len(defs[0].Rhs) != 1 {
			return ctxOrigin{kind: "unknown", note: x.Name + " in " + fd.Name.Name + " is not defined exactly once with :="}
		}
		as := defs[0]
		if id0, ok := as.Lhs[0].(*ast.Ident); !ok || id0.Name != x.Name {
			return ctxOrigin{kind: "unknown", note: x.Name + " is not the first result of its definition"}
		}
		call, ok := as.Rhs[0].(*ast.CallExpr)
		if !ok {
			if len(as.Lhs) == 1 {
				return originOfCtx(p, fd, as.Rhs[0], depth+1) // ctx2 := ctx
			}
			return ctxOrigin{kind: "unknown", note: "definition of " + x.Name + " is not a call"}
		}
		switch exprString(call.Fun) {
		case "context.WithCancel", "context.WithCancelCause", "context.WithoutCancel":
			if len(call.Args) == 1 {
				return originOfCtx(p, fd, call.Args[0], depth+1)
			}
		case "context.WithValue":
			if len(call.Args) == 3 {
				return originOfCtx(p, fd, call.Args[0], depth+1)
			}
		case "context.WithTimeout", "context.WithTimeoutCause":
			if len(call.Args) >= 2 {
				if v, ok := p.evalInt(call.Args[1]); ok && v > 0 {
					return ctxOrigin{kind: "bounded", ms: v, note: x.Name + " := " + exprString(call.Fun) + "(…, " + fmt.Sprint(v) + "ms) in " + fd.Name.Name}
				}
			}
			return ctxOrigin{kind: "bounded", note: x.Name + " := " + exprString(call.Fun) + "(…) in " + fd.Name.Name}
		case "context.WithDeadline", "context.WithDeadlineCause":
			return ctxOrigin{kind: "bounded", note: x.Name + " := " + exprString(call.Fun) + "(…) in " + fd.Name.Name}
		}
		return ctxOrigin{kind: "unknown", note: x.Name + " := " + exprString(call.Fun) + "(…) in " + fd.Name.Name + " is not a recognised derivation"}
	}
	return ctxOrigin{kind: "unknown", note: "context expression " + exprString(e) + " not followed"}
}

// stdioStreamCtx decides where the context of the host's StreamStdio call
// comes from.  Result -1 = the client's done-context with nothing bounding it:
//
//	newGRPCStdioClient(ctx, …):  client.StreamStdio(ctx, …)          ctx a parameter, never reassigned
//	newGRPCClient(doneCtx, c):   newGRPCStdioClient(doneCtx, …)      doneCtx a parameter, never reassigned
//	Client.Client():             newGRPCClient(c.doneCtx, c)
//	every assignment to <x>.doneCtx in the package:  context.WithCancel(context.Background())
//
// (plain WithCancel / WithValue derivations in between are followed).  A
// context.WithTimeout on the path gives its duration in ms; a WithDeadline or a
// link that cannot be followed gives 0.
func stdioStreamCtx(p *pkgs) (int64, []string) {
	var chain []string
	fail := func(o ctxOrigin, where string) (int64, []string) {
		if o.kind == "bounded" {
			return o.ms, append(chain, "BOUNDED: "+o.note)
		}
		return 0, append(chain, "NOT FOLLOWED in "+where+": "+o.note+o.field)
	}
	// 1. the StreamStdio call
	ctor := p.fn("", "newGRPCStdioClient")
	if ctor == nil {
		return 0, []string{"newGRPCStdioClient not found"}
	}
	cs := calls(ctor.Body, "StreamStdio", true)
	if len(cs) != 1 || len(cs[0].Args) < 1 {
		return 0, []string{fmt.Sprintf("%d StreamStdio calls in newGRPCStdioClient", len(cs))}
	}
	o := originOfCtx(p, ctor, cs[0].Args[0], 0)
	if o.kind != "param" {
		return fail(o, "newGRPCStdioClient")
	}
	chain = append(chain, fmt.Sprintf("StreamStdio(%s) = parameter %d of newGRPCStdioClient", exprString(cs[0].Args[0]), o.index))
	// 2. its caller
	ngc := p.fn("", "newGRPCClient")
	if ngc == nil {
		return 0, append(chain, "newGRPCClient not found")
	}
	cs2 := calls(ngc.Body, "newGRPCStdioClient", false)
	if len(cs2) != 1 || len(cs2[0].Args) <= o.index {
		return 0, append(chain, fmt.Sprintf("%d newGRPCStdioClient calls in newGRPCClient", len(cs2)))
	}
	o2 := originOfCtx(p, ngc, cs2[0].Args[o.index], 0)
	if o2.kind != "param" {
		return fail(o2, "newGRPCClient")
	}
	chain = append(chain, fmt.Sprintf("newGRPCStdioClient(%s) = parameter %d of newGRPCClient", exprString(cs2[0].Args[o.index]), o2.index))
	// 3. Client.Client
	cc := p.fn("Client", "Client")
	if cc == nil {
		return 0, append(chain, "Client.Client not found")
	}
	cs3 := calls(cc.Body, "newGRPCClient", false)
	if len(cs3) != 1 || len(cs3[0].Args) <= o2.index {
		return 0, append(chain, fmt.Sprintf("%d newGRPCClient calls in Client.Client", len(cs3)))
	}
	o3 := originOfCtx(p, cc, cs3[0].Args[o2.index], 0)
	recv := ""
	if cc.Recv != nil && len(cc.Recv.List) == 1 && len(cc.Recv.List[0].Names) == 1 {
		recv = cc.Recv.List[0].Names[0].Name
	}
	if o3.kind != "field" || recv == "" || o3.field != recv+".doneCtx" {
		return fail(o3, "Client.Client")
	}
	chain = append(chain, "newGRPCClient("+o3.field+") in Client.Client")
	// 4. every assignment to the field
	nAssign := 0
	for _, file := range p.files {
		bad := ""
		ast.Inspect(file, func(m ast.Node) bool {
			as, ok := m.(*ast.AssignStmt)
			if !ok {
				return true
			}
			for i, l := range as.Lhs {
				se, ok := l.(*ast.SelectorExpr)
				if !ok || se.Sel.Name != "doneCtx" {
					continue
				}
				nAssign++
				if !(i == 0 && len(as.Rhs) == 1 && exprString(as.Rhs[0]) == "context.WithCancel(context.Background())") {
					r := "?"
					if len(as.Rhs) == 1 {
						r = exprString(as.Rhs[0])
					} else if i < len(as.Rhs) {
						r = exprString(as.Rhs[i])
					}
					bad = exprString(l) + " = " + r
				}
			}
			return true
		})
		if bad != "" {
			if strings.Contains(bad, "WithTimeout") || strings.Contains(bad, "WithDeadline") {
				return 0, append(chain, "BOUNDED: "+bad)
			}
			return 0, append(chain, "NOT FOLLOWED: "+bad)
		}
	}
	if nAssign == 0 {
		return 0, append(chain, "no assignment to .doneCtx found")
	}
	chain = append(chain, fmt.Sprintf("%d assignments to .doneCtx, all context.WithCancel(context.Background())", nAssign))
	return -1, chain
}
