package main

import (
	"fmt"
	"go/ast"
	"go/token"
	"strconv"
	"strings"
)

func init() {
	registerExtractor("serve", []string{"GoPlugin.Model.Serve"}, extractServe)
}

// extractServe: structural facts of `Serve` (server.go) for C16 — the order of
// the cookie gate / listener / Init / print / stdout swap / accept statements,
// the shape of the two cookie tests and their exit code, the deferred os.Exit,
// the format literals and operands of the handshake line, and the guard of the
// seventh field.
func extractServe(p *pkgs, f *facts) {
	var (
		order          []string
		gateEmpty      bool
		gateCompare    bool
		gateExit       = int64(-1)
		deferredExit   bool
		lineFmt        []byte
		lineArgs       []string
		muxFmt         []byte
		muxArgTrue     bool
		muxConditional bool
		outFmt         []byte
	)
	core, ok := p.constInt("CoreProtocolVersion")
	if !ok {
		core = -1
	}
	serve := p.fn("", "Serve")
	if serve == nil || serve.Body == nil {
		f.miss = append(f.miss, "Serve")
	} else {
		// local constants declared true inside Serve (grpcBrokerMultiplexingSupported)
		trueConsts := map[string]bool{}
		// variables defined from protocolVersion(opts)
		fromProtocolVersion := map[string]bool{}
		inspectNoFuncLit(serve.Body, func(n ast.Node) {
			switch x := n.(type) {
			case *ast.GenDecl:
				if x.Tok == token.CONST {
					for _, s := range x.Specs {
						vs := s.(*ast.ValueSpec)
						for i, nm := range vs.Names {
							if i < len(vs.Values) && exprString(vs.Values[i]) == "true" {
								trueConsts[nm.Name] = true
							}
						}
					}
				}
			case *ast.AssignStmt:
				if x.Tok == token.DEFINE && len(x.Rhs) == 1 && exprString(x.Rhs[0]) == "protocolVersion(opts)" {
					for _, l := range x.Lhs {
						fromProtocolVersion[exprString(l)] = true
					}
				}
			}
		})

		// (1) the deferred exit: a top-level `defer func(){ if … exitCode >= 0 { os.Exit(exitCode) } }()`
		for _, s := range serve.Body.List {
			ds, ok := s.(*ast.DeferStmt)
			if !ok {
				continue
			}
			fl, ok := ds.Call.Fun.(*ast.FuncLit)
			if !ok {
				continue
			}
			for _, t := range fl.Body.List {
				is, ok := t.(*ast.IfStmt)
				if !ok {
					continue
				}
				c := exprString(is.Cond)
				if (c == "opts.Test==nil&&exitCode>=0" || c == "exitCode>=0&&opts.Test==nil") &&
					len(is.Body.List) == 1 && stmtCall(is.Body.List[0]) == "os.Exit(exitCode)" {
					deferredExit = true
				}
			}
			break // only the first deferred function runs last, after every other defer
		}

		// (2) statements in source order
		exitCodes := []int64{}
		for _, s := range serve.Body.List {
			if _, ok := s.(*ast.DeferStmt); ok {
				continue
			}
			// the gate: `if opts.Test == nil { if key=="" || val=="" {…exit…}; if os.Getenv(key) != val {…exit…} }`
			if is, ok := s.(*ast.IfStmt); ok && strings.Contains(nodeIdents(is), "MagicCookie") {
				if exprString(is.Cond) == "opts.Test==nil" && is.Else == nil {
					order = append(order, "cookieGate")
					for _, t := range is.Body.List {
						ts, ok := t.(*ast.IfStmt)
						if !ok {
							continue
						}
						c := exprString(ts.Cond)
						code, refuses := refusal(ts.Body)
						switch c {
						case `opts.MagicCookieKey==""||opts.MagicCookieValue==""`, `opts.MagicCookieValue==""||opts.MagicCookieKey==""`:
							if refuses {
								gateEmpty = true
								exitCodes = append(exitCodes, code)
							}
						case `os.Getenv(opts.MagicCookieKey)!=opts.MagicCookieValue`, `opts.MagicCookieValue!=os.Getenv(opts.MagicCookieKey)`:
							if refuses {
								gateCompare = true
								exitCodes = append(exitCodes, code)
							}
						}
					}
				}
				// a cookie test of any other shape is not recognised: no gate step, facts stay false
			}
			inspectNoFuncLit(s, func(n ast.Node) {
				switch x := n.(type) {
				case *ast.CallExpr:
					fn := exprString(x.Fun)
					switch {
					case fn == "serverListener":
						order = append(order, "listen")
					case fn == "server.Init":
						order = append(order, "init")
					case fn == "fmt.Printf" || fn == "fmt.Print" || fn == "fmt.Println" ||
						strings.HasPrefix(fn, "os.Stdout.Write") ||
						((fn == "fmt.Fprintf" || fn == "fmt.Fprint" || fn == "fmt.Fprintln" || fn == "io.WriteString") &&
							len(x.Args) > 0 && exprString(x.Args[0]) == "os.Stdout"):
						order = append(order, "print")
						if fn == "fmt.Printf" && len(x.Args) == 2 && exprString(x.Args[1]) == "protocolLine" && outFmt == nil {
							outFmt = strLit(x.Args[0])
						}
					}
				case *ast.AssignStmt:
					for _, l := range x.Lhs {
						if exprString(l) == "os.Stdout" {
							order = append(order, "swapStdout")
						}
					}
					if len(x.Lhs) == 1 && exprString(x.Lhs[0]) == "protocolLine" && len(x.Rhs) == 1 {
						if ce, ok := x.Rhs[0].(*ast.CallExpr); ok && exprString(ce.Fun) == "fmt.Sprintf" && len(ce.Args) >= 1 {
							switch x.Tok {
							case token.DEFINE, token.ASSIGN:
								lineFmt = strLit(ce.Args[0])
								lineArgs = nil
								for _, a := range ce.Args[1:] {
									lineArgs = append(lineArgs, serveArg(exprString(a), fromProtocolVersion))
								}
							case token.ADD_ASSIGN:
								muxFmt = strLit(ce.Args[0])
								if len(ce.Args) == 2 {
									a := exprString(ce.Args[1])
									muxArgTrue = a == "true" || trueConsts[a]
								}
							}
						}
					}
				case *ast.IfStmt:
					// is the `protocolLine += …` directly guarded by os.Getenv(envMultiplexGRPC) != "" ?
					for _, t := range x.Body.List {
						as, ok := t.(*ast.AssignStmt)
						if ok && as.Tok == token.ADD_ASSIGN && len(as.Lhs) == 1 && exprString(as.Lhs[0]) == "protocolLine" {
							c := exprString(x.Cond)
							if (c == `os.Getenv(envMultiplexGRPC)!=""` || c == `""!=os.Getenv(envMultiplexGRPC)`) && x.Init == nil {
								muxConditional = true
							}
						}
					}
				case *ast.GoStmt:
					if exprString(x.Call.Fun) == "server.Serve" {
						order = append(order, "accept")
					}
				}
			})
		}
		if len(exitCodes) == 2 && exitCodes[0] == exitCodes[1] {
			gateExit = exitCodes[0]
		}
	}

	leanSteps := make([]string, len(order))
	for i, s := range order {
		leanSteps[i] = "." + s
	}
	leanArgs := make([]string, len(lineArgs))
	for i, a := range lineArgs {
		leanArgs[i] = "." + a
	}
	f.lean = append(f.lean, fmt.Sprintf("def serve : Serve.Params := ⟨[%s], %s, %s, %d, %s, %s, [%s], %s, %s, %s, %s, %d⟩",
		strings.Join(leanSteps, ", "), leanBool(gateEmpty), leanBool(gateCompare), gateExit, leanBool(deferredExit),
		leanBytes(lineFmt), strings.Join(leanArgs, ", "), leanBytes(muxFmt), leanBool(muxArgTrue), leanBool(muxConditional),
		leanBytes(outFmt), core))
	f.set("serve", map[string]interface{}{"order": order, "gateEmptyTest": gateEmpty, "gateCompareNeq": gateCompare,
		"gateExitCode": gateExit, "deferredExit": deferredExit, "lineFmt": string(lineFmt), "lineArgs": lineArgs,
		"muxFmt": string(muxFmt), "muxArgTrue": muxArgTrue, "muxConditional": muxConditional, "outFmt": string(outFmt),
		"coreVersion": core})
}

// inspectNoFuncLit visits n in source order without entering function literals
// (deferred closures and goroutine bodies are not part of Serve's straight-line path).
func inspectNoFuncLit(n ast.Node, fn func(ast.Node)) {
	ast.Inspect(n, func(m ast.Node) bool {
		if m == nil {
			return false
		}
		if _, ok := m.(*ast.FuncLit); ok {
			return false
		}
		fn(m)
		return true
	})
}

// refusal: the block is `…; exitCode = N; return` — returns N.
func refusal(b *ast.BlockStmt) (int64, bool) {
	if b == nil || len(b.List) < 2 {
		return 0, false
	}
	rs, ok := b.List[len(b.List)-1].(*ast.ReturnStmt)
	if !ok || len(rs.Results) != 0 {
		return 0, false
	}
	as, ok := b.List[len(b.List)-2].(*ast.AssignStmt)
	if !ok || as.Tok != token.ASSIGN || len(as.Lhs) != 1 || len(as.Rhs) != 1 || exprString(as.Lhs[0]) != "exitCode" {
		return 0, false
	}
	lit, ok := as.Rhs[0].(*ast.BasicLit)
	if !ok || lit.Kind != token.INT {
		return 0, false
	}
	v, err := strconv.ParseInt(lit.Value, 0, 64)
	if err != nil {
		return 0, false
	}
	return v, true
}

func stmtCall(s ast.Stmt) string {
	if es, ok := s.(*ast.ExprStmt); ok {
		return exprString(es.X)
	}
	return ""
}

func strLit(e ast.Expr) []byte {
	if bl, ok := e.(*ast.BasicLit); ok && bl.Kind == token.STRING {
		if s, err := strconv.Unquote(bl.Value); err == nil {
			return []byte(s)
		}
	}
	return nil
}

func serveArg(e string, fromPV map[string]bool) string {
	switch e {
	case "CoreProtocolVersion":
		return "core"
	case "protoVersion":
		if fromPV[e] {
			return "app"
		}
	case "protoType":
		if fromPV[e] {
			return "proto"
		}
	case "listener.Addr().Network()":
		return "network"
	case "listener.Addr().String()":
		return "address"
	case "serverCert":
		return "cert"
	}
	return "other"
}

func leanBytes(b []byte) string {
	ss := make([]string, len(b))
	for i, c := range b {
		ss[i] = strconv.Itoa(int(c))
	}
	return "[" + strings.Join(ss, ", ") + "]"
}
