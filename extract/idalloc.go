package main

// Facts of the brokers' ID allocators, Model/IdAlloc.lean: `NextId` is ONE statement, the return of ONE atomic
// read-modify-write on the receiver's `nextId` (`atomic.AddUint32(&m.nextId, 1)`, or `m.nextId.Add(1)` on a typed atomic).

import (
	"fmt"
	"go/ast"
	"strings"
)

func init() {
	registerExtractor("idalloc", []string{"GoPlugin.Model.IdAlloc"}, extractIdAlloc)
}

func nextIdSingleOp(fd *ast.FuncDecl) bool {
	if fd == nil || fd.Body == nil || len(fd.Body.List) != 1 || fd.Recv == nil || len(fd.Recv.List) != 1 || len(fd.Recv.List[0].Names) != 1 {
		return false
	}
	recv := fd.Recv.List[0].Names[0].Name
	rs, ok := fd.Body.List[0].(*ast.ReturnStmt)
	if !ok || len(rs.Results) != 1 {
		return false
	}
	ce, ok := rs.Results[0].(*ast.CallExpr)
	if !ok {
		return false
	}
	fun := exprString(ce.Fun)
	switch {
	case strings.HasPrefix(fun, "atomic.Add") && len(ce.Args) == 2:
		return exprString(ce.Args[0]) == "&"+recv+".nextId" && exprString(ce.Args[1]) == "1"
	case fun == recv+".nextId.Add" && len(ce.Args) == 1:
		return exprString(ce.Args[0]) == "1"
	}
	return false
}

func extractIdAlloc(p *pkgs, f *facts) {
	for _, t := range []struct{ recv, name string }{{"MuxBroker", "idAllocMux"}, {"GRPCBroker", "idAllocGrpc"}} {
		fd := p.fn(t.recv, "NextId")
		if fd == nil {
			f.miss = append(f.miss, t.recv+".NextId")
		}
		ok := nextIdSingleOp(fd)
		f.lean = append(f.lean, fmt.Sprintf("def %s : IdAlloc.Params := ⟨%s⟩", t.name, leanBool(ok)))
		f.set(t.name, map[string]interface{}{"singleOp": ok})
	}
}
