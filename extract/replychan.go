package main

// Facts of the request / reply-channel protocol of the gRPC broker streamers (C20),
// Model/ReplyChan.lean `Params`, one record per streamer type:
//
//	replyChanServer   gRPCBrokerServer      (plugin side)
//	replyChanClient   gRPCBrokerClientImpl  (host side)
//
// Located by shape, never by line: the reply channel is the local `X := make(chan …)` of `Send`
// that travels inside the composite literal sent on a channel (`s.send <- &sendErr{…, ch: X}`);
// the stream goroutine is the `go func(){…}()` of `StartStream` whose select receives from that
// same channel field.  Everything that is not recognised makes the fact `false`.

import (
	"fmt"
	"go/ast"
	"go/token"
)

func init() {
	registerExtractor("replychan", []string{"GoPlugin.Model.ReplyChan"}, extractReplyChan)
}

type replyFacts struct {
	waits, closes, once bool
	why                 map[string]string
}

// leavesOf counts the return statements below n (function literals excluded) and names any other
// way of leaving the function from there (goto, panic, os.Exit, runtime.Goexit).
func leavesOf(n ast.Node) (rets int, other string) {
	if n == nil {
		return
	}
	ast.Inspect(n, func(m ast.Node) bool {
		switch v := m.(type) {
		case *ast.FuncLit:
			return false
		case *ast.ReturnStmt:
			rets++
		case *ast.BranchStmt:
			if v.Tok == token.GOTO {
				other = "goto"
			}
		case *ast.CallExpr:
			switch exprString(v.Fun) {
			case "panic", "os.Exit", "runtime.Goexit":
				other = exprString(v.Fun)
			}
		}
		return true
	})
	return
}

// isRecvFrom: e is `<-name`
func isRecvFrom(e ast.Expr, name string) bool {
	if pe, ok := e.(*ast.ParenExpr); ok {
		return isRecvFrom(pe.X, name)
	}
	u, ok := e.(*ast.UnaryExpr)
	return ok && u.Op == token.ARROW && exprString(u.X) == name
}

// plainRecvStmt: st is `return <-name`, `x := <-name`, `x = <-name`, `var x = <-name` is not used, or `<-name`
// as a statement of its own (not a select clause).
func plainRecvStmt(st ast.Stmt, name string) bool {
	switch v := st.(type) {
	case *ast.ReturnStmt:
		return len(v.Results) == 1 && isRecvFrom(v.Results[0], name)
	case *ast.AssignStmt:
		return len(v.Rhs) == 1 && isRecvFrom(v.Rhs[0], name)
	case *ast.ExprStmt:
		return isRecvFrom(v.X, name)
	}
	return false
}

// countIdent counts the uses of identifier name below n.
func countIdent(n ast.Node, name string) int {
	c := 0
	if n == nil {
		return 0
	}
	ast.Inspect(n, func(m ast.Node) bool {
		if id, ok := m.(*ast.Ident); ok && id.Name == name {
			c++
		}
		return true
	})
	return c
}

// handOver: does st send a composite literal (or its address) that carries identifier ch on a channel?
// Returns the rendered channel expression and the field name under which ch travels.
func handOver(st ast.Stmt, ch string) (chanExpr, field string, lit *ast.CompositeLit, ok bool) {
	ss, isSend := st.(*ast.SendStmt)
	if !isSend {
		return "", "", nil, false
	}
	v := ss.Value
	if u, isAddr := v.(*ast.UnaryExpr); isAddr && u.Op == token.AND {
		v = u.X
	}
	cl, isLit := v.(*ast.CompositeLit)
	if !isLit {
		return "", "", nil, false
	}
	for _, el := range cl.Elts {
		if kv, isKV := el.(*ast.KeyValueExpr); isKV {
			if id, isID := kv.Value.(*ast.Ident); isID && id.Name == ch {
				return exprString(ss.Chan), exprString(kv.Key), cl, true
			}
		}
	}
	return "", "", nil, false
}

func replyChanFacts(p *pkgs, typ string) replyFacts {
	rf := replyFacts{why: map[string]string{}}
	send := p.fn(typ, "Send")
	start := p.fn(typ, "StartStream")
	if send == nil || send.Body == nil || start == nil || start.Body == nil {
		rf.why["missing"] = typ + ".Send / StartStream"
		return rf
	}

	// ---- Send: the reply channel, its hand-over, its close, the way out after the hand-over
	var chans []string
	for _, st := range send.Body.List {
		as, ok := st.(*ast.AssignStmt)
		if !ok || as.Tok != token.DEFINE || len(as.Lhs) != 1 || len(as.Rhs) != 1 {
			continue
		}
		if ce, ok := as.Rhs[0].(*ast.CallExpr); ok && exprString(ce.Fun) == "make" && len(ce.Args) >= 1 {
			if _, isChan := ce.Args[0].(*ast.ChanType); isChan {
				chans = append(chans, exprString(as.Lhs[0]))
			}
		}
	}
	ch, sendChan, field := "", "", ""
	iHand := -1
	var handClause *ast.CommClause
	var handLit *ast.CompositeLit
	for _, cand := range chans {
		for i, st := range send.Body.List {
			if c, f, l, ok := handOver(st, cand); ok {
				ch, sendChan, field, iHand, handLit = cand, c, f, i, l
			}
			if sel, ok := st.(*ast.SelectStmt); ok {
				for _, cc := range sel.Body.List {
					cl := cc.(*ast.CommClause)
					if cl.Comm == nil {
						continue
					}
					if c, f, l, ok := handOver(cl.Comm, cand); ok {
						ch, sendChan, field, iHand, handClause, handLit = cand, c, f, i, cl, l
					}
				}
			}
		}
	}
	if ch == "" {
		rf.why["send"] = "no reply channel handed over by a top-level send / select clause of Send"
		return rf
	}
	rf.why["replyChannel"] = fmt.Sprintf("%s, sent on %s as field %s", ch, sendChan, field)

	// uses of the channel variable: its definition, the literal, close(ch) calls, receives `<-ch`; anything else is an escape
	nClose, nRecv := 0, 0
	closeDeferredTop := false
	ast.Inspect(send.Body, func(n ast.Node) bool {
		switch v := n.(type) {
		case *ast.CallExpr:
			if exprString(v.Fun) == "close" && len(v.Args) == 1 && exprString(v.Args[0]) == ch {
				nClose++
			}
		case *ast.UnaryExpr:
			if v.Op == token.ARROW && exprString(v.X) == ch {
				nRecv++
			}
		}
		return true
	})
	for _, st := range send.Body.List {
		if ds, ok := st.(*ast.DeferStmt); ok && exprString(ds.Call.Fun) == "close" && len(ds.Call.Args) == 1 && exprString(ds.Call.Args[0]) == ch {
			closeDeferredTop = true
		}
	}
	// (a field key of the same name inside the literal is an identifier too)
	escapes := countIdent(send.Body, ch) - (1 + countIdent(handLit, ch) + nClose + nRecv)
	if n := countIdent(handLit, ch); n > 2 {
		escapes += n
	}
	rf.closes = nClose > 0
	rf.why["close"] = fmt.Sprintf("close(%s) x%d (top-level defer: %v)", ch, nClose, closeDeferredTop)

	// the only way out after the hand-over is a plain receive from the reply channel
	switch {
	case escapes != 0:
		rf.why["waits"] = fmt.Sprintf("the reply channel has %d use(s) other than make / hand-over / close / receive", escapes)
	case nClose > 0 && !(nClose == 1 && closeDeferredTop):
		rf.why["waits"] = "the reply channel is closed other than by one top-level defer"
	default:
		ok := true
		if handClause != nil {
			if r, o := leavesOf(&ast.BlockStmt{List: handClause.Body}); r != 0 || o != "" {
				ok = false
				rf.why["waits"] = "the hand-over clause itself leaves Send"
			}
		}
		iRecv := -1
		if ok {
			for i := iHand + 1; i < len(send.Body.List); i++ {
				st := send.Body.List[i]
				if plainRecvStmt(st, ch) {
					iRecv = i
					break
				}
				if r, o := leavesOf(st); r != 0 || o != "" {
					ok = false
					rf.why["waits"] = "Send can return between the hand-over and the receive of the reply: " + stmtBrief(st)
					break
				}
				if countIdent(st, ch) != 0 {
					ok = false
					rf.why["waits"] = "the reply is received inside " + stmtBrief(st) + " (alternatives to the receive)"
					break
				}
			}
		}
		if ok && iRecv < 0 {
			ok = false
			rf.why["waits"] = "no plain receive from the reply channel after the hand-over"
		}
		if ok {
			rf.waits = true
			rf.why["waits"] = fmt.Sprintf("hand-over in statement %d, plain receive in statement %d, no way out in between", iHand, iRecv)
		}
	}

	// ---- StartStream: the goroutine that takes requests from the same channel replies exactly once per request
	var taker *ast.CommClause
	se := ""
	takers := 0
	ast.Inspect(start.Body, func(n ast.Node) bool {
		cl, ok := n.(*ast.CommClause)
		if !ok || cl.Comm == nil {
			return true
		}
		var rhs ast.Expr
		name := "_"
		switch v := cl.Comm.(type) {
		case *ast.AssignStmt:
			if len(v.Rhs) == 1 && len(v.Lhs) == 1 {
				rhs, name = v.Rhs[0], exprString(v.Lhs[0])
			}
		case *ast.ExprStmt:
			rhs = v.X
		}
		if rhs != nil && isRecvFrom(rhs, sendChan) {
			takers++
			taker, se = cl, name
		}
		return true
	})
	switch {
	case takers != 1 || se == "_" || se == "":
		rf.why["once"] = fmt.Sprintf("%d select clause(s) of StartStream receive a request from %s", takers, sendChan)
	default:
		reply := se + "." + field
		sends, topSends := 0, 0
		firstSend := -1
		for i, st := range taker.Body {
			if ss, ok := st.(*ast.SendStmt); ok && exprString(ss.Chan) == reply {
				topSends++
				if firstSend < 0 {
					firstSend = i
				}
			}
		}
		ast.Inspect(&ast.BlockStmt{List: taker.Body}, func(n ast.Node) bool {
			if ss, ok := n.(*ast.SendStmt); ok && exprString(ss.Chan) == reply {
				sends++
			}
			return true
		})
		// every mention of se.<field>: exactly the one send
		mentions := 0
		ast.Inspect(start.Body, func(n ast.Node) bool {
			if sel, ok := n.(*ast.SelectorExpr); ok && exprString(sel) == reply {
				mentions++
			}
			return true
		})
		// the request value itself must not travel on (another goroutine could reply as well)
		seUses := countIdent(&ast.BlockStmt{List: taker.Body}, se)
		seSelectors := 0
		ast.Inspect(&ast.BlockStmt{List: taker.Body}, func(n ast.Node) bool {
			if sel, ok := n.(*ast.SelectorExpr); ok {
				if id, ok := sel.X.(*ast.Ident); ok && id.Name == se {
					seSelectors++
				}
			}
			return true
		})
		early := false
		if firstSend >= 0 {
			for _, st := range taker.Body[:firstSend] {
				r, o := leavesOf(st)
				brk := false
				ast.Inspect(st, func(n ast.Node) bool {
					if _, ok := n.(*ast.FuncLit); ok {
						return false
					}
					if b, ok := n.(*ast.BranchStmt); ok && (b.Tok == token.BREAK || b.Tok == token.CONTINUE) {
						brk = true
					}
					return true
				})
				if r != 0 || o != "" || brk {
					early = true
				}
			}
		}
		switch {
		case sends != 1 || topSends != 1 || mentions != 1:
			rf.why["once"] = fmt.Sprintf("%s: %d send(s) (%d unconditional), %d mention(s) in StartStream", reply, sends, topSends, mentions)
		case seUses != seSelectors:
			rf.why["once"] = "the request value " + se + " is passed on as a whole"
		case early:
			rf.why["once"] = "the clause can be left before the reply is sent"
		default:
			rf.once = true
			rf.why["once"] = fmt.Sprintf("one unconditional `%s <- …` per request taken from %s", reply, sendChan)
		}
	}
	return rf
}

func extractReplyChan(p *pkgs, f *facts) {
	for _, t := range []struct{ def, typ string }{{"replyChanServer", "gRPCBrokerServer"}, {"replyChanClient", "gRPCBrokerClientImpl"}} {
		rf := replyChanFacts(p, t.typ)
		f.lean = append(f.lean, fmt.Sprintf("def %s : ReplyChan.Params :=\n  { sendWaitsForReply := %s, sendClosesReply := %s, workerRepliesOnce := %s }",
			t.def, leanBool(rf.waits), leanBool(rf.closes), leanBool(rf.once)))
		f.set(t.def, map[string]interface{}{"type": t.typ, "sendWaitsForReply": rf.waits, "sendClosesReply": rf.closes,
			"workerRepliesOnce": rf.once, "notes": rf.why})
	}
}
