package main

// Facts of the shutdown call graph and the `go` statement sites (C18),
// Model/Resources.lean `Params`.
//
// Every fact is "function F contains the call / statement X on the value that
// flows from Y", located by receiver + method + rendered expression, never by
// line number.  A pattern that is not found yields `false` (or site number 0),
// which makes Instance/C18.lean fail.

import (
	"fmt"
	"go/ast"
	"go/parser"
	"go/token"
	"os"
	"path/filepath"
	"sort"
	"strings"
)

func init() {
	registerExtractor("resources", []string{"GoPlugin.Model.Resources"}, extractResources)
}

// siteCodes: descriptor "<Recv.>Func:<last selector of the callee | func>#<k>" -> Site.code of Model/Resources.lean.
var siteCodes = map[string]int{
	"CleanupClients:func#1":                   1,
	"Client.Start:logStderr#1":                2,
	"Client.Start:func#1":                     3,
	"Client.Start:func#2":                     4,
	"Client.Start:func#3":                     5,
	"Client.reattach:func#1":                  6,
	"gRPCBrokerServer.StartStream:func#1":     7,
	"gRPCBrokerClientImpl.StartStream:func#1": 8,
	"GRPCBroker.Accept:func#1":                9,
	"GRPCBroker.Run:timeoutWait#1":            10,
	"GRPCBroker.Run:knockExpiry#1":            29,
	"newGRPCClient:Run#1":                     11,
	"newGRPCClient:StartStream#1":             12,
	"newGRPCClient:Run#2":                     13,
	"GRPCServer.Init:Run#1":                   14,
	"newGRPCStdioServer:copyChan#1":           15,
	"newGRPCStdioServer:copyChan#2":           16,
	"NewGRPCServerMuxer:acceptSession#1":      17,
	"MuxBroker.Run:timeoutWait#1":             18,
	"NewRPCClient:Run#1":                      19,
	"RPCClient.SyncStreams:copyStream#1":      20,
	"RPCClient.SyncStreams:copyStream#2":      21,
	"RPCServer.Serve:ServeConn#1":             22,
	"RPCServer.ServeConn:copyChanStream#1":    23,
	"RPCServer.ServeConn:copyChanStream#2":    24,
	"RPCServer.ServeConn:copyChan#1":          30,
	"RPCServer.ServeConn:copyChan#2":          31,
	"RPCServer.ServeConn:Run#1":               25,
	"dispenseServer.Dispense:func#1":          26,
	"Serve:func#1":                            27,
	"Serve:Serve#1":                           28,
	"blockedClientListener.Close:func#1":      32,
}

func recvTypeName(fd *ast.FuncDecl) string {
	if fd.Recv == nil || len(fd.Recv.List) != 1 {
		return ""
	}
	t := fd.Recv.List[0].Type
	if s, ok := t.(*ast.StarExpr); ok {
		t = s.X
	}
	if id, ok := t.(*ast.Ident); ok {
		return id.Name
	}
	return "?"
}

// goSites lists the `go` statements of every non-test, non-example Go file of
// the repository (excluding the test helpers in testing.go and the
// verification hooks), as descriptors in source order per function.
func goSites(repo string) (descs []string, err error) {
	fset := token.NewFileSet()
	var files []string
	err = filepath.Walk(repo, func(path string, info os.FileInfo, err error) error {
		if err != nil {
			return nil
		}
		rel, _ := filepath.Rel(repo, path)
		if info.IsDir() {
			switch {
			case rel == "examples" || rel == "test" || rel == "docs" || rel == filepath.Join("internal", "verifhook"):
				return filepath.SkipDir
			case strings.HasPrefix(info.Name(), ".") && rel != ".":
				return filepath.SkipDir
			case info.Name() == "testdata":
				return filepath.SkipDir
			}
			return nil
		}
		n := info.Name()
		if !strings.HasSuffix(n, ".go") || strings.HasSuffix(n, "_test.go") || strings.HasPrefix(n, "verif_") || rel == "testing.go" {
			return nil
		}
		files = append(files, path)
		return nil
	})
	sort.Strings(files)
	// parse per directory (= package) and bring every package into the normal form of normalize.go:
	// `go x.helper(a)` with a single-use unexported helper is the site `Owner:func#k`, like a literal
	parsed := map[string]*ast.File{}
	byDir := map[string]map[string]*ast.File{}
	for _, path := range files {
		af, perr := parser.ParseFile(fset, path, nil, 0)
		if perr != nil {
			return nil, perr
		}
		d := filepath.Dir(path)
		if byDir[d] == nil {
			byDir[d] = map[string]*ast.File{}
		}
		byDir[d][path] = af
	}
	for _, m := range byDir {
		normalizePackage(fset, m, func(k string) string { return k })
		for k, af := range m {
			parsed[k] = af
		}
	}
	for _, path := range files {
		af := parsed[path]
		for _, d := range af.Decls {
			fd, ok := d.(*ast.FuncDecl)
			if !ok || fd.Body == nil {
				continue
			}
			owner := fd.Name.Name
			if r := recvTypeName(fd); r != "" {
				owner = r + "." + owner
			}
			count := map[string]int{}
			ast.Inspect(fd.Body, func(n ast.Node) bool {
				gs, ok := n.(*ast.GoStmt)
				if !ok {
					return true
				}
				callee := "?"
				switch fn := gs.Call.Fun.(type) {
				case *ast.FuncLit:
					callee = "func"
				case *ast.Ident:
					callee = fn.Name
				case *ast.SelectorExpr:
					callee = fn.Sel.Name
				}
				count[callee]++
				descs = append(descs, fmt.Sprintf("%s:%s#%d", owner, callee, count[callee]))
				return true
			})
		}
	}
	return descs, err
}

// ---- small AST helpers

// hasCall: does n contain a call whose function renders exactly as name?
func hasCall(n ast.Node, name string) bool { return len(calls(n, name, false)) > 0 }

// topIndexOfCall: index of the first top-level statement of body that contains a call rendering as name (-1 if none).
func topIndexOfCall(body *ast.BlockStmt, name string) int {
	if body == nil {
		return -1
	}
	for i, s := range body.List {
		if hasCall(s, name) {
			return i
		}
	}
	return -1
}

// assignedFrom: names of variables assigned (:= or =) from a call rendering as fn inside n.
func assignedFrom(n ast.Node, fn string) []string {
	var out []string
	if n == nil {
		return out
	}
	ast.Inspect(n, func(m ast.Node) bool {
		as, ok := m.(*ast.AssignStmt)
		if !ok || len(as.Rhs) != 1 {
			return true
		}
		if c, ok := as.Rhs[0].(*ast.CallExpr); ok && exprString(c.Fun) == fn && len(as.Lhs) > 0 {
			out = append(out, exprString(as.Lhs[0]))
		}
		return true
	})
	return out
}

// deferredCalls: bodies of `defer func() {…}()` statements in fn, and the calls of plain `defer f(x)` statements.
func deferredCalls(fn *ast.FuncDecl) (lits []*ast.BlockStmt, plain []*ast.CallExpr) {
	if fn == nil || fn.Body == nil {
		return
	}
	ast.Inspect(fn.Body, func(n ast.Node) bool {
		ds, ok := n.(*ast.DeferStmt)
		if !ok {
			return true
		}
		if fl, ok := ds.Call.Fun.(*ast.FuncLit); ok {
			lits = append(lits, fl.Body)
		} else {
			plain = append(plain, ds.Call)
		}
		return true
	})
	return
}

// helperBodies: methods of type typ called on receiver variable recv inside n (one level of helpers).
func (p *pkgs) helperBodies(n ast.Node, recv, typ string) []*ast.FuncDecl {
	var out []*ast.FuncDecl
	if n == nil {
		return out
	}
	ast.Inspect(n, func(m ast.Node) bool {
		c, ok := m.(*ast.CallExpr)
		if !ok {
			return true
		}
		sel, ok := c.Fun.(*ast.SelectorExpr)
		if !ok || exprString(sel.X) != recv {
			return true
		}
		if fd := p.fn(typ, sel.Sel.Name); fd != nil {
			out = append(out, fd)
		}
		return true
	})
	return out
}

func recvVar(fd *ast.FuncDecl) string {
	if fd == nil || fd.Recv == nil || len(fd.Recv.List) != 1 || len(fd.Recv.List[0].Names) != 1 {
		return ""
	}
	return fd.Recv.List[0].Names[0].Name
}

// rangedAndClosedFields: fields F of the receiver such that fd contains `for k, v := range recv.F { … (k|v).Close() … }`.
func rangedAndClosedFields(fd *ast.FuncDecl) map[string]bool {
	res := map[string]bool{}
	rv := recvVar(fd)
	if fd == nil || fd.Body == nil || rv == "" {
		return res
	}
	ast.Inspect(fd.Body, func(n ast.Node) bool {
		rs, ok := n.(*ast.RangeStmt)
		if !ok {
			return true
		}
		x := exprString(rs.X)
		if !strings.HasPrefix(x, rv+".") {
			// a local copy: `lns := b.listeners` followed by `range lns`
			for _, src := range assignedFromExprPrefix(fd.Body, x, rv+".") {
				x = src
			}
			if !strings.HasPrefix(x, rv+".") {
				return true
			}
		}
		field := strings.TrimPrefix(x, rv+".")
		// EVERY element is closed: nothing in the loop body can leave the loop early (return, break, goto, panic)
		early := false
		ast.Inspect(rs.Body, func(m ast.Node) bool {
			switch v := m.(type) {
			case *ast.FuncLit:
				return false
			case *ast.ReturnStmt:
				early = true
			case *ast.BranchStmt:
				if v.Tok == token.BREAK || v.Tok == token.GOTO {
					early = true
				}
			case *ast.CallExpr:
				if exprString(v.Fun) == "panic" {
					early = true
				}
			}
			return true
		})
		if early {
			return true
		}
		for _, v := range []ast.Expr{rs.Key, rs.Value} {
			if v == nil {
				continue
			}
			if hasCall(rs.Body, exprString(v)+".Close") {
				res[field] = true
			}
		}
		return true
	})
	return res
}

// assignedFromExprPrefix: right-hand sides (rendered) with the given prefix assigned to variable name inside n.
func assignedFromExprPrefix(n ast.Node, name, prefix string) []string {
	var out []string
	ast.Inspect(n, func(m ast.Node) bool {
		as, ok := m.(*ast.AssignStmt)
		if !ok || len(as.Lhs) != 1 || len(as.Rhs) != 1 || exprString(as.Lhs[0]) != name {
			return true
		}
		if r := exprString(as.Rhs[0]); strings.HasPrefix(r, prefix) {
			out = append(out, r)
		}
		return true
	})
	return out
}

// storedFields: fields F of the receiver that fd stores into (`recv.F[k] = v`, `recv.F = append(recv.F, v)`).
func storedFields(fd *ast.FuncDecl) map[string]bool {
	res := map[string]bool{}
	rv := recvVar(fd)
	if fd == nil || fd.Body == nil || rv == "" {
		return res
	}
	ast.Inspect(fd.Body, func(n ast.Node) bool {
		as, ok := n.(*ast.AssignStmt)
		if !ok {
			return true
		}
		for _, l := range as.Lhs {
			if ix, ok := l.(*ast.IndexExpr); ok {
				l = ix.X
			}
			if x := exprString(l); strings.HasPrefix(x, rv+".") {
				res[strings.TrimPrefix(x, rv+".")] = true
			}
		}
		return true
	})
	return res
}

func extractResources(p *pkgs, f *facts) {
	b := map[string]bool{}
	note := map[string]interface{}{}

	// ---- host: Client.Kill
	kill := p.fn("Client", "Kill")
	if kill == nil {
		f.miss = append(f.miss, "Client.Kill")
	} else {
		for _, v := range assignedFrom(kill.Body, "c.Client") {
			if hasCall(kill.Body, v+".Close") {
				b["killClosesClient"] = true
			}
		}
		lits, _ := deferredCalls(kill)
		var dirVars []string
		ast.Inspect(kill.Body, func(n ast.Node) bool {
			as, ok := n.(*ast.AssignStmt)
			if ok && len(as.Lhs) == 1 && len(as.Rhs) == 1 && strings.HasSuffix(exprString(as.Rhs[0]), ".socketDir") {
				dirVars = append(dirVars, exprString(as.Lhs[0]))
			}
			return true
		})
		for _, body := range lits {
			iWait := topIndexOfCall(body, "c.clientWaitGroup.Wait")
			if iWait >= 0 {
				b["killWaitsForGoroutines"] = true
			}
			for _, c := range calls(body, "os.RemoveAll", false) {
				if len(c.Args) != 1 {
					continue
				}
				a := exprString(c.Args[0])
				ok := strings.HasSuffix(a, ".socketDir")
				for _, v := range dirVars {
					ok = ok || a == v
				}
				if ok {
					b["killRemovesSocketDir"] = true
				}
			}
		}
	}

	if kill != nil {
		ok, why := killCleanupWheneverRunner(kill)
		b["killCleanupWheneverRunner"] = ok
		note["killCleanupWheneverRunner"] = why
	}

	// ---- host: protocol clients' Close
	gclose := p.fn("GRPCClient", "Close")
	bclose := p.fn("GRPCBroker", "Close")
	brokerCloseOK := bclose != nil && hasCall(bclose.Body, "b.streamer.Close")
	if bclose != nil {
		ok := false
		for _, c := range calls(bclose.Body, "close", false) {
			if len(c.Args) == 1 && strings.HasSuffix(exprString(c.Args[0]), ".doneCh") {
				ok = true
			}
		}
		brokerCloseOK = brokerCloseOK && ok
	}
	note["grpcBrokerCloseClosesQuitAndDoneCh"] = brokerCloseOK
	if gclose == nil {
		f.miss = append(f.miss, "GRPCClient.Close")
	} else {
		b["grpcCloseClosesBroker"] = hasCall(gclose.Body, "c.broker.Close") && brokerCloseOK
		b["grpcCloseShutsDown"] = hasCall(gclose.Body, "c.controller.Shutdown")
		note["grpcCloseClosesConn"] = hasCall(gclose.Body, "c.Conn.Close")
	}
	rclose := p.fn("RPCClient", "Close")
	if rclose == nil {
		f.miss = append(f.miss, "RPCClient.Close")
	} else {
		quit := false
		for _, c := range calls(rclose.Body, "c.control.Call", false) {
			if len(c.Args) > 0 && exprString(c.Args[0]) == `"Control.Quit"` {
				quit = true
			}
		}
		q := p.fn("controlServer", "Quit")
		d := p.fn("RPCServer", "done")
		doneCloses := false
		if d != nil {
			for _, c := range calls(d.Body, "close", false) {
				if len(c.Args) == 1 && strings.HasSuffix(exprString(c.Args[0]), ".DoneCh") {
					doneCloses = true
				}
			}
		}
		b["rpcCloseCallsQuit"] = quit && q != nil && hasCall(q.Body, "c.server.done") && doneCloses
		note["rpcCloseClosesBroker"] = hasCall(rclose.Body, "c.broker.Close")
	}

	// ---- plugin: Shutdown -> GRPCServer.Stop
	if sd := p.fn("grpcControllerServer", "Shutdown"); sd != nil {
		b["shutdownStopsServer"] = hasCall(sd.Body, "s.server.Stop")
	} else {
		f.miss = append(f.miss, "grpcControllerServer.Shutdown")
	}
	if stop := p.fn("GRPCServer", "Stop"); stop != nil {
		iSrv := topIndexOfCall(stop.Body, "s.server.Stop")
		iBrk := topIndexOfCall(stop.Body, "s.broker.Close")
		if iBrk < 0 {
			// one level of helper: a method of GRPCServer called at top level that closes (a copy of) s.broker
			for i, st := range stop.Body.List {
				es, ok := st.(*ast.ExprStmt)
				if !ok {
					continue
				}
				ce, ok := es.X.(*ast.CallExpr)
				if !ok {
					continue
				}
				sel, ok := ce.Fun.(*ast.SelectorExpr)
				if !ok || exprString(sel.X) != "s" {
					continue
				}
				if h := p.fn("GRPCServer", sel.Sel.Name); h != nil && helperClosesBroker(h) {
					iBrk = i
					break
				}
			}
		}
		serveClosesDone := false
		if sv := p.fn("GRPCServer", "Serve"); sv != nil {
			_, plain := deferredCalls(sv)
			for _, c := range plain {
				if exprString(c.Fun) == "close" && len(c.Args) == 1 && strings.HasSuffix(exprString(c.Args[0]), ".DoneCh") {
					serveClosesDone = true
				}
			}
		}
		b["stopStopsGrpcServer"] = iSrv >= 0 && serveClosesDone
		b["stopClosesBroker"] = iBrk >= 0
		b["stopClosesBrokerFirst"] = iBrk >= 0 && iSrv >= 0 && iBrk < iSrv
		note["stopStmtIndex"] = map[string]int{"server.Stop": iSrv, "broker.Close": iBrk}
	} else {
		f.miss = append(f.miss, "GRPCServer.Stop")
	}

	// ---- GRPCBroker: Accept / AcceptAndServe / Close
	acc := p.fn("GRPCBroker", "Accept")
	if acc == nil {
		f.miss = append(f.miss, "GRPCBroker.Accept")
	} else {
		// the value returned by the non-multiplexed path derives from serverListener(b.unixSocketCfg)
		derived := map[string]bool{}
		ast.Inspect(acc.Body, func(n ast.Node) bool {
			as, ok := n.(*ast.AssignStmt)
			if !ok || len(as.Rhs) != 1 || len(as.Lhs) == 0 {
				return true
			}
			c, ok := as.Rhs[0].(*ast.CallExpr)
			if !ok {
				return true
			}
			if exprString(c.Fun) == "serverListener" {
				derived[exprString(as.Lhs[0])] = true
				return true
			}
			for _, a := range c.Args {
				if derived[exprString(a)] {
					derived[exprString(as.Lhs[0])] = true
				}
			}
			return true
		})
		// last top-level statement is the return of the non-mux path
		if n := len(acc.Body.List); n > 0 {
			if rs, ok := acc.Body.List[n-1].(*ast.ReturnStmt); ok && len(rs.Results) == 2 {
				b["brokeredListenerIsRmListener"] = derived[exprString(rs.Results[0])]
			}
		}
		// does Accept (or a helper of b it calls) register the listener in a field that Close (or a helper) ranges over and closes?
		stored := storedFields(acc)
		for _, h := range p.helperBodies(acc.Body, recvVar(acc), "GRPCBroker") {
			for k := range storedFields(h) {
				stored[k] = true
			}
		}
		closed := rangedAndClosedFields(bclose)
		if bclose != nil {
			for _, h := range p.helperBodies(bclose.Body, recvVar(bclose), "GRPCBroker") {
				for k := range rangedAndClosedFields(h) {
					closed[k] = true
				}
			}
		}
		var both []string
		for k := range closed {
			if stored[k] {
				both = append(both, k)
			}
		}
		sort.Strings(both)
		// … and that holds for EVERY listener Accept hands out (the multiplexed path and the socket path alike): each
		// `return L, nil` returns b.trackListener(…) itself or a variable last assigned from it
		allTracked, nRet := true, 0
		tracked := map[string]bool{}
		ast.Inspect(acc.Body, func(n ast.Node) bool {
			switch v := n.(type) {
			case *ast.FuncLit:
				return false
			case *ast.AssignStmt:
				if len(v.Lhs) >= 1 && len(v.Rhs) == 1 {
					tracked[exprString(v.Lhs[0])] = strings.HasPrefix(exprString(v.Rhs[0]), recvVar(acc)+".trackListener(")
				}
			case *ast.ReturnStmt:
				if len(v.Results) == 2 && exprString(v.Results[1]) == "nil" {
					nRet++
					r := exprString(v.Results[0])
					if !strings.HasPrefix(r, recvVar(acc)+".trackListener(") && !tracked[r] {
						allTracked = false
					}
				}
			}
			return true
		})
		note["acceptReturnsTracked"] = fmt.Sprintf("%v (%d returns)", allTracked, nRet)
		b["brokerCloseClosesListeners"] = len(both) > 0 && allTracked && nRet >= 1
		note["brokerListenerFields"] = both
	}
	if as := p.fn("GRPCBroker", "AcceptAndServe"); as == nil {
		f.miss = append(f.miss, "GRPCBroker.AcceptAndServe")
	} else {
		_, plain := deferredCalls(as)
		for _, v := range assignedFrom(as.Body, "b.Accept") {
			for _, c := range plain {
				if exprString(c.Fun) == v+".Close" {
					b["acceptAndServeClosesListener"] = true
				}
			}
		}
		ast.Inspect(as.Body, func(n ast.Node) bool {
			if ss, ok := n.(*ast.SelectStmt); ok {
				for _, c := range describeSelect(p, ss).comms {
					if c == "<-b.doneCh" {
						b["acceptAndServeEndsOnBrokerDone"] = true
					}
				}
			}
			return true
		})
	}

	// ---- plugin: Serve's deferred listener.Close(), the rmListener, the muxer
	if serve := p.fn("", "Serve"); serve == nil {
		f.miss = append(f.miss, "Serve")
	} else {
		lits, _ := deferredCalls(serve)
		for _, v := range assignedFrom(serve.Body, "serverListener") {
			for _, body := range lits {
				if hasCall(body, v+".Close") {
					b["serveDefersListenerClose"] = true
				}
			}
		}
	}
	{
		su := p.fn("", "serverListener_unix")
		nd := p.fn("", "newDeleteFileListener")
		rc := p.fn("rmListener", "Close")
		sl := p.fn("", "serverListener")
		ok := su != nil && nd != nil && rc != nil && sl != nil
		if ok {
			ret := false
			if n := len(su.Body.List); n > 0 {
				if rs, isRet := su.Body.List[n-1].(*ast.ReturnStmt); isRet && len(rs.Results) >= 1 {
					if c, isCall := rs.Results[0].(*ast.CallExpr); isCall && exprString(c.Fun) == "newDeleteFileListener" {
						ret = true
					}
				}
			}
			ok = ret && hasCall(nd.Body, "os.Remove") && hasCall(rc.Body, "l.Listener.Close") && hasCall(rc.Body, "l.close") &&
				hasCall(sl.Body, "serverListener_unix")
		}
		b["listenerRemovesFile"] = ok
	}
	{
		// NewGRPCServerMuxer(logger, ln): the field that keeps ln, and Close calling <recv>.<field>.Close()
		// before any return (or deferred), i.e. also when no session was established.
		ctor := p.fn("", "NewGRPCServerMuxer")
		cl := p.fn("GRPCServerMuxer", "Close")
		kept := ""
		if ctor != nil && cl != nil {
			lnParam := ""
			for _, fld := range ctor.Type.Params.List {
				if exprString(fld.Type) == "net.Listener" && len(fld.Names) == 1 {
					lnParam = fld.Names[0].Name
				}
			}
			for k, v := range literalFields(ctor.Body, "GRPCServerMuxer") {
				if v == lnParam && lnParam != "" {
					kept = k
				}
			}
			if kept == "" && lnParam != "" {
				ast.Inspect(ctor.Body, func(n ast.Node) bool {
					if as, ok := n.(*ast.AssignStmt); ok && len(as.Lhs) == 1 && len(as.Rhs) == 1 && exprString(as.Rhs[0]) == lnParam {
						if sel, ok := as.Lhs[0].(*ast.SelectorExpr); ok {
							kept = sel.Sel.Name
						}
					}
					return true
				})
			}
			if kept != "" {
				call := recvVar(cl) + "." + kept + ".Close"
				_, plain := deferredCalls(cl)
				for _, c := range plain {
					if exprString(c.Fun) == call {
						b["muxerCloseClosesWrappedListener"] = true
					}
				}
				lits, _ := deferredCalls(cl)
				for _, body := range lits {
					if hasCall(body, call) {
						b["muxerCloseClosesWrappedListener"] = true
					}
				}
				// or: a top-level statement before the first statement that can return
				for _, s := range cl.Body.List {
					if hasCall(s, call) {
						b["muxerCloseClosesWrappedListener"] = true
						break
					}
					canReturn := false
					ast.Inspect(s, func(n ast.Node) bool {
						if _, ok := n.(*ast.ReturnStmt); ok {
							canReturn = true
						}
						return true
					})
					if canReturn {
						break
					}
				}
			}
		} else {
			f.miss = append(f.miss, "grpcmux.NewGRPCServerMuxer / GRPCServerMuxer.Close")
		}
		note["muxerKeepsListenerInField"] = kept
	}

	// ---- go statement sites
	descs, err := goSites(os.Args[1])
	if err != nil {
		f.miss = append(f.miss, "go sites: "+err.Error())
	}
	var codes []int
	var unknown []string
	for _, d := range descs {
		c := siteCodes[d]
		if c == 0 {
			unknown = append(unknown, d)
		}
		codes = append(codes, c)
	}
	sort.Ints(codes)
	cs := make([]string, len(codes))
	for i, c := range codes {
		cs[i] = fmt.Sprint(c)
	}

	order := []string{"killClosesClient", "killWaitsForGoroutines", "killRemovesSocketDir", "grpcCloseClosesBroker",
		"grpcCloseShutsDown", "rpcCloseCallsQuit", "shutdownStopsServer", "stopStopsGrpcServer", "stopClosesBroker",
		"stopClosesBrokerFirst", "brokerCloseClosesListeners", "serveDefersListenerClose", "muxerCloseClosesWrappedListener",
		"acceptAndServeClosesListener", "acceptAndServeEndsOnBrokerDone", "brokeredListenerIsRmListener", "listenerRemovesFile"}
	// (goSites is printed between these and the facts added later, in the order of the Lean structure)
	// Client.unixSocketCfg is a VALUE field and Start fills it by copy (`c.unixSocketCfg = *c.config.UnixSocketConfig`)
	{
		valueField, copied := false, false
		for _, file := range p.files {
			ast.Inspect(file, func(n ast.Node) bool {
				ts, ok := n.(*ast.TypeSpec)
				if !ok || ts.Name.Name != "Client" {
					return true
				}
				if st, ok := ts.Type.(*ast.StructType); ok {
					for _, fl := range st.Fields.List {
						for _, nm := range fl.Names {
							if nm.Name == "unixSocketCfg" {
								_, isIdent := fl.Type.(*ast.Ident)
								valueField = isIdent
							}
						}
					}
				}
				return false
			})
		}
		if st := p.fn("Client", "Start"); st != nil {
			n := 0
			ast.Inspect(st.Body, func(m ast.Node) bool {
				if as, ok := m.(*ast.AssignStmt); ok && len(as.Lhs) == 1 && len(as.Rhs) == 1 && exprString(as.Lhs[0]) == "c.unixSocketCfg" {
					n++
					copied = exprString(as.Rhs[0]) == "*c.config.UnixSocketConfig"
				}
				return true
			})
			copied = copied && n == 1
		}
		b["socketDirOwnedByClient"] = valueField && copied
	}
	// Start, RunnerFunc case of the runner switch: after `…socketDir, err = os.MkdirTemp(…)` every return statement of that case
	// (outside the MkdirTemp's own error check) is directly preceded by a statement that removes the directory
	// (os.RemoveAll(…socketDir) itself or a call of a local closure whose body does it)
	{
		okAll, nRet := false, 0
		if st := p.fn("Client", "Start"); st != nil {
			ast.Inspect(st.Body, func(n ast.Node) bool {
				// (the runner switch is tagless: after normalisation its cases are the arms of an if/else chain)
				var body []ast.Stmt
				switch v := n.(type) {
				case *ast.CaseClause:
					if len(v.List) == 1 && strings.Contains(exprString(v.List[0]), "RunnerFunc") {
						body = v.Body
					}
				case *ast.IfStmt:
					if strings.Contains(exprString(v.Cond), "RunnerFunc!=nil") && strings.Contains(nodeCalls(v.Body), "os.MkdirTemp(") {
						body = v.Body.List
					}
				}
				if body == nil {
					return true
				}
				removers := map[string]bool{}
				seenMk := false
				okAll = true
				var walk func(list []ast.Stmt)
				walk = func(list []ast.Stmt) {
					for i, s := range list {
						if as, ok := s.(*ast.AssignStmt); ok && len(as.Rhs) == 1 {
							if strings.HasPrefix(exprString(as.Rhs[0]), "os.MkdirTemp(") {
								seenMk = true
								continue
							}
							if fl, ok := as.Rhs[0].(*ast.FuncLit); ok && strings.Contains(nodeCalls(fl.Body), "os.RemoveAll(") && len(as.Lhs) == 1 {
								removers[exprString(as.Lhs[0])] = true
							}
						}
						if is, ok := s.(*ast.IfStmt); ok {
							if !seenMk || (i > 0 && isMkdirTempAssign(list[i-1])) {
								continue // the MkdirTemp's own error check: there is nothing to remove yet
							}
							walk(is.Body.List)
						}
						if _, ok := s.(*ast.ReturnStmt); ok && seenMk {
							nRet++
							// one of the statements in front of it, in the same block, removes the directory
							prevOK := false
							for _, ps := range list[:i] {
								if es, ok := ps.(*ast.ExprStmt); ok {
									c := exprString(es.X)
									if (strings.HasPrefix(c, "os.RemoveAll(") && strings.Contains(c, "socketDir")) || removers[strings.TrimSuffix(c, "()")] {
										prevOK = true
									}
								}
							}
							if !prevOK {
								okAll = false
							}
						}
					}
				}
				walk(body)
				return false
			})
		}
		b["socketDirRemovedIfNoRunner"] = okAll && nRet >= 2
	}
	orderTail := []string{"killCleanupWheneverRunner", "socketDirOwnedByClient", "socketDirRemovedIfNoRunner"}
	var fields []string
	js := map[string]interface{}{}
	for _, k := range order {
		fields = append(fields, fmt.Sprintf("%s := %s", k, leanBool(b[k])))
		js[k] = b[k]
	}
	fields = append(fields, "goSites := ["+strings.Join(cs, ", ")+"]")
	for _, k := range orderTail {
		fields = append(fields, fmt.Sprintf("%s := %s", k, leanBool(b[k])))
		js[k] = b[k]
	}
	f.lean = append(f.lean, "def resources : Resources.Params :=\n  { "+strings.Join(fields, ",\n    ")+" }")
	js["goSites"] = descs
	js["goSitesUnknownToModel"] = unknown
	js["goSiteCount"] = len(descs)
	js["notes"] = note
	f.set("resources", js)
}

// killCleanupWheneverRunner: is the deferred clean-up of Client.Kill (the `defer func(){…}()` whose body
// calls c.clientWaitGroup.Wait / os.RemoveAll) registered whenever a runner was recorded, and does it reach
// both calls on every path?  Syntactic and conservative:
//   - the defer is a top-level statement of Kill;
//   - every `return` in the statements above it sits directly in a top-level `if` without init/else whose
//     condition is a disjunction of only `R == nil` and `R.ID() == ""`, R a variable assigned from c.runner
//     (the nothing-was-launched check); no goto / panic / os.Exit / runtime.Goexit above it;
//   - the deferred body contains no `return`, its `c.clientWaitGroup.Wait()` is a top-level statement and its
//     os.RemoveAll is top-level or directly inside a top-level `if D != ""` on the directory variable.
func killCleanupWheneverRunner(kill *ast.FuncDecl) (bool, string) {
	if kill == nil || kill.Body == nil {
		return false, "no body"
	}
	runnerVars := map[string]bool{}
	dirVars := map[string]bool{}
	ast.Inspect(kill.Body, func(n ast.Node) bool {
		as, ok := n.(*ast.AssignStmt)
		if !ok || len(as.Lhs) != 1 || len(as.Rhs) != 1 {
			return true
		}
		switch r := exprString(as.Rhs[0]); {
		case r == "c.runner":
			runnerVars[exprString(as.Lhs[0])] = true
		case strings.HasSuffix(r, ".socketDir"):
			dirVars[exprString(as.Lhs[0])] = true
		}
		return true
	})
	iDefer := -1
	var body *ast.BlockStmt
	for i, st := range kill.Body.List {
		ds, ok := st.(*ast.DeferStmt)
		if !ok {
			continue
		}
		fl, ok := ds.Call.Fun.(*ast.FuncLit)
		if !ok {
			continue
		}
		if hasCall(fl.Body, "c.clientWaitGroup.Wait") || hasCall(fl.Body, "os.RemoveAll") {
			iDefer, body = i, fl.Body
			break
		}
	}
	if iDefer < 0 {
		return false, "no top-level deferred clean-up func"
	}
	allowedAtom := func(e ast.Expr) bool {
		be, ok := e.(*ast.BinaryExpr)
		if !ok || be.Op != token.EQL {
			return false
		}
		x, y := exprString(be.X), exprString(be.Y)
		if runnerVars[x] && y == "nil" {
			return true
		}
		if ce, ok := be.X.(*ast.CallExpr); ok && len(ce.Args) == 0 && y == `""` {
			if sel, ok := ce.Fun.(*ast.SelectorExpr); ok && sel.Sel.Name == "ID" && runnerVars[exprString(sel.X)] {
				return true
			}
		}
		return false
	}
	var allowedCond func(e ast.Expr) bool
	allowedCond = func(e ast.Expr) bool {
		if pe, ok := e.(*ast.ParenExpr); ok {
			return allowedCond(pe.X)
		}
		if be, ok := e.(*ast.BinaryExpr); ok && be.Op == token.LOR {
			return allowedCond(be.X) && allowedCond(be.Y)
		}
		return allowedAtom(e)
	}
	leaves := func(n ast.Node) (rets int, other string) {
		ast.Inspect(n, func(m ast.Node) bool {
			switch v := m.(type) {
			case *ast.FuncLit:
				return false
			case *ast.ReturnStmt:
				rets++
			case *ast.BranchStmt:
				if v.Tok == token.GOTO {
					other = "goto"
				}
			case *ast.CallExpr:
				switch exprString(v.Fun) {
				case "panic", "os.Exit", "runtime.Goexit":
					other = exprString(v.Fun)
				}
			}
			return true
		})
		return
	}
	for _, st := range kill.Body.List[:iDefer] {
		rets, other := leaves(st)
		if other != "" {
			return false, "leaves Kill above the defer through " + other
		}
		if rets == 0 {
			continue
		}
		is, ok := st.(*ast.IfStmt)
		if !ok || is.Init != nil || is.Else != nil || !allowedCond(is.Cond) {
			return false, "return above the defer not guarded by the no-runner check only: " + stmtBrief(st)
		}
		// the `if` body is the return alone (anything else could only be more returns, counted above)
	}
	if rets, other := leaves(body); rets != 0 || other != "" {
		return false, "the deferred clean-up func can return early"
	}
	waitTop, rmOK := false, false
	for _, st := range body.List {
		switch v := st.(type) {
		case *ast.ExprStmt:
			if ce, ok := v.X.(*ast.CallExpr); ok {
				switch exprString(ce.Fun) {
				case "c.clientWaitGroup.Wait":
					waitTop = true
				case "os.RemoveAll":
					rmOK = true
				}
			}
		case *ast.IfStmt:
			if v.Init != nil || !hasCall(v.Body, "os.RemoveAll") {
				continue
			}
			if be, ok := v.Cond.(*ast.BinaryExpr); ok && be.Op == token.NEQ && exprString(be.Y) == `""` &&
				(dirVars[exprString(be.X)] || strings.HasSuffix(exprString(be.X), ".socketDir")) {
				for _, inner := range v.Body.List {
					if es, ok := inner.(*ast.ExprStmt); ok {
						if ce, ok := es.X.(*ast.CallExpr); ok && exprString(ce.Fun) == "os.RemoveAll" {
							rmOK = true
						}
					}
				}
			}
		}
	}
	if !waitTop {
		return false, "clientWaitGroup.Wait is not an unconditional statement of the deferred func"
	}
	if !rmOK {
		return false, "os.RemoveAll is not reached whenever the directory variable is set"
	}
	return true, "defer is statement " + fmt.Sprint(iDefer) + " of Kill; only the no-runner return above it"
}

func stmtBrief(st ast.Stmt) string {
	if is, ok := st.(*ast.IfStmt); ok {
		return "if " + exprString(is.Cond)
	}
	return fmt.Sprintf("%T", st)
}

// helperClosesBroker: the function closes s.broker, directly or through a local copied from it.
func helperClosesBroker(fn *ast.FuncDecl) bool {
	calls := nodeCalls(fn.Body)
	if strings.Contains(calls, "s.broker.Close()") {
		return true
	}
	found := false
	ast.Inspect(fn.Body, func(n ast.Node) bool {
		as, ok := n.(*ast.AssignStmt)
		if !ok || len(as.Lhs) != 1 || len(as.Rhs) != 1 || exprString(as.Rhs[0]) != "s.broker" {
			return true
		}
		if strings.Contains(calls, exprString(as.Lhs[0])+".Close()") {
			found = true
		}
		return true
	})
	return found
}

func isMkdirTempAssign(s ast.Stmt) bool {
	as, ok := s.(*ast.AssignStmt)
	return ok && len(as.Rhs) == 1 && strings.HasPrefix(exprString(as.Rhs[0]), "os.MkdirTemp(")
}
