package main

// The ACCESS TABLE (C20, tie T-A), Model/Sync.lean `Access` / `CloseSite`.
//
// For every function of the package (and internal/grpcmux): each read/write of a
// field of one of the tracked struct types reached through a variable of that
// type (receiver, parameter, or a local bound to a constructor call / literal),
// together with
//
//   - the mutexes held at that point: an intraprocedural walk over the
//     statements tracking X.Lock() / X.Unlock() / defer X.Unlock() on mutex
//     fields (c.l, the embedded sync.Mutex, b.dialMutex, m.acceptMutex, s.lock),
//     branch-sensitively (the state after an if/switch/select is the
//     intersection of the branches that fall through), plus the mutexes held at
//     EVERY call site of an unexported function (one inference over the call
//     graph: Client() calls newGRPCClient(c) with c.l held, Start calls reattach…);
//   - whether it is inside X.Do(func(){…}) of a sync.Once field;
//   - whether it goes through sync/atomic;
//   - the role of the enclosing unit: 0 constructor (composite literal, or through
//     a local bound to a literal), 1 exported, 2 unexported, 3 goroutine / escaping
//     closure (named Parent$go1, Parent$fn2 …).
//
// Mutex identity is "Type.field"; two variables of one type are assumed to be
// the same object (every tracked type is used as a singleton per connection).
// Fields of value-struct type are one cell (c.unixSocketCfg.socketDir is an
// access to c.unixSocketCfg); paths through pointers are separate cells
// (c.config.Plugins) and read their prefixes.

import (
	"fmt"
	"go/ast"
	"go/token"
	"sort"
	"strings"
)

func init() {
	registerExtractor("sync", []string{"GoPlugin.Model.Sync"}, extractSync)
}

var syncTracked = []string{
	"Client", "MuxBroker", "muxBrokerPending", "GRPCBroker", "gRPCBrokerPending", "gRPCBrokerServer",
	"gRPCBrokerClientImpl", "GRPCServer", "RPCServer", "GRPCClient", "RPCClient",
	"GRPCServerMuxer", "GRPCClientMuxer", "blockedClientListener", "blockedServerListener",
}

type syStruct struct {
	name   string
	fields map[string]ast.Expr // field name -> type expression (embedded: last identifier of the type)
}

type syAccess struct {
	unit   *syUnit
	typ    string
	path   string
	write  bool
	atomic bool
	once   string // "Type.field" of the Once, or ""
	locks  map[string]bool
	ctor   bool
}

type syClose struct {
	unit     *syUnit
	ch       string // Type.path
	once     string
	locks    map[string]bool
	nilGuard bool
}

type syCall struct {
	from   *syUnit
	callee string // unit key
	held   map[string]bool
}

type syUnit struct {
	key      string // "Type.Method", "func", with $go1/$fn2 suffix for closures
	role     int
	parent   *syUnit // for deferred closures: executes in the parent's context
	escapes  bool
	exported bool
	entry    map[string]bool
}

type syCtx struct {
	p        *pkgs
	structs  map[string]*syStruct
	tracked  map[string]bool
	funcs    map[string]*ast.FuncDecl // key -> decl
	results  map[string]string        // key -> tracked struct type of the first result
	units    map[string]*syUnit
	accesses []*syAccess
	closes   []*syClose
	calls    []*syCall
	valueUse map[string]bool // unit keys used as function values
}

type syState struct {
	held     map[string]bool
	deferred map[string]bool
}

func (s syState) clone() syState {
	n := syState{held: map[string]bool{}, deferred: map[string]bool{}}
	for k := range s.held {
		n.held[k] = true
	}
	for k := range s.deferred {
		n.deferred[k] = true
	}
	return n
}

func (s syState) effective() map[string]bool {
	m := map[string]bool{}
	for k := range s.held {
		m[k] = true
	}
	for k := range s.deferred {
		m[k] = true
	}
	return m
}

func intersectState(a, b syState) syState {
	n := syState{held: map[string]bool{}, deferred: map[string]bool{}}
	for k := range a.held {
		if b.held[k] {
			n.held[k] = true
		}
	}
	for k := range a.deferred {
		if b.deferred[k] {
			n.deferred[k] = true
		}
	}
	return n
}

// walker state for one unit
type syWalk struct {
	c     *syCtx
	unit  *syUnit
	env   map[string]string // variable -> tracked struct type
	fresh map[string]bool   // variable bound to a composite literal in this function
	once  string
	nclo  int
	base  string // key prefix for closures
	// chanAlias: local variable -> the field chain (root, path) it was assigned from (`ch := s.DoneCh`): closing the
	// local closes that field's channel, under whatever locks are held at the close
	chanAlias map[string][2]interface{}
}

func typeName(e ast.Expr) (name string, ptr bool) {
	switch x := e.(type) {
	case *ast.StarExpr:
		n, _ := typeName(x.X)
		return n, true
	case *ast.Ident:
		return x.Name, false
	case *ast.SelectorExpr:
		return exprString(x), false
	case *ast.ParenExpr:
		return typeName(x.X)
	}
	return "", false
}

func (c *syCtx) loadStructs() {
	for _, f := range c.p.files {
		for _, d := range f.Decls {
			gd, ok := d.(*ast.GenDecl)
			if !ok || gd.Tok != token.TYPE {
				continue
			}
			for _, s := range gd.Specs {
				ts := s.(*ast.TypeSpec)
				st, ok := ts.Type.(*ast.StructType)
				if !ok {
					continue
				}
				ss := &syStruct{name: ts.Name.Name, fields: map[string]ast.Expr{}}
				for _, fl := range st.Fields.List {
					if len(fl.Names) == 0 {
						n, _ := typeName(fl.Type)
						if i := strings.LastIndexByte(n, '.'); i >= 0 {
							n = n[i+1:]
						}
						ss.fields[n] = fl.Type
					}
					for _, n := range fl.Names {
						ss.fields[n.Name] = fl.Type
					}
				}
				c.structs[ss.name] = ss
			}
		}
	}
}

func recvType(fd *ast.FuncDecl) string {
	if fd.Recv == nil || len(fd.Recv.List) != 1 {
		return ""
	}
	n, _ := typeName(fd.Recv.List[0].Type)
	return n
}

func unitKey(fd *ast.FuncDecl) string {
	if r := recvType(fd); r != "" {
		return r + "." + fd.Name.Name
	}
	return fd.Name.Name
}

func (c *syCtx) loadFuncs() {
	for _, f := range c.p.files {
		for _, d := range f.Decls {
			fd, ok := d.(*ast.FuncDecl)
			if !ok || fd.Body == nil {
				continue
			}
			k := unitKey(fd)
			c.funcs[k] = fd
			if fd.Type.Results != nil && len(fd.Type.Results.List) > 0 {
				if n, _ := typeName(fd.Type.Results.List[0].Type); c.tracked[n] {
					c.results[k] = n
				}
			}
		}
	}
}

// fieldKind classifies a struct field's type.
func fieldKind(t ast.Expr) string {
	switch x := t.(type) {
	case *ast.ChanType:
		return "chan"
	case *ast.SelectorExpr:
		switch exprString(x) {
		case "sync.Mutex", "sync.RWMutex":
			return "mutex"
		case "sync.Once":
			return "once"
		case "sync.WaitGroup":
			return "wg"
		}
	}
	return ""
}

// resolve walks a selector path from a tracked struct type and returns, for the longest
// typed prefix, the cell path (value structs collapsed), whether the path was cut at a
// sync object (and which kind) and the remaining untyped selectors.
type syResolved struct {
	cells       []string // successive cell paths: prefixes that are read + the final one
	kind        string   // "", "mutex", "once", "wg", "chan" : kind of the final typed field
	rest        []string // selectors after a sync object / method name candidates
	lastIsField bool     // the last path element is a declared field (or unknown-typed)
}

func (c *syCtx) resolve(typ string, path []string) syResolved {
	var r syResolved
	cur := typ
	cell := ""
	collapsed := false
	for i, name := range path {
		st := c.structs[cur]
		if st == nil {
			// untyped region: treat remaining selectors as fields
			if !collapsed {
				if cell == "" {
					cell = name
				} else {
					cell += "." + name
				}
				r.cells = append(r.cells, cell)
			}
			r.lastIsField = true
			cur = ""
			continue
		}
		ft, ok := st.fields[name]
		if !ok {
			// a method of cur
			r.rest = path[i:]
			r.lastIsField = false
			return r
		}
		r.lastIsField = true
		if !collapsed {
			if cell == "" {
				cell = name
			} else {
				cell += "." + name
			}
			r.cells = append(r.cells, cell)
		}
		if k := fieldKind(ft); k != "" {
			r.kind = k
			r.rest = path[i+1:]
			return r
		}
		n, ptr := typeName(ft)
		if _, isStruct := c.structs[n]; isStruct && !ptr {
			collapsed = true // value struct: one cell
		}
		if _, isStruct := c.structs[n]; isStruct {
			cur = n
		} else {
			cur = ""
			if len(r.cells) >= 3 {
				collapsed = true
			}
		}
	}
	return r
}

// chain decomposes v.a.b.c (through parens, derefs, index and slice expressions).
func chainOf(e ast.Expr) (root string, path []string, ok bool) {
	switch x := e.(type) {
	case *ast.Ident:
		return x.Name, nil, true
	case *ast.SelectorExpr:
		r, p, ok := chainOf(x.X)
		if !ok {
			return "", nil, false
		}
		return r, append(p, x.Sel.Name), true
	case *ast.ParenExpr:
		return chainOf(x.X)
	case *ast.StarExpr:
		return chainOf(x.X)
	}
	return "", nil, false
}

func (w *syWalk) record(typ, cell string, write, atomic bool, st syState, ctor bool) {
	w.c.accesses = append(w.c.accesses, &syAccess{unit: w.unit, typ: typ, path: cell, write: write, atomic: atomic,
		once: w.once, locks: st.effective(), ctor: ctor})
}

// access records the accesses of chain root.path; mode: 'r' read, 'w' write, 'a' atomic.
// callPos: the chain is the Fun of a call (the last element may be a method).
// Returns the resolution (for the caller to act on sync objects / method calls).
func (w *syWalk) access(root string, path []string, mode byte, callPos bool, st syState) (typ string, r syResolved, tracked bool) {
	typ, ok := w.env[root]
	if !ok || len(path) == 0 {
		return "", r, false
	}
	r = w.c.resolve(typ, path)
	cells := r.cells
	if callPos && r.lastIsField && r.kind == "" && len(r.rest) == 0 {
		// v.a.b(...) where b is untyped: b is a method of a.  (typed func fields stay fields)
		last := path[len(path)-1]
		isTypedField := false
		// typed field check: resolve prefix and see whether last is declared
		pr := w.c.resolve(typ, path[:len(path)-1])
		_ = pr
		cur := typ
		okTyped := true
		for _, n := range path[:len(path)-1] {
			s := w.c.structs[cur]
			if s == nil {
				okTyped = false
				break
			}
			ft, has := s.fields[n]
			if !has {
				okTyped = false
				break
			}
			tn, _ := typeName(ft)
			cur = tn
		}
		if okTyped {
			if s := w.c.structs[cur]; s != nil {
				_, isTypedField = s.fields[last]
			}
		}
		if !isTypedField && len(cells) > 0 {
			cells = cells[:len(cells)-1]
			// collapsed paths keep their single cell
			if len(cells) == 0 && len(path) > 1 {
				cells = r.cells[:1]
			}
		}
	}
	ctor := w.fresh[root]
	for i, cell := range cells {
		last := i == len(cells)-1
		if r.kind == "mutex" || r.kind == "once" || r.kind == "wg" {
			if last {
				continue // the sync object itself: its methods synchronise
			}
		}
		wr := last && mode == 'w' && len(r.rest) == 0
		at := last && mode == 'a' && len(r.rest) == 0
		w.record(typ, cell, wr, at, st, ctor)
	}
	return typ, r, true
}

func lockName(typ string, r syResolved) string {
	if len(r.cells) == 0 {
		return ""
	}
	return typ + "." + r.cells[len(r.cells)-1]
}

// exprs walks an expression for reads and calls.
func (w *syWalk) expr(e ast.Expr, st *syState) {
	switch x := e.(type) {
	case nil:
		return
	case *ast.Ident:
		if _, isFn := w.c.funcs[x.Name]; isFn && x.Obj == nil {
			w.c.valueUse[x.Name] = true
		}
	case *ast.SelectorExpr:
		if root, path, ok := chainOf(x); ok {
			typ, r, tracked := w.access(root, path, 'r', false, *st)
			if tracked && !r.lastIsField && len(r.rest) == 1 {
				// method value v.m used without call
				w.c.valueUse[methodOwner(w.c, typ, path, r)+"."+r.rest[0]] = true
			}
			if tracked || !ok {
				return
			}
			return
		}
		w.expr(x.X, st)
	case *ast.CallExpr:
		w.call(x, st, false)
	case *ast.FuncLit:
		w.closure(x, 3, "fn", syState{held: map[string]bool{}, deferred: map[string]bool{}}, nil)
	case *ast.CompositeLit:
		tn, _ := typeName(x.Type)
		for _, el := range x.Elts {
			if kv, ok := el.(*ast.KeyValueExpr); ok {
				if w.c.tracked[tn] {
					if id, ok := kv.Key.(*ast.Ident); ok {
						w.c.accesses = append(w.c.accesses, &syAccess{unit: w.unit, typ: tn, path: id.Name, write: true,
							locks: map[string]bool{}, ctor: true})
					}
				} else {
					w.expr(kv.Key, st)
				}
				w.expr(kv.Value, st)
			} else {
				w.expr(el, st)
			}
		}
	case *ast.UnaryExpr:
		if x.Op == token.AND {
			if root, path, ok := chainOf(x.X); ok && len(path) > 0 {
				if _, tr := w.env[root]; tr {
					w.access(root, path, 'w', false, *st) // address taken: assume written through
					return
				}
			}
		}
		w.expr(x.X, st)
	case *ast.BinaryExpr:
		w.expr(x.X, st)
		w.expr(x.Y, st)
	case *ast.ParenExpr:
		w.expr(x.X, st)
	case *ast.StarExpr:
		w.expr(x.X, st)
	case *ast.IndexExpr:
		w.expr(x.X, st)
		w.expr(x.Index, st)
	case *ast.SliceExpr:
		w.expr(x.X, st)
		w.expr(x.Low, st)
		w.expr(x.High, st)
		w.expr(x.Max, st)
	case *ast.TypeAssertExpr:
		w.expr(x.X, st)
	case *ast.KeyValueExpr:
		w.expr(x.Key, st)
		w.expr(x.Value, st)
	}
}

// methodOwner: the struct type owning the method at the end of path (after the typed prefix).
func methodOwner(c *syCtx, typ string, path []string, r syResolved) string {
	cur := typ
	for _, n := range path[:len(path)-len(r.rest)] {
		s := c.structs[cur]
		if s == nil {
			return ""
		}
		ft, ok := s.fields[n]
		if !ok {
			return ""
		}
		cur, _ = typeName(ft)
	}
	return cur
}

// lvalue records a write to the expression.
func (w *syWalk) lvalue(e ast.Expr, st *syState) {
	switch x := e.(type) {
	case *ast.IndexExpr:
		w.expr(x.Index, st)
		w.lvalue(x.X, st) // m[k] = v writes the map cell
		return
	case *ast.StarExpr:
		w.lvalue(x.X, st)
		return
	case *ast.ParenExpr:
		w.lvalue(x.X, st)
		return
	}
	if root, path, ok := chainOf(e); ok && len(path) > 0 {
		if _, tr := w.env[root]; tr {
			w.access(root, path, 'w', false, *st)
			return
		}
	}
	if _, isId := e.(*ast.Ident); !isId {
		w.expr(e, st)
	}
}

func isAtomicCall(fun string) (bool, bool) {
	if !strings.HasPrefix(fun, "atomic.") {
		return false, false
	}
	n := fun[len("atomic."):]
	return true, !strings.HasPrefix(n, "Load")
}

// call handles one call expression. deferred: the call is the operand of a defer statement.
func (w *syWalk) call(x *ast.CallExpr, st *syState, deferred bool) {
	fun := exprString(x.Fun)
	// builtins with special meaning
	if id, ok := x.Fun.(*ast.Ident); ok {
		switch id.Name {
		case "close":
			if len(x.Args) == 1 {
				if aid, isId := x.Args[0].(*ast.Ident); isId {
					if al, has := w.chanAlias[aid.Name]; has {
						root, path := al[0].(string), al[1].([]string)
						if typ, _, tr := w.access(root, path, 'r', false, *st); tr {
							r := w.c.resolve(typ, path)
							w.c.closes = append(w.c.closes, &syClose{unit: w.unit, ch: lockName(typ, r), once: w.once, locks: st.effective()})
							return
						}
					}
				}
				if root, path, ok := chainOf(x.Args[0]); ok && len(path) > 0 {
					if typ, _, tr := w.access(root, path, 'r', false, *st); tr {
						r := w.c.resolve(typ, path)
						w.c.closes = append(w.c.closes, &syClose{unit: w.unit, ch: lockName(typ, r), once: w.once, locks: st.effective()})
						return
					}
				}
			}
		case "delete":
			if len(x.Args) == 2 {
				w.lvalue(x.Args[0], st)
				w.expr(x.Args[1], st)
				return
			}
		}
	}
	if isAt, _ := isAtomicCall(fun); isAt && len(x.Args) >= 1 {
		if u, ok := x.Args[0].(*ast.UnaryExpr); ok && u.Op == token.AND {
			if root, path, ok := chainOf(u.X); ok && len(path) > 0 {
				if _, tr := w.env[root]; tr {
					w.access(root, path, 'a', false, *st)
					for _, a := range x.Args[1:] {
						w.expr(a, st)
					}
					return
				}
			}
		}
	}
	// calls through a tracked variable
	if root, path, ok := chainOf(x.Fun); ok && len(path) > 0 {
		if _, tr := w.env[root]; tr {
			typ, r, _ := w.access(root, path, 'r', true, *st)
			handled := false
			switch {
			case r.kind == "mutex" && len(r.rest) == 1:
				ln := lockName(typ, r)
				switch r.rest[0] {
				case "Lock", "RLock":
					if !deferred {
						st.held[ln] = true
					}
				case "Unlock", "RUnlock":
					if deferred {
						if st.held[ln] {
							delete(st.held, ln)
							st.deferred[ln] = true
						}
					} else {
						delete(st.held, ln)
					}
				}
				handled = true
			case r.kind == "once" && len(r.rest) == 1 && r.rest[0] == "Do" && len(x.Args) == 1:
				if fl, ok := x.Args[0].(*ast.FuncLit); ok {
					old := w.once
					w.once = lockName(typ, r)
					inner := st.clone()
					w.stmts(fl.Body.List, &inner)
					w.once = old
					return
				}
				handled = true
			case r.kind == "wg" || r.kind == "chan":
				handled = true
			case !r.lastIsField && len(r.rest) == 1:
				// method call on a tracked struct (possibly promoted Lock/Unlock of an embedded mutex)
				owner := methodOwner(w.c, typ, path, r)
				m := r.rest[0]
				if s := w.c.structs[owner]; s != nil {
					if ft, ok := s.fields["Mutex"]; ok && fieldKind(ft) == "mutex" && (m == "Lock" || m == "Unlock") {
						prefix := path[:len(path)-1]
						ln := owner + ".Mutex"
						if len(prefix) > 0 {
							pr := w.c.resolve(typ, append(append([]string{}, prefix...), "Mutex"))
							ln = lockName(typ, pr)
						}
						if m == "Lock" && !deferred {
							st.held[ln] = true
						} else if m == "Unlock" {
							if deferred {
								if st.held[ln] {
									delete(st.held, ln)
									st.deferred[ln] = true
								}
							} else {
								delete(st.held, ln)
							}
						}
						handled = true
					}
				}
				if !handled && owner != "" {
					held := st.effective()
					if deferred {
						held = map[string]bool{}
						for k := range st.deferred {
							held[k] = true
						}
					}
					w.c.calls = append(w.c.calls, &syCall{from: w.unit, callee: owner + "." + m, held: held})
				}
			}
			_ = handled
			for _, a := range x.Args {
				w.expr(a, st)
			}
			return
		}
	}
	// plain function of the package
	if id, ok := x.Fun.(*ast.Ident); ok {
		if _, isFn := w.c.funcs[id.Name]; isFn {
			held := st.effective()
			if deferred {
				held = map[string]bool{}
				for k := range st.deferred {
					held[k] = true
				}
			}
			// a call handing over an object that is still private to its creator (bound to a
			// composite literal here) is constructor phase: not a concurrent call site
			freshArg := false
			for _, a := range x.Args {
				if aid, ok := a.(*ast.Ident); ok && w.fresh[aid.Name] {
					freshArg = true
				}
			}
			if !freshArg {
				w.c.calls = append(w.c.calls, &syCall{from: w.unit, callee: id.Name, held: held})
			}
			for _, a := range x.Args {
				w.expr(a, st)
			}
			return
		}
	}
	if fl, ok := x.Fun.(*ast.FuncLit); ok {
		// immediately invoked literal: inline; its parameters are typed variables of its own
		// (normalize.go writes a statement call of a single-use helper that defers or returns this way)
		inner := st.clone()
		env, fresh := w.env, w.fresh
		w.env, w.fresh = map[string]string{}, map[string]bool{}
		for k, v := range env {
			w.env[k] = v
		}
		for k, v := range fresh {
			w.fresh[k] = v
		}
		w.bindParams(fl.Type)
		w.stmts(fl.Body.List, &inner)
		w.env, w.fresh = env, fresh
	} else {
		w.expr(x.Fun, st)
	}
	for _, a := range x.Args {
		w.expr(a, st)
	}
}

// closure walks a function literal as a separate unit.
func (w *syWalk) closure(fl *ast.FuncLit, role int, tag string, start syState, parent *syUnit) {
	w.nclo++
	key := fmt.Sprintf("%s$%s%d", w.base, tag, w.nclo)
	u := &syUnit{key: key, role: role, parent: parent, escapes: parent == nil}
	w.c.units[key] = u
	cw := &syWalk{c: w.c, unit: u, env: map[string]string{}, fresh: map[string]bool{}, base: w.base, nclo: w.nclo * 10}
	for k, v := range w.env {
		cw.env[k] = v
	}
	for k, v := range w.fresh {
		cw.fresh[k] = v
	}
	cw.bindParams(fl.Type)
	st := start.clone()
	cw.stmts(fl.Body.List, &st)
}

func (w *syWalk) bindParams(ft *ast.FuncType) {
	if ft.Params == nil {
		return
	}
	for _, f := range ft.Params.List {
		n, _ := typeName(f.Type)
		for _, id := range f.Names {
			if w.c.tracked[n] {
				w.env[id.Name] = n
			} else {
				delete(w.env, id.Name)
			}
			delete(w.fresh, id.Name)
		}
	}
}

// bind records the struct type of a newly assigned variable.
func (w *syWalk) bind(name string, rhs ast.Expr) {
	delete(w.env, name)
	delete(w.fresh, name)
	switch x := rhs.(type) {
	case *ast.UnaryExpr:
		if cl, ok := x.X.(*ast.CompositeLit); ok && x.Op == token.AND {
			if n, _ := typeName(cl.Type); w.c.tracked[n] {
				w.env[name] = n
				w.fresh[name] = true
			}
		}
	case *ast.CompositeLit:
		if n, _ := typeName(x.Type); w.c.tracked[n] {
			w.env[name] = n
			w.fresh[name] = true
		}
	case *ast.CallExpr:
		if id, ok := x.Fun.(*ast.Ident); ok {
			if t, ok := w.c.results[id.Name]; ok {
				w.env[name] = t
			}
			return
		}
		if root, path, ok := chainOf(x.Fun); ok && len(path) > 0 {
			if typ, tr := w.env[root]; tr {
				r := w.c.resolve(typ, path)
				if !r.lastIsField && len(r.rest) == 1 {
					if t, ok := w.c.results[methodOwner(w.c, typ, path, r)+"."+r.rest[0]]; ok {
						w.env[name] = t
					}
				}
			}
		}
	case *ast.Ident:
		if t, ok := w.env[x.Name]; ok {
			w.env[name] = t
			if w.fresh[x.Name] {
				w.fresh[name] = true
			}
		}
	}
}

func terminates(s ast.Stmt) bool {
	switch x := s.(type) {
	case *ast.ReturnStmt:
		return true
	case *ast.BranchStmt:
		return true
	case *ast.ExprStmt:
		if c, ok := x.X.(*ast.CallExpr); ok {
			f := exprString(c.Fun)
			return f == "panic" || f == "os.Exit"
		}
	case *ast.BlockStmt:
		if len(x.List) > 0 {
			return terminates(x.List[len(x.List)-1])
		}
	}
	return false
}

// stmts walks a statement list; returns true when control cannot fall through.
func (w *syWalk) stmts(list []ast.Stmt, st *syState) bool {
	for _, s := range list {
		if w.stmt(s, st) {
			return true
		}
	}
	return false
}

func (w *syWalk) branches(pre syState, includePre bool, bodies [][]ast.Stmt, st *syState) bool {
	var outs []syState
	if includePre {
		outs = append(outs, pre.clone())
	}
	for _, b := range bodies {
		bs := pre.clone()
		if !w.stmts(b, &bs) {
			outs = append(outs, bs)
		}
	}
	if len(outs) == 0 {
		return true
	}
	res := outs[0]
	for _, o := range outs[1:] {
		res = intersectState(res, o)
	}
	*st = res
	return false
}

func (w *syWalk) stmt(s ast.Stmt, st *syState) bool {
	switch x := s.(type) {
	case nil:
		return false
	case *ast.ExprStmt:
		w.expr(x.X, st)
		return terminates(x)
	case *ast.AssignStmt:
		for _, r := range x.Rhs {
			w.expr(r, st)
		}
		for i, l := range x.Lhs {
			if id, ok := l.(*ast.Ident); ok {
				if len(x.Rhs) == len(x.Lhs) {
					if root, path, okc := chainOf(x.Rhs[i]); okc && len(path) > 0 {
						if _, tr := w.env[root]; tr {
							if w.chanAlias == nil {
								w.chanAlias = map[string][2]interface{}{}
							}
							w.chanAlias[id.Name] = [2]interface{}{root, append([]string(nil), path...)}
						}
					} else {
						delete(w.chanAlias, id.Name)
					}
					w.bind(id.Name, x.Rhs[i])
				} else if i == 0 && len(x.Rhs) == 1 {
					w.bind(id.Name, x.Rhs[0])
				} else {
					delete(w.env, id.Name)
				}
				continue
			}
			w.lvalue(l, st)
			if x.Tok != token.ASSIGN && x.Tok != token.DEFINE {
				w.expr(l, st) // op-assign reads too
			}
		}
	case *ast.IncDecStmt:
		w.expr(x.X, st)
		w.lvalue(x.X, st)
	case *ast.DeclStmt:
		if gd, ok := x.Decl.(*ast.GenDecl); ok {
			for _, sp := range gd.Specs {
				if vs, ok := sp.(*ast.ValueSpec); ok {
					for _, v := range vs.Values {
						w.expr(v, st)
					}
					for i, n := range vs.Names {
						delete(w.env, n.Name)
						delete(w.fresh, n.Name)
						if vs.Type != nil {
							if tn, _ := typeName(vs.Type); w.c.tracked[tn] {
								w.env[n.Name] = tn
							}
						} else if i < len(vs.Values) {
							w.bind(n.Name, vs.Values[i])
						}
					}
				}
			}
		}
	case *ast.SendStmt:
		w.expr(x.Chan, st)
		w.expr(x.Value, st)
	case *ast.ReturnStmt:
		for _, r := range x.Results {
			w.expr(r, st)
		}
		return true
	case *ast.BranchStmt:
		return true
	case *ast.GoStmt:
		empty := syState{held: map[string]bool{}, deferred: map[string]bool{}}
		if fl, ok := x.Call.Fun.(*ast.FuncLit); ok {
			for _, a := range x.Call.Args {
				w.expr(a, st)
			}
			w.closure(fl, 3, "go", empty, nil)
		} else {
			// go f(args): the callee starts with no locks
			w.call(x.Call, &empty, false)
		}
	case *ast.DeferStmt:
		if fl, ok := x.Call.Fun.(*ast.FuncLit); ok {
			for _, a := range x.Call.Args {
				w.expr(a, st)
			}
			start := syState{held: map[string]bool{}, deferred: map[string]bool{}}
			for k := range st.deferred {
				start.deferred[k] = true
			}
			w.closure(fl, w.unit.role, "defer", start, w.unit)
		} else {
			w.call(x.Call, st, true)
		}
	case *ast.BlockStmt:
		return w.stmts(x.List, st)
	case *ast.LabeledStmt:
		return w.stmt(x.Stmt, st)
	case *ast.IfStmt:
		w.stmt(x.Init, st)
		w.expr(x.Cond, st)
		pre := st.clone()
		bodies := [][]ast.Stmt{x.Body.List}
		includePre := true
		if x.Else != nil {
			includePre = false
			bodies = append(bodies, []ast.Stmt{x.Else})
		}
		// nil-guarded close:  if x.f != nil { close(x.f); … }
		before := len(w.c.closes)
		term := w.branches(pre, includePre, bodies, st)
		if be, ok := x.Cond.(*ast.BinaryExpr); ok && be.Op == token.NEQ && exprString(be.Y) == "nil" {
			if root, path, ok := chainOf(be.X); ok {
				if typ, tr := w.env[root]; tr && len(path) > 0 {
					name := lockName(typ, w.c.resolve(typ, path))
					for _, cs := range w.c.closes[before:] {
						if cs.ch == name && assignsNil(x.Body, be.X) {
							cs.nilGuard = true
						}
					}
				}
			}
		}
		return term
	case *ast.ForStmt:
		w.stmt(x.Init, st)
		w.expr(x.Cond, st)
		body := st.clone()
		w.stmts(x.Body.List, &body)
		w.stmt(x.Post, &body)
		if x.Cond == nil && !hasBreak(x.Body) {
			return true
		}
	case *ast.RangeStmt:
		w.expr(x.X, st)
		body := st.clone()
		w.stmts(x.Body.List, &body)
	case *ast.SwitchStmt:
		w.stmt(x.Init, st)
		w.expr(x.Tag, st)
		return w.clauses(x.Body, st, false)
	case *ast.TypeSwitchStmt:
		w.stmt(x.Init, st)
		w.stmt(x.Assign, st)
		return w.clauses(x.Body, st, false)
	case *ast.SelectStmt:
		return w.clauses(x.Body, st, true)
	}
	return false
}

func assignsNil(b *ast.BlockStmt, target ast.Expr) bool {
	want := exprString(target)
	found := false
	ast.Inspect(b, func(n ast.Node) bool {
		if as, ok := n.(*ast.AssignStmt); ok && len(as.Lhs) == 1 && len(as.Rhs) == 1 {
			if exprString(as.Lhs[0]) == want && exprString(as.Rhs[0]) == "nil" {
				found = true
			}
		}
		return true
	})
	return found
}

func hasBreak(b *ast.BlockStmt) bool {
	found := false
	ast.Inspect(b, func(n ast.Node) bool {
		switch x := n.(type) {
		case *ast.BranchStmt:
			if x.Tok == token.BREAK || x.Tok == token.GOTO {
				found = true
			}
		case *ast.FuncLit:
			return false
		}
		return true
	})
	return found
}

func (w *syWalk) clauses(body *ast.BlockStmt, st *syState, isSelect bool) bool {
	pre := st.clone()
	var bodies [][]ast.Stmt
	hasDefault := false
	for _, c := range body.List {
		switch cc := c.(type) {
		case *ast.CaseClause:
			if cc.List == nil {
				hasDefault = true
			}
			for _, e := range cc.List {
				w.expr(e, st)
			}
			bodies = append(bodies, cc.Body)
		case *ast.CommClause:
			if cc.Comm == nil {
				hasDefault = true
			} else {
				w.stmt(cc.Comm, st)
			}
			bodies = append(bodies, cc.Body)
		}
	}
	includePre := !hasDefault && !isSelect
	if len(bodies) == 0 {
		return isSelect
	}
	term := w.branches(pre, includePre, bodies, st)
	// a `break` inside a clause leaves the switch/select, not the function
	if term {
		for _, b := range bodies {
			for _, s := range b {
				if bs, ok := s.(*ast.BranchStmt); ok && bs.Tok == token.BREAK {
					*st = pre
					return false
				}
			}
		}
	}
	return term
}

func exportedName(n string) bool { return n != "" && n[0] >= 'A' && n[0] <= 'Z' }

func leanIdent(s string) string {
	var sb strings.Builder
	for _, r := range s {
		switch {
		case r >= 'a' && r <= 'z', r >= 'A' && r <= 'Z', r >= '0' && r <= '9':
			sb.WriteRune(r)
		default:
			sb.WriteByte('_')
		}
	}
	return sb.String()
}

func sortedSet(m map[string]bool) []string {
	var ks []string
	for k := range m {
		ks = append(ks, k)
	}
	sort.Strings(ks)
	return ks
}

func extractSync(p *pkgs, f *facts) {
	c := &syCtx{p: p, structs: map[string]*syStruct{}, tracked: map[string]bool{}, funcs: map[string]*ast.FuncDecl{},
		results: map[string]string{}, units: map[string]*syUnit{}, valueUse: map[string]bool{}}
	for _, t := range syncTracked {
		c.tracked[t] = true
	}
	c.loadStructs()
	c.loadFuncs()
	var missing []string
	for _, t := range syncTracked {
		if c.structs[t] == nil {
			missing = append(missing, t)
			f.miss = append(f.miss, "sync:struct:"+t)
		}
	}

	// ---- pass 1: walk every function
	var keys []string
	for k := range c.funcs {
		keys = append(keys, k)
	}
	sort.Strings(keys)
	for _, k := range keys {
		fd := c.funcs[k]
		role := 2
		if exportedName(fd.Name.Name) {
			role = 1
		}
		u := &syUnit{key: k, role: role, exported: exportedName(fd.Name.Name)}
		c.units[k] = u
		w := &syWalk{c: c, unit: u, env: map[string]string{}, fresh: map[string]bool{}, base: k}
		if fd.Recv != nil && len(fd.Recv.List) == 1 && len(fd.Recv.List[0].Names) == 1 {
			if rt := recvType(fd); c.tracked[rt] {
				w.env[fd.Recv.List[0].Names[0].Name] = rt
			}
		}
		w.bindParams(fd.Type)
		st := syState{held: map[string]bool{}, deferred: map[string]bool{}}
		w.stmts(fd.Body.List, &st)
	}

	// ---- pass 2: locks held at every call site of an unexported function
	all := map[string]bool{}
	for _, a := range c.accesses {
		for l := range a.locks {
			all[l] = true
		}
	}
	for _, cl := range c.calls {
		for l := range cl.held {
			all[l] = true
		}
	}
	sites := map[string][]*syCall{}
	for _, cl := range c.calls {
		sites[cl.callee] = append(sites[cl.callee], cl)
	}
	for k, u := range c.units {
		u.entry = map[string]bool{}
		if u.parent != nil {
			continue
		}
		if !u.exported && !u.escapes && u.role == 2 && !c.valueUse[k] && len(sites[k]) > 0 {
			for l := range all {
				u.entry[l] = true
			}
		}
	}
	entryOf := func(u *syUnit) map[string]bool {
		for u.parent != nil {
			u = u.parent
		}
		return u.entry
	}
	for changed := true; changed; {
		changed = false
		for k, u := range c.units {
			if len(u.entry) == 0 || u.parent != nil {
				continue
			}
			for l := range u.entry {
				ok := true
				for _, s := range sites[k] {
					if !s.held[l] && !entryOf(s.from)[l] {
						ok = false
						break
					}
				}
				if !ok {
					delete(u.entry, l)
					changed = true
				}
			}
		}
	}

	// ---- rows
	type row struct {
		method, field string
		write, atomic bool
		locks         []string
		once          string
		role          int
	}
	rowKey := func(r row) string {
		return fmt.Sprintf("%s|%s|%v|%v|%s|%s|%d", r.method, r.field, r.write, r.atomic, strings.Join(r.locks, ","), r.once, r.role)
	}
	seen := map[string]bool{}
	var rows []row
	fieldSet, methodSet := map[string]bool{}, map[string]bool{}
	for _, a := range c.accesses {
		locks := map[string]bool{}
		for l := range a.locks {
			locks[l] = true
		}
		for l := range entryOf(a.unit) {
			locks[l] = true
		}
		role := a.unit.role
		if a.ctor {
			role = 0
		}
		r := row{method: a.unit.key, field: a.typ + "." + a.path, write: a.write, atomic: a.atomic, locks: sortedSet(locks), once: a.once, role: role}
		if seen[rowKey(r)] {
			continue
		}
		seen[rowKey(r)] = true
		rows = append(rows, r)
		fieldSet[r.field] = true
		methodSet[r.method] = true
		for _, l := range r.locks {
			fieldSet[l] = true
		}
		if r.once != "" {
			fieldSet[r.once] = true
		}
	}
	sort.Slice(rows, func(i, j int) bool { return rowKey(rows[i]) < rowKey(rows[j]) })
	type crow struct {
		method, ch, once string
		locks            []string
		nilGuard         bool
	}
	var crows []crow
	for _, cs := range c.closes {
		locks := map[string]bool{}
		for l := range cs.locks {
			locks[l] = true
		}
		for l := range entryOf(cs.unit) {
			locks[l] = true
		}
		crows = append(crows, crow{cs.unit.key, cs.ch, cs.once, sortedSet(locks), cs.nilGuard})
		fieldSet[cs.ch] = true
		methodSet[cs.unit.key] = true
		for l := range locks {
			fieldSet[l] = true
		}
		if cs.once != "" {
			fieldSet[cs.once] = true
		}
	}
	sort.Slice(crows, func(i, j int) bool { return crows[i].method+crows[i].ch < crows[j].method+crows[j].ch })

	// every declared field of a tracked struct gets a name (so that rules can mention fields that are never accessed)
	for _, t := range syncTracked {
		if s := c.structs[t]; s != nil {
			for fn := range s.fields {
				fieldSet[t+"."+fn] = true
			}
		}
	}
	// every function/method of the package gets a name (rules mention methods)
	for k := range c.units {
		methodSet[k] = true
	}
	fields, methods := sortedSet(fieldSet), sortedSet(methodSet)
	fid, mid := map[string]int{}, map[string]int{}
	for i, n := range fields {
		fid[n] = i + 1
		f.lean = append(f.lean, fmt.Sprintf("def F_%s : Nat := %d", leanIdent(n), i+1))
	}
	for i, n := range methods {
		mid[n] = i + 1
		f.lean = append(f.lean, fmt.Sprintf("def M_%s : Nat := %d", leanIdent(n), i+1))
	}
	natList := func(xs []string, prefix string) string {
		var ss []string
		for _, x := range xs {
			ss = append(ss, prefix+leanIdent(x))
		}
		return "[" + strings.Join(ss, ", ") + "]"
	}
	opt := func(s string) string {
		if s == "" {
			return "none"
		}
		return "some F_" + leanIdent(s)
	}
	var sb strings.Builder
	sb.WriteString("def accessTable : List Sync.Access := [\n")
	var jsRows []string
	for i, r := range rows {
		sep := ","
		if i == len(rows)-1 {
			sep = ""
		}
		fmt.Fprintf(&sb, "  ⟨M_%s, F_%s, %s, %s, %s, %s, %d⟩%s\n", leanIdent(r.method), leanIdent(r.field), leanBool(r.write),
			natList(r.locks, "F_"), opt(r.once), leanBool(r.atomic), r.role, sep)
		rw := "R"
		if r.write {
			rw = "W"
		}
		if r.atomic {
			rw += "a"
		}
		js := fmt.Sprintf("%s %s %s locks=%s role=%d", r.method, rw, r.field, strings.Join(r.locks, "+"), r.role)
		if r.once != "" {
			js += " once=" + r.once
		}
		jsRows = append(jsRows, js)
	}
	sb.WriteString("]")
	f.lean = append(f.lean, sb.String())
	sb.Reset()
	sb.WriteString("def closeSites : List Sync.CloseSite := [\n")
	var jsClose []string
	for i, r := range crows {
		sep := ","
		if i == len(crows)-1 {
			sep = ""
		}
		fmt.Fprintf(&sb, "  ⟨M_%s, F_%s, %s, %s, %s⟩%s\n", leanIdent(r.method), leanIdent(r.ch), opt(r.once), natList(r.locks, "F_"), leanBool(r.nilGuard), sep)
		jsClose = append(jsClose, fmt.Sprintf("%s close(%s) once=%s locks=%s nilGuard=%v", r.method, r.ch, r.once, strings.Join(r.locks, "+"), r.nilGuard))
	}
	sb.WriteString("]")
	f.lean = append(f.lean, sb.String())
	f.set("sync", map[string]interface{}{"rows": len(rows), "closeSites": jsClose, "accessTable": jsRows, "missingStructs": missing})
}
