package main

// Facts of the "nothing here does X" kind (Model/Hygiene.lean), added after the eighth round of seeded changes: each was
// true of the code and relied on by a property's argument without having been extracted.

import (
	"fmt"
	"go/ast"
	"go/token"
	"strings"
)

func init() {
	registerExtractor("hygiene", []string{"GoPlugin.Model.Hygiene"}, extractHygiene)
}

func extractHygiene(p *pkgs, f *facts) {
	mentions := func(prefixes []string, words ...string) int {
		n := 0
		for key, file := range p.files {
			ok := len(prefixes) == 0
			for _, pre := range prefixes {
				if strings.HasPrefix(key, pre) || key == pre {
					ok = true
				}
			}
			if !ok {
				continue
			}
			ast.Inspect(file, func(nd ast.Node) bool {
				switch v := nd.(type) {
				case *ast.Ident:
					for _, w := range words {
						if v.Name == w {
							n++
						}
					}
				case *ast.SelectorExpr:
					for _, w := range words {
						if v.Sel.Name == w {
							n++
						}
					}
					// (the selector's identifier is visited again as an Ident: count once)
					ast.Inspect(v.X, func(m ast.Node) bool { return true })
					return true
				}
				return true
			})
		}
		return n
	}
	// no TLS session resumption anywhere in the package: every connection's handshake checks the peer's certificate
	// against the pinned one
	noResume := mentions(nil, "ClientSessionCache", "NewLRUClientSessionCache", "SessionTicketKey", "SetSessionTicketKeys", "SessionTicketsDisabled", "WrapSession", "UnwrapSession") == 0
	// the command runner never touches the command's environment: what Start assembled is what the process gets
	envUntouched := mentions([]string{"internal/cmdrunner/"}, "Env", "Environ") == 0
	// the stdio copiers set no deadlines on what they write to
	noDeadlines := mentions([]string{"stream.go", "grpc_stdio.go"}, "SetWriteDeadline", "SetDeadline", "SetReadDeadline") == 0
	// newGRPCClient builds the host's broker with the CLIENT's socket configuration value (the one that carries the
	// directory created for a custom runner)
	sharesDir := false
	if fn := p.fn("", "newGRPCClient"); fn != nil {
		ast.Inspect(fn.Body, func(n ast.Node) bool {
			if ce, ok := n.(*ast.CallExpr); ok && exprString(ce.Fun) == "newGRPCBroker" && len(ce.Args) >= 3 {
				sharesDir = exprString(ce.Args[2]) == "c.unixSocketCfg"
			}
			return true
		})
	} else {
		f.miss = append(f.miss, "newGRPCClient")
	}
	// listenForKnocks: the door is opened (muxer.AcceptKnock) BEFORE the acknowledgement is sent (streamer.Send)
	doorFirst := false
	if fn := p.fn("GRPCBroker", "listenForKnocks"); fn != nil {
		var door, ack token.Pos
		nDoor, nAck := 0, 0
		ast.Inspect(fn.Body, func(n ast.Node) bool {
			if ce, ok := n.(*ast.CallExpr); ok {
				switch fnName := exprString(ce.Fun); {
				case strings.HasSuffix(fnName, ".muxer.AcceptKnock"):
					door = ce.Pos()
					nDoor++
				case strings.HasSuffix(fnName, ".streamer.Send"):
					ack = ce.Pos()
					nAck++
				}
			}
			return true
		})
		doorFirst = nDoor == 1 && nAck == 1 && door < ack
	} else {
		f.miss = append(f.miss, "GRPCBroker.listenForKnocks")
	}
	// CmdRunner.Start: the only error it returns is the one of `c.cmd.Start()` itself, returned by the `if err != nil`
	// that follows it directly: an error from Start means that no process was created
	onlyExec := false
	if fn := p.fn("CmdRunner", "Start"); fn != nil {
		idx := -1
		for i, st := range fn.Body.List {
			if strings.Contains(nodeCalls(st), "c.cmd.Start()") {
				idx = i
				break
			}
		}
		if idx >= 0 && idx+1 < len(fn.Body.List) {
			okIf := false
			if is, ok := fn.Body.List[idx+1].(*ast.IfStmt); ok && is.Init == nil && exprString(is.Cond) == "err!=nil" && is.Else == nil && len(is.Body.List) == 1 {
				if rs, ok := is.Body.List[0].(*ast.ReturnStmt); ok && len(rs.Results) == 1 && exprString(rs.Results[0]) == "err" {
					okIf = true
				}
			}
			bad := 0
			for i, st := range fn.Body.List {
				if i == idx+1 {
					continue
				}
				ast.Inspect(st, func(n ast.Node) bool {
					if _, ok := n.(*ast.FuncLit); ok {
						return false
					}
					if rs, ok := n.(*ast.ReturnStmt); ok {
						if len(rs.Results) != 1 || exprString(rs.Results[0]) != "nil" {
							bad++
						}
					}
					return true
				})
			}
			onlyExec = okIf && bad == 0
		}
	} else {
		f.miss = append(f.miss, "CmdRunner.Start")
	}
	// the look-up-or-create of a pending slot is ONE critical section in all three places (MuxBroker.getStream,
	// GRPCBroker.getClientStream, GRPCBroker.getServerStream): the two parties of an id cannot each create a slot
	slotAtomic := true
	for _, rn := range [][2]string{{"MuxBroker", "getStream"}, {"GRPCBroker", "getClientStream"}, {"GRPCBroker", "getServerStream"}} {
		fn := p.fn(rn[0], rn[1])
		if fn == nil {
			f.miss = append(f.miss, rn[0]+"."+rn[1])
			slotAtomic = false
			continue
		}
		if !singleCriticalSection(fn) {
			slotAtomic = false
		}
	}
	// the command runner's address translation is the identity in both directions: the body of each method is one
	// `return <first parameter>, <second parameter>, nil`
	transIdentity := true
	for _, name := range []string{"PluginToHost", "HostToPlugin"} {
		fn := p.fn("addrTranslator", name)
		ok := false
		if fn != nil && len(fn.Body.List) == 1 && fn.Type.Params != nil {
			var params []string
			for _, fl := range fn.Type.Params.List {
				for _, n := range fl.Names {
					params = append(params, n.Name)
				}
			}
			if rs, isRet := fn.Body.List[0].(*ast.ReturnStmt); isRet && len(params) == 2 && len(rs.Results) == 3 &&
				exprString(rs.Results[0]) == params[0] && exprString(rs.Results[1]) == params[1] && exprString(rs.Results[2]) == "nil" {
				ok = true
			}
		}
		if fn == nil {
			f.miss = append(f.miss, "addrTranslator."+name)
		}
		transIdentity = transIdentity && ok
	}
	// dispenseServer.Dispense takes the id it hands out from the BROKER's allocator (`<v> := d.broker.NextId()`, answered
	// as `*response = <v>` and accepted as `d.broker.Accept(<v>)`): dispensed ids and the plugin's own reservations never collide
	dispIDs := false
	if fn := p.fn("dispenseServer", "Dispense"); fn != nil {
		idVar := ""
		ast.Inspect(fn.Body, func(n ast.Node) bool {
			if as, ok := n.(*ast.AssignStmt); ok && len(as.Lhs) == 1 && len(as.Rhs) == 1 && exprString(as.Rhs[0]) == "d.broker.NextId()" && idVar == "" {
				idVar = exprString(as.Lhs[0])
			}
			return true
		})
		answered, accepted := false, false
		ast.Inspect(fn.Body, func(n ast.Node) bool {
			switch v := n.(type) {
			case *ast.AssignStmt:
				if len(v.Lhs) == 1 && len(v.Rhs) == 1 && exprString(v.Lhs[0]) == "*response" {
					answered = idVar != "" && exprString(v.Rhs[0]) == idVar
				}
			case *ast.CallExpr:
				if fnName := exprString(v.Fun); (fnName == "d.broker.Accept" || fnName == "d.broker.AcceptAndServe") && len(v.Args) >= 1 {
					accepted = idVar != "" && exprString(v.Args[0]) == idVar
				}
			}
			return true
		})
		dispIDs = answered && accepted && writesTo(fn.Body, idVar) <= 1
	} else {
		f.miss = append(f.miss, "dispenseServer.Dispense")
	}
	// GRPCBroker.AcceptAndServe serves with the TLS configuration the broker was given, itself: `credentials.NewTLS(b.tls)`,
	// and grpc_broker.go builds no tls.Config of its own (no composite literal, no Clone)
	givenTLS := false
	if fn := p.fn("GRPCBroker", "AcceptAndServe"); fn != nil {
		givenTLS = strings.Contains(nodeCalls(fn.Body), "credentials.NewTLS(b.tls)")
		for key, file := range p.files {
			if key != "grpc_broker.go" {
				continue
			}
			ast.Inspect(file, func(n ast.Node) bool {
				switch v := n.(type) {
				case *ast.CompositeLit:
					if exprString(v.Type) == "tls.Config" {
						givenTLS = false
					}
				case *ast.CallExpr:
					if strings.HasSuffix(exprString(v.Fun), ".tls.Clone") {
						givenTLS = false
					}
				}
				return true
			})
		}
	} else {
		f.miss = append(f.miss, "GRPCBroker.AcceptAndServe")
	}
	// serverListener_unix takes the socket's name from os.CreateTemp in the configured directory (a name no other process
	// sharing that directory can have chosen), and from nowhere else
	randNames := false
	if fn := p.fn("", "serverListener_unix"); fn != nil {
		calls := nodeCalls(fn.Body)
		randNames = strings.Count(calls, "os.CreateTemp(unixSocketCfg.socketDir,") == 1 && !strings.Contains(calls, "fmt.Sprintf(") && !strings.Contains(calls, "filepath.Join(")
	} else {
		f.miss = append(f.miss, "serverListener_unix")
	}
	// cmdrunner.ReattachFunc probes on EVERY call of the function it returns: the returned literal itself contains the
	// os.FindProcess and net.Dial calls, and cmd_reattach.go has no sync.Once / memo of any kind
	probesEvery := false
	if fn := p.fn("", "ReattachFunc"); fn != nil && len(fn.Body.List) >= 1 {
		if rs, ok := fn.Body.List[len(fn.Body.List)-1].(*ast.ReturnStmt); ok && len(rs.Results) == 1 {
			if fl, ok := rs.Results[0].(*ast.FuncLit); ok {
				calls := nodeCalls(fl.Body)
				probesEvery = strings.Contains(calls, "os.FindProcess(") && strings.Contains(calls, "net.Dial(") && len(fn.Body.List) == 1
			}
		}
		if mentions([]string{"internal/cmdrunner/cmd_reattach.go"}, "Once", "Do", "OnceValue", "OnceValues", "OnceFunc") != 0 {
			probesEvery = false
		}
	} else {
		f.miss = append(f.miss, "cmdrunner.ReattachFunc")
	}
	f.lean = append(f.lean, fmt.Sprintf("def reattachFuncProbe : Hygiene.ProbeParams := ⟨%s⟩", leanBool(probesEvery)))
	f.set("reattachFuncProbe", map[string]interface{}{"probesEveryCall": probesEvery})
	f.lean = append(f.lean, fmt.Sprintf("def hygiene : Hygiene.Params := ⟨%s, %s, %s, %s, %s, %s, %s, %s, %s, %s, %s⟩",
		leanBool(noResume), leanBool(envUntouched), leanBool(noDeadlines), leanBool(sharesDir), leanBool(doorFirst), leanBool(onlyExec), leanBool(slotAtomic),
		leanBool(transIdentity), leanBool(dispIDs), leanBool(givenTLS), leanBool(randNames)))
	f.set("hygiene", map[string]interface{}{"noSessionResumption": noResume, "runnerLeavesEnv": envUntouched, "noWriteDeadlines": noDeadlines,
		"brokerSharesSocketDir": sharesDir, "doorBeforeAck": doorFirst, "startErrorOnlyFromExec": onlyExec, "slotLookupAtomic": slotAtomic, "translatorIdentity": transIdentity,
		"dispenseUsesBrokerIds": dispIDs, "brokerServesWithGivenTLS": givenTLS, "socketNamesFromCreateTemp": randNames})
}
