package main

import (
	"fmt"
	"go/ast"
	"strings"
)

func init() {
	registerExtractor("interop", []string{"GoPlugin.Model.Interop"}, extractInterop)
}

func extractInterop(p *pkgs, f *facts) {
	dflt, refused := false, false
	if nc := p.fn("", "NewClient"); nc != nil {
		ast.Inspect(nc.Body, func(n ast.Node) bool {
			is, ok := n.(*ast.IfStmt)
			if !ok || exprString(is.Cond) != "config.AllowedProtocols==nil" {
				return true
			}
			for _, s := range is.Body.List {
				if as, ok := s.(*ast.AssignStmt); ok && len(as.Rhs) == 1 && exprString(as.Lhs[0]) == "config.AllowedProtocols" {
					if cl, ok := as.Rhs[0].(*ast.CompositeLit); ok && len(cl.Elts) == 1 && exprString(cl.Elts[0]) == "ProtocolNetRPC" {
						dflt = true
					}
				}
			}
			return true
		})
	} else {
		f.miss = append(f.miss, "NewClient")
	}
	if st := p.fn("Client", "Start"); st != nil {
		launch := firstStmtWith(st.Body.List, "c.reattach()")
		ast.Inspect(st.Body, func(n ast.Node) bool {
			is, ok := n.(*ast.IfStmt)
			if !ok {
				return true
			}
			c := exprString(is.Cond)
			if strings.Contains(c, "c.config.GRPCBrokerMultiplex") && strings.Contains(c, "c.config.Reattach!=nil") && blockReturnsNonNilErr(is.Body) {
				refused = launch != 0
			}
			return true
		})
	}
	f.lean = append(f.lean, fmt.Sprintf("def interop : Interop.Params := ⟨%s, %s⟩", leanBool(dflt), leanBool(refused)))
	f.set("interop", map[string]interface{}{"defaultAllowedNetrpcOnly": dflt, "reattachMuxRefused": refused})
}
