package main

import (
	"fmt"
	"go/ast"
	"go/token"
	"strings"
)

func init() {
	registerExtractor("interop", []string{"GoPlugin.Model.Interop"}, extractInterop)
}

func extractInterop(p *pkgs, f *facts) {
	dflt, refused := false, false
	if nc := p.fn("", "NewClient"); nc != nil {
		ast.Inspect(nc.Body, func(n ast.Node) bool {
			is, ok := n.(*ast.IfStmt)
			if !ok || exprString(is.Cond) != "config.AllowedProtocols==nil" {
				return true
			}
			for _, s := range is.Body.List {
				if as, ok := s.(*ast.AssignStmt); ok && len(as.Rhs) == 1 && exprString(as.Lhs[0]) == "config.AllowedProtocols" {
					if cl, ok := as.Rhs[0].(*ast.CompositeLit); ok && len(cl.Elts) == 1 && exprString(cl.Elts[0]) == "ProtocolNetRPC" {
						dflt = true
					}
				}
			}
			return true
		})
	} else {
		f.miss = append(f.miss, "NewClient")
	}
	if st := p.fn("Client", "Start"); st != nil {
		launch := firstStmtWith(st.Body.List, "c.reattach()")
		ast.Inspect(st.Body, func(n ast.Node) bool {
			is, ok := n.(*ast.IfStmt)
			if !ok {
				return true
			}
			c := exprString(is.Cond)
			if strings.Contains(c, "c.config.GRPCBrokerMultiplex") && strings.Contains(c, "c.config.Reattach!=nil") && blockReturnsNonNilErr(is.Body) {
				refused = launch != 0
			}
			return true
		})
	}
	autoAtStart, autoJS := autoTLSAtStart(p)
	dialsTLS, dialJS := hostDialsUseTLSConfig(p)
	checkDflt, checkJS := allowedCheckCoversDefault(p)
	// reattach(): before the statement that calls the reattach function there is an `if` whose condition negates a membership
	// test of a protocol variable in c.config.AllowedProtocols and whose body returns a non-nil error; that variable is
	// assigned from c.config.Reattach.Protocol (with the net/rpc default) and is what c.protocol is set to
	reattachChecks := false
	if ra := p.fn("Client", "reattach"); ra != nil {
		callIdx, checkIdx, v := -1, -1, ""
		for i, st := range ra.Body.List {
			if callIdx < 0 && strings.Contains(nodeCalls(st), "reattachFunc()") {
				callIdx = i
			}
			if is, ok := st.(*ast.IfStmt); ok && checkIdx < 0 {
				c := exprString(is.Cond)
				if strings.HasPrefix(c, "!slices.Contains(c.config.AllowedProtocols,") && blockReturnsNonNilErr(is.Body) {
					checkIdx = i
					v = strings.TrimSuffix(strings.TrimPrefix(c, "!slices.Contains(c.config.AllowedProtocols,"), ")")
				}
			}
		}
		fromCfg, toField := false, false
		ast.Inspect(ra.Body, func(n ast.Node) bool {
			if as, ok := n.(*ast.AssignStmt); ok && len(as.Lhs) == 1 && len(as.Rhs) == 1 {
				l, r := exprString(as.Lhs[0]), exprString(as.Rhs[0])
				if l == v && r == "c.config.Reattach.Protocol" {
					fromCfg = true
				}
				if l == "c.protocol" {
					toField = r == v
				}
			}
			return true
		})
		reattachChecks = v != "" && checkIdx >= 0 && callIdx > checkIdx && fromCfg && toField
	} else {
		f.miss = append(f.miss, "Client.reattach(interop)")
	}
	f.lean = append(f.lean, fmt.Sprintf("def interop : Interop.Params := ⟨%s, %s, %s, %s, %s, %s⟩", leanBool(dflt), leanBool(refused),
		leanBool(autoAtStart), leanBool(dialsTLS), leanBool(checkDflt), leanBool(reattachChecks)))
	f.set("interop", map[string]interface{}{"defaultAllowedNetrpcOnly": dflt, "reattachMuxRefused": refused,
		"autoTlsAtStart": autoAtStart, "autoTlsAtStartWhy": autoJS, "dialsUseTlsConfig": dialsTLS, "dialsUseTlsConfigWhy": dialJS,
		"allowedCheckCoversDefault": checkDflt, "allowedCheckCoversDefaultWhy": checkJS, "reattachChecksAllowed": reattachChecks})
}

// autoTLSAtStart: `Client.Start` installs the AutoMTLS configuration itself, before the
// plugin is launched, whenever AutoMTLS is on — independent of what the plugin answers.
//
// Accepted shape (anything else = false):
//   - exactly one TOP-LEVEL statement of Start is `if <recv>.config.AutoMTLS { … }` (that exact
//     condition, no init, no else), and it comes before the statement that launches the plugin
//     (the first top-level statement calling RunnerFunc( / NewCmdRunner( / .Start( of the runner)
//     and after the `c.reattach()` return (so it governs every launching Start);
//   - a DIRECT child statement of that block (not nested under a further condition or loop) is
//     `<recv>.config.TLSConfig = X` where X resolves to a tls.Config composite literal
//     (address-of, through a local variable or one helper level);
//   - every statement of the block before that assignment either is not an `if`, or is an `if`
//     whose body ends in a return of a non-nil error (the error exits) — so reaching the end
//     of the block means the assignment ran;
//   - nowhere in the package is a `.TLSConfig` assigned `nil`, and no other assignment to
//     `<recv>.config.TLSConfig` in Start follows the block (which could undo it).
func autoTLSAtStart(p *pkgs) (bool, map[string]interface{}) {
	js := map[string]interface{}{}
	st := p.fn("Client", "Start")
	if st == nil || recvName(st) == "" {
		js["reason"] = "Client.Start not found"
		return false, js
	}
	r := recvName(st)
	list := st.Body.List
	launch := -1
	for _, needle := range []string{"RunnerFunc(", "NewCmdRunner(", "runner.Start("} {
		if i := firstStmtWith(list, needle); i >= 0 && (launch < 0 || i < launch) {
			launch = i
		}
	}
	reattach := firstStmtWith(list, r+".reattach()")
	blockIdx, nBlocks := -1, 0
	for i, s := range list {
		if is, ok := s.(*ast.IfStmt); ok && is.Init == nil && exprString(is.Cond) == r+".config.AutoMTLS" {
			nBlocks++
			blockIdx = i
			if is.Else != nil {
				nBlocks += 100
			}
		}
	}
	js["autoMTLSBlocks"], js["blockIndex"], js["launchIndex"], js["reattachIndex"] = nBlocks, blockIdx, launch, reattach
	if nBlocks != 1 || launch < 0 || reattach < 0 || !(reattach < blockIdx && blockIdx < launch) {
		js["reason"] = "no single top-level `if " + r + ".config.AutoMTLS` block between the reattach return and the launch"
		return false, js
	}
	blk := list[blockIdx].(*ast.IfStmt).Body
	assigned := -1
	for i, s := range blk.List {
		as, ok := s.(*ast.AssignStmt)
		if !ok || as.Tok != token.ASSIGN || len(as.Lhs) != 1 || len(as.Rhs) != 1 {
			continue
		}
		if exprString(as.Lhs[0]) == r+".config.TLSConfig" && resolveTLS(p, st, as.Rhs[0], 2) != nil {
			assigned = i
		}
	}
	if assigned < 0 {
		js["reason"] = "the AutoMTLS block does not itself assign a tls.Config to " + r + ".config.TLSConfig"
		return false, js
	}
	for _, s := range blk.List[:assigned] {
		switch x := s.(type) {
		case *ast.IfStmt:
			if x.Else != nil || !blockReturnsNonNilErr(x.Body) {
				js["reason"] = "a conditional before the assignment can skip it"
				return false, js
			}
		case *ast.ForStmt, *ast.RangeStmt, *ast.SwitchStmt, *ast.TypeSwitchStmt, *ast.SelectStmt, *ast.ReturnStmt, *ast.BranchStmt, *ast.LabeledStmt, *ast.GoStmt, *ast.DeferStmt:
			js["reason"] = "control flow before the assignment"
			return false, js
		}
	}
	// nothing may undo it
	undone := 0
	for _, fd := range allFuncs(p) {
		ast.Inspect(fd.Body, func(m ast.Node) bool {
			as, ok := m.(*ast.AssignStmt)
			if !ok {
				return true
			}
			for i, lh := range as.Lhs {
				if !strings.HasSuffix(exprString(lh), ".TLSConfig") {
					continue
				}
				if len(as.Rhs) == len(as.Lhs) && exprString(as.Rhs[i]) == "nil" {
					undone++
				}
				if fd == st && as.Pos() > blk.End() {
					undone++
				}
			}
			return true
		})
	}
	js["laterOrNilAssignments"] = undone
	if undone != 0 {
		js["reason"] = "TLSConfig is reassigned after the block or set to nil somewhere"
		return false, js
	}
	return true, js
}

// hostDialsUseTLSConfig: every host dial path hands config.TLSConfig to the transport.  The
// individual facts are those of the C12 extractor (extractTLS), evaluated on a scratch store.
func hostDialsUseTLSConfig(p *pkgs) (bool, map[string]interface{}) {
	scratch := &facts{js: map[string]interface{}{}}
	extractTLS(p, scratch)
	out := map[string]interface{}{}
	tj, _ := scratch.js["tls"].(map[string]interface{})
	wrap, _ := tj["tlsWrap"].(map[string]bool)
	ok := wrap != nil
	for _, k := range []string{"rpcDialWrapped", "grpcDialCreds", "hostBrokerTls", "brokerDialCreds", "brokerMuxDialCreds"} {
		out[k] = wrap[k]
		ok = ok && wrap[k]
	}
	return ok, out
}


// allowedCheckCoversDefault: in Client.Start the comparison of <recv>.protocol with
// AllowedProtocols also covers the protocol DEFAULTED for a four-field line.
//
// Accepted shape (anything else = false): the statement list L that contains, as a direct
// child, the single assignment `<recv>.protocol = ProtocolNetRPC` also contains, as a LATER
// direct child (hence not inside the `if len(parts) >= 5 { … }` that reads the field), a
// refusal `if C { … return <non-nil err> }` where either
//
//	(a) C mentions both AllowedProtocols and <recv>.protocol, negated
//	    (`!slices.Contains(c.config.AllowedProtocols, c.protocol)`), or
//	(b) C is `!X`, X is declared `X := false` as a direct child of L after the default, and a
//	    `for … range <recv>.config.AllowedProtocols` that is a direct child of L between the
//	    default and the refusal sets `X = true` under a comparison with <recv>.protocol;
//
// and every other assignment to <recv>.protocol in Start precedes the refusal.
func allowedCheckCoversDefault(p *pkgs) (bool, map[string]interface{}) {
	js := map[string]interface{}{}
	st := p.fn("Client", "Start")
	if st == nil || recvName(st) == "" {
		js["reason"] = "Client.Start not found"
		return false, js
	}
	r := recvName(st)
	proto := r + ".protocol"
	var lists [][]ast.Stmt
	ast.Inspect(st.Body, func(n ast.Node) bool {
		switch b := n.(type) {
		case *ast.BlockStmt:
			lists = append(lists, b.List)
		case *ast.CaseClause:
			lists = append(lists, b.Body)
		case *ast.CommClause:
			lists = append(lists, b.Body)
		}
		return true
	})
	isDefault := func(s ast.Stmt) bool {
		as, ok := s.(*ast.AssignStmt)
		return ok && as.Tok == token.ASSIGN && len(as.Lhs) == 1 && len(as.Rhs) == 1 && exprString(as.Lhs[0]) == proto && exprString(as.Rhs[0]) == "ProtocolNetRPC"
	}
	var L []ast.Stmt
	di, nDefaults := -1, 0
	for _, l := range lists {
		for i, s := range l {
			if isDefault(s) {
				nDefaults++
				L, di = l, i
			}
		}
	}
	js["defaults"] = nDefaults
	if nDefaults != 1 {
		js["reason"] = "no single `" + proto + " = ProtocolNetRPC`"
		return false, js
	}
	refusal := -1
	for j := di + 1; j < len(L) && refusal < 0; j++ {
		is, ok := L[j].(*ast.IfStmt)
		if !ok || is.Init != nil || !blockReturnsNonNilErr(is.Body) {
			continue
		}
		ue, ok := is.Cond.(*ast.UnaryExpr)
		if !ok || ue.Op != token.NOT {
			continue
		}
		c := exprString(ue.X)
		if strings.Contains(c, "AllowedProtocols") && strings.Contains(c, proto) {
			refusal = j
			js["shape"] = "direct: " + c
			break
		}
		x, ok := ue.X.(*ast.Ident)
		if !ok {
			continue
		}
		declared, set := false, false
		for k := di + 1; k < j; k++ {
			switch y := L[k].(type) {
			case *ast.AssignStmt:
				if y.Tok == token.DEFINE && len(y.Lhs) == 1 && len(y.Rhs) == 1 && exprString(y.Lhs[0]) == x.Name && exprString(y.Rhs[0]) == "false" {
					declared = true
				}
			case *ast.RangeStmt:
				if !strings.HasSuffix(exprString(y.X), ".config.AllowedProtocols") || !declared {
					continue
				}
				ast.Inspect(y.Body, func(m ast.Node) bool {
					ii, ok := m.(*ast.IfStmt)
					if !ok || !strings.Contains(exprString(ii.Cond), proto) || !strings.Contains(exprString(ii.Cond), "==") {
						return true
					}
					if assignsTrue(ii.Body, x.Name) {
						set = true
					}
					return true
				})
			}
		}
		if declared && set {
			refusal = j
			js["shape"] = "loop setting " + x.Name
		}
	}
	if refusal < 0 {
		js["reason"] = "no refusal on AllowedProtocols in the statement list of the net/rpc default (after it)"
		return false, js
	}
	// no assignment to c.protocol after the refusal
	late := 0
	ast.Inspect(st.Body, func(m ast.Node) bool {
		if as, ok := m.(*ast.AssignStmt); ok {
			for _, lh := range as.Lhs {
				if exprString(lh) == proto && as.Pos() > L[refusal].Pos() {
					late++
				}
			}
		}
		return true
	})
	js["protocolAssignedAfterCheck"] = late
	if late != 0 {
		js["reason"] = proto + " is assigned after the check"
		return false, js
	}
	return true, js
}
