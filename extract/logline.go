package main

import (
	"fmt"
	"go/ast"
	"go/token"
	"strings"
)

func init() {
	registerExtractor("logline", []string{"GoPlugin.Model.LogLine", "GoPlugin.Model.Scanner"}, extractLogLine)
}

// extractLogLine: facts of the stderr/stdout readers (C10).
//
//	logline.checkedAssertions    every `x.(string)` in parseJSON is a comma-ok form (or a type switch)
//	logline.defaultBuf           defaultPluginLogBufferSize
//	drain.maxToken               token limit of the stdout scanner in Client.Start
//	drain.drainsLines            a goroutine ranges over linesCh until it is closed
//	drain.drainsAfterScannerError after the `for scanner.Scan()` loop the goroutine keeps reading stdout
func extractLogLine(p *pkgs, f *facts) {
	// ---- parseJSON
	checked := false
	if pj := p.fn("", "parseJSON"); pj != nil {
		checked = true
		ok2 := map[*ast.TypeAssertExpr]bool{} // assertions used in comma-ok position
		ast.Inspect(pj.Body, func(n ast.Node) bool {
			switch s := n.(type) {
			case *ast.AssignStmt:
				if len(s.Lhs) == 2 && len(s.Rhs) == 1 {
					if ta, ok := s.Rhs[0].(*ast.TypeAssertExpr); ok {
						if id, isId := s.Lhs[1].(*ast.Ident); !isId || id.Name != "_" {
							ok2[ta] = true
						}
					}
				}
			case *ast.ValueSpec:
				if len(s.Names) == 2 && len(s.Values) == 1 {
					if ta, ok := s.Values[0].(*ast.TypeAssertExpr); ok && s.Names[1].Name != "_" {
						ok2[ta] = true
					}
				}
			}
			return true
		})
		ast.Inspect(pj.Body, func(n ast.Node) bool {
			ta, ok := n.(*ast.TypeAssertExpr)
			if !ok || ta.Type == nil { // Type == nil: `x.(type)` of a type switch
				return true
			}
			if !ok2[ta] {
				checked = false
			}
			return true
		})
	} else {
		f.miss = append(f.miss, "parseJSON")
	}
	defBuf, ok := p.constInt("defaultPluginLogBufferSize")
	if !ok {
		f.miss = append(f.miss, "defaultPluginLogBufferSize")
		defBuf = 0
	}

	// ---- the stdout reader goroutine of Client.Start
	maxToken := int64(0)
	drainsLines := false
	drainsAfterErr := false
	if start := p.fn("Client", "Start"); start != nil {
		// local aliases `x := <expr>` anywhere in Start (one level)
		alias := map[string]string{}
		ast.Inspect(start.Body, func(n ast.Node) bool {
			if as, ok := n.(*ast.AssignStmt); ok && as.Tok == token.DEFINE && len(as.Lhs) == 1 && len(as.Rhs) == 1 {
				if id, ok := as.Lhs[0].(*ast.Ident); ok {
					if _, seen := alias[id.Name]; !seen {
						alias[id.Name] = exprString(as.Rhs[0])
					}
				}
			}
			return true
		})
		resolve := func(e ast.Expr) string {
			s := exprString(e)
			if id, ok := e.(*ast.Ident); ok {
				if a, ok := alias[id.Name]; ok {
					return a
				}
			}
			return s
		}
		ast.Inspect(start.Body, func(n ast.Node) bool {
			gs, ok := n.(*ast.GoStmt)
			if !ok {
				return true
			}
			fl, ok := gs.Call.Fun.(*ast.FuncLit)
			if !ok {
				return true
			}
			// (a) for range linesCh {}
			ast.Inspect(fl.Body, func(m ast.Node) bool {
				if rs, ok := m.(*ast.RangeStmt); ok && exprString(rs.X) == "linesCh" {
					drainsLines = true
				}
				return true
			})
			// (b) the goroutine that owns the scanner
			var scanVar, scanSrc string
			ast.Inspect(fl.Body, func(m ast.Node) bool {
				as, ok := m.(*ast.AssignStmt)
				if !ok || len(as.Lhs) != 1 || len(as.Rhs) != 1 {
					return true
				}
				if call, ok := as.Rhs[0].(*ast.CallExpr); ok && exprString(call.Fun) == "bufio.NewScanner" && len(call.Args) == 1 {
					scanVar = exprString(as.Lhs[0])
					scanSrc = resolve(call.Args[0])
				}
				return true
			})
			if scanVar == "" || !strings.Contains(scanSrc, "Stdout") {
				return true
			}
			maxToken = 64 * 1024 // bufio.MaxScanTokenSize
			isDrain := func(call *ast.CallExpr) bool {
				fn := exprString(call.Fun)
				if (fn == "io.Copy" || fn == "io.CopyBuffer") && len(call.Args) >= 2 {
					return strings.HasSuffix(exprString(call.Args[0]), "Discard") && resolve(call.Args[1]) == scanSrc
				}
				return false
			}
			// end of the `for scanner.Scan() {…}` loop
			loopEnd := token.NoPos
			ast.Inspect(fl.Body, func(m ast.Node) bool {
				if s, ok := m.(*ast.ForStmt); ok && s.Cond != nil && exprString(s.Cond) == scanVar+".Scan()" {
					loopEnd = s.End()
				}
				return true
			})
			ast.Inspect(fl.Body, func(m ast.Node) bool {
				switch s := m.(type) {
				case *ast.CallExpr:
					if exprString(s.Fun) == scanVar+".Buffer" && len(s.Args) == 2 {
						if v, ok := p.evalInt(s.Args[1]); ok {
							maxToken = v
						} else {
							maxToken = 0
						}
					}
					if loopEnd != token.NoPos && s.Pos() > loopEnd && isDrain(s) {
						drainsAfterErr = true
					}
				case *ast.DeferStmt:
					// a deferred drain runs when the goroutine's function returns, i.e. after the loop
					if loopEnd != token.NoPos && isDrain(s.Call) {
						drainsAfterErr = true
					}
				}
				return true
			})
			return true
		})
	} else {
		f.miss = append(f.miss, "Client.Start")
	}
	if maxToken == 0 {
		f.miss = append(f.miss, "Client.Start:stdout-scanner")
	}

	// ---- logStderr: every `return` sits in the switch — or, the same thing in the normal form of normalize.go, the
	// if/else chain — that directly follows `… := reader.ReadLine()`; no goto / labelled break
	endsOnRead := false
	if ls := p.fn("Client", "logStderr"); ls != nil {
		var sw ast.Stmt
		ast.Inspect(ls.Body, func(n ast.Node) bool {
			fs, ok := n.(*ast.ForStmt)
			if !ok || sw != nil {
				return true
			}
			for i, st := range fs.Body.List {
				if as, ok := st.(*ast.AssignStmt); ok && len(as.Rhs) == 1 && strings.HasSuffix(exprString(as.Rhs[0]), ".ReadLine()") && i+1 < len(fs.Body.List) {
					switch x := fs.Body.List[i+1].(type) {
					case *ast.SwitchStmt:
						sw = x
					case *ast.IfStmt:
						sw = x
					}
				}
			}
			return true
		})
		if sw != nil {
			endsOnRead = true
			ast.Inspect(ls.Body, func(n ast.Node) bool {
				switch x := n.(type) {
				case *ast.FuncLit:
					return false
				case *ast.ReturnStmt:
					if x.Pos() < sw.Pos() || x.End() > sw.End() {
						endsOnRead = false
					}
				case *ast.BranchStmt:
					if x.Tok.String() == "goto" || (x.Tok.String() == "break" && x.Label != nil) {
						endsOnRead = false
					}
					_, swIsSwitch := sw.(*ast.SwitchStmt)
					if x.Tok.String() == "break" && x.Label == nil && !(swIsSwitch && x.Pos() > sw.Pos() && x.End() < sw.End()) {
						// an unlabelled break that does not leave the read-error switch itself: only harmless inside another switch/select
						endsOnRead = endsOnRead && insideInnerSwitch(ls.Body, x)
					}
				case *ast.CallExpr:
					if id, ok := x.Fun.(*ast.Ident); ok && id.Name == "panic" {
						endsOnRead = false
					}
				}
				return true
			})
		}
	} else {
		f.miss = append(f.miss, "Client.logStderr")
	}
	// logStderr touches the client only through c.logger, the two wait groups and c.config (no method of *Client, no c.l)
	readsFromStart := false
	if ls := p.fn("Client", "logStderr"); ls != nil {
		readsFromStart = true
		ast.Inspect(ls.Body, func(n ast.Node) bool {
			ce, ok := n.(*ast.CallExpr)
			if !ok {
				return true
			}
			r := exprString(ce.Fun)
			if strings.HasPrefix(r, "c.") {
				okPrefix := false
				for _, pre := range []string{"c.logger.", "c.clientWaitGroup.", "c.pipesWaitGroup.", "c.config."} {
					if strings.HasPrefix(r, pre) {
						okPrefix = true
					}
				}
				if !okPrefix {
					readsFromStart = false
				}
			}
			return true
		})
	}
	// the stderr reader is in pipesWaitGroup: logStderr defers c.pipesWaitGroup.Done() at its top level, and in Start the
	// statement `go c.logStderr(…)` is preceded (since the previous go statement) by `c.pipesWaitGroup.Add(1)`
	inGroup := false
	if ls := p.fn("Client", "logStderr"); ls != nil {
		doneDeferred := false
		for _, st := range ls.Body.List {
			if d, ok := st.(*ast.DeferStmt); ok && exprString(d.Call) == "c.pipesWaitGroup.Done()" {
				doneDeferred = true
			}
		}
		if st := p.fn("Client", "Start"); st != nil && doneDeferred {
			added := false
			for _, s := range st.Body.List {
				switch v := s.(type) {
				case *ast.ExprStmt:
					if exprString(v.X) == "c.pipesWaitGroup.Add(1)" {
						added = true
					}
				case *ast.GoStmt:
					if strings.HasPrefix(exprString(v.Call), "c.logStderr(") {
						inGroup = added
					}
					added = false
				}
			}
		}
	}
	f.lean = append(f.lean, fmt.Sprintf("def stderrReader : LogLine.ReaderParams := ⟨%s, %s, %s⟩", leanBool(endsOnRead), leanBool(readsFromStart), leanBool(inGroup)))
	f.set("stderrReader", map[string]interface{}{"endsOnlyOnReadError": endsOnRead, "readsFromStart": readsFromStart, "waitedBeforeProcWait": inGroup})
	// kvAllKept: parseJSON's `for k, v := range raw` body is the single unconditional append of a logEntryKV{Key: k, Value: v};
	// flattenKVPairs' loop body consists of unconditional appends mentioning kv.Key and kv.Value only
	kvAll := false
	{
		okParse, okFlat := false, false
		if pj := p.fn("", "parseJSON"); pj != nil {
			ast.Inspect(pj.Body, func(n ast.Node) bool {
				rs, ok := n.(*ast.RangeStmt)
				if !ok || exprString(rs.X) != "raw" {
					return true
				}
				if len(rs.Body.List) == 1 {
					if as, ok := rs.Body.List[0].(*ast.AssignStmt); ok && len(as.Rhs) == 1 && strings.HasPrefix(exprString(as.Rhs[0]), "append(entry.KVPairs,") {
						okParse = true
					}
				}
				return true
			})
		}
		if fl := p.fn("", "flattenKVPairs"); fl != nil {
			ast.Inspect(fl.Body, func(n ast.Node) bool {
				rs, ok := n.(*ast.RangeStmt)
				if !ok {
					return true
				}
				okFlat = len(rs.Body.List) >= 1
				keySeen, valSeen := false, false
				for _, st := range rs.Body.List {
					as, ok := st.(*ast.AssignStmt)
					if !ok || len(as.Rhs) != 1 || !strings.HasPrefix(exprString(as.Rhs[0]), "append(") {
						okFlat = false
						continue
					}
					r := exprString(as.Rhs[0])
					keySeen = keySeen || strings.Contains(r, ".Key")
					valSeen = valSeen || strings.Contains(r, ".Value")
				}
				okFlat = okFlat && keySeen && valSeen
				return true
			})
		}
		kvAll = okParse && okFlat
	}
	f.lean = append(f.lean, fmt.Sprintf("def logline : LogLine.Params := ⟨%s, %d, %s⟩", leanBool(checked), defBuf, leanBool(kvAll)))
	f.lean = append(f.lean, fmt.Sprintf("def drain : Scanner.DrainParams := ⟨%d, %s, %s⟩", maxToken, leanBool(drainsLines), leanBool(drainsAfterErr)))
	f.set("logline", map[string]interface{}{"checkedAssertions": checked, "defaultBuf": defBuf, "kvAllKept": kvAll})
	f.set("drain", map[string]interface{}{"maxToken": maxToken, "drainsLines": drainsLines, "drainsAfterScannerError": drainsAfterErr})
}

// insideInnerSwitch: is node b nested in a switch/select/for that is itself inside root (so that an unlabelled
// `break` leaves only that inner statement)?
func insideInnerSwitch(root ast.Node, b ast.Node) bool {
	found := false
	ast.Inspect(root, func(n ast.Node) bool {
		switch n.(type) {
		case *ast.SwitchStmt, *ast.TypeSwitchStmt, *ast.SelectStmt:
			if n.Pos() < b.Pos() && b.End() <= n.End() {
				found = true
			}
		}
		return true
	})
	return found
}
