"""Per-property configuration of bin/check: one module per property in bin/propcfg/<ID>.py defining CONFIG."""
import importlib.util, os, glob

PROPS = {}
for _p in sorted(glob.glob(os.path.join(os.path.dirname(os.path.abspath(__file__)), "propcfg", "C*.py"))):
    _spec = importlib.util.spec_from_file_location("propcfg_" + os.path.basename(_p)[:-3], _p)
    _m = importlib.util.module_from_spec(_spec)
    _spec.loader.exec_module(_m)
    PROPS[os.path.basename(_p)[:-3]] = _m.CONFIG
