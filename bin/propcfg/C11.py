import re

def _sig(case, impl, pred):
    return pred.split(":")[1] if pred.startswith("FAIL:") else pred

def _trivial(impl):
    # non-trivial = both sync writers received more than one 1 KiB chunk (so chunking, merging and demultiplexing all mattered)
    m = re.match(r"ok out=(\d+):\S+ err=(\d+):", impl)
    return not (m and int(m.group(1)) > 1024 and int(m.group(2)) > 1024)

CONFIG = {
    "modules": ["GoPlugin.Props.C11", "GoPlugin.Props.StdioConn", "GoPlugin.Props.Hygiene", "GoPlugin.Instance.C11"],
    "scenario": "C11",
    "signature": _sig,
    "trivial": _trivial,
    "rule": "real plugin subprocesses (kit plugin re-executed from the harness binary) over netrpc, grpc, grpc+mux, each with and without AutoMTLS: "
            "5 late-output scripts (output on both streams, then the plugin is idle for 6.5 s with the connection up, then output again on both streams; "
            "thorough tier also 31 s and 61 s; they run concurrently with the rest) + "
            "6 ladder scripts (every size 0,1,1023,1024,1025,4095,4096,4097,10000,70000 once per stream) + seeded random scripts of 1-30 Emit calls "
            "(sizes from that set, payload kinds rng/NUL/invalid-UTF-8/counter/newline-pipe), interleaved with Double calls, concurrent Emits on different streams, "
            "optional pre-attach burst written to os.Stdout/os.Stderr right after Serve re-points them and before the host calls Client(); "
            "distinct = distinct case lines; non-trivial = both SyncStdout and SyncStderr received more than 1024 bytes",
    "assumptions": [
        "transport: messages sent on the one gRPC StreamStdio stream are received in order and exactly once while the connection is alive "
        "(grpc-go); bytes written to a yamux stream are read from the peer's stream of the same open/accept order, in order and exactly once (yamux); "
        "this is the shape of Model/Stdio.lean (`transport` = identity) and is exercised, not proved, by the correspondence run",
        "the OS pipe behind os.Stdout/os.Stderr is FIFO and loss-free; how it and bufio.Reader/io.Copy cut the bytes into reads is arbitrary "
        "(the theorems quantify over all cuttings into reads of at most `chunk` bytes)",
        "the order in which StreamStdio's select / the yamux session interleaves the two streams is arbitrary (the theorems quantify over all interleavings); "
        "it is not observable by the harness, so the oracle draws cuts and interleaving from the case's cseed and the result is determined (grpcExec_exact / rpcExec_exact)",
        "writes to one stream are issued sequentially by the plugin (concurrent Emit calls only on different streams), so per-stream write order is defined",
        "nothing is claimed about data in flight when the connection dies or the plugin is killed",
        "time: the model stamps every chunk with the time it is sent (ms after the host attached); the lifetime of the gRPC stdio stream is the extracted fact "
        "streamCtxBound (the context of the host's StreamStdio call is the client's done-context, no WithTimeout/WithDeadline on the way); the correspondence run "
        "samples idle periods of 6.5 s (quick) and 31 s / 61 s (thorough) only — a bound longer than that is caught by the fact, not by the run",
        "payloads on the case line are generator specs kind:seed:len; the Go harness and the Lean oracle implement the same generator (SplitMix64) and the same digest (FNV-1a 64 + length); "
        "the property predicate compares the received bytes themselves",
    ],
    "timeout": {"quick": 900, "thorough": 3000},
    "level_text": "Lean theorems over a model of both stdio paths (Model/Stdio.lean): for every sequence of writes on stdout and stderr, every re-chunking the pipe/bufio reader may deliver (pieces of 1..1024 bytes), and every interleaving chosen by StreamStdio's select, the bytes delivered to SyncStdout (resp. SyncStderr) are exactly the concatenation of what was written to stdout (resp. stderr) \u2014 no loss, duplication, reordering or crossing (per_stream_exact_grpc / _netrpc), and data written before the host attaches is delivered first (before_attach_retained_*); output written after an idle period of any length is still delivered as long as the connection is alive, because the stdio stream's context is the client's done-context without a deadline (late_output_delivered_grpc, per_stream_exact_grpc_timed; witness stream_deadline_witness: a 5 s timeout context drops what is written at 6.5 s); eight witness theorems show each extracted fact (exact slice sent, channel tags, client mapping, skip-empty test, net/rpc stream indices on both sides) is necessary. Facts are traced by data flow from os.Stdout to the sync writer on every run; ~71 real plugin sessions per run (5 of them with output after a 6.5 s idle period) (netrpc, grpc, grpc+mux, each with and without AutoMTLS) emit ~1400 writes of boundary sizes with pre-attach bursts and are compared byte for byte. Fifth round: fact clientKeepalive = none (client keep-alive pings against gRPC's default server enforcement recycle the transport and the stdio stream dies with it: client_keepalive_witness) and C11.second-conn (a host attaching after a first connection came and went; this found and now guards the repaired defect D13; the net/rpc server's two-step stdio shape — one reader per server, one copier per connection — is what the extractor reads). Several host connections in the life of one net/rpc plugin: Model/StdioConn.lean (connect / drop / write / take events), nothing_lost_across_connections for every history (invariant: nothing written to a dead connection's stream; taken ++ pending = written), fact copierEndsWithConn, witness stale_copier_witness = the former defect D13. Eighth round: the stdio copiers set no write deadlines, so a slow sync writer is back-pressure and loses nothing (Hygiene.noWriteDeadlines; slow_writer_loses_nothing, write_deadline_witness).",
    "level_note": "Partial: in-order exactly-once delivery of messages on one gRPC stream / bytes on one yamux stream, and the OS pipe, are assumed (the model's transport is the identity). Payloads are described by generator specs (kind:seed:len) shared by Go and Lean rather than hex, because they reach megabytes.",
}
