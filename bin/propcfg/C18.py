import re


def _kv(line):
    d = {}
    for f in line.split()[1:]:
        if "=" in f:
            k, v = f.split("=", 1)
            d[k] = v
    return d


def _cfg(case):
    d = _kv(case.lstrip("!"))
    s = d.get("proto", "?")
    if d.get("mux") == "1" and s == "grpc":
        s += "+mux"
    return s + "+" + d.get("launch", "?")


def _sig(case, impl, pred):
    # FAIL:left:main-socket:grpc+mux+cmd  ->  left:main-socket:grpc+mux+cmd   (what is left : configuration)
    if pred.startswith("FAIL:"):
        return pred[5:]
    return "ok:" + _cfg(case)


def _set(s):
    return set() if s in ("-", "") else set(s.split(","))


def _parse(res):
    m = re.match(r"ok left=(\S+) gor=(\S+)(?: may=(\S+))?$", res)
    if not m:
        return None
    return _set(m.group(1)), _set(m.group(2)), _set(m.group(3) or "-")


def _member(impl, model):
    """The model prints what certainly remains (left), what remains only if a goroutine of the plugin
    loses its race against the plugin's exit (may), and the host goroutines never released (gor)."""
    if impl == model:
        return True
    a, b = _parse(impl), _parse(model)
    if not a or not b:
        return False
    left, gor, _ = a
    mleft, mgor, may = b
    return gor == mgor and mleft <= left <= (mleft | may)


CONFIG = {
    "modules": ["GoPlugin.Props.C18", "GoPlugin.Instance.C18"],
    "scenario": "C18",
    "signature": _sig,
    "member": _member,
    "trivial": lambda impl: impl == "ok left=- gor=-",
    "rule": "real plugin sessions, each in its own host process with private temp directories on both sides (host TMPDIR, plugin TMPDIR / the runner's "
            "socket directory): configurations protocol {netrpc, grpc} x multiplexing x AutoMTLS x launch {Cmd, RunnerFunc around a real exec.Cmd}; "
            "histories: the empty one (Kill right after Start) and d,c,e,p,c,d per configuration, plus seeded random histories of 0-6 ops from "
            "{d=Dispense+Double, c=Callback brokered in both directions, e=Emit to stdout+stderr, p=Ping}; sessions marked pre=close (fixed: every RunnerFunc "
            "configuration with the empty history and d,c, Cmd launches with d,c,e; plus a quarter of the random ones): before Kill the host calls ClientProtocol.Close() itself "
            "and waits for Client.Exited(), so that Kill finds a recorded runner whose process has already exited; after Kill has returned and the process is gone "
            "both directories are listed (at Kill return and 3 s later) and the host's goroutines with go-plugin frames are dumped 3 s later "
            "(a broker timeoutWait, bounded by its 5 s timer, is given until 6 s); distinct = distinct case lines; non-trivial = something was left behind",
    "assumptions": [
        "PARTIAL: the theorems state that every ledger entry's release condition is implied by the events a graceful Kill and the plugin's exit produce; "
        "that a goroutine whose release condition holds actually exits, and that a Close which is reached actually runs, is runtime behaviour "
        "(Go scheduler, grpc-go, yamux) - exercised by the correspondence run (goroutine dump 3 s / 6 s after Kill), not proved",
        "Kill ends the plugin process (C04); the OS then closes its pipes; the host's connections and yamux session to it fail; time passes "
        "(the brokers' 5 s timers fire) - `peerGone`, `timerFired` of Model/Resources.lean",
        "grpc-go closes every listener handed to Server.Serve when the server is stopped (Lib.grpcStopClosesListeners): the theorems hold for both values; "
        "the oracle uses `true` (the pinned grpc-go) - only visible on trees where AcceptAndServe's own close is missing",
        "tls.NewListener's Close is the wrapped listener's Close (embedding); net.UnixListener / rmListener Close removes the socket file",
        "the ledger's entries are the creation sites found by reading the source: the `go` statement list is re-extracted and must equal the model's 28 sites "
        "(a new or vanished `go` statement breaks Instance/C18.lean); file creation sites (serverListener_unix, os.MkdirTemp in Start) are not re-counted",
        "a plugin-side socket whose Close is left to a goroutine racing the process exit is reported by the model as `may remain`; the implementation's "
        "leftover set must lie between the model's certain and possible leftovers",
        "sessions whose plugin had to be SIGKILLed by Kill (no graceful exit within 2 s) are outside the premise: re-run, else recorded as `forced`",
        "not covered by the correspondence run: Reattach launches, CleanupClients, static TLSConfig, Windows (TCP listeners)",
    ],
    "timeout": {"quick": 600, "thorough": 3000},
    "level_text": "Lean theorems over a resource ledger of one plugin session (Model/Resources.lean): every file go-plugin creates (main unix socket,  Fifth round: lns=3 cells (three brokered listeners per side accepted and left open at Kill; found and now guard the repaired defect D14), every listener GRPCBroker.Accept hands out is tracked and the closing loop of Close has no early exit; go-site table: 31 sites (the net/rpc server's per-server stdio readers are sites 30 and 31). Sixth round: C18.shared-usc (two custom-runner clients configured with one UnixSocketConfig value: each removes its own directory, neither the other's) and fact socketDirOwnedByClient (kill_removes_own_dir, shared_config_witness)."
                  "brokered sockets on both sides, the runner's socket directory) and every host goroutine (one entry per `go` statement that runs in the host role, "
                  "16 of the 28 sites, plus the caller parked in AcceptAndServe) carries a release condition over shutdown events; the Close call graph "
                  "(Kill -> client.Close -> broker.Close / Shutdown -> GRPCServer.Stop -> broker.Close -> AcceptAndServe's defer; Serve's deferred listener.Close "
                  "through tls / GRPCServerMuxer wrappers; Kill's deferred Wait + RemoveAll) is part of the model with 17 edges extracted from the source. "
                  "For ALL histories of dispense / brokered callback / stdio / ping of any length and all configurations (protocol x multiplexing x TLS x launch): "
                  "no file entry remains (ledger_empty_files), every host goroutine's release condition is implied by Kill + plugin exit (ledger_empty_goroutines), "
                  "the plugin's graceful exit itself follows (plugin_exits_gracefully); the same for every state of the plugin at the moment Kill is called - still running, or already shut down by the host through ClientProtocol.Close() and exited - given the fact that Kill's deferred clean-up (Wait, RemoveAll of the runner's socket directory) is registered whenever a runner was recorded (ledger_empty_files_any_state, no_socket_dir_after_kill, ledger_empty_goroutines_any_state; witness exited_before_kill_socket_dir_remains: an early return above the defer leaves the directory after every history); ledger_empty_files_partial is the form that holds while only the broker-listener ordering is missing (the only possible leftover is then a plugin-side brokered socket that lost the race, gRPC without multiplexing, Cmd launch); witness theorems show each edge is needed, among them the two defects of the "
                  "unchanged tree: GRPCServerMuxer.Close never closes the wrapped listener (main socket of a multiplexed gRPC plugin stays, every history) and "
                  "GRPCServer.Stop / GRPCBroker.Close leave the plugin-side brokered sockets to goroutines that race the process exit. "
                  "Tied to the code by re-extracting the edges and the `go` site list on every run and by ~40 real sessions per run (own host process each, private "
                  "directories on both sides, directory listing + goroutine dump after Kill) compared with the model's ledger. Seventh round: one brokered id advertised twice by the plugin and never asked for by the host, then Kill (dup=1 cells: no goroutine left 6 s later); the socket directory of a launch that fails before there is a runner is removed (fact socketDirRemovedIfNoRunner; found and guards the repaired defect D16). Eighth round: a gRPC plugin whose stdio stream ends at once with status Internal leaves no spinning reader (stdioerr=1 cells); the host's broker send loop is never left holding a reply (C20's reply-channel protocol as a C18 obligation); go-site 32 (the discard literal of blockedClientListener.Close, D19). Ninth round: brokered listeners accepted and closed at once, then Kill (flash=40 cells; GrpcMux.KnockLoopParams.usesAcceptSlot; knock_loop_ends_with_listener, second_lookup_witness; found and guard the repaired defect D21).",
    "level_note": "Partial: goroutine exit and the execution of reached Close calls are runtime behaviour (observed 3 s / 6 s after Kill, not proved). "
                  "Library behaviour enters as named assumptions (grpc-go closes a stopped server's listeners; tls listener embedding; process death closes pipes and connections). "
                  "Reattach and CleanupClients sites are in the site table but outside the histories; Windows TCP listeners not modelled.",
}
