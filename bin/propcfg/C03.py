def _sig(case, impl, pred):
    p = pred[5:] if pred.startswith("FAIL:") else pred
    return p.split(":")[0]

CONFIG = {
    "modules": ["GoPlugin.Props.C03", "GoPlugin.Instance.C03"],
    "scenario": "C03",
    "signature": _sig,
    "trivial": lambda impl: False,
    "rule": "fault enumeration with real plugin processes: crash point {before any output, mid handshake line, after the listener before the line, right after the line, idle after connect, exit inside a unary call, SIGKILL inside a call, during Dispense, during the plugin's brokered Accept, during the plugin's brokered Dial, during a 2 MB stdio burst} x protocol {netrpc, grpc, grpc+mux} (crash points placed with the verifhook points / the kit plugin's commands); per cell every host call - Start, Client, Dispense, the in-flight call / callback, then Double, a brokered callback, Ping, Kill - is run under a watchdog: result class, latency against a per-operation bound (6 s, 9 s for brokered negotiation), then Exited() within 4 s and, for gRPC, the context handed to the plugin client cancelled within 3 s; every cell is non-trivial (each is a distinct failure)",
    "assumptions": ["DeadPeerFails: an operation that needs a peer whose process has exited completes with an error within the transport's own bound (yamux session shutdown, gRPC connection failure, the brokers' 5 s windows): library behaviour, exercised by the enumeration, not proved",
                    "when the process has exited its stdout/stderr pipes reach EOF and runner.Wait returns: OS behaviour (a grandchild holding the pipes would break it)",
                    "gRPC connects lazily: Client() and Dispense after a crash may succeed; only calls that actually need the peer are required to fail"],
    "timeout": {"quick": 900, "thorough": 3000},
    "level_text": "Lean theorems over a transition system of the host goroutines that Start / reattach launch (stderr reader, stdout scanner with its drain, the wait goroutine with pipesWaitGroup.Wait, runner.Wait, exited = true, ctxCancel): from EVERY reachable state in which the process is dead - whatever happened before: scanner errors, partial reads, any event order - running each enabled host-side step once ends with exited = true, doneCtx cancelled and the wait goroutine finished; none of these steps waits on anything but pipe EOF and the process's exit (exited_and_cancelled, proved by an invariant checked over the complete finite state space in the kernel); the stdout reader is never stuck (stdout_never_stuck); Start's select has both the timer arm and the exit arm (start_bounded). Witnesses: without defer c.ctxCancel() the context is never cancelled; without the drain a stopped scanner leaves stdout unread. Five facts re-extracted from client.go each run (both wait goroutines - Start's and reattach's - are checked); ~30 real-process cells per run (crash points x protocols) compare every call's result class with the model and bound its latency.",
    "level_note": "Partial, as the design states: that operations needing a dead peer fail in bounded time (DeadPeerFails) is the transports' behaviour and is assumed; the check enumerates crash points on real processes to exercise it. The goroutine model is finite and checked exhaustively in the kernel (decide +kernel, no axioms beyond propext).",
}
