def _sig(case, impl, pred):
    """Stable signature of a failing case: everything after FAIL:, e.g.
    inherited:PLUGIN_MULTIPLEX_GRPC (a conditional negotiation variable reached the child from the
    host's own environment), wrong:<VAR>, skip-host-env-leak, user-var-dropped:<KEY>, stdin-not-host-stdin."""
    return pred[len("FAIL:"):] if pred.startswith("FAIL:") else pred


def _trivial(impl):
    # trivial = the host environment carries none of go-plugin's variables and nothing was pre-set on cmd.Env
    return " inh=0 " in impl and " npre=0 " in impl


CONFIG = {
    "modules": ["GoPlugin.Props.C17", "GoPlugin.Props.Hygiene", "GoPlugin.Instance.C17"],
    "scenario": "C17",
    "signature": _sig,
    "trivial": _trivial,
    "rule": "Client.Start driven to the launch point for all 16 combinations of {GRPCBrokerMultiplex, AutoMTLS, socket group, SkipHostEnv} "
            "x 13 host environments (clean, empty, carrying each PLUGIN_* variable, all of them, the cookie with another value, "
            "mux=false, empty values) x launch mode (RunnerFunc capture | Cmd with 4 pre-set cmd.Env variants and a failing exec | "
            "a real child reporting os.LookupEnv and its stdin), cookie / version-set (incl. legacy Plugins fold) / port variants "
            "rotating with the case index, plus host environments with conditional variables NEXT TO EACH OTHER (every ordered pair at start/middle/end, "
            "every ordered triple, all 24 orders of the four, separated pairs as control, and the go-plugin entries real outer clients hand to their "
            "plugins, in their order = a host that is itself a plugin) x 4 configurations, plus seeded random host/pre-set subsets (every other one with "
            "go-plugin's variables gathered into one adjacent run); the host environment is the harness process's "
            "own os.Environ(), set per case; distinct = distinct case lines; non-trivial = host environment carries a go-plugin "
            "variable or cmd.Env was pre-set",
    "assumptions": ["the AutoMTLS certificate and the socket directory name are random: compared as tokens (CERT/DIR) with the model, "
                    "and checked directly by the predicate (PEM equals the client's own certificate; directory equals the one given to RunnerFunc)",
                    "map iteration order of VersionedPlugins is not compared: every well-formed version list observed is sorted before the "
                    "comparison with the model (versions as a set); the predicate checks the parsed list against the offered set",
                    "os/exec duplicate removal and the child's os.LookupEnv are modelled as 'last key=value entry wins' and validated "
                    "against real child processes in the child-mode cases of every run",
                    "host environments are built with os.Setenv, so they contain no duplicate keys and no entries without '=' "
                    "(the theorems cover those as well); the magic cookie key contains no '=' and is not a PLUGIN_* negotiation name"],
    "timeout": {"quick": 600, "thorough": 3000},
    "level_text": "Lean theorems over an executable model of the environment Client.Start builds (Model/Env.lean: append order, last-entry-wins lookup as os/exec and the child's os.Getenv see it): for ALL client configurations, ALL host environments and ALL pre-set cmd.Env, every negotiation variable the plugin acts on (cookie, min/max port, version list, mux flag, client certificate, socket group, socket dir) has exactly the value the configuration dictates \u2014 in particular it is unset when the configuration does not ask for it, whatever the host's own environment carries (controls_from_config, controls_unset_when_not_requested, controls_independent_of_host); with SkipHostEnv no host variable is passed; the rendered version list parses back to a permutation of the offered keys for any map order (versions_exact); stdin is the host's. The filter loop is modelled as written: no conditional variable of the host survives at any position, adjacency or multiplicity (no_conditional_survives, conditional_entries_from_config), which needs the extracted fact that the loop examines every entry (range over os.Environ() into a fresh slice); an in-place index loop that does not step back after a deletion lets the second of two adjacent conditional variables through (inplace_filter_witness) and is indistinguishable from the correct filter on environments without adjacent ones (deleteSkipping_eq_filter_of_no_adjacent). Witness theorems show the property fails when the inherited-variable filter is missing, partial, or over-broad, or the SkipHostEnv guard is missing. The filter set, the loop shape and the guard are re-extracted from client.go each run; ~2050 cases per run (16 config combinations x 13 host environments, ~650 host environments with adjacent conditional variables x RunnerFunc capture / Cmd with pre-set Env / a real child process reporting os.LookupEnv and its stdin) are compared with the model. Sixth round: Env model facts configuredLast (the caller's and the inherited entries come before the configured ones: caller_wins_witness) and stdinFromStart (stdin_not_from_start_witness); port ranges with only one bound configured, expected values computed from what the caller gave, not read back from the config struct. Eighth round: the host cannot produce its AutoMTLS certificate (entropy fault during Start): nothing is launched (C17.automtls-cert-fault); the command runner leaves the assembled environment alone (Hygiene.runnerLeavesEnv; child_env_is_assembled).",
    "level_note": "Full strength on the model. The append order (configured entries after the host's) is tied by the correspondence run only, not by an extracted fact. Host environments with duplicate keys or entries without '=' cannot be produced with os.Setenv and are covered by the theorems only. os/exec's environment de-duplication (last entry wins) is validated by the real-child cases.",
}
