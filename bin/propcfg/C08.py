def _sig(case, impl, pred):
    p = pred[5:] if pred.startswith("FAIL:") else pred
    return p.split(":")[0]

CONFIG = {
    "modules": ["GoPlugin.Props.C08", "GoPlugin.Instance.C08"],
    "scenario": "C08",
    "signature": _sig,
    "trivial": lambda impl: False,
    "rule": "real multiplexed GRPCClient/GRPCServer pairs (yamux over a unix socket): both roles (plugin accepts / host accepts) x accept-first / dial-first x "
            "verifhook delay 0, 5, 30 ms between the two statements of GRPCBroker.Accept, plus seeded sequential histories of 2-4 establishments with mixed orders; "
            "main-connection health checks before, between and after; earlier brokered connections re-pinged at the end; every accepted server answers with its own id",
    "assumptions": ["establishments are sequential (Params.sequential): a new knock handshake starts only after the previous stream reached its listener; "
                    "the overlap hazard on the host side is recorded as overlap_misroute_witness, outside the property's quantifier",
                    "every knock is acknowledged within its 5 s window (knock timeouts and gRPC reconnect back-off are not modelled)",
                    "yamux FIFO stream delivery; main-connection streams are opened only while no handshake is in progress"],
    "timeout": {"quick": 600, "thorough": 3000},
    "level_text": "Lean theorems over a transition system of the multiplexed broker's knock / AcceptKnock / ack / Dial handshake for both roles of the accepting side (GRPCServerMuxer with its main accept loop and knockCh; GRPCClientMuxer with blocked listeners), for all schedules of Accept's statements, the knock loop, the handshake messages, the accept loop and main-connection streams, any number of ids, accept-first and dial-first: every stream dialled for n is handed to listener n, never to the main listener or another id's (routed_to_its_listener), the main accept loop never returns a fatal error (main_survives), every completed handshake is acknowledged without error (first_call_ok), deliveries only grow (earlier connections untouched). Witness theorems reproduce the former defect D4 in both roles when the listener is registered after the knock loop starts. The statement order in GRPCBroker.Accept and the token-channel capacities are re-extracted each run; ~60 real multiplexed sessions per run, steered with the verifhook delay between the two statements, are compared with the model's scheduled run. Also: the hand-off of a knocked stream to its listener is a blocking send — with it, a stream that arrives while the listener is registered but not yet in Accept() simply waits (fact handoffBlocks, event xAcceptUnparked, witness nonblocking_handoff_witness: a fallback to the default listener serves the brokered stream from the main listener); late-serve scenario (Accept now, Serve 400 ms later). Fifth round: knocksExpire also requires that the dialler's wait for the ack in knock is one select with exactly the ack arm and the timer arm and that nothing else in knock receives from a channel. Sixth round: C08.reaccept — an ID accepted again after its first brokered server was shut down, both roles. Fact listenerReplaces (both muxers' Listener builds and registers a new listener on every call: reaccept_usable, get_or_create_witness); cell C08.id-zero (a caller-chosen ID of 0).",
    "level_note": "Full strength on the model under two stated assumptions: sequential establishment (as the API documents) and knocks acknowledged within their window. The in-progress handshake is one program counter (justified by the dialler's dialMutex and causal order of the messages). gRPC/yamux transport assumed.",
}
