def _sig(case, impl, pred):
    p = pred[5:] if pred.startswith("FAIL:") else pred
    return p.split(":")[0]

def _kv(s):
    return dict(x.split("=", 1) for x in s.split() if "=" in x)

def _member(impl, model):
    a, b = _kv(impl), _kv(model)
    for k in ("ret", "dead", "exited"):
        if a.get(k) != b.get(k):
            return False
    if b.get("forced") != "any" and a.get("forced") != b.get("forced"):
        return False
    try:
        return int(a.get("lat", "0")) <= int(b.get("bound", "0")) + 3000
    except ValueError:
        return False

CONFIG = {
    "modules": ["GoPlugin.Props.C04", "GoPlugin.Instance.C04"],
    "scenario": "C04",
    "signature": _sig,
    "member": _member,
    "trivial": lambda impl: False,
    "rule": "real plugin processes: protocol {netrpc, grpc, grpc+mux} x shutdown behaviour {exits at once, exits after 0.5 s, exits after 4.5 s, ignores the request, frozen with SIGSTOP, "
            "already dead, never completed its handshake, exits before its Quit reply is written (verifhook delay in the plugin)} x launch {Cmd, RunnerFunc around a real process, Reattach} x "
            "call pattern {single, three sequential, four concurrent, CleanupClients}; observed: Kill returned, latency against the model's bound (+3 s slack), forced flag, "
            "Exited(), /proc state (gone, not a zombie), the cleanup marker written by the plugin after Serve returns; the graceful net/rpc cell is repeated (reply/exit race); "
            "frozen net/rpc (bounded by yamux keep-alive, ~40 s) is thorough-only; every cell is non-trivial",
    "assumptions": ["SIGKILL terminates any process (also a stopped one) and cmd.Wait reaps it: OS behaviour",
                    "yamux detects a dead/frozen peer within keep-alive interval + write timeout (40 s); grpc-go honours context deadlines",
                    "with several concurrent Kills the later ones find the protocol client already closed and may force-kill at once: only 'returns, dead, exited' are compared there"],
    "timeout": {"quick": 900, "thorough": 3000},
    "level_text": "Lean theorems over a model of one Client.Kill call (Model/Kill.lean: the shutdown RPC of each protocol and what bounds it, the grace select, the force kill, the deferred wait) for BOTH protocols x EVERY shutdown behaviour (exits quickly, too slowly, ignores, frozen, already dead) x reply-lost or not x handshake completed or not x protocol client available or not: Kill returns within the RPC's own bound plus the 2 s grace period (kill_terminates), the process has exited and Exited() is true when it returns (kill_leaves_dead), a plugin that exits on its own shortly after the request is not force-killed and finishes its cleanup — even if its reply was lost (graceful_not_forced), one that does not is force-killed after the grace period (forced_after_grace); on the Lifecycle model a completed Kill leaves no runner and further Kills are no-ops (kill_idempotent). Witnesses: without a deadline on the gRPC shutdown RPC a frozen plugin makes Kill hang (former defect D3); if a lost Quit reply counts as a failed close an exiting net/rpc plugin is force-killed (former defect, the repository's own flaky tests). Five facts re-extracted each run; ~75 real-process cells per run compared with the model. Also: a Kill overlapping another returns only when the process is gone and Exited() is true (overlapping_kill_leaves_dead; fact: c.runner is cleared only after the deferred wait; witness); concurrent Kills are staggered and checked at every return; managed clients of every launch method under CleanupClients. Fifth round: a custom runner whose Start fails after it created the process is still ended by Kill / CleanupClients (fact runnerKeptBeforeStart; failed_runner_start_is_killed, runner_dropped_witness; cells beh=startfails), a busy gRPC plugin with one second of clean-up is not force-killed (fact grpcStopImmediate; busy_plugin_finishes_cleanup, drain_first_witness; cells beh=busy1000), commands carrying process attributes of their own (launch=cmdattr). CleanupClients: for ANY list of managed clients in any mix of states, every plugin has exited and is reported as exited when CleanupClients returns, within the slowest single Kill's bound (cleanup_clients_all_dead, by induction over the list; facts: NewClient registers managed clients at construction, the loop starts a Kill goroutine for every element, wg.Wait follows; cleanup_witnesses); cell C04.cleanup-mixed: eight managed clients in eight different states, one call. Sixth round: launch=reattach-far cells (the plugin was launched by another process). Eighth round: overlapping Kills keep the grace period (Kill.OverlapParams.serialised; overlapping_kill_keeps_grace, overlapping_kill_witness; cells beh=fast500 pattern=concurrent; found and guard the repaired defect D20); the not-forced and clean-up predicates apply to every call pattern.",
    "level_note": "Partial: process termination and reaping are OS behaviour; the bounds for a frozen peer are the libraries' (yamux keep-alive, gRPC deadline). The model is a finite decision table (proved by exhaustive case analysis in the kernel), tied to Kill's straight-line code by the extracted facts and the real-process cells.",
}
