def _sig(case, impl, pred):
    # FAIL:race:GRPCServer.broker:Stop/Stop -> race:GRPCServer.broker:Stop/Stop ; FAIL:panic -> panic
    return pred[5:] if pred.startswith("FAIL:") else pred

CONFIG = {
    "modules": ["GoPlugin.Props.C20", "GoPlugin.Instance.C20"],
    "scenario": "C20",
    "signature": _sig,
    "trivial": lambda impl: impl in ("ok", "distinct"),
    "rule": "one race-detector session per seed (quick: 1, thorough: 6): the harness is rebuilt with -race (plugin subprocesses are the same -race binary), "
            "n in 2..16 goroutines (seeded) hammer ONE Client with Start/Client/Protocol/NegotiatedVersion/ID/Exited/ReattachConfig/Ping/Dispense+Double/Callback "
            "and then 2-4 concurrent Kill calls racing with in-flight operations, over netrpc, grpc and grpc+mux; concurrent Accept/Dial/NextId with distinct ids in both "
            "directions on one MuxBroker pair (some unmatched, Close in flight) and on one in-process GRPCBroker pair with and without multiplexing (then concurrent "
            "GRPCClient.Close); 64 goroutines x 1000 NextId calls per broker type; verifhook delay points (host and plugin side) seeded from VERIF_SEED; "
            "C20.close rows (scenario C20close of the -race binary, a process of its own so that a panic in a library goroutine is that scenario's RESULT, "
            "FAIL:panic:<message>:<frame>, not the end of the run): on a fresh real in-process GRPCClient/GRPCServer pair per round, 6 goroutines per broker on BOTH brokers "
            "(host streamer gRPCBrokerClientImpl, plugin streamer gRPCBrokerServer) call Accept(NextId()) in a loop (every Accept advertises its listener through streamer.Send) "
            "and after a seeded 0.2-2.7 ms four goroutines Close both brokers, so that Close lands while Sends are in flight (the note reports how many were); quick: 120 rounds "
            "without multiplexing for the first seed; thorough: 500 rounds per seed plus 3 multiplexed rounds (Accept+Dial pairs: knock / knock-ack Sends) for the first; "
            "the model row is the reply-channel protocol run at the extracted facts; "
            "every data-race report whose access stacks contain go-plugin frames (outside test/ and examples/) is one !C20.race row with signature "
            "race:<Type>.<field>:<M1>/<M2>; evaluations = result rows; non-trivial = a row that is not a plain success",
    "assumptions": [
        "the theorems are about the extracted access table: accesses the extractor does not see (through interface values, in dependencies such as yamux, grpc-go, "
        "net/rpc, hclog, os/exec; through aliases of a struct held in locals of other types) are not covered",
        "mutex identity is Type.field: two values of one tracked type are treated as one object",
        "one level of call-context inference: an unexported function inherits the mutexes held at ALL of its call sites (call sites handing over a freshly built, "
        "still private object are constructor phase)",
        "publication rules (Instance/C20.lean `rules`) encode happens-before arguments that are read off the code, not proved in the model: fields written by Start "
        "under c.l before c.address is set and read afterwards; goroutine-start publication; sync.Once completion; channel close before receive",
        "doneCtx/ctxCancel are assigned once per client because Start launches at most once (launchAttempted, the D10 fix); the rules rely on that",
        "close sites outside sync.Once are justified by the API's one-Accept/one-Dial-per-id rule (`singleClosers`), i.e. by the 'distinct IDs' clause of the property",
        "NextId distinctness is stated for fewer than 2^32 calls (uint32 wrap-around is modelled; `wraparound_duplicates` shows the bound is needed)",
        "reply-channel protocol (Model/ReplyChan.lean): one stream goroutine per streamer (StartStream runs once per broker), stream.Send returns (its result is irrelevant), "
        "the stream's context ending is treated like quit closing (StartStream defers s.Close()); the facts are per streamer type and syntactic: the reply channel is the local "
        "make(chan) of Send that travels in the literal sent on s.send; any other use of it makes the fact false",
        "race-detector runs are model validation and failing-schedule search only: they see the schedules that happened",
    ],
    "timeout": {"quick": 900, "thorough": 3600},
    "level_text": "Lean theorems over a generic interleaving semantics of goroutines (Model/Sync.lean: plain/atomic accesses, mutexes, sync.Once, channel close), "
                  "proved once for ALL programs and ALL schedules: lockset_race_free (conflicting accesses made under a common mutex never race), once_closes_once "
                  "(a close that occurs only inside once.Do happens at most once, any number of callers), atomic_ids_distinct (add-and-fetch ids are pairwise distinct "
                  "below 2^32 calls, uint32 wrap-around modelled) with witnesses that each hypothesis is needed (unguarded pair races, close outside Once closes twice, "
                  "nextId++ returns duplicates and races, the bound is needed). Tie T-A: the access table (every read/write of a field of Client, MuxBroker, GRPCBroker, "
                  "GRPCServer, RPCServer, the gRPC muxers and their helper types, with the mutexes held, Once/atomic context and role) is re-extracted from the source on "
                  "every run and Instance/C20.lean re-checks by kernel evaluation over the WHOLE table that every conflicting pair is ordered by a common mutex, atomics, "
                  "the constructor phase or an explicit documented publication rule (table_ok_partial), that the core shared fields are purely lock-protected "
                  "(core_fields_lock_protected -> holds_lockset_race_free for any program made of the table's critical sections), that NextId is atomic and every close "
                  "site is Once-/nil-guarded or a documented single closer. Channels the table does not see - the per-call reply channel of the broker streamers' Send, "
                  "shared with the stream goroutine and closed by a deferred close - are covered by a protocol model (Model/ReplyChan.lean: any number of Sends, the stream goroutine, Close; "
                  "every interleaving): no_send_on_closed_channel, reply_always_deliverable, reply_channel_closed_once (every tree), with witnesses early_return_send_on_closed_channel "
                  "(Send giving up on quit while keeping defer close(ch)) and double_reply_send_on_closed_channel; facts sendWaitsForReply / sendClosesReply / workerRepliesOnce "
                  "extracted for both streamer types (facts_good_reply_channel). PARTIAL: table_ok_partial excludes two genuine races, reproduced by the race detector on "
                  "every run and listed as known findings (GRPCServer.broker in Stop/Stop; Client.negotiatedVersion in NegotiatedVersion/Start). Seventh round: a brokered listener closed while a dial for it is in flight (C20.close-mid, the D18 schedule in the -race child process): no library goroutine panics. Eighth round: the race workload emits multi-chunk bursts on both standard streams (the plugin side's stdio copier under the race detector). Ninth round: a multiplexing plugin dies right after its handshake line while four goroutines connect: errors, not a crash of the host (C20.mux-connect-fails).",
    "level_note": "Partial: the theorem is about the extracted table; accesses the extractor does not see (through interfaces, in dependencies) are not covered, and the "
                  "publication rules are happens-before arguments encoded as checked data, not derived in the model. Race-detector runs (real plugin subprocesses built "
                  "with -race, seeded delay points) are model validation and failing-schedule search only. Trusted: Lean kernel, extractor (lock-state walk, call-context "
                  "inference), harness and race-report parser, Go race detector.",
}
