def _sig(case, impl, pred):
    # FAIL:<role>-<path>-<class>-was-served | FAIL:<role>-<path>-legitimate-peer-refused | FAIL:setup-…
    if pred.startswith("FAIL:"):
        return pred.split(":", 1)[1]
    # correspondence disagreement: role/path/class of the cell (round and socket index dropped)
    fs = case.split(" ")
    kv = dict(f.split("=", 1) for f in fs[1:] if "=" in f)
    return f"{fs[0]}/{kv.get('path', '?')}/{kv.get('cls', '?')}"

def _trivial(impl):
    # non-trivial = a connection attempt that was turned away (the positive controls are the trivial ones)
    return impl.startswith("served") or impl.startswith("ok")

CONFIG = {
    "modules": ["GoPlugin.Props.C12", "GoPlugin.Props.Hygiene", "GoPlugin.Instance.C12"],
    "scenario": "C12",
    "signature": _sig,
    "trivial": _trivial,
    "rule": "exhaustive matrix, not sampled: every socket a real AutoMTLS host/plugin pair listens on "
            "(netrpc main; grpc main, plugin-side brokered server, host-side brokered server; grpc+mux main as first and as late connection) "
            "x credential classes {plaintext, TLS without certificate, fresh generateCert certificate, other names, clone of the pinned certificate on another key, "
            "own leaf + pinned certificate stapled, certificate from a CA in the system pool, real config capped at TLS 1.0} + the real configuration as positive control; "
            "plus a scripted impostor plugin per protocol x {serves certificate B, clone of A, B with A stapled, system-CA certificate, plaintext, announces nothing} "
            "with 'announces A and serves A' as control; thorough tier = 4 rounds of fresh process pairs/keys and 2 brokered servers per side; "
            "distinct = distinct case lines; non-trivial = the connection was refused",
    "assumptions": [
        "SYMBOLIC CRYPTO: crypto/tls and crypto/x509 decide as Model/TlsPolicy.lean says (ClientAuth table, chain verification through issuer-key links to a pool certificate, "
        "nil pool = system roots, possession of the leaf key proved in the handshake, MinVersion enforced); keys are atoms, signatures are not computed. "
        "Trusted, and exercised live by the intruder run",
        "HonestIssuer: the host's and the plugin's one-time keys sign nothing but their own self-signed certificate. generateCert sets IsCA: true, so this is an assumption about "
        "the two honest parties, not something the code enforces (Props.C12.honest_issuer_needed_witness: if the host key had signed a certificate for an intruder key it would be served)",
        "only_plugin_trusted is about the certificate that came back in handshake field 6; a plugin process that announces NO certificate leaves the host's RootCAs nil "
        "(system roots) — outside the model's world, covered by the live 'noannounce' rows (an impostor with an unrelated certificate is refused)",
        "with GRPCBrokerMultiplex the main socket carries a plaintext yamux session and the plugin accepts exactly one connection on it; authentication happens per gRPC "
        "connection on each yamux stream (modelled: grpcMuxMain / muxBroker* paths use the same creds facts). An intruder that wins the race for that one connection "
        "can deny service but is not served (live: when=first cells); brokered mux connections have no socket of their own and cannot be attacked from outside",
        "net/rpc brokered streams (MuxBroker) are yamux streams inside the authenticated main connection and have no listener of their own",
        "extractor accepts as 'guarded only by cfg != nil' exactly that condition; any other guard around a TLS wrap makes the fact false (reported, possibly a false alarm)",
        "peer address/filesystem permissions of the unix sockets are not part of the property (the intruder is assumed able to connect)",
    ],
    "timeout": {"quick": 600, "thorough": 1800},
    "level_text": "Lean theorems over a symbolic model of the AutoMTLS trust policy (Model/TlsPolicy.lean): for every peer (plaintext or TLS, any version, any certificate chain, "
                  "any set of keys), every system root pool and every connection path (net/rpc main, gRPC main, gRPC main over yamux, brokered servers on either side with and without "
                  "multiplexing), a peer served by the plugin holds the host's key and presented the host's certificate (only_host_served, plugin_talks_only_to_host), a peer the host "
                  "talks to or serves holds the key of the certificate announced in the handshake (only_plugin_trusted, impostor_refused), both ends of every path carry the configuration "
                  "(every_path_wrapped), each intruder class of the property is refused (plaintext_/no_cert_/self_signed_/same_names_other_key_/stapled_/ca_issued_refused), and the "
                  "legitimate pair does connect (legit_pair_connects); 22 witness theorems show each extracted fact is necessary. The facts (both tls.Config literals incl. later field "
                  "assignments and pool data flow; nine wrap/creds call sites) are re-extracted from the source on every run and re-proved good (Instance/C12.lean). Live: ~80 cells per run "
                  "(320+ thorough) of real intruder connections against real AutoMTLS process pairs and scripted impostor plugins, compared cell by cell with the model. Eighth round: no TLS session resumption, so the pinned certificate is consulted on every connection (Hygiene.noSessionResumption; pin_consulted_on_every_connection, resumed_session_witness); the command runner leaves the assembled environment alone, so go-plugin's own PLUGIN_CLIENT_CERT, appended last, is the effective one (runnerLeavesEnv; own_value_effective, keep_first_witness).",
    "level_note": "Symbolic: crypto/tls and crypto/x509 conformance to the model's decision table is trusted (and exercised by the live intruders), keys are atoms. "
                  "The theorems assume the two honest parties sign nothing but their own certificate (IsCA is true in mtls.go). "
                  "A plugin announcing no certificate at all is outside the model (host falls back to system roots); covered only by live rows.",
}
