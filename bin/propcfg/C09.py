def _sig(case, impl, pred):
    p = pred[5:] if pred.startswith("FAIL:") else pred
    return p.split(":")[0]

CONFIG = {
    "modules": ["GoPlugin.Props.C09", "GoPlugin.Props.Hygiene", "GoPlugin.Instance.C09", "GoPlugin.Props.C07", "GoPlugin.Instance.C07"],
    "scenario": "C09",
    "signature": _sig,
    "trivial": lambda impl: impl.startswith("res=") and set(impl[4:].split(",")) <= {"ok"},
    "rule": "timed histories on real MuxBroker pairs (real yamux over a TCP socket, real 5 s timers): fixed witness histories "
            "(two dials to one id, duplicate dial, both directions), seeded compositions of unmatched/duplicate/late motifs on distinct ids in both "
            "directions each followed by a fresh matched pair per direction, and two hook-steered histories (accept at the expiry instant, "
            "redial into an already-accepted slot); one case line per direction; non-trivial = some operation did not plainly succeed",
    "assumptions": ["yamux: per-direction FIFO accept queue, stream isolation, Close() makes the peer's pending read fail",
                    "fairness: enabled goroutine steps are eventually taken and time advances (DESIGN.md §3)",
                    "gRPC broker liveness (GRPCBroker.timeoutWait/knock) is covered under C07/C08; this check is the net/rpc MuxBroker"],
    "timeout": {"quick": 600, "thorough": 3000},
    "level_text": "Lean theorems over the MuxBroker transition system for ALL finite histories (unmatched dials, repeated dials to one id, accept timeouts, accepts at the expiry instant, any interleaving and timer order): the mutex is never held across a blocking operation (no_lock_wedge), no stream is ever leaked \u2014 each is in transit, delivered, closed, or parked with a live timeoutWait that will close it (no_stream_leaks), every waiting goroutine's next step is enabled once its timer is due (progress); witness theorems show each of the three structural facts is necessary (the former defects D5, D5b, D5c). Facts re-extracted each run; real brokers with real 5 s timers run the witness histories, seeded compositions and two hook-steered schedules, each followed by a fresh matched pair and a goroutine dump after Close. Also: Run survives streams that are closed before their id header (run_never_dies; fact headerErrorContinues; witness), and every waiting Accept / parked stream is due at most 5000 ms from now, its step enabled once due (due_within_window, holds_due_within_five_seconds). Fifth round: a dial abandoned after 0.6 s followed by a late accept while the knock is still parked (C09.mux kind=dial-abandoned-then-late-accept; knocksExpire now includes the dialler's full-window wait); a blocking dial (caller's grpc.WithBlock) of an ID whose listener was closed mid-negotiation returns (fact dialFailsFast; gone_peer_dial_returns, no_fail_fast_witness; cell C09.gone-peer). Sixth round: the streamers' send channel is unbuffered (GrpcBroker.StreamerParams; send_after_stream_end_returns, buffered_send_witness), C09.after-peer-gone (twelve Accepts after the peer's broker stream ended), the net/rpc timer-arm fact as an obligation. Seventh round: a listener closed between its knock's acknowledgement and the stream's arrival does not wedge the plugin's accept loop (GrpcMux.HandoffParams.releasedOnClose; closed_listener_releases_loop, plain_send_wedges_witness; kind=acceptor-closes-mid found and guards the repaired defect D18).",
    "level_note": "net/rpc MuxBroker only in this check (gRPC broker liveness under C07/C08). Bounded-response is stated as enabledness (progress) + the fairness assumption that enabled steps are eventually taken and time advances. yamux behaviour (Close unblocks the peer's read, session close ends AcceptStream) assumed.",
}
