def _sig(case, impl, pred):
    return pred.split(":")[1] if pred.startswith("FAIL:") else pred

CONFIG = {
    "modules": ["GoPlugin.Props.C16", "GoPlugin.Instance.C16"],
    "scenario": "C16",
    "signature": _sig,
    "rule": "real plugin subprocesses started with exec (not plugin.Client): 22 cookie-environment classes (correct, unset, different, "
            "prefix, suffix, extended, case-changed, trailing white space, empty, wrong variable name, plugin configured with empty key / "
            "value / both) x protocol x PLUGIN_CLIENT_CERT x PLUGIN_MULTIPLEX_GRPC (unset/true/false/1/x/empty) x version-negotiation "
            "variants x static TLS x socket-dir source; thorough adds the full cross product and seeded random combinations; "
            "distinct = distinct case lines (the observed address and certificate are part of the line); "
            "non-trivial = the launch was refused or hung",
    "trivial": lambda impl: impl.startswith("served"),
    "assumptions": [
        "'|' does not occur in the listener address (a socket directory whose path contains '|' is outside the property's quantifier)",
        "the certificate field is raw standard base64 (base64.RawStdEncoding); the run checks the alphabet of every observed certificate",
        "os.Getenv, protocolVersion(opts) (negotiation, property C02), the listener address and the generated certificate enter the model as inputs; "
        "the harness computes the expected negotiated version independently and takes address and certificate from the observed line",
        "listener-before-line is observed as: a connect issued the moment the line is read succeeds (kernel accept backlog); "
        "nothing-else-on-stdout is observed over 300 ms after the line",
        "writes to the real stdout by code called from Serve before the stdout swap (other than Serve's own statements) are covered by the run only",
    ],
    "timeout": {"quick": 300, "thorough": 900},
    "level_text": "Lean theorems over an executable model of Serve's cookie gate, event order and handshake-line printer (Model/Serve.lean): the gate proceeds iff key and value are non-empty and the environment holds exactly the value (gate_iff; unset / different / prefix / suffix / case-changed all exit 1), a refused launch's trace is exactly [exit 1] (no listener, no line), a served launch listens and initialises before its single stdout write, the line has exactly 6 fields, 7 iff the mux variable is non-empty (line_field_count), and the printed line is accepted by the C01 client model with exactly the printed values (print_parse_roundtrip, using atoi\u2218itoa and trimSpace lemmas) \u2014 for all cookies, environments, versions, addresses without '|', certificates. Statement order, format string, operands and the seventh-field guard are re-extracted from server.go on every run and re-proved; ~94 real plugin launches per run compare exit status, raw first line, further stdout output, socket-dir listing and an immediate dial of the announced address with the model. Eighth round: a binary built on ServeMux started by hand, every kind of command line x cookie: no output, exit status 1 (C16.servemux). Ninth round: a socket path just inside the length limit of a Unix socket address is announced as the address that accepts (C16.deep-socket-dir); the refusal when even the warning cannot be written (stderr on /dev/full) is still exit status 1 (C16.refusal-stderr-full).",
    "level_note": "Full strength on the model. Assumes '|' does not occur in the socket path (stated as hypothesis). The scanner-level composition (first token of real stdout) is covered by C01's Scanner model, not restated here. Listener-before-line is observed by dialling the announced address the moment the line is read.",
}
