def _sig(case, impl, pred):
    p = pred[5:] if pred.startswith("FAIL:") else pred
    return p.split(":")[0]

CONFIG = {
    "modules": ["GoPlugin.Props.C15", "GoPlugin.Instance.C15"],
    "scenario": "C15",
    "signature": _sig,
    "rule": "real daemonised kit plugins over net/rpc and gRPC: all sequences over {Start, Client(+dispense and read of the instance's state cell), Kill} up to length 3 on a client built from the running plugin's ReattachConfig (live target) and up to length 2 on a dead target; plus all sequences up to length 2 against a plugin served in test mode inside the harness process (Kill must leave it serving: a fresh reattach still reads the state cell; it stops only when its context is cancelled); distinct case lines, all non-trivial",
    "assumptions": ["pid polling (once a second) and the address probe of the default ReattachFunc are OS behaviour", "the reattaching client is configured with Plugins (a reattach client does not negotiate a version)"],
    "timeout": {"quick": 900, "thorough": 3000},
    "level_text": "Lean theorems over the Lifecycle model with the reattach launch method, for every history of operations and every time at which the target may die: reattaching to a live plugin yields that same instance (its address), launches nothing and (outside test mode) records it as the process to kill (reattach_same_instance); Kill through the reattached client terminates it (kill_via_reattached_kills_instance); reattaching when nothing listens fails and changes nothing (reattach_dead_not_found); in test mode the client never holds a handle on the server in ANY reachable state, so no client operation \u2014 Kill included \u2014 changes the server's liveness (test_mode_never_records_runner, test_mode_kill_is_noop_on_server); witness: if test mode recorded the runner, Kill would kill the server. Facts re-extracted each run; ~126 histories per run on real daemonised plugins (identity checked through the instance's state cell, protocol and address compared with the reattach config, process death / survival observed) and on a test-mode server inside the harness are compared with the model.",
    "level_note": "Partial: pid polling, signal delivery and the address probe are OS behaviour; 'same instance' is observed through a state cell set via the launching client.",
}
