def _sig(case, impl, pred):
    p = pred[5:] if pred.startswith("FAIL:") else pred
    return p.split(":")[0]

CONFIG = {
    "modules": ["GoPlugin.Props.C07", "GoPlugin.Props.IdAlloc", "GoPlugin.Props.Hygiene", "GoPlugin.Instance.C07"],
    "scenario": "C07",
    "signature": _sig,
    "trivial": lambda impl: False,
    "rule": "timed histories on real in-process GRPCClient/GRPCServer pairs (real unix socket, real gRPC, no multiplexing): 1-5 concurrent motifs on distinct ids, "
            "random direction (plugin accepts/host dials and the reverse) and offset: accept-first / dial-first with gaps 50 ms, 1 s, 3.5 s, unmatched dial, dial or accept "
            "6.5 s late, crossed ids, three ids at once; every accepted server answers Ping with its own id, every dial pings and compares; one case line per direction; "
            "every history counts as non-trivial (each checks at least one dial's routing)",
    "assumptions": ["grpc-go: a call on a connection dialled to a listener's address is answered by the server serving that listener; the broker's bidirectional stream is reliable and FIFO",
                    "address translators of a custom runner are mutually inverse on live listeners (identity for the built-in runner); not modelled",
                    "window_success is proved for accept/dial issued from a state with Run idle and nothing on the wire, the five events consecutive"],
    "timeout": {"quick": 600, "thorough": 3000},
    "level_text": "Lean theorems over the non-multiplexed GRPCBroker transition system (Model/GrpcBroker.lean) for every finite history, any number of ids, every interleaving of Run, the expiry goroutines and the diallers: Dial(n) only ever dials the address of a listener created by an Accept(n) (dial_reaches_accepted_listener), conn-info parked for n sits in n's slot and names a listener accepted for n, accept-then-dial and dial-then-accept both connect to exactly the new listener (window_success), an unmatched dial's timer arm is enabled at its deadline; witness theorems show that filing conn-info under the wrong map or ignoring the received address breaks the property. Facts (which map Run files under, where Dial takes its address from, channel capacity, the 5 s windows) are re-extracted from grpc_broker.go each run; ~30 timed histories per run on real gRPC pairs in both directions are compared dial by dial with the model's timed run, routing checked by the answering server's id. Also: Run never blocks on a full slot and getClientStream is one critical section (run_never_blocked; witnesses), concurrent dials never share their per-id dialer (dial_reaches_own_id; fact: dialGRPCConn never writes into the caller's option slice; every dial of a run passes one shared slice), and every waiting Dial is due at most dialWindow = 5000 ms from now with its timeout step enabled once due (dial_due_within_window). Fifth round: ids_distinct for GRPCBroker.NextId (Model/IdAlloc.lean, cell C07.ids); the two directions' ID spaces are independent (fact acceptLeavesDialState; accept_leaves_dial_state, accept_clears_witness; histories with the same number in flight in both directions, case lines carry the other direction as peer=). Sixth round: C07.early-accept — a real gRPC plugin accepts IDs while its server is being initialised, the host attaches 2 s later and dials each ID. Eighth round: the host's brokered listeners live in the directory the client created for a custom runner (Hygiene.brokerSharesSocketDir; host_broker_uses_client_dir), one slot per id (slotLookupAtomic).",
    "level_note": "Full strength on the model for routing (all histories). window_success from a quiescent state only (frame lemma over other ids' events not formalised; exercised by the correspondence run). One direction per model instance; the two directions use separate message streams and maps. gRPC transport and address translation assumed. TLS is C12.",
}
