def _sig(case, impl, pred):
    p = pred[5:] if pred.startswith("FAIL:") else pred
    return p.split(":")[0]

CONFIG = {
    "modules": ["GoPlugin.Props.C06", "GoPlugin.Instance.C06"],
    "scenario": "C06",
    "signature": _sig,
    "trivial": lambda impl: False,
    "rule": "timed histories on real MuxBroker pairs: 1-8 concurrent motifs on distinct ids, random direction and offset (accept-first / dial-first with "
            "gaps 0, 50 ms, 1 s, 3.5 s; crossed ids; duplicate dial then accept; redial after accept); every dialler writes (id, nonce), every acceptor "
            "checks the id and echoes nonce+1; distinct = distinct case lines (every history counts as non-trivial: it has at least one matched pair whose pairing is checked)",
    "assumptions": ["yamux delivers bytes written on a stream completely and in order to that stream's peer only",
                    "window_success is proved for accept/dial issued from a quiescent broker state (Run idle, queue empty) with the five events consecutive; "
                    "interleaving with other ids' events is exercised by the correspondence run, not proved (frame lemma not yet formalised)"],
    "timeout": {"quick": 600, "thorough": 3000},
}
