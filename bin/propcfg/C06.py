def _sig(case, impl, pred):
    p = pred[5:] if pred.startswith("FAIL:") else pred
    return p.split(":")[0]

CONFIG = {
    "modules": ["GoPlugin.Props.C06", "GoPlugin.Props.IdAlloc", "GoPlugin.Props.Hygiene", "GoPlugin.Instance.C06"],
    "scenario": "C06",
    "signature": _sig,
    "trivial": lambda impl: False,
    "rule": "timed histories on real MuxBroker pairs: 1-8 concurrent motifs on distinct ids, random direction and offset (accept-first / dial-first with "
            "gaps 0, 50 ms, 1 s, 3.5 s; crossed ids; duplicate dial then accept; redial after accept); every dialler writes (id, nonce), every acceptor "
            "checks the id and echoes nonce+1; distinct = distinct case lines (every history counts as non-trivial: it has at least one matched pair whose pairing is checked)",
    "assumptions": ["yamux delivers bytes written on a stream completely and in order to that stream's peer only",
                    "window_success is proved for accept/dial issued from a quiescent broker state (Run idle, queue empty) with the five events consecutive; "
                    "interleaving with other ids' events is exercised by the correspondence run, not proved (frame lemma not yet formalised)"],
    "timeout": {"quick": 600, "thorough": 3000},
    "level_text": "Lean theorems over the MuxBroker transition system (Model/MuxBroker.lean) for every finite history and interleaving: Accept(n) only returns a stream whose header is n (accept_returns_matching), no stream is returned twice (stream_unique), parked streams sit in their own id's slot, and accept-then-dial / dial-then-accept from any reachable quiescent state both succeed on the new stream (window_success, dispense_reaches_its_server). Facts (select shapes, channel capacity, 5 s windows) re-extracted and re-proved each run; real broker pairs over real yamux/TCP run ~70 timed histories per run and are compared op by op with the model's timed run; pairing checked by nonce echo. Also (Model/MuxFrame.lean): for every header, application bytes and split of the peer's output into already-arrived and later bytes the application reads exactly the peer's bytes (app_bytes_complete; facts: header/ack read directly on the stream that is handed on, no deadline left on it; witnesses); the exchange on every connection lets, by id, the dialler or the acceptor speak first, sends 300 KiB both ways and a 1 MiB write 5.3 s after Accept. Fifth round: Model/IdAlloc.lean — NextId is one atomic read-modify-write (fact), hence no two reservations ever collide, for every number of callers and every interleaving (Props/IdAlloc.ids_distinct, an invariant over the event list; two_op_witness); cells C06.ids (64 goroutines x 2000 reservations) and C06.dispense (16 x 12 concurrent net/rpc Dispense calls, each reaching a server object of its own). Sixth round: MuxBroker.AcceptParams — the timer arm of Accept is straight-line (the timed-out accept leaves the mutex free) and the slot map belongs to the accepts (Dial never deletes from it): accept_bookkeeping + witnesses; fixed histories accept-timeout-then-pairs and same-number-* (the same number in both directions).",
    "level_note": "Invariants are full strength (all histories, any number of ids, both directions as independent instances). window_success is proved from any reachable state with Run idle and the accept queue empty, the five events consecutive: interleaving with other ids' events is exercised by the correspondence run but the frame lemma is not formalised. yamux FIFO/isolation/byte delivery assumed.",
}
