import re


def _sig(case, impl, pred):
    return pred.split(":")[1] if pred.startswith("FAIL:") else pred


def _member(impl, model):
    """The model prints proto=either when the chosen set mixes gRPC and net/rpc plugins (the code reads the
    protocol off "the first" plugin of the set, i.e. Go's map iteration order decides)."""
    if impl == model:
        return True
    if "either" not in model:
        return False
    pat = re.escape(model).replace("either", "(grpc|netrpc)")
    return re.fullmatch(pat, impl) is not None


CONFIG = {
    "modules": ["GoPlugin.Props.C02", "GoPlugin.Instance.C02"],
    "scenario": "C02",
    "signature": _sig,
    "member": _member,
    "trivial": lambda impl: False,
    "rule": "C02.a: ALL 64x64 pairs of subsets of {0..5} as host/plugin VersionedPlugins x (3x3 legacy-field variants "
            "[none / Plugins+ProtocolVersion colliding with a versioned key / under a fresh key] + 4 corrupted "
            "PLUGIN_PROTOCOL_VERSIONS values + 2 GRPCServer/kinds variants) = 61440 in-process cases through the real "
            "protocolVersion and the real Client.Start/checkProtoVersion; C02.e: real plugin subprocesses (raw launch reading "
            "the handshake line + full Client with Cmd), quick 40 / thorough 600, each quarter forced to two-or-more-common, "
            "disjoint, exactly-one-common, random; distinct = distinct case lines; every case counts as non-trivial",
    "assumptions": [
        "Go ints are 64-bit (theorems about rendering/parsing carry the explicit hypothesis InRange on map keys)",
        "a Go map is modelled as a key-unique association list in arbitrary order; theorems quantify over all orders",
        "the wire protocol of a plugin set that mixes gRPC and net/rpc plugins depends on map iteration order "
        "(theorem inhomogeneous_set_order_matters); the API documents that a set must be homogeneous; the correspondence accepts either",
        "the error class 'incompatible' is recognised by the prefix of the error text (go-plugin exports no sentinel for it)",
        "killing of the plugin after a failed Start is Props.C01.start_err_kills (model) and observed here via the runner's Kill count / process death within 2 s",
    ],
    "timeout": {"quick": 900, "thorough": 3000},
}
