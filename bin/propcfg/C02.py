import re


def _sig(case, impl, pred):
    return pred.split(":")[1] if pred.startswith("FAIL:") else pred


def _member(impl, model):
    """The model prints proto=either when the chosen set mixes gRPC and net/rpc plugins (the code reads the
    protocol off "the first" plugin of the set, i.e. Go's map iteration order decides)."""
    if impl == model:
        return True
    if "either" not in model:
        return False
    pat = re.escape(model).replace("either", "(grpc|netrpc)")
    return re.fullmatch(pat, impl) is not None


CONFIG = {
    "modules": ["GoPlugin.Props.C02", "GoPlugin.Instance.C02"],
    "scenario": "C02",
    "signature": _sig,
    "member": _member,
    "trivial": lambda impl: False,
    "rule": "C02.a: ALL 64x64 pairs of subsets of {0..5} as host/plugin VersionedPlugins x (3x3 legacy-field variants "
            "[none / Plugins+ProtocolVersion colliding with a versioned key / under a fresh key] + 4 corrupted "
            "PLUGIN_PROTOCOL_VERSIONS values + 2 GRPCServer/kinds variants) = 61440 in-process cases through the real "
            "protocolVersion and the real Client.Start/checkProtoVersion; C02.e: real plugin subprocesses (raw launch reading "
            "the handshake line + full Client with Cmd), quick 40 / thorough 600, each quarter forced to two-or-more-common, "
            "disjoint, exactly-one-common, random; distinct = distinct case lines; every case counts as non-trivial",
    "assumptions": [
        "Go ints are 64-bit (theorems about rendering/parsing carry the explicit hypothesis InRange on map keys)",
        "a Go map is modelled as a key-unique association list in arbitrary order; theorems quantify over all orders",
        "the wire protocol of a plugin set that mixes gRPC and net/rpc plugins depends on map iteration order "
        "(theorem inhomogeneous_set_order_matters); the API documents that a set must be homogeneous; the correspondence accepts either",
        "the error class 'incompatible' is recognised by the prefix of the error text (go-plugin exports no sentinel for it)",
        "killing of the plugin after a failed Start is Props.C01.start_err_kills (model) and observed here via the runner's Kill count / process death within 2 s",
    ],
    "timeout": {"quick": 900, "thorough": 3000},
    "level_text": "Lean theorems over an executable model of both sides of the version negotiation (Model/Negotiate.lean: the host's and the plugin's different legacy folds, the rendering of PLUGIN_PROTOCOL_VERSIONS, its parsing with invalid entries skipped, the plugin's descending double loop with its lowest-version fallback, the client's check) where a Go map is a key-unique association list in ARBITRARY order: for every pair of finite version maps, every iteration order, every environment string: if the sets intersect the plugin announces the maximum common version, the client accepts exactly that version and each side uses its own set registered under it (pick_highest_common, client_accepts_pick); whenever the client accepts, both sides are on the same version (never_different_versions, unconditional); disjoint sets give the incompatible-version error with the plugin announcing its lowest version (disjoint_fails); no / empty / all-invalid list gives the lowest (no_list_lowest); partly invalid lists behave as their valid sub-list; render/parse round-trips; the outcome is independent of iteration order (order_irrelevant, with homogeneity needed only for the wire protocol). Witness theorems for each structural fact (descending sort, fallback = last visited, client equality check). Facts re-extracted from server.go / client.go each run; ~61 000 in-process cases per run (all 64x64 subset pairs of {0..5} x legacy variants x corrupted lists x GRPCServer/kinds variants through the real protocolVersion and checkProtoVersion) plus 40 end-to-end launches with identity-tagged plugin sets are compared with the model. Sixth round: every end-to-end launch carries a stale PLUGIN_PROTOCOL_VERSIONS on the caller's command — what the plugin is told is still what this client offers. Eighth round: hosts that allow one wire protocol only when the version sets do not intersect (the error is the incompatible-version one whatever protocol the plugin's lowest set uses).",
    "level_note": "Full strength on the model. The incompatible-version error has no exported sentinel: it is recognised by the prefix of its text. For a plugin set mixing gRPC and net/rpc plugins the announced protocol depends on map iteration order (API requires homogeneous sets; theorem inhomogeneous_set_order_matters); the correspondence accepts either there.",
}
