def _sig(case, impl, pred):
    return pred.split(":")[1] if pred.startswith("FAIL:") else pred

CONFIG = {
    "modules": ["GoPlugin.Props.C13", "GoPlugin.Instance.C13"],
    "scenario": "C13",
    "signature": _sig,
    "rule": "SecureConfig.Check on temp files {empty, 1 byte, 64 KiB random, missing, directory} x hashes {sha256, sha512, sha1, md5, 4-byte toy} x checksums "
            "{exact, every single-bit flip, every proper prefix, 1-3 trailing bytes, empty/nil, nil Hash, suffix, zeros, hex text, reversed, doubled, "
            "digest under another hash, digest of another file, seeded random edits} (exhaustive for flips and prefixes of each digest), "
            "plus real launches through NewClient(...).Start() with Cmd / RunnerFunc / Reattach observing exec.Cmd.Process, a launch marker written by the "
            "plugin process and RunnerFunc/ReattachFunc call counts; distinct = distinct case lines; non-trivial = anything but a plain `ok match=1` / `ok launched=1`",
    "trivial": lambda impl: impl in ("ok match=1", "ok launched=1"),
    "assumptions": ["the hash function, os.Open/read of the command path and os/exec enter the model as arbitrary functions / outcomes; "
                    "the harness records the real digest (computed with the real hash on the real file), the open/read class and whether exec works for each case",
                    "every Check call gets a fresh hash.Hash: Check writes into SecureConfig.Hash without Reset, so a reused SecureConfig hashes the concatenation of all files read so far "
                    "(model: SecureCfg.written; theorems assume written = []; C13.reuse cases validate the model on the other side of the assumption)",
                    "the file opened by Check (cmd.Path resolved against the host's working directory) and the file executed by os/exec (cmd.Path resolved against cmd.Dir) are the same file, "
                    "and it is not replaced between the check and the exec (the SecureConfig doc comment leaves that to the host)",
                    "a hash.Hash whose Write never fails and whose Sum(nil) is a function of the bytes written (true of crypto hashes and of the toy hash)"],
    "timeout": {"quick": 300, "thorough": 1500},
}
