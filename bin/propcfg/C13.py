def _sig(case, impl, pred):
    return pred.split(":")[1] if pred.startswith("FAIL:") else pred

CONFIG = {
    "modules": ["GoPlugin.Props.C13", "GoPlugin.Instance.C13"],
    "scenario": "C13",
    "signature": _sig,
    "rule": "SecureConfig.Check on temp files {empty, 1 byte, 64 KiB random, missing, directory} x hashes {sha256, sha512, sha1, md5, 4-byte toy} x checksums "
            "{exact, every single-bit flip, every proper prefix, 1-3 trailing bytes, empty/nil, nil Hash, suffix, zeros, hex text, reversed, doubled, "
            "digest under another hash, digest of another file, seeded random edits} (exhaustive for flips and prefixes of each digest), "
            "plus real launches through NewClient(...).Start() with Cmd / RunnerFunc / Reattach observing exec.Cmd.Process, a launch marker written by the "
            "plugin process and RunnerFunc/ReattachFunc call counts; distinct = distinct case lines; non-trivial = anything but a plain `ok match=1` / `ok launched=1`",
    "trivial": lambda impl: impl in ("ok match=1", "ok launched=1"),
    "assumptions": ["the hash function, os.Open/read of the command path and os/exec enter the model as arbitrary functions / outcomes; "
                    "the harness records the real digest (computed with the real hash on the real file), the open/read class and whether exec works for each case",
                    "every Check call gets a fresh hash.Hash: Check writes into SecureConfig.Hash without Reset, so a reused SecureConfig hashes the concatenation of all files read so far "
                    "(model: SecureCfg.written; theorems assume written = []; C13.reuse cases validate the model on the other side of the assumption)",
                    "the file opened by Check (cmd.Path resolved against the host's working directory) and the file executed by os/exec (cmd.Path resolved against cmd.Dir) are the same file, "
                    "and it is not replaced between the check and the exec (the SecureConfig doc comment leaves that to the host)",
                    "a hash.Hash whose Write never fails and whose Sum(nil) is a function of the bytes written (true of crypto hashes and of the toy hash)"],
    "timeout": {"quick": 300, "thorough": 1500},
    "level_text": "Lean theorems over an executable model of SecureConfig.Check and of the check/launch order in Client.Start (Model/Secure.lean, Go/Subtle.lean): Go's constant-time compare returns 1 iff the byte strings are equal (ctc_eq_one_iff), the binary is launched iff checksum non-empty, hash present, file readable and h(file) = checksum (launch_iff_match / launch_only_if_match), the three error cases give their exact sentinel and no launch, the check precedes the launch in every trace \u2014 for ALL files, checksums, hash functions and configurations; one witness theorem per structural fact. Five facts (reattach guard, check before runner creation, both failure arms return, the checked path is the path os/exec runs) re-extracted from client.go each run; ~4300 real Check calls (every bit flip, every proper prefix, extensions, five hash functions incl. a toy hash) and ~80 real launches per run compared with the model; the executed file is re-hashed after a successful launch. Fifth round: Check hashes the whole file (Secure.CheckParams.wholeFile; whole_file_hashed, read_limit_witness) and two sparse 64 MiB files that differ only in their last 64 bytes. Sixth round: Dir a symbolic link with '..' in Path (rel=2 cells; found and guard the repaired defect D15; checksCmdPath rejects filepath.Join), a refusal is final (Start / Client again on a refused client launch nothing; CheckParams.everyStart, every_attempt_verifies, checked_once_witness). Seventh round: the digest written out as hexadecimal text is a different checksum (hex / HEX cells on the Start path), nothing in the package writes to a SecureConfig's Checksum (CheckParams.checksumAsGiven; given_checksum_compared, normalised_checksum_witness). Eighth round: the error arm is the first decision about Check's result (no 'this kind of error: carry on' in front of it).",
    "level_note": "Full strength on the model. Assumes a fresh hash.Hash per Check call (Check does not Reset; modelled as hasher state, reuse_witness shows the effect) and that the file is not modified between check and exec. Trusted: hash implementations, os.Open/io.Copy, os/exec path resolution (relative Path is evaluated relative to Dir).",
}
