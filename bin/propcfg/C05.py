def _sig(case, impl, pred):
    p = pred[5:] if pred.startswith("FAIL:") else pred
    return p.split(":")[0]

CONFIG = {
    "modules": ["GoPlugin.Props.C05", "GoPlugin.Instance.C05"],
    "scenario": "C05",
    "signature": _sig,
    "rule": "(a) every failing case of the C01 first-line generator (single-field deviations x 80 client configurations, wrappers, special streams, seeded random lines) through a scripted runner: runner.Kill count > 0 on error, then Kill returns promptly and the runner's socket directory is gone; (b) 18 failure causes (early exit, partial line, start timeout, garbage, too few fields, core version, app version, unknown network, unresolvable address, disallowed protocol \u2014 scripted and real \u2014, bad certificate, mux not advertised / false / unparsable, real incompatible version) x launch by Cmd and by a RunnerFunc wrapping a real process: pid dead within 2 s of Start returning, Kill prompt, directory removed; distinct case lines, all non-trivial (every case is a failing start)",
    "assumptions": ["process death is observed through /proc (a zombie counts as dead: it has exited and is being reaped by the wait goroutine)", "SIGKILL delivery and reaping are OS behaviour"],
    "timeout": {"quick": 900, "thorough": 3000},
    "level_text": "Lean theorems on two models: (i) the handshake model of C01: EVERY error return and every panic of the handshake phase \u2014 for all first lines, client configurations, resolver / translator / certificate-parser behaviours and all four arms of Start's select \u2014 has run the deferred runner.Kill, and with the good facts Start either succeeds with an address or fails having killed the process (no nil-error/nil-address outcome that would leave it running) (start_failure_kills, start_ok_or_killed); (ii) the Lifecycle model: after a failed first start the launched process is dead, a later Kill returns, force-kills through the runner without going through Client(), and removes the custom runner's socket directory, and retries launch nothing more (failed_start_process_dead, kill_after_failed_start, retry_after_failed_start). Facts of both models re-extracted each run; ~26 000 failing scripted handshakes and 36 real-process failed starts per run observe the kill, the pid's death within 2 s, Kill's promptness and the directory's removal.",
    "level_note": "Full strength on the models; pid liveness by enumeration of failure causes x launch methods on real processes.",
}
